"""Fills the generated blocks of DESIGN.md (fixed defects, known findings, seeded changes, coqchk line) from
known_findings.json, seeded/*/meta.json and evidence/coqchk.txt."""
import json
import re
from pathlib import Path

V = Path(__file__).resolve().parent.parent


def block(s, name, text):
    a, b = "<!-- BEGIN GENERATED:%s -->" % name, "<!-- END GENERATED:%s -->" % name
    i, j = s.index(a) + len(a), s.index(b)
    return s[:i] + "\n" + text.rstrip("\n") + "\n" + s[j:]


def main():
    k = json.load(open(V / "known_findings.json"))
    fixed = []
    for l in k["fixed"]:
        m = re.match(r"fixed: property=(\S+) (\S+) (.*)", l)
        fixed.append("| %s | `%s` | %s |" % (m.group(1), m.group(2), m.group(3).replace("|", "\\|")))
    t_fixed = "| found by | /repo commit | what failed on the tree before the repair |\n|---|---|---|\n" + "\n".join(fixed) + \
              "\n\n%d repairs." % len(fixed)
    finds = ["* **%s `%s`** — %s" % (f["property"], f["sig"], f["what"]) for f in k["findings"]]
    sweep = {}
    sp = V / "seeded" / "SWEEP.txt"
    if sp.exists():
        for l in sp.read_text().splitlines():
            if ":" in l:
                sweep[l.split(":", 1)[0].strip()] = l.split(":", 1)[1].strip()
    rows = []
    for d in sorted((V / "seeded").iterdir()):
        mp = d / "meta.json"
        if not mp.exists():
            continue
        m = json.load(open(mp))
        checks = m.get("checks") or {}
        det = "; ".join("%s: %s" % (c, v) for c, v in sorted(checks.items())) if isinstance(checks, dict) else str(checks)
        rows.append("| %s | %s | %s | %s | %s |" % (d.name, ", ".join(x.replace("src/vsc/", "") for x in m.get("files", [])),
                                                   (m.get("summary") or "").replace("|", "\\|").replace("\n", " ")[:330], det.replace("|", "\\|"),
                                                   sweep.get(d.name, "-").replace("|", "\\|")))
    t_seed = "| id | files | change (abridged) | result of my checks | final sweep against /repo HEAD (check[rc, violations, known]) |\n|---|---|---|---|---|\n" + "\n".join(rows)
    # per-property status from the manifest and the evidence of the last runs
    MODELS = {"C01": "Expr, Lower, Typing, BV, Solve, Randset", "C02": "Solve, Expr, Lower, Randset", "C03": "World, Solve, Flags", "C04": "Unroll (+Expr)",
              "C05": "Soft, World", "C06": "Dyn", "C07": "World", "C08": "World", "C09": "Rnd", "C10": "Cov/Rangelist, Partition, Coverpoint",
              "C11": "Cov/Cross", "C12": "Cov/Covergroup", "C13": "Cov/Save", "C14": "Swizzle (+oracle)", "C15": "Select, Dist",
              "C16": "Stacks, Flags", "C17": "World", "C18": "Val/Access (generated), Enum", "C19": "Cov/Wildcard", "C20": "Order, OrderTotal"}
    man = json.load(open(V / "MANIFEST.json"))
    rows2 = []
    for c in man.get("checks", man.get("properties", [])):
        pid = c.get("property_id") or c.get("id")
        evp = V / "evidence" / (pid + ".json")
        ev = json.load(open(evp)) if evp.exists() else {}
        cov = ev.get("coverage", {})
        txt = json.dumps(c)
        status = "PARTIAL" if "PARTIAL" in txt else "claimed"
        kn = [f["sig"] for f in k["findings"] if f["property"] == pid]
        rows2.append("| %s | %s | %s | %s/%s | %s (%s tier, %.0f s) | %s |" % (
            pid, MODELS.get(pid, ""), status, cov.get("discharged", "?"), cov.get("obligations", "?"), cov.get("evaluations", "?"),
            ev.get("tier", "?"), ev.get("wall_s", 0), ", ".join(kn) or "-"))
    t_status = ("| id | model files (coq/Rand, coq/Cov, coq/Val) | status | theorems closed / stated in Prop file | evaluations in the last run | known findings |\n"
                "|---|---|---|---|---|---|\n" + "\n".join(rows2))
    cq = V / "evidence" / "coqchk.txt"
    t_cq = ("* `coqchk -o` (independent checker over every compiled file of the development): " + cq.read_text().strip()) if cq.exists() \
        else "* `coqchk -o`: not run yet."
    p = V / "DESIGN.md"
    s = p.read_text()
    s = block(s, "fixed", t_fixed)
    s = block(s, "findings", "\n".join(finds))
    s = block(s, "seeded", t_seed)
    s = block(s, "coqchk", t_cq)
    s = block(s, "status", t_status)
    p.write_text(s)


main()
