"""Fills the generated blocks of DESIGN.md (fixed defects, known findings, seeded changes, coqchk line) from
known_findings.json, seeded/*/meta.json and evidence/coqchk.txt."""
import json
import re
from pathlib import Path

V = Path(__file__).resolve().parent.parent


def block(s, name, text):
    a, b = "<!-- BEGIN GENERATED:%s -->" % name, "<!-- END GENERATED:%s -->" % name
    i, j = s.index(a) + len(a), s.index(b)
    return s[:i] + "\n" + text.rstrip("\n") + "\n" + s[j:]


def main():
    k = json.load(open(V / "known_findings.json"))
    fixed = []
    for l in k["fixed"]:
        m = re.match(r"fixed: property=(\S+) (\S+) (.*)", l)
        fixed.append("| %s | `%s` | %s |" % (m.group(1), m.group(2), m.group(3).replace("|", "\\|")))
    t_fixed = "| found by | /repo commit | what failed on the tree before the repair |\n|---|---|---|\n" + "\n".join(fixed) + \
              "\n\n%d repairs." % len(fixed)
    finds = ["* **%s `%s`** — %s" % (f["property"], f["sig"], f["what"]) for f in k["findings"]]
    rows = []
    for d in sorted((V / "seeded").iterdir()):
        mp = d / "meta.json"
        if not mp.exists():
            continue
        m = json.load(open(mp))
        checks = m.get("checks") or {}
        det = "; ".join("%s: %s" % (c, v) for c, v in sorted(checks.items())) if isinstance(checks, dict) else str(checks)
        rows.append("| %s | %s | %s | %s |" % (d.name, ", ".join(x.replace("src/vsc/", "") for x in m.get("files", [])),
                                              (m.get("summary") or "").replace("|", "\\|").replace("\n", " ")[:330], det.replace("|", "\\|")))
    t_seed = "| id | files | change (abridged) | result of my checks |\n|---|---|---|---|\n" + "\n".join(rows)
    cq = V / "evidence" / "coqchk.txt"
    t_cq = ("* `coqchk -o` (independent checker over every compiled file of the development): " + cq.read_text().strip()) if cq.exists() \
        else "* `coqchk -o`: not run yet."
    p = V / "DESIGN.md"
    s = p.read_text()
    s = block(s, "fixed", t_fixed)
    s = block(s, "findings", "\n".join(finds))
    s = block(s, "seeded", t_seed)
    s = block(s, "coqchk", t_cq)
    p.write_text(s)


main()
