"""C06 scenarios: inline constraint sets that change from call to call, dynamic constraint blocks referenced as statements
and inside Boolean combinations, through the root object and through sub-objects, with several live instances of every
class (two sub-objects of one class inside a root, and several roots created before and after the one randomized).

Consecutive calls are made to conflict on purpose (complementary dynamic blocks on a pivot field, complementary inline
relations): a constraint that leaks from one call into the next, a dynamic block applied although not referenced, or a
reference resolved to another instance then shows as values violating the call's own constraints or as a SolveFailure on a
satisfiable call."""
import solvegen
from solvegen import type_range, leaves_of, all_fields


class DynGen(solvegen.Gen):
    def __init__(self, rnd, ninst=2, with_list=False):
        super().__init__(rnd, small=True, tree=True, hist=False, ninst=ninst)
        self.with_list = with_list

    def gen_class(self, depth):
        rnd = self.rnd
        name = "K%d" % len(self.classes)
        c = {"name": name, "fields": [], "blocks": [], "pre_randomize": [], "post_randomize": []}
        self.classes.append(c)
        c["fields"] = self.scalar_fields(rnd.choice([1, 2, 2, 3]) if depth == 0 else (rnd.choice([1, 2, 2]) if not self.with_list else 1))
        if depth == 1 and self.with_list:
            for f in c["fields"]:
                if f["kind"] == "scalar":
                    f["w"] = 2
        if not any(f["kind"] == "scalar" for f in c["fields"]):
            # every class needs a pivot field for its dynamic blocks
            c["fields"].append({"name": "f%d" % self.nfield, "kind": "scalar", "w": 3, "sg": False, "rand": True})
            self.nfield += 1
            self.budget -= 3
        if depth == 0:
            # one sub-class, instantiated once or twice: two instances of it live inside every root
            sub = self.gen_class(1)
            for k in range(rnd.choice([1, 2, 2]) if not self.with_list else 1):
                c["fields"].append({"name": "s%d" % self.nfield, "kind": "obj", "cls": sub["name"], "rand": rnd.random() < 0.93})
                self.nfield += 1
            if self.with_list:
                # ... and 2-3 more of them in a list, with a non-random selector field used as an index
                self.lname = "l%d" % self.nfield
                self.ln = rnd.randint(2, 3)
                c["fields"].append({"name": self.lname, "kind": "olist", "cls": sub["name"], "n": self.ln, "rand": True})
                c["fields"].append({"name": "sel", "kind": "scalar", "w": 2, "sg": False, "rand": False, "init": rnd.randrange(self.ln)})
                self.nfield += 1
        return c

    def scalar_fields(self, n):
        fs = super().scalar_fields(n)
        for f in fs:
            if f["kind"] == "scalar" and f["w"] < 2:
                f["w"] = 2
        return fs

    def easy_rel(self, fs=None):
        """a relation most values of the field satisfy (keeps the calls mostly satisfiable)"""
        rnd = self.rnd
        cand = [(p, f) for p, f in (fs or self.fs) if f["kind"] == "scalar"]
        if not cand or rnd.random() < 0.2:
            return self.relation(1)
        p, f = rnd.choice(cand)
        lo, hi = type_range(f["w"], f["sg"])
        mid = (lo + hi) // 2
        op = rnd.choice(["Ne", "Le", "Ge", "Lt", "Gt"])
        v = {"Ne": rnd.randint(lo, hi), "Le": rnd.randint(mid, hi), "Lt": rnd.randint(mid + 1, hi),
             "Ge": rnd.randint(lo, mid), "Gt": rnd.randint(lo, mid)}[op]
        return ["bin", op, ["f", list(p)], ["lit", v]]

    def pivot_blocks(self, c):
        """two complementary dynamic blocks on a pivot field, plus a free one"""
        rnd = self.rnd
        sc = {"classes": self.classes, "enums": self.enums}
        own = [(list(p), f) for p, f in leaves_of(sc, c["name"]) if len(p) == 1 and f["kind"] == "scalar"]
        if not own:
            return []
        rand_own = [x for x in own if x[1]["rand"]] or own
        path, f = rnd.choice(rand_own)
        lo, hi = type_range(f["w"], f["sg"])
        m = rnd.randint(lo + 1, hi)
        blocks = [{"name": "d0", "dynamic": True, "stmts": [["expr", ["bin", "Lt", ["f", path], ["lit", m]]]]},
                  {"name": "d1", "dynamic": True, "stmts": [["expr", ["bin", "Ge", ["f", path], ["lit", m]]]]}]
        self.fs = own
        others = [x for x in own if x[0] != path]
        free = lambda: self.easy_rel(others) if others else ["bin", "Ne", ["f", path], ["lit", rnd.randint(lo, hi)]]
        # blocks of 1-4 statements (a reference used as a Boolean term is the conjunction of ALL of them, odd counts included)
        extra = [["expr", free()] for _ in range(rnd.choice([1, 2, 3, 3, 4]))]
        if rnd.random() < 0.6:
            b = blocks[rnd.randrange(2)]
            for _ in range(rnd.choice([1, 2, 2])):
                b["stmts"].append(["expr", free()])
        blocks.append({"name": "d2", "dynamic": True, "stmts": extra})
        if rnd.random() < 0.5:
            # a dynamic block that refers to another one which comes LATER in name order (a0 -> zz); zz is referenced nowhere else
            blocks.append({"name": "zz", "dynamic": True, "stmts": [["expr", free()] for _ in range(rnd.choice([1, 2, 3]))]})
            blocks.append({"name": "a0", "dynamic": True, "stmts": [["expr", ["dynref", [], "zz"]]] + ([["expr", free()]] if rnd.random() < 0.4 else [])})
        return blocks

    def fill_blocks(self, softs):
        rnd = self.rnd
        sc = {"classes": self.classes, "enums": self.enums}
        for c in self.classes:
            self.fs = [(list(p), f) for p, f in leaves_of(sc, c["name"])]
            if not self.fs:
                continue
            c["blocks"] = [{"name": "c0", "stmts": [(["expr", self.easy_rel()] if rnd.random() < 0.88 else self.stmt(1, False))
                                                    for _ in range(rnd.choice([0, 0, 1, 1, 2]))]}]
            c["blocks"] += self.pivot_blocks(c)
            if self.with_list and c is self.classes[0] and rnd.random() < 0.7:
                # an always-on block of the root that refers to the dynamic block of the element the selector field points at
                c["blocks"].append({"name": "a_idx", "stmts": [["dynidx", [self.lname], ["sel"], rnd.choice(["d0", "d1", "d2"])]]})
            if rnd.random() < 0.3:
                # an always-on block that refers to a dynamic block of its own object (named to sort before and after "d*")
                # (d3 is never referenced inline: the statement objects of one block reach a rand set only once, and whether this
                # always-on reference is active depends on the object's flags)
                self.fs = [x for x in self.fs if len(x[0]) == 1]
                c["blocks"].append({"name": "d3", "dynamic": True, "stmts": [["expr", self.easy_rel()]]})
                ref = ["dyn", [], "d3"] if rnd.random() < 0.6 else ["expr", ["bin", "Or", ["dynref", [], "d0"], ["dynref", [], "d3"]]]
                c["blocks"].append({"name": rnd.choice(["a_ref", "z_ref"]), "stmts": [ref]})

    def dyn_targets(self, sc, root):
        """(path, class name) of every object reachable from the root"""
        out = [([], root)]
        for p in self.obj_paths(sc, root):
            out.append((list(p), self.class_at(sc, root, p)))
        for f in all_fields(sc, root):
            if f["kind"] == "olist":
                out += [([f["name"], i], f["cls"]) for i in range(f["n"])]
        return out

    def bool_tree(self, targets, par, depth=2):
        """mostly satisfiable together with `d<par>` of every object: d<par>, d2, ~d<1-par> below | and &"""
        rnd = self.rnd
        r = rnd.random()
        if depth > 0 and r < 0.45:
            return ["bin", rnd.choice(["Or", "Or", "And"]), self.bool_tree(targets, par, depth - 1), self.bool_tree(targets, par, depth - 1)]
        p, cn = rnd.choice(targets)
        if r < 0.6:
            return ["not", ["dynref", p, "d%d" % (1 - par)]]
        if r < 0.66:
            return ["dynref", p, "d%d" % (1 - par)]
        return ["dynref", p, rnd.choice(["d%d" % par, "d%d" % par, "d2"])]

    def inline_set(self, sc, root, k):
        rnd = self.rnd
        targets = self.dyn_targets(sc, root)
        out = []
        for _ in range(rnd.randint(1, 3)):
            r = rnd.random()
            p, cn = rnd.choice(targets)
            if r < 0.4:
                # alternate between the complementary blocks from call to call
                out.append(["dyn", p, "d%d" % (k % 2)])
            elif r < 0.5:
                has_a0 = any(b["name"] == "a0" for c in sc["classes"] if c["name"] == cn for b in c["blocks"])
                out.append(["dyn", p, "a0" if has_a0 and rnd.random() < 0.6 else "d2"])
            elif r < 0.75:
                t = self.bool_tree(targets, k % 2)
                if t[0] == "dynref":
                    out.append(["dyn", t[1], t[2]])
                else:
                    out.append(["expr", t])
            else:
                out.append(["expr", self.easy_rel()] if rnd.random() < 0.6 else self.stmt(1, False))
        return out

    def scenario(self, ncalls=3, softs=False):
        rnd = self.rnd
        root = self.gen_class(0)
        sc = {"enums": self.enums, "classes": list(reversed(self.classes))}
        leaves = leaves_of(sc, root["name"])
        if not any(f["rand"] for _, f in leaves):
            leaves[0][1]["rand"] = True
        self.fill_blocks(softs)
        names = ["o%d" % i for i in range(self.ninst)]
        ops = [{"op": "new", "var": names[0], "cls": root["name"]}]
        created = 1
        if rnd.random() < 0.6 and created < self.ninst:
            ops.append({"op": "new", "var": names[created], "cls": root["name"]})
            created += 1
        for k in range(ncalls * 2):
            if created < self.ninst and rnd.random() < 0.4:
                ops.append({"op": "new", "var": names[created], "cls": root["name"]})
                created += 1
            v = rnd.choice(names[:created]) if rnd.random() < 0.5 else names[0]
            if self.with_list and rnd.random() < 0.6:
                ops.append({"op": "set", "var": v, "path": ["sel"], "value": rnd.randrange(self.ln)})
            self.fs = [(list(p), f) for p, f in leaves]
            inline = self.inline_set(sc, root["name"], k) if rnd.random() < 0.8 else None
            ops.append({"op": "randomize", "var": v, "inline": inline})
        sc["ops"] = ops
        sc["root_cls"] = root["name"]
        return sc
