"""C04 scenarios: scalar lists (fixed and random size) with foreach / sum / unique / size / membership constraints,
and their conversion to the flat Coq program (list forms are desugared over the leaves the call actually had)."""
import random

import solvegen
from core import cz, clist, cbool, copt, cpair
from solvegen import type_range, all_fields, all_blocks


class ListLits(solvegen.Lits):
    """leaves are taken from the observation (a list contributes its elements and its size leaf)"""

    def __init__(self, sc, root_cls, leaf_paths, state=None):
        self.sc = sc
        self.root_cls = root_cls
        self.enums = sc.get("enums", {})
        self.state = state or {}
        self.prefix = ()
        self.paths = [tuple(p) for p in leaf_paths]
        self.ids = {p: i for i, p in enumerate(self.paths)}
        self.fields = [self.decl_of(p) for p in self.paths]
        self.leaves = list(zip(self.paths, self.fields))
        self.cur = None        # (list path, index) while instantiating a foreach body

    def decl_of(self, p):
        cname = self.root_cls
        i = 0
        while i < len(p):
            f = next(f for f in all_fields(self.sc, cname) if f["name"] == p[i])
            if f["kind"] == "obj":
                cname = f["cls"]
                i += 1
            elif f["kind"] == "list":
                if p[i + 1] == "size":
                    return {"name": "size", "kind": "scalar", "w": 32, "sg": False, "rand": bool(f.get("randsz"))}
                return dict(f["elem"], rand=bool(f.get("rand")))
            else:
                return f
        raise Exception("bad leaf path %r" % (p,))

    def list_len(self, path):
        path = tuple(path)
        return sum(1 for p in self.paths if p[:len(path)] == path and len(p) == len(path) + 1 and isinstance(p[-1], int))

    def elem_ids(self, path):
        """leaf ids of the elements the list has, in index order (Coq list literal)"""
        path = self.prefix + tuple(path)
        return clist(["%d%%nat" % self.ids[path + (i,)] for i in range(self.list_len(path))])

    def fid(self, e):
        assert e[0] == "f", e
        p = self.prefix + tuple(x[1] if isinstance(x, list) else x for x in e[1])
        return self.ids[p]

    # List forms are written in the vocabulary of Rand/Unroll.v (sum_expr, in_list, unique_of, foreach_inst, elem_at,
    # idx_lit, idx_if / idx_cond): the expansion itself is done by those definitions inside Coq.
    def expr(self, e):
        k = e[0]
        if k == "it":
            return "(EField %s)" % self.cur[2]
        if k == "idxvar":
            return "(idx_lit %s)" % self.cur[1]
        if k == "sub":
            return "(elem_at %s %s %s)" % (self.elem_ids(e[1]), self.cur[1], cz(e[2]))
        if k == "size":
            return self.expr(["f", list(e[1]) + ["size"]])
        if k == "sum":
            d = next(f for f in all_fields(self.sc, self.cls_of_prefix()) if f["name"] == e[1][-1])["elem"]
            return "(sum_expr %s %s %s)" % (cz(d["w"]), cbool(d["sg"]), self.elem_ids(e[1]))
        if k == "product":
            d = next(f for f in all_fields(self.sc, self.cls_of_prefix()) if f["name"] == e[1][-1])["elem"]
            return "(product_expr %s %s)" % (cbool(d["sg"]), self.elem_ids(e[1]))
        if k == "inlist":
            return "(in_list %s %s)" % (self.expr(e[1]), self.elem_ids(e[2]))
        return super().expr(e)

    def cls_of_prefix(self):
        cname = self.root_cls
        for n in self.prefix:
            cname = next(f for f in all_fields(self.sc, cname) if f["name"] == n)["cls"]
        return cname

    def stmts(self, l, prefix=None):
        if prefix is not None:
            old, self.prefix = self.prefix, tuple(prefix)
            try:
                return self.flat(l)
            finally:
                self.prefix = old
        return self.flat(l)

    def flat(self, l):
        """a Coq expression of type list stmt"""
        parts = []
        run = []

        def flush():
            if run:
                parts.append(clist(run))
                del run[:]
        for s in l:
            if s[0] == "solve_order":
                continue
            if s[0] == "foreach":
                flush()
                depth = 0 if self.cur is None else self.cur[3] + 1
                iv, tv = "i%d" % depth, "it%d" % depth
                old, self.cur = self.cur, (s[1], iv, tv, depth)
                try:
                    parts.append("(foreach_inst %s (fun %s %s : nat => %s))" % (self.elem_ids(s[1]), iv, tv, self.flat(s[2])))
                finally:
                    self.cur = old
            elif s[0] == "if" and self.cur is not None and self.index_only(s[1]):
                # ArrayConstraintBuilder folds a condition that is constant for this index: only the taken branch is expanded,
                # without the if wrapper
                flush()
                c = s[1]
                parts.append("(idx_if (idx_cond I%s %s %s) %s %s)" % (c[1], self.cur[1], cz(c[3][1]), self.flat(s[2]),
                                                                     self.flat(s[4]) if s[4] is not None else "[]"))
            elif s[0] == "dyn":
                # a reference to a dynamic block as a statement of its own: the block's statements in place (Dyn.dyn_stmt),
                # foreach / aggregates expanded over the list as it is at this call
                flush()
                cname = self.cls_of_prefix()
                b = next(b for b in all_blocks(self.sc, cname) if b["name"] == s[2] and b.get("dynamic"))
                parts.append(self.flat(b["stmts"]))
            elif s[0] == "unique_vec":
                flush()
                parts.append("(unique_vec_of %s)" % clist([self.elem_ids(x) for x in s[1]]))
            elif s[0] == "unique":
                groups = []
                for x in s[1]:
                    if x[0] == "listref":
                        groups.append(self.elem_ids(x[1]))
                    else:
                        groups.append("[%d%%nat]" % self.fid(x))
                run.append("(unique_of %s)" % clist(groups))
            else:
                run.append(self.stmt(s))
        flush()
        if not parts:
            return "[]"
        return parts[0] if len(parts) == 1 else "(" + " ++ ".join(parts) + ")"

    def index_only(self, e):
        return e[0] == "bin" and e[2][0] == "idxvar" and e[3][0] == "lit" and e[1] in ("Gt", "Lt", "Ge", "Le", "Eq", "Ne")

    def world(self, cname=None, prefix=(), decl_rand=True, counter=None):
        cname = cname or self.root_cls
        counter = counter if counter is not None else [0]
        oid = counter[0]
        counter[0] += 1
        kids = []
        for f in all_fields(self.sc, cname):
            p = prefix + (f["name"],)
            if f["kind"] in ("scalar", "enum"):
                mode = self.state.get("rand_mode", {}).get(p, bool(f.get("rand")))
                kids.append("(WLeaf %s %s %d%%nat)" % (cbool(bool(f.get("rand"))), cbool(mode), self.ids[p]))
            elif f["kind"] == "obj":
                kids.append(self.world(f["cls"], p, bool(f.get("rand")), counter))
            elif f["kind"] == "list":
                # FieldArrayModel is a composite: elements are random iff the list is, the size iff it is random-size
                lo = counter[0]
                counter[0] += 1
                lk = ["(WLeaf %s %s %d%%nat)" % (cbool(bool(f.get("rand"))), cbool(bool(f.get("rand"))), self.ids[p + (i,)])
                      for i in range(self.list_len(p))]
                szr = bool(f.get("randsz")) and not getattr(self, "size_const", False)     # size_const: "what if the size were s"
                lk.append("(WLeaf %s %s %d%%nat)" % (cbool(szr), cbool(szr), self.ids[p + ("size",)]))
                kids.append("(WObj %s %s %d%%nat [] %s)" % (cbool(bool(f.get("rand"))), cbool(bool(f.get("rand"))), 1000 + lo, clist(lk)))
        blocks = []
        for b in all_blocks(self.sc, cname):
            if b.get("dynamic"):
                continue
            on = self.state.get("cmode", {}).get((prefix, b["name"]), True)
            blocks.append("(%s, %s)" % (cbool(on), self.stmts(b["stmts"], prefix)))
        return "(WObj %s %s %d%%nat %s %s)" % (cbool(decl_rand), cbool(decl_rand), oid, clist(blocks), clist(kids))


class ListGen(object):
    def __init__(self, rnd, randsz=False, softs=False, cmodes=False, dyn=False):
        self.rnd = rnd
        self.randsz = randsz
        self.dyn = dyn            # the foreach statements live in a dynamic block referenced from inline blocks (C06)
        self.cmodes = cmodes      # constraint_mode histories on the block that holds the foreach / aggregate statements (C07)
        self.softs = softs        # soft constraints on scalars and on constant-index elements (C05)

    def exhaust_scenario(self):
        """unique over a random-size list (and a scalar) whose members use up every value of the element type, the size pinned
        from below while its domain reaches further up: the elements the library creates beyond the solved size must not count"""
        rnd = self.rnd
        w = rnd.choice([1, 2, 2])
        with_scalar = rnd.random() < 0.6
        n = (1 << w) - (1 if with_scalar else 0) - rnd.choice([0, 0, 0, 1])
        n = max(1, n)
        fields = [{"name": "f0", "kind": "scalar", "w": w, "sg": False, "rand": True},
                  {"name": "l0", "kind": "list", "elem": {"kind": "scalar", "w": w, "sg": False}, "rand": True, "randsz": True, "size": 0}]
        self.scalars, self.lists, self.indexed, self.dyn_block = [fields[0]], [fields[1]], set(), None
        items = [["listref", ["l0"]]] + ([["f", ["f0"]]] if with_scalar else [])
        if rnd.random() < 0.5:
            items.reverse()
        stmts = [["expr", ["in", ["size", ["l0"]], [[["lit", n], ["lit", n + rnd.randint(1, 2)]]]]], ["unique", items]]
        if rnd.random() < 0.4:
            stmts.append(["expr", ["bin", "Eq", ["size", ["l0"]], ["lit", n]]])
        rnd.shuffle(stmts)
        cls = {"name": "K0", "fields": fields, "blocks": [{"name": "c0", "stmts": stmts}], "pre_randomize": [], "post_randomize": []}
        ops = [{"op": "new", "var": "o", "cls": "K0"}]
        for _ in range(rnd.randint(0, 2)):
            ops.append({"op": "l_append", "var": "o", "path": ["l0"], "value": rnd.randint(0, (1 << w) - 1)})
        ops += [{"op": "randomize", "var": "o", "inline": None}, {"op": "randomize", "var": "o", "inline": None}]
        return {"enums": {}, "classes": [cls], "root_cls": "K0", "ops": ops}

    def scenario(self):
        rnd = self.rnd
        if self.randsz and rnd.random() < 0.3:
            return self.exhaust_scenario()
        fields = []
        nsc = rnd.randint(1, 2)
        budget = 11
        for i in range(nsc):
            w = rnd.choice([2, 3, 3, 4])
            is_rand = rnd.random() < 0.7
            f = {"name": "f%d" % i, "kind": "scalar", "w": w, "sg": rnd.random() < 0.3, "rand": is_rand}
            if is_rand:
                budget -= w
            else:
                lo, hi = type_range(w, f["sg"])
                f["init"] = rnd.randint(lo, hi)
            fields.append(f)
        lists = []
        for i in range(rnd.choice([1, 1, 2])):
            w = rnd.choice([2, 2, 3])
            sg = rnd.random() < 0.25
            n = rnd.choice([0, 1, 2, 2, 3, 3])
            lrand = rnd.random() < 0.8
            if lrand and n * w > budget:
                n = max(0, budget // w)
            if lrand:
                budget -= n * w
            lf = {"name": "l%d" % i, "kind": "list", "elem": {"kind": "scalar", "w": w, "sg": sg}, "rand": lrand, "randsz": False, "size": n}
            if self.randsz and i == 0:
                lf.update(rand=True, randsz=True, size=0)
            lists.append(lf)
            fields.append(lf)
        self.scalars = [f for f in fields if f["kind"] == "scalar"]
        self.lists = lists
        # a witness (integer reading, no wrap-around) keeps most scenarios satisfiable: a statement is kept only if the witness
        # satisfies it; the unsatisfiable cases that remain come from later appends / clears, wrap-around and a 6% escape
        self.wit = {f["name"]: (f["init"] if not f["rand"] else rnd.randint(*type_range(f["w"], f["sg"]))) for f in self.scalars}
        for lf in lists:
            n = lf["size"] if not lf["randsz"] else rnd.randint(0, 2)
            self.wit[lf["name"]] = [rnd.randint(*type_range(lf["elem"]["w"], lf["elem"]["sg"])) for _ in range(n)]

        # pre_randomize assigns a non-random scalar (the solver, the size bounds of random-size lists included, must see it)
        pre = []
        for f in self.scalars:
            if not f["rand"] and rnd.random() < 0.5:
                v = rnd.randint(*type_range(f["w"], f["sg"]))
                pre.append(["set", [f["name"]], v])
                self.wit[f["name"]] = v
        self.pre = pre

        def keep(mk):
            for _ in range(8):
                st = mk()
                if self.wit_holds(st) or rnd.random() < 0.06:
                    return st
            return st
        stmts = []
        for lf in lists:
            if lf["randsz"]:
                # the library refuses a random-size list whose size it cannot bound ("Max size for array ... exceeds")
                n = len(self.wit[lf["name"]])
                lo = rnd.randint(max(0, n - 2), n)
                hooked = [a[1][0] for a in self.pre]
                if hooked and rnd.random() < 0.7:
                    # the size also bounded through a constant expression over a field pre_randomize assigns; the field is set
                    # back to a small value between calls, so the bound the callback establishes is needed in every call
                    fn = rnd.choice(hooked)
                    stmts.append(["expr", ["in", ["size", [lf["name"]]], [[["lit", 0], ["lit", 4]]]]])
                    stmts.append(["expr", ["bin", "Le", ["size", [lf["name"]]], ["bin", "Add", ["f", [fn]], ["lit", rnd.randint(0, 1)]]]])
                    self.reset_field = fn
                else:
                    stmts.append(["expr", ["in", ["size", [lf["name"]]], [[["lit", lo], ["lit", max(n, lo + rnd.randint(0, 2))]]]]])
            for _ in range(rnd.randint(1, 2)):
                stmts.append(keep(lambda: self.list_stmt(lf)))
        for _ in range(rnd.randint(0, 2)):
            stmts.append(keep(self.scalar_stmt))
        # unique_vec over lists of one length (fixed-size, at least one element)
        same = [x for x in lists if not x["randsz"] and x["size"] >= 1]
        if len(same) >= 2 and same[0]["size"] == same[1]["size"] and rnd.random() < 0.7:
            self.vec_lists = {same[0]["name"], same[1]["name"]}
            stmts.append(keep(lambda: ["unique_vec", [[same[0]["name"]], [same[1]["name"]]]]))
        # elements named by a constant index outside any foreach (fixed-size lists only; such a list is never cleared below):
        # an element against a literal, a scalar or another element, in both operand orders
        self.indexed = set()
        fixed = [lf for lf in lists if not lf["randsz"] and lf["size"] >= 1]
        if fixed and rnd.random() < (0.9 if self.softs else 0.6):
            for _ in range(rnd.randint(1, 3)):
                lf = rnd.choice(fixed)
                self.indexed.add(lf["name"])
                stmts.append(keep(lambda: self.elem_stmt(lf, fixed)))
            rnd.shuffle(stmts)
        if self.softs:
            # soft constraints (often conflicting with the hard ones or with each other) on scalars and on indexed elements
            for _ in range(rnd.randint(1, 3)):
                if fixed and rnd.random() < 0.4:
                    lf = rnd.choice(fixed)
                    self.indexed.add(lf["name"])
                    target, (w, sg) = ["f", [lf["name"], rnd.randrange(lf["size"])]], (lf["elem"]["w"], lf["elem"]["sg"])
                else:
                    f = rnd.choice(self.scalars)
                    target, (w, sg) = ["f", [f["name"]]], (f["w"], f["sg"])
                stmts.insert(rnd.randint(0, len(stmts)), ["soft", ["bin", rnd.choice(["Eq", "Eq", "Lt", "Gt", "Ne"]), target, self.lit(w, sg)]])
        blocks = [{"name": "c0", "stmts": stmts}]
        toggled = None
        if self.cmodes and not any(x["randsz"] for x in lists):
            # the foreach / aggregate statements in a block of their own that is switched off and on between the calls
            mov = [st for st in stmts if st[0] == "foreach" or (st[0] == "expr" and ("'sum'" in repr(st) or "'product'" in repr(st)))]
            if mov:
                blocks = [{"name": "c0", "stmts": [st for st in stmts if st not in mov]}, {"name": "c1", "stmts": mov}]
                toggled = "c1"
        self.dyn_block = None
        if self.dyn and not any(x["randsz"] for x in lists):
            # the foreach statements in a dynamic block that calls refer to from their inline block
            mov = [st for st in stmts if st[0] == "foreach"]
            if mov:
                blocks = [{"name": "c0", "stmts": [st for st in stmts if st not in mov]}, {"name": "dz", "dynamic": True, "stmts": mov}]
                self.dyn_block = "dz"
        cls = {"name": "K0", "fields": fields, "blocks": blocks, "pre_randomize": self.pre, "post_randomize": []}
        ops = [{"op": "new", "var": "o", "cls": "K0"}]
        cur = {lf["name"]: lf["size"] for lf in lists}          # current lengths (the declaration keeps the initial size)
        for lf in lists:
            if not lf["rand"] and lf["size"] > 0:
                for i in range(lf["size"]):
                    ops.append({"op": "l_set", "var": "o", "path": [lf["name"]], "index": i, "value": self.wit[lf["name"]][i]})
        # a list used through sum / product that is emptied after a call, while expressions cached for it may still exist
        vec = getattr(self, "vec_lists", set())          # lists under unique_vec keep one length (else the library refuses the call)
        aggregated = [x for x in lists if not x["randsz"] and x["name"] not in self.indexed and x["name"] not in vec and
                      any(tag in repr(stmts) for tag in ("['sum', ['%s']]" % x["name"], "['product', ['%s']]" % x["name"]))]
        clear_at = rnd.choice([1, 2]) if aggregated and rnd.random() < 0.5 else None
        for rnd_no in range(4 if toggled else 3):
            if toggled:
                # off for the first rounds (the lists grow meanwhile), then on again
                if rnd_no == 0 and rnd.random() < 0.8:
                    ops.append({"op": "cmode", "var": "o", "path": [], "block": toggled, "on": False})
                elif rnd_no in (2, 3) and rnd.random() < 0.7:
                    ops.append({"op": "cmode", "var": "o", "path": [], "block": toggled, "on": rnd_no == 2 or rnd.random() < 0.5})
            if rnd_no == clear_at:
                x = rnd.choice(aggregated)
                ops.append({"op": "l_clear", "var": "o", "path": [x["name"]]})
                cur[x["name"]] = 0
            if getattr(self, "reset_field", None) and rnd.random() < 0.7:
                ops.append({"op": "set", "var": "o", "path": [self.reset_field], "value": rnd.choice([0, 0, 1])})
            lf = rnd.choice(lists)
            r = rnd.random()
            if lf["name"] in vec:
                # both vectors grow together
                if r < 0.25 and all(cur[n] < 3 for n in vec):
                    for n in sorted(vec):
                        d = next(x for x in lists if x["name"] == n)
                        ops.append({"op": "l_append", "var": "o", "path": [n], "value": rnd.randint(*type_range(d["elem"]["w"], d["elem"]["sg"]))})
                        cur[n] += 1
            elif r < (0.7 if toggled or self.dyn_block else 0.35) and not lf["randsz"] and cur[lf["name"]] < 4:
                lo, hi = type_range(lf["elem"]["w"], lf["elem"]["sg"])
                ops.append({"op": "l_append", "var": "o", "path": [lf["name"]], "value": rnd.randint(lo - 2, hi + 2)})
                cur[lf["name"]] += 1
            elif r < 0.42 and not lf["randsz"] and lf["name"] not in self.indexed:
                ops.append({"op": "l_clear", "var": "o", "path": [lf["name"]]})
                cur[lf["name"]] = 0
            elif r < 0.6 and lf["randsz"]:
                ops.append({"op": "l_append", "var": "o", "path": [lf["name"]], "value": rnd.randint(0, 3)})
            if rnd.random() < 0.1:
                ops.append({"op": "l_selfassign", "var": "o", "path": [rnd.choice(lists)["name"]]})
            normal_at = len(ops)
            ops.append({"op": "randomize", "var": "o", "inline": [["dyn", [], self.dyn_block]] if self.dyn_block and rnd.random() < 0.8 else None})
            # a free-standing call over one random scalar whose inline block refers to an element by constant index (often the
            # one appended last): the element is not passed, so it is a constant of the call and keeps its value
            rs = [f for f in self.scalars if f["rand"]]
            cand = [x for x in lists if not x["randsz"] and cur[x["name"]] > 0]
            if rs and cand and not any(x["randsz"] for x in lists) and rnd.random() < 0.4:
                f, x = rnd.choice(rs), rnd.choice(cand)
                k = cur[x["name"]] - 1 if rnd.random() < 0.6 else rnd.randrange(cur[x["name"]])
                self.indexed.add(x["name"])
                rel = ["bin", rnd.choice(["Lt", "Le", "Ne", "Gt", "Ge"]), ["f", [f["name"]]], ["f", [x["name"], k]]]
                if rnd.random() < 0.3:
                    rel = ["bin", rel[1], rel[3], rel[2]]
                # before or after this round's ordinary call (before: straight after an append / element assignment)
                ops.insert(normal_at if rnd.random() < 0.5 else len(ops),
                           {"op": "randomize", "var": "o", "free": [[f["name"]]], "inline": [["expr", rel]]})
        return {"enums": {}, "classes": [cls], "root_cls": "K0", "ops": ops}

    def wit_holds(self, st, i=None, lname=None):
        """does the witness satisfy the statement (integer reading)? unknown forms count as satisfied"""
        W = self.wit

        def ev(e):
            k = e[0]
            if k == "lit":
                return e[1]
            if k == "f":
                return W[e[1][0]][e[1][1]] if len(e[1]) == 2 else W[e[1][0]]
            if k == "it":
                return W[lname][i]
            if k == "idxvar":
                return i
            if k == "sub":
                j = i + e[2]
                return W[e[1][0]][j] if 0 <= j < len(W[e[1][0]]) else None
            if k == "size":
                return len(W[e[1][0]])
            if k == "sum":
                return sum(W[e[1][0]])
            if k == "product":
                r = 1 if W[e[1][0]] else 0
                for x in W[e[1][0]]:
                    r *= x
                return r
            if k == "inlist":
                return int(ev(e[1]) in W[e[2][0]])
            if k == "in":
                v = ev(e[1])
                return int(any((ev(r[0]) <= v <= ev(r[1])) if len(r) == 2 else v == ev(r[0]) for r in e[2]))
            if k == "bin":
                a, b = ev(e[2]), ev(e[3])
                if a is None or b is None:
                    return None
                return {"Lt": int(a < b), "Le": int(a <= b), "Gt": int(a > b), "Ge": int(a >= b), "Eq": int(a == b), "Ne": int(a != b),
                        "Add": a + b, "Sub": a - b}.get(e[1])
            return None
        try:
            if st[0] == "expr":
                v = ev(st[1])
                return v is None or v != 0
            if st[0] == "unique_vec":
                vs = [tuple(W[x[0]]) for x in st[1]]
                return len(set(vs)) == len(vs)
            if st[0] == "unique":
                vals = []
                for x in st[1]:
                    vals += W[x[1][0]] if x[0] == "listref" else [W[x[1][0]]]
                return len(set(vals)) == len(vals)
            if st[0] == "foreach":
                name = st[1][0]
                return all(self.wit_holds(b, j, name) for j in range(len(W[name])) for b in st[2])
            if st[0] == "if":
                c = ev(st[1])
                if c is None:
                    return True
                body = st[2] if c else (st[4] or [])
                return all(self.wit_holds(b, i, lname) for b in body)
        except Exception:
            return True
        return True

    def lit(self, w, sg):
        lo, hi = type_range(w, sg)
        return ["lit", self.rnd.choice([lo, hi, 0, 1, self.rnd.randint(lo, hi), self.rnd.randint(lo, hi)])]

    def scalar_stmt(self):
        rnd = self.rnd
        f = rnd.choice(self.scalars)
        lf = rnd.choice(self.lists)
        r = rnd.random()
        if r < 0.4:
            return ["expr", ["inlist", ["f", [f["name"]]], [lf["name"]]]]
        if r < 0.7:
            return ["expr", ["bin", rnd.choice(["Lt", "Le", "Eq", "Gt", "Ge", "Ge"]), ["f", [f["name"]]], ["size", [lf["name"]]]]]
        return ["expr", ["bin", rnd.choice(["Lt", "Ne", "Ge"]), ["f", [f["name"]]], self.lit(f["w"], f["sg"])]]

    def elem_stmt(self, lf, fixed):
        rnd = self.rnd
        w, sg = lf["elem"]["w"], lf["elem"]["sg"]
        el = ["f", [lf["name"], rnd.randrange(lf["size"])]]
        r = rnd.random()
        if r < 0.3:
            other = self.lit(w, sg)
        elif r < 0.6:
            other = ["f", [rnd.choice(self.scalars)["name"]]]
        else:
            l2 = rnd.choice(fixed)
            other = ["f", [l2["name"], rnd.randrange(l2["size"])]]
            self.indexed.add(l2["name"])
        op = rnd.choice(["Lt", "Le", "Ne", "Gt", "Ge", "Eq"])
        return ["expr", ["bin", op, el, other]] if rnd.random() < 0.5 else ["expr", ["bin", op, other, el]]

    def list_stmt(self, lf):
        rnd = self.rnd
        w, sg = lf["elem"]["w"], lf["elem"]["sg"]
        name = lf["name"]
        r = rnd.random()
        nonrand = [f for f in self.scalars if not f["rand"]]
        if lf["randsz"] and nonrand and r < 0.3:
            # the size bounded through a constant expression over a non-random field (which pre_randomize may assign)
            f = rnd.choice(nonrand)
            return ["expr", ["bin", "Le", ["size", [name]], ["bin", "Add", ["f", [f["name"]]], ["lit", rnd.randint(0, 2)]]]]
        if lf["randsz"] and r < 0.5:
            lo = rnd.randint(0, 2)
            return ["expr", ["in", ["size", [name]], [[["lit", lo], ["lit", lo + rnd.randint(0, 2)]]]]]
        if r < 0.40:
            body = []
            for _ in range(rnd.randint(1, 2)):
                q = rnd.random()
                if q < 0.30:
                    body.append(["expr", ["bin", rnd.choice(["Lt", "Le", "Ne", "Gt"]), ["it"], self.lit(w, sg)]])
                elif q < 0.45:
                    body.append(["expr", ["bin", rnd.choice(["Eq", "Ne", "Ge"]), ["sub", [name], 0], ["bin", "Add", ["idxvar"], ["lit", rnd.randint(0, 2)]]]])
                elif q < 0.52:
                    # neighbours, guarded by the index (the condition is folded during expansion)
                    body.append(["if", ["bin", "Gt", ["idxvar"], ["lit", 0]],
                                 [["expr", ["bin", rnd.choice(["Le", "Lt", "Ne"]), ["sub", [name], -1], ["it"]]]], [], None])
                elif q < 0.8:
                    # a condition on the index alone, at and around the boundaries, with and without an else branch
                    cond = ["bin", rnd.choice(["Le", "Le", "Le", "Ge", "Ge", "Ge", "Lt", "Gt", "Eq", "Ne"]), ["idxvar"], ["lit", rnd.randint(0, 2)]]
                    then = [["expr", ["bin", rnd.choice(["Lt", "Le", "Ne", "Gt"]), ["it"], self.lit(w, sg)]]]
                    if rnd.random() < 0.5:
                        # the else branch demands the opposite of the then branch: taking the wrong one at the boundary index shows
                        k = then[0][1]
                        els = [["expr", ["bin", {"Lt": "Ge", "Le": "Gt", "Ne": "Eq", "Gt": "Le"}[k[1]], ["it"], k[3]]]]
                    else:
                        els = [["expr", ["bin", rnd.choice(["Lt", "Ge", "Ne", "Eq"]), ["it"], self.lit(w, sg)]]] if rnd.random() < 0.6 else None
                    body.append(["if", cond, then, [], els])
                else:
                    f = rnd.choice(self.scalars)
                    body.append(["expr", ["bin", rnd.choice(["Le", "Ne", "Lt"]), ["it"], ["f", [f["name"]]]]])
            return ["foreach", [name], body]
        if r < 0.50:
            return ["expr", ["bin", rnd.choice(["Eq", "Le", "Gt", "Lt"]), ["sum", [name]], ["lit", rnd.randint(0, 3 * (1 << w))]]]
        if r < 0.54 and lf["size"] <= 3 and not lf["randsz"]:
            # (not for random-size lists: the library fixes "the product of no elements" - 0 - by the length the list has when
            # the expression is built, 1 when it shrinks to empty during the solve; the property does not say which)
            # the product (0 for an empty list), against a literal near a feasible value
            return ["expr", ["bin", rnd.choice(["Eq", "Le", "Ge", "Ne", "Lt"]), ["product", [name]], ["lit", rnd.choice([0, 0, 1, 2, rnd.randint(-8, 30)])]]]
        if r < 0.58:
            # the sum against a narrow field: the comparison is as wide as the sum itself (w + bits(n-1)), not 32 bits
            f = rnd.choice(self.scalars)
            return ["expr", ["bin", rnd.choice(["Eq", "Eq", "Le", "Ge"]), ["sum", [name]], ["f", [f["name"]]]]]
        if r < 0.74:
            items = [["listref", [name]]]
            if rnd.random() < 0.5:
                items.append(["f", [rnd.choice(self.scalars)["name"]]])
            if rnd.random() < 0.5:
                items.reverse()          # the list is not always the first argument
            others = [x for x in self.lists if x["name"] != name]
            if others and rnd.random() < 0.3:
                items.insert(rnd.randint(0, len(items)), ["listref", [rnd.choice(others)["name"]]])
            return ["unique", items]
        if r < 0.88:
            return ["expr", ["bin", rnd.choice(["Eq", "Ge", "Lt"]), ["size", [name]], ["lit", rnd.randint(0, 3)]]]
        f = rnd.choice(self.scalars)
        return ["expr", ["inlist", ["f", [f["name"]]], [name]]]
