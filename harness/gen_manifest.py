"""Writes /verif/MANIFEST.json from the table below (kept in one place so it stays valid)."""
import json
from pathlib import Path

VERIF = Path(__file__).resolve().parent.parent
BASE = "cd /repo && /venv/bin/python -m pytest -ra -q -p no:cacheprovider --timeout=900 --continue-on-collection-errors"

CHECKS = {
    "C19": dict(
        text="Theorems (Coq, closed under the global context) about a Gallina model of str2bin / valmask2binlist / "
             "wildcard_bin[_array] / the wildcard sample test: a (value,mask) bin is hit iff the sample agrees on every mask bit, "
             "a pattern string is parsed to exactly its non-wildcard bits, the array's value list is exactly the set of matching "
             "values as ascending maximal runs, and the bins enumerate it in order (one per value, or n-1 bins of |vals|/n plus the "
             "rest). The model is tied to /repo on every run by evaluating model and specification inside Coq on the hits observed "
             "from a real covergroup for every sample value (exhaustive over all (value,mask) pairs below 2^4 / 2^6 and all short "
             "pattern strings).",
        note="Trusted: Coq kernel, the harness, CPython; the model is hand-written (tie = differential run). Known finding: a "
             "leading wildcard digit is lost by wildcard_bin_array (theorem C19_array_top_wild_refuted); negative masks and more "
             "than 20 wildcard bits are outside the model.",
        technique="Coq proof over hand-written model + exhaustive differential correspondence evaluated in Coq",
        ref="DESIGN.md §3 C19"),
}
CHECKS["C10"] = dict(
    text="Theorems (Coq, closed under the global context) about a Gallina model of RangelistModel.compact/intersect, "
         "CoverpointBinCollectionModel.mk_collection, bin/bin_array/auto-bin construction and coverpoint sampling: normalisation "
         "keeps values and sorts; trimming removes exactly the ignore/illegal values, keeps order and always terminates; the bins "
         "of an array/auto-bin spec enumerate the ascending remaining values in order with sizes q,...,q,rest (or one per value); "
         "for every sample sequence bin i holds the number of samples taken while iff held whose value is in its set; a value "
         "outside every bin changes nothing. Tie: on every run random specs are built on a real covergroup, sampled with every "
         "value of the type, and the model and an enumeration-based specification are evaluated inside Coq on the observed counters.",
    note="Trusted: Coq kernel, harness, CPython. Model hand-written (tie = differential run). Ranges inside one bin spec and "
         "ignore/illegal items are pairwise disjoint (the property's quantifier). For types wider than 8 bits only the model "
         "(not the enumerating spec) is compared.",
    technique="Coq proof over hand-written model + differential correspondence evaluated in Coq",
    ref="DESIGN.md §3 C10")
CHECKS["C11"] = dict(
    text="Theorems (Coq, closed) about a Gallina state-machine model of CoverpointCrossModel (_build_hit_map, sample) including "
         "the persistent per-bin hit markers the cross reads: row-major numbering is a bijection between bin-index tuples and "
         "cross bins; what a sample adds to the cross depends on that sample only (no stale marker); for every sample sequence "
         "cross bin t holds the number of samples on which all iff conditions held and coverpoint j hit bin t_j. Tie: random "
         "covergroups with 2-3 coverpoints and a cross are sampled on the real code; after every sample the increments of every "
         "coverpoint and cross bin are recorded and judged inside Coq by the model and by a spec that only uses the observed "
         "coverpoint hits, the iff flags and the bin names.",
    note="Trusted: Coq kernel, harness, CPython. Model hand-written. Bins of one coverpoint are mutually disjoint.",
    technique="Coq proof over hand-written state-machine model + per-sample differential correspondence evaluated in Coq",
    ref="DESIGN.md §3 C11")
CHECKS["C12"] = dict(
    text="Theorems (Coq, closed) about a Gallina model of the coverage registry (register_cg: attach to the first type of the same "
         "name with a structurally equal shape, else clone a new type), the propagation of a sample to the type covergroup, and the "
         "coverage arithmetic with at_least and weight over exact rationals: sampling instance k touches only k and its type; for "
         "every interleaving of constructions and samples type hits are the bin-wise sum of the attached instances; instances share "
         "a type iff same name and shape; coverage of an item and of a covergroup is within 0..100, monotone in the hits, and 100 "
         "exactly when every bin of every weighted item reached at_least. Tie: random populations of instances with parameter "
         "variants are created and sampled in interleaved order on the real code; attachments, all counters and the coverage "
         "numbers after every sample are judged inside Coq by the model and by a spec evaluated on the observations.",
    note="Trusted: Coq kernel, harness, CPython. Model hand-written. What a sample does to the sampled instance's bins is C10/C11's "
         "subject and enters as observed increments. Coverpoints have >= 1 bin, total weight > 0; percentages compared within 1e-4.",
    technique="Coq proof (invariant over operation sequences, Q arithmetic) + differential correspondence evaluated in Coq",
    ref="DESIGN.md §3 C12")
CHECKS["C13"] = dict(
    text="Theorems (Coq, closed) about a Gallina model of CoverageSaveVisitor (what is written for every covergroup type, instance, "
         "coverpoint, cross and bin, with get_cg_instname's name de-duplication) and of the percentage arithmetic PyUCIS applies to "
         "the saved database: the saved tree contains every type/instance/item/bin (regular, ignore, illegal) with the names and "
         "counts in memory and nothing else; instance names are distinct; item percentages equal the in-memory figures and "
         "covergroup percentages do when crosses keep weight 1 (refuted otherwise: known finding). Tie: after random "
         "instance/sampling histories the in-memory state (model getters), get_coverage_report_model(), the parsed text report and "
         "the XML written by write_coverage_db and read back are compared inside Coq with the model's save and with the "
         "specification (report == memory, percentages == get_coverage()/get_inst_coverage(), state unchanged by reporting).",
    note="PARTIAL: PyUCIS (MemFactory database, CoverageReportBuilder, text formatter, XML writer/reader) is modelled, not verified; "
         "the XML does not carry at_least, so percentages after read-back are not compared (names and counts are). Known finding "
         "report.cross_weight (root cause in PyUCIS, outside /repo). Trusted: Coq kernel, harness, CPython.",
    technique="Coq proof over hand-written model of the save visitor + differential correspondence (memory vs report/text/XML) in Coq",
    ref="DESIGN.md §3 C13")
CHECKS["C18"] = dict(
    text="The accessor methods (type_base.set_val/get_val/val/__getitem__/__setitem__, list_t.append/__setitem__/__getitem__/"
         "iteration, FieldScalarModel.set_val/post_randomize) are TRANSLATED from /repo's source to Gallina on every run by a "
         "fail-closed Python-ast translator; the theorems (closed under the global context) are re-checked by coqc against the "
         "regenerated definitions: assignment reduces modulo 2^w and re-reads as two's complement, every read path returns the "
         "same in-type value, solver read-back is in type, part-select reads return the selected bits, part-select writes change "
         "only the selected bits and stay in type; enum fields (hand-written model) round-trip declared enumerators. The "
         "translated functions and the specification are also compared with real objects over exhaustively enumerated small widths.",
    note="Trusted: Coq kernel, the translator (harness/translate_access.py; Python's int operators rendered as Z.land/lor/lnot/"
         "shiftl/shiftr; procedural scalar branches specialised), harness, CPython. Enum part: hand-written model tied by the "
         "differential run.",
    technique="translator (Python ast -> Gallina) + Coq proofs re-checked against the regenerated model + exhaustive differential run",
    ref="DESIGN.md §3 C18")
SOLVER_NOTE = ("Trusted: Coq kernel, harness (class synthesiser, recording Boolector proxy, generators), CPython, and Boolector as "
               "executor of the call under test. Hand-written models tied per call by syntactic equality of the recorded solver terms "
               "with the model's lowering. ")
CHECKS["C01"] = dict(
    text="Theorems (Coq, closed) about Gallina models of the expression/statement lowering (ExprBinModel.build/extend, literals, "
         "unary, in, part-select, if/else-if/else, implies, unique, scopes, enum domains) and of the bit-vector API: on the typed "
         "fragment the term built for an expression evaluates to its integer meaning (context-width propagation, "
         "signed-iff-both-signed extension, signed/unsigned comparison and division), statement terms are true exactly when the "
         "statement holds, and whatever model the solver returns for the hard terms, the values read back satisfy every hard "
         "statement, lie in their types and enum fields hold declared values. Three corners outside the fragment are refuted with "
         "witnesses. Values are written rand set by rand set (Rand/Randset.v): the assembled assignment takes every field from its own set's solution and satisfies every statement once every set's solution satisfies that set's. Tie per call: the multiset of hard terms handed to Boolector (recording proxy) equals the model's lowering of "
         "the enabled statements; the returned values are judged by the integer semantics evaluated in Coq.",
    note=SOLVER_NOTE + "Premise: a model returned by Boolector satisfies the asserted terms. Single objects and object trees over "
         "scalar/enum fields; lists, foreach, dist, soft are the subject of C04, C15, C05.",
    technique="Coq compiler-correctness proof of the lowering + per-call term-level correspondence and value oracle evaluated in Coq",
    ref="DESIGN.md §3 C01")
CHECKS["C02"] = dict(
    text="Theorems (Coq, closed; the solver is a parameter with soundness / completeness premises): if some assignment of the "
         "random fields satisfies every hard statement the modelled call never ends in SolveFailure, and whatever a call returns is "
         "such an assignment; soft statements contribute no hard term; the code solves rand set by rand set (Rand/Randset.v transcribes RandInfoBuilder's grouping): every statement lies in exactly one rand set together with all the fields it refers to, rand sets share no field, an unsatisfiable rand set makes the whole system unsatisfiable and per-set solutions assemble into a solution of the whole system - so failing at the first unsatisfiable set is failing exactly when the system is unsatisfiable. Tie per call: outcome class (returned / SolveFailure / other "
         "exception) is compared with satisfiability decided independently of Boolector by enumerating every assignment of the "
         "random fields under the integer semantics inside Coq (<= 2^13 assignments), plus the term-level correspondence of C01 and, "
         "per recorded solver instance, that no rand set of the model was split over instances.",
    note=SOLVER_NOTE + "Premises: Boolector sound and complete on the asserted terms. Systems with undefined operations "
         "(division by zero) or outside the typed fragment get no verdict.",
    technique="Coq proof (abstract sound+complete solver) + outcome vs. exhaustive enumeration of assignments evaluated in Coq",
    ref="DESIGN.md §3 C02")
CHECKS["C03"] = dict(
    text="Theorems (Coq, closed): the code's used-rand marking equals the specification of 'random in this call' (root, or "
         "declared random with rand_mode on and so every ancestor below the root); nothing below a non-random composite is random; "
         "the read-back leaves every non-random field unchanged whatever the solver answers; a non-random field is presented to the "
         "solver as the constant of its current value; the solved-for flag and the solver node of a field do not outlive the call "
         "(Rand/Flags.v: after any sequence of calls that return, fail or raise, appends and constructions, nothing is flagged; "
         "a field outside the call's roots is never flagged during it; an appended element starts unflagged). Tie per call on "
         "object trees with rand_mode histories: leaves that changed, leaves presented as variables / constants and the constants' "
         "values are compared with the model; after every operation the workers read the flags and nodes of every field model "
         "(must be idle); free-standing calls and rangelist histories; a public-API stream for lists inside sub-objects that are "
         "not random in the parent's call (content and length must be kept).",
    note=SOLVER_NOTE + "Scalar-list aggregates / mutable lists are exercised by C04.",
    technique="Coq proof over object-tree model + per-call differential correspondence (frame, variable/constant flags, terms)",
    ref="DESIGN.md §3 C03")
CHECKS["C07"] = dict(
    text="Theorems (Coq, closed): the statements enforced in a call are those of the blocks switched on of the composites that "
         "are random in the call; toggling a block of one object leaves every tree not containing that object untouched and "
         "changes neither random flags nor callbacks; of any toggle sequence only the last counts; switching back restores the "
         "object. Tie: 2-3 instances of one class with constraint_mode / rand_mode histories; the hard terms and outcome of every "
         "call are compared with the model's enabled blocks of that very instance."
         " A list stream toggles the block that holds the foreach / aggregate statements while the lists grow (the expansion must be that of the list at each call).",
    note=SOLVER_NOTE + "Procedural per-instance toggles; most-derived selection across inheritance is not generated here.",
    technique="Coq proof over object-tree model + per-call term-level correspondence across several live instances",
    ref="DESIGN.md §3 C07")
CHECKS["C08"] = dict(
    text="Theorems (Coq, closed): a sub-object's own blocks are enforced exactly when it is random in the call (and nothing "
         "below a non-random composite is), and every leaf is flagged once under its own identity. Tie: class trees with sibling "
         "sub-objects of one class and cross-level constraints by attribute path; every solver variable is mapped back to the field "
         "object reached by that path and the terms are compared with the model's lowering over flat field identities.",
    note=SOLVER_NOTE + "Objects stored in lists: C04.",
    technique="Coq proof over object-tree model + per-call term-level correspondence with path-resolved field identities",
    ref="DESIGN.md §3 C08")
CHECKS["C17"] = dict(
    text="Theorems (Coq, closed): the callbacks go to exactly the composites that are random in the call, in pre-order, each "
         "once, and to nothing below a non-random composite. Tie: every class defines both callbacks, each invocation is logged "
         "with the object's identity; the logged pre / post multisets of every call are compared with the model.",
    note=SOLVER_NOTE + "Object trees (no object reachable by two attribute paths). 'Before the solve' is observed through the "
         "values the callbacks see and the constants in the recorded terms.",
    technique="Coq proof over object-tree model + per-call differential correspondence of callback logs",
    ref="DESIGN.md §3 C17")
CHECKS["C05"] = dict(
    text="Theorems (Coq, closed; the satisfiability test is a parameter, premise: monotone in the set of terms) about a model of "
         "the soft phase (all at once, else greedy by descending priority), of the priorities by visit order and of the guards of "
         "nested soft constraints: soft constraints never make a satisfiable hard system fail; every rejected one conflicts with the "
         "hard constraints and the accepted ones (maximality), already with those of higher priority (later / inline wins), decisions "
         "are independent of lower priorities; a nested soft constraint carries exactly its enclosing conditions and its term is true "
         "iff the guards do not all hold or it does. Tie per call: the batch of soft terms handed to the solver equals the model's "
         "soft terms in priority order; the returned values are checked for priority-greedy maximality by enumeration in Coq."
         " A second stream puts soft constraints next to list constraints (scalars and constant-index elements related in both operand orders, so that the rand sets they sit in are merged).",
    note=SOLVER_NOTE + "Guards of nested soft constraints are relational (1-bit) conditions.",
    technique="Coq proof over abstract satisfiability test + per-call term/order correspondence and enumeration oracle in Coq",
    ref="DESIGN.md §3 C05")
CHECKS["C04"] = dict(
    text="Theorems (Coq, closed) about the expansion of list constraints (Rand/Unroll.v): a foreach expansion holds iff its body "
         "holds for every index and element of the list (index-only conditions decided as integer comparisons); the term built "
         "for l.sum evaluates to the integer sum of the exposed elements at width w + bits(n-1), which cannot overflow; "
         "membership is true iff the value equals some exposed element (false for the empty list); unique means pairwise "
         "different / no duplicates; for random-size lists, sum / product / membership / uniqueness guarded by i < size are those "
         "of the first `size` elements. Tie per call: the check writes each scenario in these forms over exactly the elements the "
         "list exposes after the call, Coq expands them, compares the expansion with the solver transcript (fixed-size lists) and "
         "judges values, frame and outcome by enumeration; len() / size / iteration / indexing / element models are compared after "
         "every call and every append / clear / assignment against Python-level bookkeeping."
         " Theorems added later: the product is the 64-bit product of exactly the exposed elements (0 for none) at any context width; unique_vec holds iff the vectors are pairwise different as tuples. Generators added later: constant-index elements outside foreach, product, unique_vec, unique argument orders over several lists, free-standing calls that refer to an element they do not pass, clear-after-call histories; a failed call on a random-size list is examined for every size 0..5 (satisfiable for some size => violation) and must leave a list whose size was never solved for unchanged; lists of objects: identity of the exposed objects after clear / append.",
    note=SOLVER_NOTE + "For random-size lists there is no term-level tie (element models are created during the call); their "
         "values, sizes and outcomes are judged by the oracle. The product of a random-size list is not generated (the code's "
         "'product of no elements' depends on when the expression was built).",
    technique="Coq proof over list-expansion model + per-call differential correspondence (transcript and enumeration oracle in Coq)",
    ref="DESIGN.md §3 C04")
CHECKS["C06"] = dict(
    text="Theorems (Coq, closed; Rand/Dyn.v): a dynamic-constraint reference inside an expression is a 1-bit Boolean term that is "
         "true iff every statement of the referenced block is true; | & ~ compose such terms as Boolean operators (closed under "
         "nesting); a reference used as a statement (inline expansion) means the same as the term; the term the code builds "
         "evaluates to that conjunction (the C01 lowering theorem applies); the with-block of randomize_with, modelled on the "
         "scope stack, hands the solve exactly the body's statements whatever lay below and restores the stack, any number of "
         "calls leave no trace, and a call enforces exactly class statements + its own inline set. Tie per call: scenarios with "
         "several live instances per class (two sub-objects of one class per root, 1-3 roots created before / after), inline sets "
         "that change and conflict from call to call, references through root and sub-objects; the solver transcript is compared "
         "with the model's terms, where every reference is expanded to the block of the object it is written through over that "
         "object's fields; values, frame and outcome are judged by enumeration in Coq."
         " Dynamic blocks of 1-4 statements, a dynamic block referring to a later-named one, and a list stream with foreach statements inside a dynamic block referenced from inline blocks while the lists grow.",
    note=SOLVER_NOTE + "Dynamic blocks hold relational expression statements; references inside if / implies bodies and through "
         "list elements are not generated. Which object a path denotes is the harness's reading of the scenario (the specification).",
    technique="Coq proof over dynamic-reference / scope-stack model + per-call differential correspondence (transcript and enumeration oracle in Coq)",
    ref="DESIGN.md §3 C06")
CHECKS["C09"] = dict(
    text="PARTIAL. Theorems (Coq, closed; Rand/Rnd.v: RandState objects as heap locations, for every generator and every solve "
         "that is a function of the call's descriptor and the object's generator state): the global generator, the objects' "
         "states and the user's handles never share a location; an operation that is not a call / set_randstate on o leaves o's "
         "state alone and only a draw from a handle changes it (get_randstate returns an independent snapshot); set_randstate "
         "copies its argument; an object's values are those of its own calls applied to its own state whatever happens in "
         "between; restoring a snapshot replays exactly the values that followed it and the snapshot stays usable; one RandState "
         "seeds several objects identically; the default state is one draw of Python's global generator. NOT a theorem (runtime "
         "behaviour: hash-seed dependent iteration order, memory layout, Boolector's determinism, stray global draws): that the "
         "real solve is such a function. Tie: every history (calls, mkFromSeed, get / set_randstate, draws from handles and the "
         "global generator, built around snapshot -> calls -> unrelated operations -> restore -> same calls) runs in 4 fresh "
         "processes (PYTHONHASHSEED 0 / 1 / 777 / 31337, unrelated randomizations + allocation churn + gc, debug / "
         "solve_fail_debug / VSC_CAPTURE_SRCINFO); observations must be identical, values must be equal wherever the model's "
         "state terms are equal, and no operation may draw from Python's global generator except to derive a default state."
         " Explicit states are also made from (number, name) pairs.",
    note="Objects of one history are instances of one synthesized class (scalars, enums, sub-objects, fixed- and random-size "
         "lists) and are not modified between calls other than by randomization.",
    technique="Coq proof over heap model of random states + multi-process differential correspondence (state-term equalities computed in Coq)",
    ref="DESIGN.md §3 C09")
CHECKS["C16"] = dict(
    text="Theorems (Coq, closed; Rand/Stacks.v transcribes the API entry points of rand_obj.py / methods.py / constraints.py "
         "as far as they touch the shared construction state, user code being lists of items with probe points): user code, "
         "whatever its with-block nesting and wherever it raises, leaves the five stacks as deep as it found them; every API "
         "call (construction, randomize, randomize_with block, free-standing block) started in any state with any fault point, "
         "satisfiable or not, restores the depths; after any history of calls with any fault points the shared state is idle "
         "again (for expr_l: provided __init__ code and callbacks write no bare constraint expression - refuted without); after a "
         "call that fails, or raises while being prepared or in a callback, no field model is flagged as solved-for or holds a "
         "solver node (Rand/Flags.v). Tie: "
         "random histories with probes in __init__ (incl. a sub-object's), constraint bodies, with-block bodies and callbacks; an "
         "exception is injected at a chosen probe, calls are made unsatisfiable; the stacks seen at every probe and the way "
         "every call ends are compared with the model. Oracles on the real objects: no field keeps a solver variable, no "
         "temporary rewrite of the constraint tree stays installed, statement counts stay as constructed, and a scripted "
         "continuation (new class with solve_order, new and re-seeded objects) equals that of a twin process in which the "
         "failed calls never happened."
         " The classes also hold a random-size list (after every call a list holds exactly as many element models as its size says) and some calls are preceded by a covergroup whose construction is rejected.",
    note="Covergroup / coverpoint construction and faults inside the library other than SolveFailure are not modelled.",
    technique="Coq proof over scope-stack model of the API entry points + fault-injection differential correspondence with a pristine-twin oracle",
    ref="DESIGN.md §3 C16")
CHECKS["C14"] = dict(
    text="PARTIAL. Theorems (Coq, closed): bounds inference of a field against constants (Rand/Bounds.v: comparisons applied "
         "round after round until stable, membership lists sorted and merged, starting from the type's range) never cuts off a "
         "value that satisfies all the constraints, leaves an unmentioned field its whole type, and is exact for upper bounds and "
         "membership; the range-trimming primitives never remove a value satisfying the bound; the randomising pattern's slices "
         "are exactly the low d bits, within the chosen range these bits (sign bit included) determine the value, a pattern equal "
         "to a feasible value is consistent with every slice constraint and pins that value (so it has non-zero probability). "
         "Ties: (1) for fields constrained against constants the recorded inferred domain is compared, as a set of values over "
         "the whole type, with the model's and with the constraints' solutions; (2) for general programs (relations between "
         "fields, arithmetic, if / implies, object trees) the inference is not modelled: per call the recorded bound map must "
         "contain every solution of the hard constraints (enumerated in Coq) and an unmentioned field's whole type."
         " A third of the scenarios make free-standing calls, some relating two passed fields through an expression.",
    note=SOLVER_NOTE + "Which completion Boolector picks when several feasible values share the pinned bits (multi-range domains) "
         "is a runtime behaviour outside the model. Known finding bounds.python_int_semantics.",
    technique="Coq proofs (bounds inference against constants, trimming and swizzle primitives) + per-field domain correspondence + per-call enumeration oracle on the recorded inferred domains",
    ref="DESIGN.md §3 C14")
CHECKS["C15"] = dict(
    text="Theorems (Coq, closed): the per-call rewrite of a dist constraint (membership in all entries + exclusion of every "
         "zero-weight entry, Rand/Dist.v) holds iff the value lies in some listed entry and in no entry whose weight is zero, the "
         "entry it lies in has a non-zero weight, and with all weights zero it cannot hold; counting the equally likely draws, "
         "the target entry of a dist and the index returned by distselect / randselect are chosen for exactly weight_i of the "
         "total draws, never a zero-weight entry, always a valid index. Ties: (1) classes with a dist (values, ranges, entries "
         "outside the type, overlaps, zero weights, a weight in a non-random field) plus windows / relations: per call the rewrite "
         "is compared with the solver transcript and values / outcome are judged by enumeration in Coq; (2) frequencies of an "
         "otherwise unconstrained dist per entry and per value of a range against weight / total with exact two-sided binomial "
         "tails (1e-7); (3) exhaustive draw substitution into the real distselect / randselect for every weight vector up to "
         "length 4/5 with entries 0..4/6."
         " Frequency cases also cover two dist statements sharing a non-random weight field and a dist inside a foreach; a listed value that never appears is judged one-sidedly.",
    note="Trusted: Coq kernel, harness, CPython's generator (modelled as a uniform draw; the uniformity inside a chosen range and "
         "the weight / total frequencies of the real call are examined statistically, not proved).",
    technique="Coq proofs (rewrite semantics, counting) + per-call transcript / enumeration correspondence + exact-tail frequency tests + exhaustive draw substitution",
    ref="DESIGN.md §3 C15")
CHECKS["C20"] = dict(
    text="PARTIAL (distribution). Theorems (Coq, closed): solve_order declarations make every after-field depend on every "
         "before-field; the ordered groups of a rand set put a before-field in a strictly earlier group (chains, lists), are "
         "disjoint and within the rand set; neither end of a declared pair is dropped by the restriction to the rand set, so a "
         "declared pair inside one rand set is always separated (unconditional form); on acyclic declarations (a rank decreases "
         "along every pair) the level computation is total - it runs out of neither ready fields nor fuel (Rand/OrderTotal.v); transitively ordered fields are separated as well and "
         "a cyclic declaration never yields groups; "
         "for the first-solved field a drawn pattern equal to a feasible value is kept and pins "
         "that value (so with feasible = inferred range its distribution is that of the draw, whatever accompanies it). Tie: the "
         "model's rand_order evaluated in Coq on the recorded dependency map and fields of every rand set against the code's "
         "rand_order_l; thirteen templates randomised 360/2400 times: normal return, swizzle order in the solver transcript, histograms of the "
         "first-solved fields against the uniform distribution (6.1 sigma), and the C01/C02 oracle on the first calls."
         " A ninth template holds two alternative ordering blocks of which one is switched off.",
    note=SOLVER_NOTE + "Uniformity of CPython's generator and Boolector's choice for infeasible patterns are runtime behaviours "
         "(histograms are support, not proof).",
    technique="Coq proof of ordering + pattern lemmas; transcript order check and exact-tail histograms against the real solver",
    ref="DESIGN.md §3 C20")
NOT_YET = {}

def main():
    props = [json.loads(l)["id"] for l in open(VERIF / "properties.jsonl")]
    checks = []
    for pid in props:
        if pid not in CHECKS:
            continue
        c = CHECKS[pid]
        checks.append({
            "property_id": pid,
            "quick_cmd": "./check %s --tier quick" % pid,
            "thorough_cmd": "./check %s --tier thorough" % pid,
            "evidence_file": "evidence/%s.json" % pid,
            "replay_cmd_template": "./check %s --replay {path}" % pid,
            "engine": "coq-model+correspondence",
            "level_claimed": {"category": "proof", "text": c["text"], "design_ref": c["ref"]},
            "level_note": c["note"],
            "technique": c["technique"],
        })
    na = [{"property_id": p, "reason": NOT_YET.get(p, "check not built yet in this development (work in progress; see DESIGN.md §3 for the plan)")}
          for p in props if p not in CHECKS]
    man = {
        "version": 1,
        "setup_cmd": "./setup.sh",
        "hooks": {
            "guard": "PYVSC_VERIF",
            "enable": "exported by ./check for the implementation workers; all instrumentation is attached from the harness "
                      "(wrappers around module attributes), no guarded source edits exist in /repo",
            "baseline_off_cmd": BASE,
            "source_commits": [],
            "add_only": True,
        },
        "engines": [{"name": "coq-model+correspondence", "path": "coq/ harness/",
                     "serves_properties": [c["property_id"] for c in checks],
                     "kind_free_text": "Coq 8.16.1 development (models, proofs, Prop_Cxx.v) + Python harness that runs the "
                                       "implementation and evaluates model/spec inside Coq on the same cases"}],
        "checks": checks,
        "not_applicable": na,
        "notes": "fix: commits in /repo are listed in known_findings.json (fixed:). Every check re-checks its Prop_Cxx.v with coqc, "
                 "then runs the correspondence against /repo's working tree.",
    }
    (VERIF / "MANIFEST.json").write_text(json.dumps(man, indent=1))

main()
