"""Entry point: ./check Cxx --tier quick|thorough [--replay file]"""
import argparse
import importlib
import os
import sys
import traceback
from pathlib import Path

sys.path.insert(0, str(Path(__file__).resolve().parent))
import core  # noqa: E402


def main():
    ap = argparse.ArgumentParser()
    ap.add_argument("prop")
    ap.add_argument("--tier", default=None, choices=["quick", "thorough"])
    ap.add_argument("--replay", default=None)
    a = ap.parse_args()
    # the command line wins; the environment only fills in what it leaves open
    tier = a.tier or os.environ.get("VERIF_TIER") or "quick"
    if tier not in ("quick", "thorough"):
        tier = "quick"
    seed = int(os.environ.get("VERIF_SEED", "0") or 0)
    if a.replay:
        # a replay file names the run that produced it (tier, seed): every choice of a run derives from these two, so
        # re-running the check with them regenerates the same cases and reports the violation again if it still exists
        import json
        import re
        try:
            rf = json.load(open(a.replay))
        except Exception:
            rf = {}
        m = re.search(r"-(quick|thorough)-seed(\d+)-", os.path.basename(a.replay))
        tier = rf.get("tier") or (m.group(1) if m else tier)
        seed = int(rf.get("seed", m.group(2) if m else seed))
        print("replaying %s: tier %s, seed %d; recorded: %s" % (a.replay, tier, seed, str(rf.get("what"))[:300]), flush=True)
    (core.VERIF / "run").mkdir(exist_ok=True)
    if a.prop == "lint":
        bad = core.lint(None)
        print("\n".join(bad) or "lint clean")
        return 1 if bad else 0
    ctx = core.Ctx(a.prop.upper(), tier, seed)
    ctx.replay = a.replay
    try:
        bad = core.lint(ctx)
        if bad:
            ctx.proof_broken.append("lint: " + "; ".join(bad[:10]))
            ctx.log("LINT:", bad)
        ok, out = core.ensure_coq_built(ctx)
        if not ok:
            ctx.proof_broken.append("coq development does not build: " + out[-800:])
        mod = importlib.import_module("props." + a.prop.lower())
        mod.run(ctx)
    except Exception:  # harness error: fail closed, visibly
        tb = traceback.format_exc()
        ctx.log("HARNESS ERROR\n" + tb)
        ctx.tie_broken.append("harness error: " + tb[-1500:])
    rc = core.finish(ctx)
    if rc == 0:
        ctx.cleanup()        # (the scratch directory of a run that reports something is kept for inspection)
    return rc


if __name__ == "__main__":
    sys.exit(main())
