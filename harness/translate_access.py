"""Fail-closed translator: the value access paths of /repo (types.py, field_scalar_model.py) -> Gallina (C18).

Every function is translated from its `ast`; anything outside the supported subset raises
TranslationError, which the check reports as a broken tie.  Supported: integer expressions over
<< >> & | ^ ~ + - *, comparisons, and/or/not, assignments to locals, if/else, return, and the
"store" calls listed per function.  Tests that select the procedural (non-expression) scalar path
are specialised: is_expr_mode()/get_expr_mode() = False, self.is_enum = False, self.is_scalar = True,
isinstance(rng, slice) = the requested variant.
"""
import ast
from pathlib import Path


class TranslationError(Exception):
    pass


BINOPS = {ast.LShift: "Z.shiftl", ast.RShift: "Z.shiftr", ast.BitAnd: "Z.land", ast.BitOr: "Z.lor",
          ast.BitXor: "Z.lxor", ast.Add: "Z.add", ast.Sub: "Z.sub", ast.Mult: "Z.mul"}
CMPOPS = {ast.Eq: "(%s =? %s)", ast.NotEq: "(negb (%s =? %s))", ast.Lt: "(%s <? %s)", ast.LtE: "(%s <=? %s)",
          ast.Gt: "(%s <? %s)", ast.GtE: "(%s <=? %s)"}


def dotted(node):
    """a.b.c() chains as a string, or None"""
    if isinstance(node, ast.Name):
        return node.id
    if isinstance(node, ast.Attribute):
        b = dotted(node.value)
        return None if b is None else b + "." + node.attr
    if isinstance(node, ast.Call) and not node.args and not node.keywords:
        b = dotted(node.func)
        return None if b is None else b + "()"
    if isinstance(node, ast.Subscript):
        b = dotted(node.value)
        s = dotted(node.slice)
        return None if b is None or s is None else b + "[" + s + "]"
    return None


class Fn:
    """translation context of one function variant"""

    def __init__(self, name, params, attrs, cur_exprs, stores, tests, calls=None):
        self.name = name
        self.params = params          # [(coq name, coq type)]
        self.attrs = attrs            # dotted python expr -> coq term (Z) or ('bool', term)
        self.cur_exprs = cur_exprs    # dotted python exprs that read the stored value -> coq term
        self.stores = stores          # dotted call targets whose single argument is the stored result
        self.tests = tests            # dotted / special tests -> True/False
        self.calls = calls or {}      # dotted call target -> coq function prefix applied to the argument
        self.locals = set()

    # ---- expressions -------------------------------------------------------------------------
    def z(self, e):
        d = dotted(e)
        if d is not None:
            if d in self.cur_exprs:
                return self.cur_exprs[d]
            if d in self.attrs and not isinstance(self.attrs[d], tuple):
                return self.attrs[d]
            if isinstance(e, ast.Name) and e.id in self.locals:
                return e.id
        if isinstance(e, ast.Constant) and isinstance(e.value, int) and not isinstance(e.value, bool):
            return "(%d)" % e.value if e.value < 0 else "%d" % e.value
        if isinstance(e, ast.BinOp) and type(e.op) in BINOPS:
            return "(%s %s %s)" % (BINOPS[type(e.op)], self.z(e.left), self.z(e.right))
        if isinstance(e, ast.UnaryOp) and isinstance(e.op, ast.Invert):
            return "(Z.lnot %s)" % self.z(e.operand)
        if isinstance(e, ast.UnaryOp) and isinstance(e.op, ast.USub):
            return "(Z.opp %s)" % self.z(e.operand)
        if isinstance(e, ast.Call):
            f = dotted(e.func)
            if f in ("int", "ValueScalar", "ValueInt") and len(e.args) == 1 and not e.keywords:
                return self.z(e.args[0])
            if f == "int" and len(e.args) == 2 and dotted(e.args[0]) in self.cur_exprs \
                    and isinstance(e.args[1], ast.Constant) and e.args[1].value == 2:
                return self.cur_exprs[dotted(e.args[0])]
            if isinstance(e.func, ast.Attribute) and e.func.attr == "toInt" and not e.args:
                return self.z(e.func.value)
        raise TranslationError("%s: unsupported integer expression %s" % (self.name, ast.dump(e)[:200]))

    def b(self, e):
        d = dotted(e)
        if d is not None and d in self.tests:
            return "true" if self.tests[d] else "false"
        if d is not None and d in self.attrs and isinstance(self.attrs[d], tuple):
            return self.attrs[d][1]
        if isinstance(e, ast.Call) and dotted(e.func) == "isinstance" and "isinstance" in self.tests:
            return "true" if self.tests["isinstance"] else "false"
        if isinstance(e, ast.BoolOp):
            op = "&&" if isinstance(e.op, ast.And) else "||"
            return "(" + (" %s " % op).join(self.b(v) for v in e.values) + ")"
        if isinstance(e, ast.UnaryOp) and isinstance(e.op, ast.Not):
            o = self.b(e.operand)
            if o in ("true", "false"):
                return "false" if o == "true" else "true"
            return "(negb %s)" % o
        if isinstance(e, ast.Compare) and len(e.ops) == 1 and type(e.ops[0]) in CMPOPS:
            l, r = self.z(e.left), self.z(e.comparators[0])
            if isinstance(e.ops[0], (ast.Gt, ast.GtE)):
                l, r = r, l
            return CMPOPS[type(e.ops[0])] % (l, r)
        raise TranslationError("%s: unsupported condition %s" % (self.name, ast.dump(e)[:200]))

    # ---- statements (continuation style: the rest of the block is duplicated under both branches) ----
    def stmts(self, body):
        if not body:
            raise TranslationError("%s: control reaches the end without a result" % self.name)
        s, rest = body[0], body[1:]
        if isinstance(s, ast.Expr) and isinstance(s.value, ast.Constant) and isinstance(s.value.value, str):
            return self.stmts(rest)                      # docstring
        if isinstance(s, ast.Assign) and len(s.targets) == 1 and isinstance(s.targets[0], ast.Name):
            # `model = self.get_model()` style aliases are ignored (only used inside recognised access chains)
            if dotted(s.value) in ("self.get_model()",):
                return self.stmts(rest)
            v = self.z(s.value)
            self.locals.add(s.targets[0].id)
            return "(let %s := %s in\n  %s)" % (s.targets[0].id, v, self.stmts(rest))
        if isinstance(s, ast.AugAssign) and isinstance(s.target, ast.Name) and type(s.op) in BINOPS:
            v = "(%s %s %s)" % (BINOPS[type(s.op)], self.z(s.target), self.z(s.value))
            return "(let %s := %s in\n  %s)" % (s.target.id, v, self.stmts(rest))
        if isinstance(s, ast.If):
            c = self.b(s.test)
            if c == "true":
                return self.stmts(list(s.body) + rest)
            if c == "false":
                return self.stmts(list(s.orelse) + rest)
            saved = set(self.locals)
            t = self.stmts(list(s.body) + rest)
            self.locals = set(saved)
            f = self.stmts(list(s.orelse) + rest)
            self.locals = saved
            return "(if %s then %s\n   else %s)" % (c, t, f)
        if isinstance(s, ast.Return) and s.value is not None:
            return self.z(s.value)
        if isinstance(s, ast.Expr) and isinstance(s.value, ast.Call) and len(s.value.args) == 1 and not s.value.keywords:
            f = dotted(s.value.func)
            if f in self.stores:
                return self.z(s.value.args[0])
            if f in self.calls:
                return "(%s %s)" % (self.calls[f], self.z(s.value.args[0]))
        raise TranslationError("%s: unsupported statement %s" % (self.name, ast.dump(s)[:200]))

    def define(self, fdef):
        self.locals = {a.arg for a in fdef.args.args if a.arg != "self"}
        body = self.stmts(list(fdef.body))
        ps = " ".join("(%s : %s)" % p for p in self.params)
        return "Definition %s %s : Z :=\n  %s.\n" % (self.name, ps, body)


def find_class(tree, name):
    for n in ast.walk(tree):
        if isinstance(n, ast.ClassDef) and n.name == name:
            return n
    raise TranslationError("class %s not found" % name)


def find_method(cls, name, setter=False):
    for n in cls.body:
        if isinstance(n, ast.FunctionDef) and n.name == name:
            is_setter = any(isinstance(d, ast.Attribute) and d.attr == "setter" for d in n.decorator_list)
            if is_setter == setter:
                return n
    raise TranslationError("method %s.%s not found" % (cls.name, name))


def find_nested_method(cls, outer, inner_cls, name):
    o = find_method(cls, outer)
    for n in ast.walk(o):
        if isinstance(n, ast.ClassDef) and n.name == inner_cls:
            return find_method(n, name)
    raise TranslationError("%s.%s.%s.%s not found" % (cls.name, outer, inner_cls, name))


def self_attr_init(cls, attr, fn):
    """the expression assigned to self.<attr> in __init__ (first unconditional or conditional assignment)"""
    init = find_method(cls, "__init__")
    fn.locals = {a.arg for a in init.args.args if a.arg != "self"}
    for n in ast.walk(init):
        if isinstance(n, ast.Assign) and len(n.targets) == 1 and dotted(n.targets[0]) == "self." + attr:
            return fn.z(n.value)
    raise TranslationError("%s.__init__ does not assign self.%s" % (cls.name, attr))


WB = [("width", "Z"), ("is_signed", "bool")]


def translate(repo):
    repo = Path(repo)
    types = ast.parse((repo / "src/vsc/types.py").read_text())
    fsm = ast.parse((repo / "src/vsc/model/field_scalar_model.py").read_text())
    tb = find_class(types, "type_base")
    lt = find_class(types, "list_t")
    fs = find_class(fsm, "FieldScalarModel")
    out = ["(* GENERATED by harness/translate_access.py from /repo/src/vsc/types.py and model/field_scalar_model.py.",
           "   Do not edit: regenerated and re-checked on every run of the C18 check. *)",
           "From Coq Require Import ZArith Bool.", "Open Scope Z_scope.", ""]
    tb_attrs = {"self.width": "width", "self.is_signed": ("bool", "is_signed")}
    tb_cur = {"self.get_model().get_val()": "cur"}
    tb_store = {"self.get_model().set_val"}
    no_expr = {"is_expr_mode()": False, "get_expr_mode()": False}

    out.append(Fn("tb_set_val", WB + [("val", "Z")], tb_attrs, {}, tb_store, {}).define(find_method(tb, "set_val")))
    out.append(Fn("tb_val_setter", WB + [("v", "Z")], tb_attrs, {}, tb_store, {}).define(find_method(tb, "val", setter=True)))
    out.append(Fn("tb_get_val", [("cur", "Z")], tb_attrs, tb_cur, set(), {}).define(find_method(tb, "get_val")))
    out.append(Fn("tb_val_getter", [("cur", "Z")], tb_attrs, tb_cur, set(), {}).define(find_method(tb, "val")))
    gi = find_method(tb, "__getitem__")
    a = dict(tb_attrs)
    a.update({"rng.start": "start", "rng.stop": "stop"})
    out.append(Fn("tb_getitem_slice", [("cur", "Z"), ("start", "Z"), ("stop", "Z")], a, tb_cur, set(),
                  dict(no_expr, isinstance=True)).define(gi))
    out.append(Fn("tb_getitem_bit", [("cur", "Z"), ("rng", "Z")], tb_attrs, tb_cur, set(),
                  dict(no_expr, isinstance=False)).define(gi))
    si = find_method(tb, "__setitem__")
    out.append(Fn("tb_setitem_slice", WB + [("cur", "Z"), ("start", "Z"), ("stop", "Z"), ("val", "Z")], a, tb_cur, tb_store,
                  dict(no_expr, isinstance=True), {"self.set_val": "tb_set_val width is_signed"}).define(si))
    out.append(Fn("tb_setitem_bit", WB + [("cur", "Z"), ("rng", "Z"), ("val", "Z")], tb_attrs, tb_cur, tb_store,
                  dict(no_expr, isinstance=False), {"self.set_val": "tb_set_val width is_signed"}).define(si))

    lt_attrs = {"self.t.width": "width", "self.t.is_signed": ("bool", "is_signed"), "self.mask": "mask",
                "self.l.t.width": "width", "self.l.t.is_signed": ("bool", "is_signed"), "self.l.mask": "mask"}
    lt_tests = dict(no_expr)
    lt_tests.update({"self.is_enum": False, "self.is_scalar": True})
    mfn = Fn("lt_mask", [("width", "Z")], lt_attrs, {}, set(), {})
    out.append("Definition lt_mask (width : Z) : Z :=\n  %s.\n" % self_attr_init(lt, "mask", mfn))
    out.append(Fn("lt_append", WB + [("mask", "Z"), ("v", "Z")], lt_attrs, {}, {"f.set_val"}, lt_tests)
               .define(strip_field_alloc(find_method(lt, "append"))))
    out.append(Fn("lt_setitem", WB + [("mask", "Z"), ("v", "Z")], lt_attrs, {}, {"self.get_model().field_l[k].set_val"}, lt_tests)
               .define(find_method(lt, "__setitem__")))
    out.append(Fn("lt_getitem", WB + [("mask", "Z"), ("cur", "Z")], lt_attrs, {"model.field_l[k].get_val()": "cur"}, set(), lt_tests)
               .define(find_method(lt, "__getitem__")))
    nx = find_nested_method(lt, "__iter__", "list_scalar_it", "__next__")
    out.append(Fn("lt_iter_next", WB + [("mask", "Z"), ("cur", "Z")], lt_attrs,
                  {"self.model.field_l[self.idx].get_val()": "cur"}, set(),
                  {"iter_exhausted": False, "self.l.is_enum": False}).define(strip_iter(nx)))

    fs_attrs = {"self.width": "width", "self.is_signed": ("bool", "is_signed"), "self.mask": "mask"}
    out.append("Definition fsm_mask (width : Z) : Z :=\n  %s.\n" % self_attr_init(fs, "mask", Fn("fsm_mask", [], fs_attrs, {}, set(), {})))
    out.append(fsm_set_val(find_method(fs, "set_val")))
    out.append(Fn("fsm_post_randomize", WB + [("mask", "Z"), ("assignment", "Z")], fs_attrs, {"self.var.assignment": "assignment"},
                  set(), {"self.var_is_not_None": True}, {"self.set_val": "fsm_set_val"}).define(strip_post(find_method(fs, "post_randomize"))))
    return "\n".join(out)


def strip_field_alloc(fdef):
    """list_t.append: `model = self.get_model()` and `f = model.add_field()` allocate the element; drop them"""
    import copy
    f = copy.deepcopy(fdef)

    def clean(body):
        res = []
        for s in body:
            if isinstance(s, ast.Assign) and dotted(s.value) in ("self.get_model()", "model.add_field()"):
                continue
            if isinstance(s, ast.If):
                s.body = clean(s.body)
                s.orelse = clean(s.orelse)
            res.append(s)
        return res
    f.body = clean(f.body)
    return f


def strip_iter(fdef):
    """__next__: `if self.idx >= size: raise StopIteration() else: <body>` -> <body>; `self.idx += 1` dropped"""
    import copy
    f = copy.deepcopy(fdef)
    if not (len(f.body) == 1 and isinstance(f.body[0], ast.If) and len(f.body[0].body) == 1
            and isinstance(f.body[0].body[0], ast.Raise)):
        raise TranslationError("list_scalar_it.__next__: unexpected shape")
    body = [s for s in f.body[0].orelse
            if not (isinstance(s, ast.AugAssign) and dotted(s.target) == "self.idx")]
    f.body = body
    return f


def strip_post(fdef):
    """post_randomize: `if self.var is not None: <body>` then the rand_if callback (dropped)"""
    import copy
    f = copy.deepcopy(fdef)
    first = f.body[0]
    if not (isinstance(first, ast.If) and isinstance(first.test, ast.Compare) and dotted(first.test.left) == "self.var"
            and isinstance(first.test.ops[0], ast.IsNot)):
        raise TranslationError("FieldScalarModel.post_randomize: unexpected shape")
    for s in f.body[1:]:
        if not (isinstance(s, ast.If) and dotted(s.test.left if isinstance(s.test, ast.Compare) else s.test) == "self.rand_if"):
            raise TranslationError("FieldScalarModel.post_randomize: unexpected trailing statement")
    f.body = list(first.body)
    return f


def fsm_set_val(fdef):
    """FieldScalarModel.set_val: `self.val.v = int(val)`"""
    if not (len(fdef.body) == 1 and isinstance(fdef.body[0], ast.Assign) and dotted(fdef.body[0].targets[0]) == "self.val.v"):
        raise TranslationError("FieldScalarModel.set_val: unexpected shape")
    fn = Fn("fsm_set_val", [("val", "Z")], {}, {}, set(), {})
    fn.locals = {"val"}
    return "Definition fsm_set_val (val : Z) : Z :=\n  %s.\n" % fn.z(fdef.body[0].value)


if __name__ == "__main__":
    import sys
    print(translate(sys.argv[1] if len(sys.argv) > 1 else "/repo"))
