"""Shared machinery of the /verif checks: Coq driving, implementation workers, evidence, verdicts."""
import fcntl
import json
import os
import re
import shutil
import subprocess
import sys
import time
from pathlib import Path

VERIF = Path(__file__).resolve().parent.parent
REPO = Path(os.environ.get("VERIF_REPO", "/repo"))
COQ = VERIF / "coq"
PY = "/venv/bin/python"
GUARD = "PYVSC_VERIF"
NCPU = min(16, os.cpu_count() or 4)

FORBIDDEN = re.compile(
    r"\b(Admitted|admit|Axiom|Axioms|Parameter|Parameters|Conjecture|Conjectures|Admit Obligations|"
    r"Unset Guard Checking|bypass_check|Unset Positivity Checking|Unset Universe Checking|"
    r"type-in-type|impredicative-set)\b")


def impl_env(extra=None):
    env = dict(os.environ)
    env["PYTHONPATH"] = str(REPO / "src") + os.pathsep + str(VERIF / "harness")
    env["PYTHONHASHSEED"] = "0"
    env[GUARD] = "1"
    env["PYTHONDONTWRITEBYTECODE"] = "1"
    if extra:
        env.update(extra)
    return env


# ---------------------------------------------------------------------------- Coq literals
def cz(n):
    n = int(n)
    return "(%d)" % n if n < 0 else "%d" % n


def clist(items):
    return "[" + "; ".join(items) + "]"


def cbool(b):
    return "true" if b else "false"


def cstr(s):
    return '"' + s.replace('"', '""') + '"%string'


def copt(x, f=lambda y: y):
    return "None" if x is None else "(Some %s)" % f(x)


def cpair(*xs):
    return "(" + ", ".join(xs) + ")"


def cranges(rl):
    return clist([cpair(cz(a), cz(b)) for a, b in rl])


class Ctx:
    def __init__(self, prop, tier, seed):
        self.prop = prop
        self.tier = tier
        self.seed = seed
        self.t0 = time.time()
        self.rundir = VERIF / "run" / ("%s-%d" % (prop, os.getpid()))
        if self.rundir.exists():
            shutil.rmtree(self.rundir)
        self.rundir.mkdir(parents=True)
        self.violations = []      # (description, replay dict, no_input flag)
        self.known = []           # strings
        self.coverage = {}
        self.assumptions = []
        self.trusted = []
        self.obligations = 0
        self.discharged = 0
        self.proof_broken = []    # names of theorem files / lemmas that failed
        self.tie_broken = []      # descriptions of broken correspondences
        self.checker_cmd = ""
        self.log_lines = []

    def log(self, *a):
        msg = " ".join(str(x) for x in a)
        self.log_lines.append(msg)
        print("[%s %6.1fs] %s" % (self.prop, time.time() - self.t0, msg), flush=True)

    def quick(self):
        return self.tier == "quick"

    def cleanup(self):
        shutil.rmtree(self.rundir, ignore_errors=True)


# ---------------------------------------------------------------------------- Coq
def lint(ctx):
    bad = []
    for p in sorted(COQ.rglob("*.v")):
        txt = p.read_text()
        # strip comments (non nested is enough for our sources; nested handled by loop)
        prev = None
        while prev != txt:
            prev = txt
            txt = re.sub(r"\(\*(?:(?!\(\*|\*\)).)*\*\)", " ", txt, flags=re.S)
        for m in FORBIDDEN.finditer(txt):
            bad.append("%s: %s" % (p.relative_to(VERIF), m.group(0)))
        # Variable / Hypothesis outside a Section
        depth = 0
        for line in txt.splitlines():
            s = line.strip()
            if re.match(r"Section\b", s):
                depth += 1
            elif re.match(r"End\b", s) and depth > 0:
                depth -= 1
            elif depth == 0 and re.match(r"(Variables?|Hypothes[ie]s|Context)\b", s):
                bad.append("%s: %s outside Section" % (p.relative_to(VERIF), s.split()[0]))
    return bad


def ensure_coq_built(ctx, timeout=1500):
    """Full .vo build of the development (incremental), serialised by a lock."""
    lock = open(VERIF / "run" / ".coq.lock", "w")
    fcntl.flock(lock, fcntl.LOCK_EX)
    try:
        if not (COQ / "Makefile").exists() or (COQ / "Makefile").stat().st_mtime < (COQ / "_CoqProject").stat().st_mtime:
            subprocess.run(["coq_makefile", "-f", "_CoqProject", "-o", "Makefile"], cwd=COQ, check=True,
                           stdout=subprocess.DEVNULL, stderr=subprocess.DEVNULL)
        r = subprocess.run(["timeout", str(timeout), "make", "-j%d" % NCPU], cwd=COQ,
                           stdout=subprocess.PIPE, stderr=subprocess.STDOUT, text=True)
        if r.returncode != 0:
            ctx.log("coq build failed:\n" + r.stdout[-3000:])
            return False, r.stdout
        return True, r.stdout
    finally:
        fcntl.flock(lock, fcntl.LOCK_UN)
        lock.close()


def coqc(ctx, path, timeout=600, extra_args=()):
    """Compile one file (outside the make tree) against the built development."""
    out = ctx.rundir / (Path(path).stem + ".vo")
    cmd = ["bash", "-c", "ulimit -s unlimited 2>/dev/null; exec timeout %d coqc -R %s PV %s -o %s %s" % (
        timeout, COQ, " ".join(extra_args), out, path)]
    r = subprocess.run(cmd, stdout=subprocess.PIPE, stderr=subprocess.PIPE, text=True, cwd=ctx.rundir)
    return r.returncode, r.stdout, r.stderr


def check_prop_file(ctx, fname):
    """Re-check the property theorems now; record obligations and the Print Assumptions output."""
    src = COQ / fname
    txt = src.read_text()
    names = re.findall(r"^\s*(?:Theorem|Corollary)\s+([A-Za-z0-9_']+)", txt, flags=re.M)
    ctx.obligations += len(names)
    t = time.time()
    rc, out, err = coqc(ctx, src)
    ctx.checker_cmd = "coqc -R /verif/coq PV coq/%s (after make of the development; coq 8.16.1)" % fname
    if rc != 0:
        ctx.proof_broken.append("%s: %s" % (fname, err.strip()[-600:]))
        ctx.log("PROOF BROKEN in", fname, err[-1500:])
        return names, out
    ctx.discharged += len(names)
    # parse Print Assumptions blocks
    closed = out.count("Closed under the global context")
    axioms = []
    for m in re.finditer(r"Axioms:\n((?:.+\n?)+?)(?:\n|$)", out):
        axioms.append(m.group(1).strip())
    ctx.trusted.append("Print Assumptions (%s): %d theorem(s) 'Closed under the global context'%s" % (
        fname, closed, ("; axioms: " + " | ".join(axioms)) if axioms else "; no axioms"))
    ctx.log("checked %s: %d theorems in %.1fs, %d closed" % (fname, len(names), time.time() - t, closed))
    return names, out


def coq_eval(ctx, name, text, timeout=900):
    """Write a cases file, compile it, return stdout (or None on failure)."""
    p = ctx.rundir / (name + ".v")
    p.write_text(text)
    rc, out, err = coqc(ctx, p, timeout=timeout)
    if rc != 0:
        ctx.log("coq evaluation of %s failed (rc=%d): %s" % (name, rc, err[-2000:]))
        return None
    return out


def coq_eval_many(ctx, files, timeout=900):
    """files: list of (name, text). Compiled in parallel. Returns dict name -> stdout/None."""
    from concurrent.futures import ThreadPoolExecutor
    res = {}
    with ThreadPoolExecutor(max_workers=NCPU) as ex:
        futs = {name: ex.submit(coq_eval, ctx, name, text, timeout) for name, text in files}
        for name, f in futs.items():
            res[name] = f.result()
    return res


def parse_z_list(out, marker=None):
    """Parse the first `= [a; b; ...]` list of integers printed by Eval (after marker if given)."""
    if out is None:
        return None
    if marker is not None:
        i = out.find(marker)
        if i < 0:
            return None
        out = out[i:]
    m = re.search(r"=\s*(\[[^\]]*\]|nil)", out, flags=re.S)
    if not m:
        return None
    body = m.group(1)
    if body == "nil":
        return []
    return [int(x) for x in re.findall(r"-?\d+", body)]


# ---------------------------------------------------------------------------- implementation workers
def run_impl(ctx, script, payload, timeout=1200, env_extra=None, python=PY):
    """Run harness/impl/<script> in a fresh interpreter with PYTHONPATH=/repo/src; JSON in, JSON out."""
    p = subprocess.run([python, str(VERIF / "harness" / "impl" / script)], input=json.dumps(payload),
                       stdout=subprocess.PIPE, stderr=subprocess.PIPE, text=True, env=impl_env(env_extra),
                       cwd=str(ctx.rundir), timeout=timeout)
    if p.returncode != 0:
        # the interpreter may die while tearing down solver objects after the results were printed
        try:
            return json.loads(p.stdout.strip().splitlines()[-1])
        except Exception:  # noqa
            return {"_crash": True, "rc": p.returncode, "stderr": p.stderr[-3000:], "stdout": p.stdout[-1000:]}
    try:
        # last line is the JSON document (library code may print)
        line = p.stdout.strip().splitlines()[-1]
        return json.loads(line)
    except Exception as e:  # noqa
        return {"_crash": True, "rc": 0, "stderr": "unparsable output: %r ... %s" % (p.stdout[-500:], p.stderr[-1500:])}


def run_impl_parallel(ctx, script, cases, nchunks=None, timeout=1200, env_extra=None, key="cases", extra_payload=None):
    """Split cases into chunks, run each chunk in its own interpreter; returns list of per-case results
    (same order) — a crashed chunk yields {'_crash':...} for each of its cases."""
    from concurrent.futures import ThreadPoolExecutor
    if not cases:
        return []
    n = nchunks or min(NCPU, max(1, len(cases) // 4))
    chunks = [cases[i::n] for i in range(n)]
    with ThreadPoolExecutor(max_workers=n) as ex:
        outs = list(ex.map(lambda ch: run_impl(ctx, script, dict(extra_payload or {}, **{key: ch}), timeout, env_extra), chunks))
    res = [None] * len(cases)
    for ci, (ch, out) in enumerate(zip(chunks, outs)):
        if out.get("_crash"):
            for j in range(len(ch)):
                res[ci + j * n] = dict(out)
        else:
            for j, r in enumerate(out["results"]):
                res[ci + j * n] = r
    return res


# ---------------------------------------------------------------------------- known findings
def load_known():
    p = VERIF / "known_findings.json"
    if not p.exists():
        return {"findings": [], "fixed": []}
    return json.loads(p.read_text())


def known_for(prop):
    return [f for f in load_known().get("findings", []) if f["property"] == prop]


# ---------------------------------------------------------------------------- verdict / evidence
def add_violation(ctx, what, replay, no_input=False):
    ctx.violations.append((what, replay, no_input))


def finish(ctx, level="proof"):
    """Writes replay files + evidence, prints verdict lines, returns exit code."""
    (VERIF / "replays").mkdir(exist_ok=True)
    (VERIF / "evidence").mkdir(exist_ok=True)
    rc = 0
    # a broken proof / tie without a concrete failing input is still a violation
    if (ctx.proof_broken or ctx.tie_broken) and not any(not ni for _, _, ni in ctx.violations):
        add_violation(ctx, "proof or correspondence no longer checks; search found no failing input",
                      {"broken_proofs": ctx.proof_broken, "broken_correspondence": ctx.tie_broken[:20]}, True)
    for k in ctx.known:
        print("KNOWN-FINDING: property=%s %s" % (ctx.prop, k), flush=True)
    seen = 0
    for what, replay, no_input in ctx.violations:
        if no_input and any(not ni for _, _, ni in ctx.violations):
            continue
        seen += 1
        if seen > 5:
            break
        path = VERIF / "replays" / ("%s-%s-seed%d-%d.json" % (ctx.prop, ctx.tier, ctx.seed, seen))
        path.write_text(json.dumps({"property": ctx.prop, "tier": ctx.tier, "seed": ctx.seed, "what": what, "replay": replay,
                                    "how_to_replay": "./check %s --replay <this file>  (re-runs the check with this tier and seed: the same cases "
                                                     "are regenerated; 'replay' below is the failing case itself)" % ctx.prop,
                                    "broken_proofs": ctx.proof_broken, "broken_correspondence": ctx.tie_broken[:20]},
                                   indent=1, default=str))
        print("VIOLATION property=%s replay=%s%s" % (ctx.prop, path, " no-failing-input-found" if no_input else ""),
              flush=True)
        print("  -> " + what[:400], flush=True)
        rc = 1
    cov = dict(ctx.coverage)
    cov.setdefault("obligations", ctx.obligations)
    cov.setdefault("discharged", ctx.discharged)
    cov.setdefault("checker_cmd", ctx.checker_cmd or "coqc")
    cov.setdefault("trusted_base", ctx.trusted + TRUSTED_COMMON)
    if cov["obligations"] < 1 or cov["discharged"] < 1:
        # never pretend a proof-level run happened
        cov["obligations"] = max(cov["obligations"], 1)
        cov["discharged"] = max(cov["discharged"], 0)
    ev = {
        "property_id": ctx.prop, "tier": ctx.tier, "seed": ctx.seed, "level": level,
        "coverage": cov, "assumptions": ctx.assumptions,
        "wall_s": round(time.time() - ctx.t0, 2), "violations": sum(1 for _ in ctx.violations),
        "known_findings_seen": ctx.known, "repo_head": repo_head(),
    }
    if ev["coverage"]["discharged"] < 1:
        ev["coverage"]["discharged"] = 0
        ev["level"] = "other"
        ev["coverage"]["explanation"] = "proof obligations did not check in this run: " + "; ".join(ctx.proof_broken)[:500]
    (VERIF / "evidence" / (ctx.prop + ".json")).write_text(json.dumps(ev, indent=1, default=str))
    ctx.log("done: rc=%d violations=%d known=%d" % (rc, len(ctx.violations), len(ctx.known)))
    ctx.cleanup()
    return rc


def repo_head():
    try:
        h = subprocess.run(["git", "-C", str(REPO), "rev-parse", "--short", "HEAD"], stdout=subprocess.PIPE, text=True).stdout.strip()
        d = subprocess.run(["git", "-C", str(REPO), "status", "--porcelain", "--untracked-files=no"], stdout=subprocess.PIPE, text=True).stdout.strip()
        return h + ("+dirty" if d else "")
    except Exception:  # noqa
        return "?"


TRUSTED_COMMON = [
    "Coq 8.16.1 kernel via coqc (vm_compute used for evaluating the model on cases; native_compute not used)",
    "hand-written Gallina models under /verif/coq tied to /repo by the differential correspondence run of this check "
    "(harness/*.py: generators, class synthesiser, implementation workers under CPython 3.12 with PYTHONPATH=/repo/src)",
    "no extraction is used: the model is evaluated inside Coq on generated cases files",
]
