"""Implementation side of C19: wildcard bins on a real covergroup (public API)."""
import json
import sys

import vsc


def build(case):
    specs = []
    for s in case["specs"]:
        specs.append(s[1] if s[0] == "s" else (s[1], s[2]))
    if case["array"]:
        nb = [] if case["nbins"] is None else [case["nbins"]]
        binspec = vsc.wildcard_bin_array(nb, *specs)
    else:
        binspec = vsc.wildcard_bin(*specs)

    @vsc.covergroup
    class cg(object):
        def __init__(self):
            self.with_sample(dict(a=vsc.bit_t(16)))
            self.cp = vsc.coverpoint(self.a, bins={"b": binspec})
    return cg()


def run(case):
    try:
        c = build(case)
    except Exception as e:  # construction is allowed to reject a spec
        return {"err": type(e).__name__ + ": " + str(e)[:200]}
    m = c.get_model().coverpoint_l[0]
    n = m.get_n_bins()
    prev = [m.get_bin_hits(i) for i in range(n)]
    hits = []
    for v in range(1 << case["width"]):
        c.sample(v)
        cur = [m.get_bin_hits(i) for i in range(n)]
        h = []
        for i in range(n):
            d = cur[i] - prev[i]
            h.extend([i] * d)          # a double increment shows up as a repeated index
        hits.append(h)
        prev = cur
    return {"nbins": n, "hits": hits}


def run_pair(case):
    """two instances of ONE parameterised covergroup class with different wildcard patterns: per-instance and per-type hits"""
    from vsc.impl import ctor
    ctor.test_setup()

    @vsc.covergroup
    class pcg(object):
        def __init__(self, specs):
            self.with_sample(dict(a=vsc.bit_t(16)))
            self.cp = vsc.coverpoint(self.a, bins={"b": vsc.wildcard_bin(*[(s[1], s[2]) for s in specs])})
    insts = [pcg(sp) for sp in case["pair"]]
    for k, inst in enumerate(insts):
        for v in case["samples"][k]:
            inst.sample(v)
    out = []
    for inst in insts:
        m = inst.get_model()
        t = m.type_cg
        out.append({"inst_hits": [m.coverpoint_l[0].get_bin_hits(i) for i in range(m.coverpoint_l[0].get_n_bins())],
                    "type_hits": [t.coverpoint_l[0].get_bin_hits(i) for i in range(t.coverpoint_l[0].get_n_bins())],
                    "type_id": id(t), "inst_cov": float(inst.get_inst_coverage()), "type_cov": float(inst.get_coverage())})
    ids = {}
    for o in out:
        o["type_id"] = ids.setdefault(o["type_id"], len(ids))
    return {"pair": out}


def main():
    data = json.load(sys.stdin)
    out = []
    for case in data["cases"]:
        try:
            out.append(run_pair(case) if "pair" in case else run(case))
        except Exception as e:
            out.append({"crash": type(e).__name__ + ": " + str(e)[:300]})
    print(json.dumps({"results": out}))


main()
