"""Implementation side of C15 (procedural helpers): distselect / randselect with the pseudo-random draw substituted."""
import json
import sys

import vsc
import vsc.methods as methods


class FakeRandom(object):
    def __init__(self):
        self.value = None
        self.calls = []

    def randint(self, a, b):
        self.calls.append([a, b])
        return self.value


def run(case):
    ws = case["ws"]
    total = sum(ws)
    fake = FakeRandom()
    real = methods.random
    methods.random = fake
    try:
        sel = []
        rsel = []
        for r in range(1, total + 1):
            fake.value = r
            sel.append(methods.distselect(list(ws)))
            hit = []
            methods.randselect([(w, (lambda i=i: hit.append(i))) for i, w in enumerate(ws)])
            rsel.append(hit[0] if len(hit) == 1 else -1 - len(hit))
        bounds = sorted({tuple(c) for c in fake.calls})
    finally:
        methods.random = real
    return {"sel": sel, "rsel": rsel, "draw_bounds": [list(b) for b in bounds]}


def main():
    data = json.load(sys.stdin)
    out = []
    for case in data["cases"]:
        try:
            out.append(run(case))
        except Exception as e:
            import traceback
            out.append({"crash": type(e).__name__ + ": " + str(e)[:300] + traceback.format_exc()[-600:]})
    print(json.dumps({"results": out}))


main()
