"""Implementation side of the solver properties: synthesise @vsc.randobj classes from a scenario, run the
operations on real objects, record outcomes, field values and the Boolector transcript (btor_proxy)."""
import json
import sys
import traceback
from enum import IntEnum

import vsc
import btor_proxy

BINOPS = {"Eq": "==", "Ne": "!=", "Gt": ">", "Ge": ">=", "Lt": "<", "Le": "<=", "Add": "+", "Sub": "-", "Div": "/",
          "Mul": "*", "Mod": "%", "And": "&", "Or": "|", "Sll": "<<", "Srl": ">>", "Xor": "^"}


# ------------------------------------------------------------------------------------------ source synthesis
def path_src(root, path):
    """attribute names; an int (or ['idx', i]) indexes the list named just before it"""
    return root + "".join("[%d]" % p[1] if isinstance(p, list) else ("[%d]" % p if isinstance(p, int) else "." + p) for p in path)


def expr_src(e, root):
    k = e[0]
    if k == "lit":
        return "(%d)" % e[1]
    if k == "u":
        return "vsc.unsigned(%d, %d)" % (e[1], e[2])
    if k == "s":
        return "vsc.signed(%d, %d)" % (e[1], e[2])
    if k == "enumlit":
        return "%s.m%d" % (e[1], e[2])
    if k == "f":
        return path_src(root, e[1])
    if k == "itf":
        return path_src("_it", e[1])
    if k == "dynidx":
        return "%s[%s].%s()" % (path_src(root, e[1]), path_src(root, e[2]), e[3])
    if k == "listref":
        return expr_src(["f", e[1]], root)
    if k == "it":
        return "_it"
    if k == "idxvar":
        return "_i"
    if k == "sub":       # list[i + off] inside a foreach over that list
        return "%s[_i + %d]" % (expr_src(["f", e[1]], root), e[2]) if e[2] else "%s[_i]" % expr_src(["f", e[1]], root)
    if k == "sum":
        return expr_src(["f", e[1]], root) + ".sum"
    if k == "product":
        return expr_src(["f", e[1]], root) + ".product"
    if k == "size":
        return expr_src(["f", e[1]], root) + ".size"
    if k == "inlist":
        return "%s.inside(%s)" % (expr_src(e[1], root), expr_src(["f", e[2]], root))
    if k == "bin":
        return "(%s %s %s)" % (expr_src(e[2], root), BINOPS[e[1]], expr_src(e[3], root))
    if k == "not":
        return "(~%s)" % expr_src(e[1], root)
    if k == "dynref":
        return "%s.%s()" % (path_src(root, e[1]), e[2])
    if k in ("inrl", "notinrl"):
        return "%s.%s(%s.%s)" % (expr_src(e[1], root), "inside" if k == "inrl" else "not_inside", root, e[2])
    if k in ("in", "notin"):
        items = []
        for it in e[2]:
            if len(it) == 1:
                items.append(expr_src(it[0], root))
            else:
                items.append("(%s, %s)" % (expr_src(it[0], root), expr_src(it[1], root)))
        return "%s.%s(vsc.rangelist(%s))" % (expr_src(e[1], root), "inside" if k == "in" else "not_inside", ", ".join(items))
    if k == "part":
        return "%s[%d:%d]" % (expr_src(e[1], root), e[2], e[3])
    if k == "bit":
        return "%s[%d]" % (expr_src(e[1], root), e[2])
    raise Exception("unknown expr " + repr(e))


def stmts_src(stmts, root, ind):
    out = []
    pad = "    " * ind
    if not stmts:
        out.append(pad + "pass")
    for s in stmts:
        k = s[0]
        if k == "expr":
            out.append(pad + expr_src(s[1], root))
        elif k == "soft":
            out.append(pad + "vsc.soft(%s)" % expr_src(s[1], root))
        elif k == "if":
            out.append(pad + "with vsc.if_then(%s):" % expr_src(s[1], root))
            out += stmts_src(s[2], root, ind + 1)
            for c, body in s[3]:
                out.append(pad + "with vsc.else_if(%s):" % expr_src(c, root))
                out += stmts_src(body, root, ind + 1)
            if s[4] is not None:
                out.append(pad + "with vsc.else_then:")
                out += stmts_src(s[4], root, ind + 1)
        elif k == "implies":
            out.append(pad + "with vsc.implies(%s):" % expr_src(s[1], root))
            out += stmts_src(s[2], root, ind + 1)
        elif k == "unique_vec":
            out.append(pad + "vsc.unique_vec(%s)" % ", ".join(expr_src(["f", x], root) for x in s[1]))
        elif k == "unique":
            out.append(pad + "vsc.unique(%s)" % ", ".join(expr_src(x, root) for x in s[1]))
        elif k == "solve_order":
            side = lambda x: "[%s]" % ", ".join(expr_src(y, root) for y in x) if isinstance(x[0], list) else expr_src(x, root)
            out.append(pad + "vsc.solve_order(%s, %s)" % (side(s[1]), side(s[2])))
        elif k == "dist":
            ws = []
            for it, w in s[2]:
                ws.append("vsc.weight(%s, %s)" % (("(%d, %d)" % tuple(it)) if isinstance(it, list) else "%d" % it,
                                                 expr_src(w, root) if isinstance(w, list) else "%d" % w))
            out.append(pad + "vsc.dist(%s, [%s])" % (expr_src(s[1], root), ", ".join(ws)))
        elif k == "foreach":
            out.append(pad + "with vsc.foreach(%s, idx=True, it=True) as (_i, _it):" % expr_src(["f", s[1]], root))
            out += stmts_src(s[2], root, ind + 1)
        elif k == "dyn":
            out.append(pad + "%s.%s()" % (path_src(root, s[1]), s[2]))
        elif k == "dynidx":
            out.append(pad + expr_src(s, root))
        else:
            raise Exception("unknown stmt " + repr(s))
    return out


def field_ctor(f):
    k = f["kind"]
    r = "rand_" if f.get("rand") else ""
    if k == "scalar":
        t = "int_t" if f["sg"] else "bit_t"
        init = ", i=%d" % f["init"] if f.get("init") else ""
        return "vsc.%s%s(%d%s)" % (r, t, f["w"], init)
    if k == "enum":
        return "vsc.%senum_t(%s)" % (r, f["enum"])
    if k == "obj":
        return "vsc.rand_attr(%s())" % f["cls"] if f.get("rand") else "vsc.attr(%s())" % f["cls"]
    if k == "olist":
        if f.get("via_sz"):
            # the population created by the list itself (sz=n) instead of by appends
            return "vsc.%slist_t(%s(), sz=%d)" % ("rand_" if f.get("rand") else "", f["cls"], f["n"])
        return "vsc.%slist_t(%s())" % ("rand_" if f.get("rand") else "", f["cls"])
    if k == "list":
        el = f["elem"]
        if el["kind"] == "scalar":
            et = "vsc.%s(%d)" % ("int_t" if el["sg"] else "bit_t", el["w"])
        elif el["kind"] == "enum":
            et = "vsc.enum_t(%s)" % el["enum"]
        else:
            et = "%s()" % el["cls"]
        if f.get("randsz"):
            return "vsc.randsz_list_t(%s)" % et
        if f.get("rand"):
            return "vsc.rand_list_t(%s, sz=%d)" % (et, f.get("size", 0))
        return "vsc.list_t(%s, sz=%d)" % (et, f.get("size", 0))
    raise Exception("unknown field kind " + k)


def rl_item_src(it):
    return expr_src(it[0], "self") if len(it) == 1 else "(%s, %s)" % (expr_src(it[0], "self"), expr_src(it[1], "self"))


def class_src(c):
    lines = ["@vsc.randobj", "class %s(%s):" % (c["name"], c.get("base") or "object"), "    def __init__(self):"]
    if c.get("base"):
        lines.append("        super().__init__()")
    for f in c["fields"]:
        lines.append("        self.%s = %s" % (f["name"], field_ctor(f)))
    for f in c["fields"]:
        if f["kind"] == "olist" and not f.get("via_sz"):
            lines.append("        for _ in range(%d):" % f["n"])
            lines.append("            self.%s.append(%s())" % (f["name"], f["cls"]))
    for name, items in (c.get("rangelists") or {}).items():
        lines.append("        self.%s = vsc.rangelist(%s)" % (name, ", ".join(rl_item_src(it) for it in items)))
    if not c["fields"] and not c.get("base"):
        lines.append("        pass")
    for b in c.get("blocks", []):
        lines.append("    @vsc.%s" % ("dynamic_constraint" if b.get("dynamic") else "constraint"))
        lines.append("    def %s(self):" % b["name"])
        lines += stmts_src(b["stmts"], "self", 2)
    for hook in ("pre_randomize", "post_randomize"):
        if c.get(hook) is not None:
            lines.append("    def %s(self):" % hook)
            lines.append("        _hook(self, %r, %r)" % (hook, c[hook]))
    return "\n".join(lines)


# ------------------------------------------------------------------------------------------ execution
class Env(object):
    def __init__(self, sc):
        self.sc = sc
        self.ns = {"vsc": vsc, "IntEnum": IntEnum, "_hook": self.hook}
        self.vars = {}
        self.hook_log = []
        self.oids = {}
        for name, vals in sc.get("enums", {}).items():
            self.ns[name] = IntEnum(name, {"m%d" % i: v for i, v in enumerate(vals)})
        self.classes = {c["name"]: c for c in sc["classes"]}
        for c in sc["classes"]:
            exec(class_src(c), self.ns)

    def hook(self, obj, which, actions):
        self.hook_log.append([self.oids.get(id(obj), -1), which, self.snapshot_obj(obj)])
        for a in actions or []:
            if a[0] == "set":
                self.assign(obj, a[1], a[2])
            elif a[0] == "raise":
                raise RuntimeError("user exception in " + which)
            elif a[0] == "append_new" and getattr(self, "append_armed", False):
                # (only in the last call of a scenario: the population the scenario describes changes)
                self.append_armed = False
                with vsc.raw_mode():
                    lst = getattr(obj, a[1])
                lst.append(self.ns[a[2]]())

    def name_of(self, obj):
        for k, v in self.vars.items():
            if v is obj:
                return k
        return getattr(obj, "_pv_name", "?")

    def resolve(self, obj, path):
        for p in path:
            obj = obj[p[1]] if isinstance(p, list) else (obj[p] if isinstance(p, int) else getattr(obj, p))
        return obj

    def assign(self, obj, path, value):
        tgt = self.resolve(obj, path[:-1])
        last = path[-1]
        f = self.field_decl_of(tgt, last) if not isinstance(last, list) else None
        if f is not None and f["kind"] == "enum":
            value = list(self.ns[f["enum"]])[value]
        if isinstance(last, list):
            tgt[last[1]] = value
        else:
            setattr(tgt, last, value)

    def all_fields(self, cname):
        c = self.classes[cname]
        base = self.all_fields(c["base"]) if c.get("base") else []
        return base + c["fields"]

    def field_decl_of(self, obj, name):
        if not isinstance(name, str):
            return None
        cname = type(obj).__name__
        if cname in self.classes:
            for f in self.all_fields(cname):
                if f["name"] == name:
                    return f
        return None

    # leaves in declaration order: (path, decl); a scalar list contributes its elements then its size
    def leaves(self, obj, prefix=()):
        out = []
        for f in self.all_fields(type(obj).__name__):
            p = prefix + (f["name"],)
            if f["kind"] in ("scalar", "enum"):
                out.append((p, f))
            elif f["kind"] == "obj":
                with vsc.raw_mode():
                    sub = getattr(obj, f["name"])
                out += self.leaves(sub, p)
            elif f["kind"] == "olist":
                with vsc.raw_mode():
                    lst = getattr(obj, f["name"])
                for i in range(f["n"]):
                    out += self.leaves(lst[i], p + (i,))
            elif f["kind"] == "list":
                with vsc.raw_mode():
                    lst = getattr(obj, f["name"])
                n = len(lst.get_model().field_l)
                for i in range(n):
                    out.append((p + (i,), dict(f["elem"], rand=bool(f.get("rand")), _list=True)))
                out.append((p + ("size",), {"kind": "scalar", "w": 32, "sg": False, "rand": bool(f.get("randsz")), "_size": True}))
        return out

    def leaf_model(self, obj, path):
        with vsc.raw_mode():
            for k, n in enumerate(path):
                if isinstance(n, int) and k < len(path) - 1:
                    obj = obj[n]            # an element of a list of objects
                    continue
                if isinstance(n, int):
                    return obj.get_model().field_l[n]
                if n == "size" and hasattr(obj, "get_model") and hasattr(obj.get_model(), "size") and k == len(path) - 1:
                    return obj.get_model().size
                obj = getattr(obj, n)
            return obj.get_model()

    def read_leaf(self, obj, path, f):
        m = self.leaf_model(obj, path)
        v = int(m.get_val())
        if f["kind"] == "enum":
            vals = self.sc["enums"][f["enum"]]
            return vals.index(v) if v in vals else -1
        if f.get("_list"):
            # element assignment stores the unsigned pattern; the public read re-interprets it by the element type
            w = f["w"]
            v &= (1 << w) - 1
            if f["sg"] and v >= (1 << (w - 1)):
                v -= 1 << w
        return v

    def snapshot_obj(self, obj):
        return [self.read_leaf(obj, p, f) for p, f in self.leaves(obj)]

    def list_views(self, obj, prefix=()):
        """what every list exposes: len(), size attribute, iteration, indexing"""
        out = {}
        for f in self.all_fields(type(obj).__name__):
            if f["kind"] == "list" and f["elem"]["kind"] == "scalar":
                lst = getattr(obj, f["name"])
                n = len(lst)
                try:
                    idx = [int(lst[i]) for i in range(n)]
                except Exception as e:  # noqa
                    idx = "exc:" + type(e).__name__
                try:
                    it = [int(x) for x in lst]
                except Exception as e:  # noqa
                    it = "exc:" + type(e).__name__
                try:
                    # the other read paths: membership and the printed form
                    extra = {"contains_all": all((v in lst) for v in it) if isinstance(it, list) else None, "str": str(lst)}
                except Exception as e:  # noqa
                    extra = {"contains_all": None, "str": "exc:" + type(e).__name__}
                out[".".join(prefix + (f["name"],))] = dict({"len": n, "size": int(lst.size), "iter": it, "index": idx,
                                                             "model_len": len(lst.get_model().field_l)}, **extra)
            elif f["kind"] == "obj":
                with vsc.raw_mode():
                    sub = getattr(obj, f["name"])
                out.update(self.list_views(sub, prefix + (f["name"],)))
        return out

    def number_objects(self, obj, counter=None):
        """pre-order numbering of the composite objects below obj (same order as solvegen.Lits.world)"""
        if counter is None:
            counter = [0]
            self.oids = {}
        self.oids[id(obj)] = counter[0]
        counter[0] += 1
        for f in self.all_fields(type(obj).__name__):
            if f["kind"] == "obj":
                with vsc.raw_mode():
                    sub = getattr(obj, f["name"])
                self.number_objects(sub, counter)
            elif f["kind"] == "olist":
                with vsc.raw_mode():
                    lst = getattr(obj, f["name"])
                for i in range(f["n"]):
                    self.number_objects(lst[i], counter)

    def register_fields(self, obj):
        """map the scalar/enum field models of obj (flat order of leaves) to harness ids"""
        self.number_objects(obj)
        btor_proxy.FIELD_ID.clear()
        for i, (p, f) in enumerate(self.leaves(obj)):
            btor_proxy.FIELD_ID[id(self.leaf_model(obj, p))] = i

    def global_state(self):
        from vsc.impl import ctor, expr_mode as em
        st = {}
        for n in ("expr_l", "constraint_scope_stack", "srcinfo_mode_s", "foreach_arr_s"):
            v = getattr(ctor, n, None)
            st[n] = len(v) if v is not None else None
        for n in ("_expr_mode", "_raw_mode"):
            st[n] = getattr(em, n, None) if not callable(getattr(em, n, None)) else None
        return st

    def busy(self):
        def overrides(c, seen_c):
            if id(c) in seen_c:
                return 0
            seen_c.add(id(c))
            n = 1 if type(c).__name__ == "ConstraintOverrideModel" else 0
            for x in getattr(c, "constraint_l", []) or []:
                n += overrides(x, seen_c)
            for attr in ("true_c", "false_c", "new_constraint", "orig_constraint"):
                x = getattr(c, attr, None)
                if x is not None:
                    n += overrides(x, seen_c)
            return n
        return self.busy_(overrides)

    def busy_(self, overrides):
        """field models that - with no call in progress - are still flagged as solved-for or still hold a solver node
        (every object the scenario created; names as the library prints them)"""
        out = []
        seen = set()

        def walk(m):
            if id(m) in seen:
                return
            seen.add(id(m))
            if getattr(m, "is_used_rand", False):
                out.append("used_rand:" + str(getattr(m, "fullname", getattr(m, "name", "?"))))
            if getattr(m, "var", None) is not None:
                out.append("var:" + str(getattr(m, "fullname", getattr(m, "name", "?"))))
            # temporary rewrites of the constraint tree (foreach / dist expansions) still installed in a block of the object,
            # dynamic blocks included
            for cm in list(getattr(m, "constraint_model_l", []) or []) + list(getattr(m, "constraint_dynamic_model_l", []) or []):
                if overrides(cm, set()):
                    out.append("override:%s.%s" % (getattr(m, "name", "?"), getattr(cm, "name", "?")))
            for f in getattr(m, "field_l", []) or []:
                walk(f)
            sz = getattr(m, "size", None)
            if sz is not None and hasattr(sz, "is_used_rand"):
                walk(sz)
        for o in self.vars.values():
            try:
                walk(o.get_model())
            except Exception:  # noqa
                pass
        return out[:12]

    def run_op(self, op):
        r = self.run_op_(op)
        if isinstance(r, dict):
            r["busy"] = self.busy()
        return r

    def run_op_(self, op):
        k = op["op"]
        if k == "new":
            o = self.ns[op["cls"]]()
            self.vars[op["var"]] = o
            return {"values": self.snapshot_obj(o)}
        o = self.vars[op["var"]]
        if k == "set":
            self.assign(o, op["path"], op["value"])
            return {"values": self.snapshot_obj(o)}
        if k == "l_append":
            self.resolve(o, op["path"]).append(op["value"])
            return {"values": self.snapshot_obj(o), "lists": self.list_views(o)}
        if k == "l_selfassign":
            # o.l = o.l : must leave the list as it is
            path = op["path"]
            tgt = self.resolve(o, path[:-1])
            with vsc.raw_mode():
                cur = getattr(tgt, path[-1])
            setattr(tgt, path[-1], cur)
            return {"values": self.snapshot_obj(o), "lists": self.list_views(o)}
        if k == "l_clear":
            self.resolve(o, op["path"]).clear()
            return {"values": self.snapshot_obj(o), "lists": self.list_views(o)}
        if k == "l_set":
            self.resolve(o, op["path"])[op["index"]] = op["value"]
            return {"values": self.snapshot_obj(o), "lists": self.list_views(o)}
        if k == "rand_mode":
            with vsc.raw_mode():
                fo = self.resolve(o, op["path"])
            fo.rand_mode = op["on"]
            return {}
        if k == "cmode":
            getattr(self.resolve(o, op.get("path", [])), op["block"]).constraint_mode(op["on"])
            return {}
        if k in ("rl_append", "rl_extend", "rl_clear"):
            rl = object.__getattribute__(o, op["rl"])
            conv = lambda it: eval(rl_item_src(it), {"vsc": vsc})
            if k == "rl_clear":
                rl.clear()
            elif k == "rl_append":
                rl.append(conv(op["items"][0]))
            else:
                rl.extend([conv(it) for it in op["items"]])
            return {}
        if k == "arm_append":
            self.append_armed = True
            return {}
        if k == "seed":
            o.set_randstate(vsc.RandState.mkFromSeed(op["seed"]) if hasattr(vsc.RandState, "mkFromSeed") else vsc.RandState(op["seed"]))
            return {}
        if k == "randomize":
            self.register_fields(o)
            btor_proxy.take_log()
            btor_proxy.take_orders()
            btor_proxy.DOMAINS.clear()
            del self.hook_log[:]
            before = self.snapshot_obj(o)
            leaves_before = [list(p) for p, _ in self.leaves(o)]
            out = "ok"
            err = None
            try:
                if op.get("free") is not None:
                    with vsc.raw_mode():
                        fs = [self.resolve(o, p) for p in op["free"]]
                    if op.get("inline") is not None:
                        src = "def _inl(o, fs):\n    with vsc.randomize_with(*fs):\n" + "\n".join(stmts_src(op["inline"], "o", 2)) + "\n"
                        ns = dict(self.ns)
                        exec(src, ns)
                        ns["_inl"](o, fs)
                    else:
                        vsc.randomize(*fs)
                elif op.get("inline") is not None:
                    src = "def _inl(o):\n    with o.randomize_with() as it:\n" + "\n".join(stmts_src(op["inline"], "it", 2)) + "\n"
                    ns = dict(self.ns)
                    exec(src, ns)
                    ns["_inl"](o)
                else:
                    o.randomize()
            except vsc.SolveFailure:
                out = "SolveFailure"
            except Exception as e:  # noqa
                out = "exc:" + type(e).__name__
                err = (str(e)[:200] + " | " + traceback.format_exc()[-700:])
            return {"outcome": out, "err": err, "before": before, "values": self.snapshot_obj(o),
                    "log": btor_proxy.take_log(), "orders": btor_proxy.take_orders(), "hooks": list(self.hook_log), "state": self.global_state(),
                    "domains": {str(k): v for k, v in btor_proxy.DOMAINS.items()},
                    "leaves_before": leaves_before, "leaves_after": [list(p) for p, _ in self.leaves(o)],
                    "lists": self.list_views(o)}
        raise Exception("unknown op " + k)


def run(sc):
    from vsc.impl import ctor
    import random
    import zlib
    # objects draw their random state from Python's global generator: fix it per scenario so that every run replays exactly
    random.seed(zlib.crc32(json.dumps(sc, sort_keys=True).encode()))
    ctor.test_setup()
    btor_proxy.install()
    env = Env(sc)
    res = []
    for op in sc["ops"]:
        res.append(env.run_op(op))
    return {"ops": res}


def main():
    data = json.load(sys.stdin)
    out = []
    for sc in data["cases"]:
        try:
            out.append(run(sc))
        except Exception as e:
            out.append({"crash": type(e).__name__ + ": " + str(e)[:300] + traceback.format_exc()[-1200:]})
    print(json.dumps({"results": out}, default=lambda o: int(o)))


if __name__ == "__main__":
    main()
