"""Implementation side of C10: build a real covergroup from a spec, sample, read the counters."""
import json
import sys
from enum import IntEnum

import vsc


def items(l, as_tuple=False):
    out = []
    for it in l:
        if isinstance(it, list):
            out.append(tuple(it) if as_tuple else list(it))
        else:
            out.append(it)
    return out


def mk_type(case):
    w, sg = case["width"], case["signed"]
    return vsc.int_t(w) if sg else vsc.bit_t(w)


def build(case):
    kw = {}
    if case["kind"] == "bins":
        bins = {}
        for i, b in enumerate(case["bins"]):
            if b[0] == "bin":
                bins["b%d" % i] = vsc.bin(*items(b[1]))
            else:
                n = [] if b[1] is None else ([b[1]] if b[3] else b[1])
                bins["b%d" % i] = vsc.bin_array(n, *items(b[2]))
        kw["bins"] = bins
    if case["ignore"]:
        kw["ignore_bins"] = {"ig%d" % i: vsc.bin(*items(b, True)) for i, b in enumerate(case["ignore"])}
    if case["illegal"]:
        kw["illegal_bins"] = {"il%d" % i: vsc.bin(*items(b, True)) for i, b in enumerate(case["illegal"])}
    # where the auto-bin limit is given: on the coverpoint, on the covergroup (the coverpoint inherits it), or on both
    # (the coverpoint's wins); the coverpoint may carry other options of its own
    at = case.get("abm_at", "cp")
    if case["kind"] == "auto":
        o = dict(case.get("cp_opts") or {})
        if at in ("cp", "both"):
            o["auto_bin_max"] = case["auto_bin_max"]
        if o:
            kw["options"] = o
    enum_t = None
    if case["kind"] == "enum":
        enum_t = IntEnum("E", {"e%d" % i: v for i, v in enumerate(case["enum"])})

    @vsc.covergroup
    class cg(object):
        def __init__(self):
            if case["kind"] == "auto" and at == "cg":
                self.options.auto_bin_max = case["auto_bin_max"]
            elif case["kind"] == "auto" and at == "both":
                self.options.auto_bin_max = case["auto_bin_max"] + 3
            if enum_t is not None:
                self.with_sample(dict(a=vsc.enum_t(enum_t), en=vsc.bit_t(1)))
            else:
                self.with_sample(dict(a=mk_type(case), en=vsc.bit_t(1)))
            self.cp = vsc.coverpoint(self.a, iff=self.en, **kw)
    return cg(), enum_t


def run(case):
    try:
        c, enum_t = build(case)
    except Exception as e:
        return {"err": type(e).__name__ + ": " + str(e)[:200]}
    m = c.get_model().coverpoint_l[0]
    for v, g in case["samples"]:
        if enum_t is not None:
            c.sample(enum_t(v), 1 if g else 0)
        else:
            c.sample(v, 1 if g else 0)
    return {"hits": [m.get_bin_hits(i) for i in range(m.get_n_bins())],
            "ignore": [m.get_ignore_bin_hits(i) for i in range(m.get_n_ignore_bins())],
            "illegal": [m.get_illegal_bin_hits(i) for i in range(m.get_n_illegal_bins())]}


def main():
    data = json.load(sys.stdin)
    out = []
    for case in data["cases"]:
        try:
            out.append(run(case))
        except Exception as e:
            import traceback
            out.append({"crash": type(e).__name__ + ": " + str(e)[:300] + traceback.format_exc()[-600:]})
    print(json.dumps({"results": out}))


main()
