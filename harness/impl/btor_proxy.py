"""Recording proxy around pyboolector.Boolector (attached from the harness, guard PYVSC_VERIF=1).

Forwards every call to the real solver and logs every term as an AST and every Assume/Assert/Sat with
its answer.  Installed by replacing the module attribute vsc.model.randomizer.Boolector and wrapping
FieldScalarModel.build so that variables / constants carry the identity of their field."""
import os

import pyboolector

DOMAINS = {}        # harness field index -> inferred domain [[lo, hi], ...] of the last call
LOG = []            # events of the current call: ["new"], ["assume", ast], ["assert", ast], ["sat", bool]
ORDER_M = [None]    # the dependency map of the RandInfoBuilder at work (C20 ordering tie)
ORDERS = []         # per Randomizer.randomize call: {"deps": [[after, [before...]]...], "sets": [[fields, groups|None]...]}
FIELD_ID = {}       # id(field model) -> harness field index


class PNode(object):
    __slots__ = ("node", "ast")

    def __init__(self, node, ast):
        self.node = node
        self.ast = ast

    @property
    def width(self):
        return self.node.width

    @property
    def assignment(self):
        return self.node.assignment


def _n(x):
    return x.node if isinstance(x, PNode) else x


def _a(x):
    return x.ast if isinstance(x, PNode) else ["raw", repr(x)]


BIN = ["Eq", "Ne", "Ult", "Ulte", "Ugt", "Ugte", "Slt", "Slte", "Sgt", "Sgte", "Add", "Sub", "Mul", "Udiv", "Urem",
       "Sdiv", "Srem", "Xor", "Sll", "Srl", "Sra", "Implies"]


class PBoolector(object):
    def __init__(self, *a, **k):
        self._b = pyboolector.Boolector(*a, **k)
        self._nvar = 0
        self.SAT = self._b.SAT
        self.UNSAT = self._b.UNSAT
        self.UNKNOWN = self._b.UNKNOWN
        LOG.append(["new"])

    def Set_opt(self, *a):
        return self._b.Set_opt(*a)

    def BitVecSort(self, w):
        return self._b.BitVecSort(w)

    def Var(self, sort, *a):
        n = self._b.Var(sort, *a)
        k = self._nvar
        self._nvar += 1
        return PNode(n, ["var", k, n.width])

    def Const(self, v, w=None):
        if w is None:
            n = self._b.Const(v)
            return PNode(n, ["const", int(v) if not isinstance(v, str) else v, n.width])
        n = self._b.Const(v, w)
        return PNode(n, ["const", int(v), w])

    def And(self, *l):
        n = self._b.And(*[_n(x) for x in l])
        ast = _a(l[0])
        for x in l[1:]:
            ast = ["op", "And", ast, _a(x)]
        return PNode(n, ast)

    def Or(self, *l):
        n = self._b.Or(*[_n(x) for x in l])
        ast = _a(l[0])
        for x in l[1:]:
            ast = ["op", "Or", ast, _a(x)]
        return PNode(n, ast)

    def Not(self, a):
        return PNode(self._b.Not(_n(a)), ["not", _a(a)])

    def Sext(self, a, k):
        return PNode(self._b.Sext(_n(a), k), ["sext", _a(a), k])

    def Uext(self, a, k):
        return PNode(self._b.Uext(_n(a), k), ["uext", _a(a), k])

    def Slice(self, a, hi, lo):
        return PNode(self._b.Slice(_n(a), int(hi), int(lo)), ["slice", _a(a), int(hi), int(lo)])

    def Cond(self, c, a, b):
        return PNode(self._b.Cond(_n(c), _n(a), _n(b)), ["cond", _a(c), _a(a), _a(b)])

    def Assume(self, *l):
        for x in l:
            LOG.append(["assume", _a(x)])
        return self._b.Assume(*[_n(x) for x in l])

    def Assert(self, *l):
        for x in l:
            LOG.append(["assert", _a(x)])
        return self._b.Assert(*[_n(x) for x in l])

    def Sat(self, *a, **k):
        r = self._b.Sat(*a, **k)
        LOG.append(["sat", r == self._b.SAT])
        return r

    def __getattr__(self, name):
        if name in BIN:
            f = getattr(self._b, name)

            def call(a, b):
                return PNode(f(_n(a), _n(b)), ["op", name, _a(a), _a(b)])
            return call
        raise AttributeError("btor_proxy: Boolector.%s is not covered by the recording proxy" % name)


def install():
    """Attach the proxy (idempotent)."""
    import vsc.model.randomizer as rz
    from vsc.model.field_scalar_model import FieldScalarModel
    if getattr(rz, "_pv_installed", False):
        return
    rz.Boolector = PBoolector
    orig = FieldScalarModel.build

    def build(self, btor):
        fresh = self.var is None
        r = orig(self, btor)
        if fresh and isinstance(r, PNode):
            fid = FIELD_ID.get(id(self), -1)
            if self.is_used_rand:
                r.ast = ["fvar", fid, self.width]
            else:
                r.ast = ["fconst", fid, int(self.val.v), self.width]
        return r
    FieldScalarModel.build = build
    orig_rand = rz.Randomizer.randomize

    import vsc.visitors.expand_solve_order_visitor as esv
    orig_esv_init = esv.ExpandSolveOrderVisitor.__init__

    def esv_init(self, order_m=None, lhs=True):
        orig_esv_init(self, order_m, lhs)
        ORDER_M[0] = self.order_m          # the builder's dependency map (filled in place while the declarations are expanded)
    esv.ExpandSolveOrderVisitor.__init__ = esv_init

    def randomize(self, ri, bound_m):
        # ordering tie (C20): the dependency map and, per rand set, its fields and the groups the code derived from them
        fid_of = lambda f: FIELD_ID.get(id(f), -1)
        om = ORDER_M[0] or {}
        ORDER_M[0] = None
        try:
            ORDERS.append({"deps": [[fid_of(a), sorted(fid_of(b) for b in bs)] for a, bs in om.items()],
                           "sets": [[[fid_of(f) for f in rs.fields()],
                                     None if rs.rand_order_l is None else [[fid_of(f) for f in g] for g in rs.rand_order_l]]
                                    for rs in ri.randsets()]})
        except Exception as e:     # noqa - never let the observation change the call
            ORDERS.append({"error": repr(e)})
        DOMAINS.clear()
        for f, b in bound_m.items():
            fid = FIELD_ID.get(id(f), -1)
            if fid >= 0:
                DOMAINS[fid] = [[int(r[0]), int(r[1])] for r in b.domain.range_l]
        return orig_rand(self, ri, bound_m)
    rz.Randomizer.randomize = randomize
    rz._pv_installed = True


def take_orders():
    ORDER_M[0] = None       # a map left behind by a call that raised before it reached the solver is not the next call's
    l = ORDERS[:]
    del ORDERS[:]
    return l


def take_log():
    global LOG
    l = LOG[:]
    del LOG[:]
    return l
