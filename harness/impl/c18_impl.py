"""Implementation side of C18: every value access path of real fields / lists, enumerated in a fixed order
(the Coq side enumerates the same inputs in the same order, see coq/Val/AccessCheck.v)."""
import json
import sys
from enum import IntEnum

import vsc

XS = [0, 1, 2, 3, 5, -1, -2]


def mk_t(w, sg, i=0):
    return vsc.int_t(w, i=i) if sg else vsc.bit_t(w, i=i)


def mk_obj(w, sg):
    @vsc.randobj
    class O(object):
        def __init__(self):
            self.f = vsc.rand_int_t(w) if sg else vsc.rand_bit_t(w)
            self.l = vsc.list_t(mk_t(w, sg))
    return O()


def set_paths(w, sg, v, obj):
    r = []
    t = mk_t(w, sg); t.set_val(v); r.append(int(t.get_val()))
    t = mk_t(w, sg); t.set_val(v); r.append(int(t.val))
    t = mk_t(w, sg); t.val = v; r.append(int(t.get_val()))
    t = mk_t(w, sg, i=v); r.append(int(t.get_val()))
    obj.f = v; r.append(int(obj.f))
    obj.l.clear(); obj.l.append(v); r.append(int(obj.l[0]))
    r.append([int(x) for x in obj.l][0])
    obj.l[0] = v; r.append(int(obj.l[0]))
    obj.l.extend([0, v]); r.append(int(obj.l[2]))
    l2 = vsc.list_t(mk_t(w, sg), init=[v]); r.append(int(l2[0]))
    return r


def run(case):
    w, sg = case["w"], case["signed"]
    lo_t, hi_t = (-(1 << (w - 1)), (1 << (w - 1)) - 1) if sg else (0, (1 << w) - 1)
    obj = mk_obj(w, sg)
    out = {"set": [], "read": [], "write": []}
    for v in range(-(1 << (w + 1)), (1 << (w + 1)) + 1):
        out["set"].extend(set_paths(w, sg, v, obj))
    step = case["cur_step"]
    for cur in range(lo_t, hi_t + 1, step):
        t = mk_t(w, sg, i=cur)
        for hi in range(w):
            for lo in range(hi + 1):
                out["read"].append(int(t[hi:lo]))
        for k in range(w):
            out["read"].append(int(t[k]))
    for cur in range(lo_t, hi_t + 1, step):
        for hi in range(w):
            for lo in range(hi + 1):
                n = hi - lo + 1
                for x in XS + [(1 << n) - 1, 1 << n]:
                    t = mk_t(w, sg, i=cur)
                    t[hi:lo] = x
                    out["write"].append(int(t.get_val()))
        for k in range(w):
            for x in XS:
                t = mk_t(w, sg, i=cur)
                t[k] = x
                out["write"].append(int(t.get_val()))
    return out


def run_enum(case):
    vals = case["enum"]
    E = IntEnum("E", {"m%d" % i: v for i, v in enumerate(vals)})
    members = list(E)
    res = []
    for k, m in enumerate(members):
        f = vsc.enum_t(E)
        f.get_model()
        f.set_val(m)
        got = f.get_val()
        stored = int(f.get_model().get_val())
        l = vsc.list_t(vsc.enum_t(E))
        l.append(m)
        it0 = [x for x in l][0]
        init = vsc.enum_t(E, m).get_val()            # the initial value given to the constructor
        res.append([members.index(got), stored, members.index(l[0]), members.index(it0) if it0 in members else -1,
                    members.index(init) if init in members else -1])
    return {"enum": res}


def main():
    data = json.load(sys.stdin)
    out = []
    for case in data["cases"]:
        try:
            out.append(run_enum(case) if "enum" in case else run(case))
        except Exception as e:
            import traceback
            out.append({"crash": type(e).__name__ + ": " + str(e)[:300] + traceback.format_exc()[-800:]})
    print(json.dumps({"results": out}))


main()
