"""Implementation side of C13: in-memory coverage state vs report model, text report and saved XML."""
import json
import os
import re
import sys
import tempfile
from fractions import Fraction

import vsc
from cov_common import cg_class, quiet, sample, reset_registry


def frac(x):
    f = Fraction(float(x))
    return [f.numerator, f.denominator]


def held(bin_models, hits):
    """names and counts as held by the bin objects and counter lists themselves (not through the index-lookup getters the
    report code uses)"""
    names = [b.get_bin_name(k) for b in bin_models for k in range(b.get_n_bins())]
    hits = list(hits)
    if len(names) != len(hits):
        return [["<%d names, %d counters>" % (len(names), len(hits)), -1]]
    return [[n, h] for n, h in zip(names, hits)]


def item_recs(m):
    out = []
    for cp in m.coverpoint_l:
        out.append({"name": cp.name, "cross": False, "weight": cp.options.weight, "at_least": cp.options.at_least,
                    "bins": held(cp.bin_model_l, cp.hit_l),
                    "ignore": held(cp.ignore_bin_model_l, cp.hit_ignore_l),
                    "illegal": held(cp.illegal_bin_model_l, cp.hit_illegal_l)})
    for cr in m.cross_l:
        out.append({"name": cr.name, "cross": True, "weight": cr.options.weight, "at_least": cr.options.at_least,
                    "bins": [[cr.get_bin_name(i), cr.get_bin_hits(i)] for i in range(cr.get_n_bins())],
                    "ignore": [], "illegal": []})
    return out


def mem_state(insts):
    """the coverage held in memory, reached from the instances the scenario created (not through the registry's own listing):
    type covergroups grouped by covergroup class in order of first registration, parameter variants in order of creation"""
    groups = {}
    order = []
    for cls_id, inst in insts:
        t = inst.get_model().type_cg
        if cls_id not in groups:
            groups[cls_id] = []
            order.append(cls_id)
        if not any(t is x for x in groups[cls_id]):
            groups[cls_id].append(t)
    types = []
    covs = []
    for t in [t for c in order for t in groups[c]]:
        types.append({"cg": {"name": t.typename, "weight": t.options.weight, "items": item_recs(t)},
                      "insts": [{"name": i.instname if i.instname is not None else i.name, "weight": 1,
                                 "items": item_recs(i)} for i in t.cg_inst_l]})
        covs.append([frac(quiet(t.get_coverage)), [frac(quiet(i.get_inst_coverage)) for i in t.cg_inst_l]])
    return types, covs


def tree_of_report(rpt):
    def cg(g):
        items = []
        for cp in g.coverpoints:
            items.append({"name": cp.name, "cross": False, "weight": cp.weight, "cov": frac(cp.coverage),
                          "bins": [[b.name, b.count] for b in cp.bins], "ignore": [[b.name, b.count] for b in cp.ignore_bins],
                          "illegal": [[b.name, b.count] for b in cp.illegal_bins]})
        for cr in g.crosses:
            items.append({"name": cr.name, "cross": True, "weight": cr.weight, "cov": frac(cr.coverage),
                          "bins": [[b.name, b.count] for b in cr.bins], "ignore": [], "illegal": []})
        return {"name": g.name, "weight": g.weight, "cov": frac(g.coverage), "items": items}
    return [{"cg": cg(g), "insts": [cg(i) for i in g.covergroups]} for g in rpt.covergroups]


def tree_of_text(txt):
    types = []
    cur_cg = None
    cur_item = None
    section = None
    for line in txt.splitlines():
        s = line.strip()
        if not s:
            continue
        m = re.match(r"^(TYPE|INST) (.*) : ([-0-9.]+)%$", s)
        if m:
            cur_cg = {"name": m.group(2), "weight": 0, "cov": frac(float(m.group(3))), "items": []}
            if m.group(1) == "TYPE":
                types.append({"cg": cur_cg, "insts": []})
            else:
                types[-1]["insts"].append(cur_cg)
            continue
        m = re.match(r"^(CVP|CROSS) (.*) : ([-0-9.]+)%$", s)
        if m:
            cur_item = {"name": m.group(2), "cross": m.group(1) == "CROSS", "weight": 0, "cov": frac(float(m.group(3))),
                        "bins": [], "ignore": [], "illegal": []}
            cur_cg["items"].append(cur_item)
            continue
        if s in ("Bins:", "IgnoreBins:", "IllegalBins:"):
            section = {"Bins:": "bins", "IgnoreBins:": "ignore", "IllegalBins:": "illegal"}[s]
            continue
        m = re.match(r"^(.*) : (-?\d+)$", s)
        if m:
            cur_item[section].append([m.group(1), int(m.group(2))])
            continue
        raise Exception("unparsed report line: %r" % line)
    return types


def run(case):
    reset_registry()
    insts = []
    made = []
    for op in case["ops"]:
        if op[0] == "new":
            insts.append(quiet(cg_class(op[1]), case["params"][op[2]]))
            made.append((op[1], insts[-1]))
        elif op[0] == "report":
            # a report / save in the middle of the history
            quiet(vsc.get_coverage_report_model)
            quiet(vsc.get_coverage_report, True)
            fd, path = tempfile.mkstemp(suffix=".xml", dir=".")
            os.close(fd)
            try:
                quiet(vsc.write_coverage_db, path)
            finally:
                os.unlink(path)
        else:
            quiet(sample, insts[op[1]], op[2], op[3] if len(op) > 3 else 1)
    before, covs = mem_state(made)
    rpt = quiet(vsc.get_coverage_report_model)
    txt = quiet(vsc.get_coverage_report, True)
    fd, path = tempfile.mkstemp(suffix=".xml", dir=".")
    os.close(fd)
    try:
        quiet(vsc.write_coverage_db, path)
        from ucis.xml.xml_factory import XmlFactory
        from ucis.report.coverage_report_builder import CoverageReportBuilder
        xrpt = quiet(lambda: CoverageReportBuilder.build(XmlFactory.read(path)))
    finally:
        os.unlink(path)
    after, _ = mem_state(made)
    return {"before": before, "covs": covs, "report": tree_of_report(rpt), "text": tree_of_text(txt),
            "xml": tree_of_report(xrpt), "after": after}


def main():
    data = json.load(sys.stdin)
    out = []
    for case in data["cases"]:
        try:
            out.append(run(case))
        except Exception as e:
            import traceback
            out.append({"crash": type(e).__name__ + ": " + str(e)[:300] + traceback.format_exc()[-900:]})
    print(json.dumps({"results": out}))


main()
