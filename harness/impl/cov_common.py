"""Shared helpers of the coverage implementation workers: build real covergroup classes from JSON specs."""
import contextlib
import io
from enum import IntEnum

import vsc


def items(l, as_tuple=False):
    return [(tuple(it) if as_tuple else list(it)) if isinstance(it, list) else it for it in l]


def cp_kwargs(cp):
    kw = {}
    opts = {}
    if cp["kind"] == "bins":
        bins = {}
        for i, b in enumerate(cp["bins"]):
            if b[0] == "bin":
                bins["b%d" % i] = vsc.bin(*items(b[1]))
            else:
                n = [] if b[1] is None else [b[1]]
                bins["a%d" % i] = vsc.bin_array(n, *items(b[2]))
        kw["bins"] = bins
    if cp.get("ignore"):
        kw["ignore_bins"] = {"ig%d" % i: vsc.bin(*items(b, True)) for i, b in enumerate(cp["ignore"])}
    if cp.get("illegal"):
        kw["illegal_bins"] = {"il%d" % i: vsc.bin(*items(b, True)) for i, b in enumerate(cp["illegal"])}
    if cp["kind"] == "auto" and cp.get("auto_bin_max") is not None:
        opts["auto_bin_max"] = cp["auto_bin_max"]
    if cp.get("at_least") is not None:
        opts["at_least"] = cp["at_least"]
    if cp.get("weight") is not None:
        opts["weight"] = cp["weight"]
    if opts:
        kw["options"] = opts
    return kw


_classes = {}


def cg_class(name):
    """One covergroup class per name; its constructor takes the parameter record."""
    if name in _classes:
        return _classes[name]

    def __init__(self, param):
        cps = param["cps"]
        d = {}
        self._enums = []
        for j, cp in enumerate(cps):
            if cp["kind"] == "enum":
                e = IntEnum("E%d" % j, {"e%d" % i: v for i, v in enumerate(cp["enum"])})
                self._enums.append(e)
                d["v%d" % j] = vsc.enum_t(e)
            else:
                self._enums.append(None)
                d["v%d" % j] = vsc.int_t(cp["width"]) if cp["signed"] else vsc.bit_t(cp["width"])
        for k, v in (param.get("cg_options") or {}).items():
            if v is not None:
                setattr(self.options, k, v)
        d["en"] = vsc.bit_t(1)          # gate of the crosses that are declared with an iff
        self.with_sample(d)
        cpl = []
        for j, cp in enumerate(cps):
            c = vsc.coverpoint(getattr(self, "v%d" % j), **cp_kwargs(cp))
            setattr(self, "cp%d" % j, c)
            cpl.append(c)
        for xi, x in enumerate(param.get("crosses", [])):
            xo = {}
            if x.get("at_least") is not None:
                xo["at_least"] = x["at_least"]
            if x.get("weight") is not None:
                xo["weight"] = x["weight"]
            kw = {"iff": self.en} if x.get("iff") else {}
            setattr(self, "x%d" % xi, vsc.cross([cpl[j] for j in x["cps"]], options=xo if xo else None, **kw))
    cls = vsc.covergroup(type(name, (object,), {"__init__": __init__}))
    _classes[name] = cls
    return cls


def quiet(f, *a, **k):
    with contextlib.redirect_stdout(io.StringIO()):
        return f(*a, **k)


def sample(inst, vals, en=1):
    args = []
    for j, v in enumerate(vals):
        e = inst._enums[j]
        args.append(e(v) if e is not None else v)
    inst.sample(*args, en)


def item_models(m):
    return list(m.coverpoint_l) + list(m.cross_l)


def hits_of(m):
    return [[it.get_bin_hits(i) for i in range(it.get_n_bins())] for it in item_models(m)]


def reset_registry():
    from vsc.impl import ctor
    ctor.test_setup()
