"""Implementation side of C11: covergroup with 2-3 coverpoints and a cross; per-sample hit deltas."""
import json
import sys
from enum import IntEnum

import vsc


def items(l, as_tuple=False):
    return [(tuple(it) if as_tuple else list(it)) if isinstance(it, list) else it for it in l]


def cp_kwargs(cp):
    kw = {}
    if cp["kind"] == "bins":
        bins = {}
        for i, b in enumerate(cp["bins"]):
            if b[0] == "bin":
                bins["b%d" % i] = vsc.bin(*items(b[1]))
            else:
                n = [] if b[1] is None else [b[1]]
                bins["a%d" % i] = vsc.bin_array(n, *items(b[2]))
        kw["bins"] = bins
    if cp["ignore"]:
        kw["ignore_bins"] = {"ig%d" % i: vsc.bin(*items(b, True)) for i, b in enumerate(cp["ignore"])}
    if cp["illegal"]:
        kw["illegal_bins"] = {"il%d" % i: vsc.bin(*items(b, True)) for i, b in enumerate(cp["illegal"])}
    if cp["kind"] == "auto":
        kw["options"] = dict(auto_bin_max=cp["auto_bin_max"])
    return kw


def build(case):
    cps = case["cps"]
    n = len(cps)
    enums = [IntEnum("E%d" % j, {"e%d" % i: v for i, v in enumerate(cp["enum"])}) if cp["kind"] == "enum" else None
             for j, cp in enumerate(cps)]

    @vsc.covergroup
    class cg(object):
        def __init__(self):
            d = {}
            for j, cp in enumerate(cps):
                if enums[j] is not None:
                    d["v%d" % j] = vsc.enum_t(enums[j])
                else:
                    d["v%d" % j] = vsc.int_t(cp["width"]) if cp["signed"] else vsc.bit_t(cp["width"])
                d["g%d" % j] = vsc.bit_t(1)
            d["gx"] = vsc.bit_t(1)
            self.with_sample(d)
            cpl = []
            for j, cp in enumerate(cps):
                kw = cp_kwargs(cp)
                if case["iff_kind"][j] == "field":
                    kw["iff"] = getattr(self, "g%d" % j)
                elif case["iff_kind"][j] == "lambda":
                    kw["iff"] = (lambda jj: (lambda: int(getattr(self, "g%d" % jj)) == 1))(j)
                c = vsc.coverpoint(getattr(self, "v%d" % j), **kw)
                setattr(self, "cp%d" % j, c)
                cpl.append(c)
            xkw = {}
            if case["iff_kind"][n] == "field":
                xkw["iff"] = self.gx
            self.x = vsc.cross(cpl, **xkw)
    return cg(), enums


def run(case):
    try:
        c, enums = build(case)
    except Exception as e:
        return {"err": type(e).__name__ + ": " + str(e)[:200]}
    m = c.get_model()
    cpms = m.coverpoint_l
    xm = m.cross_l[0]
    n = len(cpms)

    def snap():
        return [[cp.get_bin_hits(i) for i in range(cp.get_n_bins())] for cp in cpms], \
               [xm.get_bin_hits(i) for i in range(xm.get_n_bins())]

    def delta(a, b):
        out = []
        for i, (x, y) in enumerate(zip(a, b)):
            out.extend([i] * (y - x))
        return out
    prev_cp, prev_x = snap()
    cpd, xd = [], []
    for s in case["samples"]:
        args = []
        for j in range(n):
            v, g = s["vals"][j]
            args.append(enums[j](v) if enums[j] is not None else v)
            args.append(1 if g else 0)
        args.append(1 if s["iff"] else 0)
        c.sample(*args)
        cur_cp, cur_x = snap()
        cpd.append([delta(a, b) for a, b in zip(prev_cp, cur_cp)])
        xd.append(delta(prev_x, cur_x))
        prev_cp, prev_x = cur_cp, cur_x
    return {"cp_names": [[cp.get_bin_name(i) for i in range(cp.get_n_bins())] for cp in cpms],
            "x_names": [xm.get_bin_name(i) for i in range(xm.get_n_bins())],
            "cp_deltas": cpd, "x_deltas": xd}


def main():
    data = json.load(sys.stdin)
    out = []
    for case in data["cases"]:
        try:
            out.append(run(case))
        except Exception as e:
            import traceback
            out.append({"crash": type(e).__name__ + ": " + str(e)[:300] + traceback.format_exc()[-800:]})
    print(json.dumps({"results": out}))


main()
