"""C03, lists inside sub-objects: a call on the parent changes a sub-object's lists (content AND length) only when the
sub-object is random in that call.  Public API only; the oracle is the frame rule itself (no model behind it)."""
import json
import os
import random
import sys
import zlib

sys.path.insert(0, os.path.dirname(os.path.abspath(__file__)))
import vsc  # noqa: E402


def build(sc):
    src = ["@vsc.randobj", "class _S(object):", "    def __init__(self):", "        self.x = vsc.rand_bit_t(4)", "        self.k = vsc.bit_t(4)"]
    for i, l in enumerate(sc["lists"]):
        if l["kind"] == "randsz":
            src.append("        self.l%d = vsc.randsz_list_t(vsc.bit_t(4))" % i)
        elif l["rand"]:
            src.append("        self.l%d = vsc.rand_list_t(vsc.bit_t(4), sz=%d)" % (i, len(l["init"])))
        else:
            src.append("        self.l%d = vsc.list_t(vsc.bit_t(4), sz=%d)" % (i, len(l["init"])))
    src += ["    @vsc.constraint", "    def c(self):", "        self.x != 3"]
    for i, l in enumerate(sc["lists"]):
        if l["kind"] == "randsz":
            src.append("        self.l%d.size.inside(vsc.rangelist((%d, %d)))" % (i, l["lo"], l["hi"]))
        if l.get("foreach") is not None:
            src.append("        with vsc.foreach(self.l%d) as it:" % i)
            src.append("            it <= %d" % l["foreach"])
    src += ["@vsc.randobj", "class _T(object):", "    def __init__(self):", "        self.y = vsc.rand_bit_t(4)",
            "        self.s = vsc.%s(_S())" % ("attr" if sc["sub"] == "attr" else "rand_attr")]
    if sc.get("cross"):
        src += ["    @vsc.constraint", "    def c(self):", "        self.y >= self.s.x"]
    ns = {"vsc": vsc}
    exec("\n".join(src), ns)
    t = ns["_T"]()
    for i, l in enumerate(sc["lists"]):
        lst = getattr(t.s, "l%d" % i)
        if l["kind"] == "randsz":
            for v in l["init"]:
                lst.append(v)
        else:
            for j, v in enumerate(l["init"]):
                lst[j] = v
    t.get_model()
    return t


def state(t, sc):
    return {"x": int(t.s.x), "k": int(t.s.k), "y": int(t.y),
            "lists": [[int(v) for v in getattr(t.s, "l%d" % i)] for i in range(len(sc["lists"]))],
            "sizes": [int(getattr(t.s, "l%d" % i).size) for i in range(len(sc["lists"]))]}


def run(sc):
    from vsc.impl import ctor
    ctor.test_setup()
    random.seed(zlib.crc32(json.dumps(sc, sort_keys=True).encode()))
    t = build(sc)
    out = []
    for op in sc["ops"]:
        rec = {"before": state(t, sc)}
        try:
            if op[0] == "append":
                getattr(t.s, "l%d" % op[1]).append(op[2])
            elif op[0] == "rand_mode":
                with vsc.raw_mode():
                    fo = t.s
                fo.rand_mode = bool(op[1])
            elif op[0] == "randomize":
                t.randomize()
            elif op[0] == "randomize_with":
                with t.randomize_with() as it:
                    it.y != op[1]
            elif op[0] == "randomize_sub":
                t.s.randomize()
            rec["outcome"] = "ok"
        except vsc.SolveFailure:
            rec["outcome"] = "SolveFailure"
        except Exception as e:  # noqa
            import traceback
            rec["outcome"] = "exc:" + type(e).__name__ + ":" + str(e)[:120] + traceback.format_exc()[-400:]
        rec["after"] = state(t, sc)
        out.append(rec)
    return {"ops": out}


def main():
    data = json.load(sys.stdin)
    res = []
    for sc in data["cases"]:
        try:
            res.append(run(sc))
        except Exception as e:  # noqa
            import traceback
            res.append({"crash": type(e).__name__ + ": " + str(e)[:300] + traceback.format_exc()[-900:]})
    print(json.dumps({"results": res}))


if __name__ == "__main__":
    main()
