"""Implementation side of C12: populations of covergroup instances, interleaved sampling, coverage numbers."""
import json
import sys
from fractions import Fraction

from cov_common import cg_class, quiet, sample, hits_of, reset_registry


def frac(x):
    f = Fraction(float(x))
    return [f.numerator, f.denominator]


def run(case):
    reset_registry()
    insts = []
    ops_out = []
    for op in case["ops"]:
        if op[0] == "new":
            cls = cg_class(op[1])
            insts.append(quiet(cls, case["params"][op[2]]))
            ops_out.append(None)
        else:
            k = op[1]
            inst = insts[k]
            before = hits_of(inst.get_model())
            quiet(sample, inst, op[2], op[3] if len(op) > 3 else 1)
            after = hits_of(inst.get_model())
            deltas = []
            for a, b in zip(before, after):
                d = []
                for i, (x, y) in enumerate(zip(a, b)):
                    d.extend([i] * (y - x))
                deltas.append(d)
            ops_out.append({"deltas": deltas, "type_cov": frac(quiet(inst.get_coverage)),
                            "inst_cov": frac(quiet(inst.get_inst_coverage))})
    type_ids = {}
    attach = []
    for inst in insts:
        t = inst.get_model().type_cg
        attach.append(type_ids.setdefault(id(t), len(type_ids)))
    return {"ops": ops_out, "attach": attach,
            "inst_hits": [hits_of(i.get_model()) for i in insts],
            "type_hits": [hits_of(i.get_model().type_cg) for i in insts],
            "inst_cov": [frac(quiet(i.get_inst_coverage)) for i in insts],
            "type_cov": [frac(quiet(i.get_coverage)) for i in insts]}


def main():
    data = json.load(sys.stdin)
    out = []
    for case in data["cases"]:
        try:
            out.append(run(case))
        except Exception as e:
            import traceback
            out.append({"crash": type(e).__name__ + ": " + str(e)[:300] + traceback.format_exc()[-800:]})
    print(json.dumps({"results": out}))


main()
