"""Implementation side of C09: one scenario = a population of objects of one synthesized class and a history of
randomize calls, get_randstate / set_randstate, explicit RandState creation, draws from handles and from Python's global
generator.  The same scenario is run under several configurations (hash seed, unrelated activity, diagnostic settings);
what is reported per operation must not depend on the configuration."""
import gc
import io
import json
import os
import random
import sys
import contextlib

sys.path.insert(0, os.path.dirname(os.path.abspath(__file__)))
import vsc  # noqa: E402
import solve_impl  # noqa: E402
from vsc.model.rand_state import RandState  # noqa: E402

GLOBAL_DRAWS = [0]


def count_global_draws():
    """count every use of the module-level functions of `random` (they all go through the hidden shared generator)"""
    for name in ("random", "randint", "randrange", "getrandbits", "choice", "choices", "shuffle", "sample", "uniform", "randbytes"):
        orig = getattr(random, name, None)
        if orig is None:
            continue

        def wrap(orig):
            def f(*a, **k):
                GLOBAL_DRAWS[0] += 1
                return orig(*a, **k)
            return f
        setattr(random, name, wrap(orig))


NOISE_SRC = """
@vsc.randobj
class _Noise(object):
    def __init__(self):
        self.x = vsc.rand_uint8_t()
        self.y = vsc.rand_uint8_t()
        self.l = vsc.rand_list_t(vsc.uint8_t(), sz=3)
    @vsc.constraint
    def c(self):
        self.x < self.y
        vsc.unique(self.l)
"""


def run(sc, cfg):
    from vsc.impl import ctor
    ctor.test_setup()
    random.seed(sc["seed"])
    env = solve_impl.Env(sc)
    objs = [env.ns[sc["root_cls"]]() for _ in range(sc["nobj"])]
    hands = []
    noise = None
    junk = []
    if cfg.get("noise"):
        exec(NOISE_SRC, env.ns)
        noise = env.ns["_Noise"]()
        noise.set_randstate(RandState.mkFromSeed(424242))
    out = []
    kw = {}
    if cfg.get("debug"):
        kw["debug"] = 1
    if cfg.get("solve_fail_debug"):
        kw["solve_fail_debug"] = 1
    for k, op in enumerate(sc["ops"]):
        if noise is not None:
            # unrelated activity: another object's randomizations, allocation churn, a collection
            for _ in range(1 + k % 2):
                with contextlib.redirect_stdout(io.StringIO()):
                    noise.randomize()
            junk.append([object() for _ in range(50 + 37 * (k % 5))])
            if k % 3 == 0:
                junk = junk[-2:]
                gc.collect()
        g0 = GLOBAL_DRAWS[0]
        rec = {}
        kind = op[0]
        if kind == "call":
            o = objs[op[1]]
            inline = sc["inlines"][op[2]] if op[2] is not None else None
            outcome = "ok"
            buf = io.StringIO()
            try:
                with contextlib.redirect_stdout(buf):
                    if inline is not None:
                        src = "def _inl(o, kw):\n    with o.randomize_with(**kw) as it:\n" + "\n".join(solve_impl.stmts_src(inline, "it", 2)) + "\n"
                        ns = dict(env.ns)
                        exec(src, ns)
                        ns["_inl"](o, kw)
                    else:
                        o.randomize(**kw)
            except vsc.SolveFailure:
                outcome = "SolveFailure"
            except Exception as e:  # noqa
                outcome = "exc:" + type(e).__name__ + ":" + str(e)[:60]
            rec = {"outcome": outcome, "values": env.snapshot_obj(o)}
        elif kind == "get":
            hands.append(objs[op[1]].get_randstate())
        elif kind == "set":
            objs[op[1]].set_randstate(hands[op[2]])
        elif kind == "mk":
            hands.append(RandState.mkFromSeed(op[1], op[2]) if len(op) > 2 else RandState.mkFromSeed(op[1]))
        elif kind == "drawh":
            rec = {"draw": hands[op[1]].randint(0, 1 << 30)}
        elif kind == "global":
            rec = {"draw": random.randint(0, 1 << 30)}
        rec["global_draws"] = GLOBAL_DRAWS[0] - g0
        out.append(rec)
    return {"ops": out}


def main():
    data = json.load(sys.stdin)
    count_global_draws()
    res = []
    for sc in data["cases"]:
        try:
            res.append(run(sc, data.get("config", {})))
        except Exception as e:  # noqa
            import traceback
            res.append({"crash": type(e).__name__ + ": " + str(e)[:300] + traceback.format_exc()[-900:]})
    print(json.dumps({"results": res}, default=lambda o: int(o)))


if __name__ == "__main__":
    main()
