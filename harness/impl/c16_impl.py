"""Implementation side of C16: user code with probe points inside the library's entry points, an exception injected at a
chosen probe, SolveFailure on demand; the shared construction state is recorded at every probe and after every call;
afterwards a scripted continuation (a new class with solve_order, new objects, further calls) is run whose results are
compared with a pristine twin process in which the failed calls never happened."""
import io
import json
import os
import random
import sys
import contextlib

sys.path.insert(0, os.path.dirname(os.path.abspath(__file__)))
import vsc  # noqa: E402
from vsc.impl import ctor, expr_mode as em  # noqa: E402
from vsc.model.rand_state import RandState  # noqa: E402


class Boom(Exception):
    pass


TRACE = []
ARMED = [None]
HOOKS = {"pre": [], "post": []}


def view():
    return [len(ctor.constraint_scope_stack), len(ctor.srcinfo_mode_s), len(ctor.foreach_arr_s), len(em._expr_mode), len(em._raw_mode)]


def _probe(tag):
    TRACE.append([tag, view()])
    if ARMED[0] == tag:
        ARMED[0] = None
        raise Boom("fault at probe %d" % tag)


CUR = [None]


def _hook(obj, which):
    # the probes of a call's callbacks belong to the object the call is made on (sub-objects have callbacks of their own)
    if obj is not CUR[0]:
        return
    for it in HOOKS[which]:
        _probe(it[1])


def items_src(items, root, ind, classes, ctx):
    """ctx: 'init' (plain python), 'block' (constraint body / with-block body)"""
    pad = "    " * ind
    out = []
    for it in items:
        k = it[0]
        if k == "probe":
            out.append(pad + "_probe(%d)" % it[1])
        elif k == "stmt":
            out.append(pad + "%s.a < %d" % (root, 150 + (it[1] % 100)))
        elif k == "block":
            kind = it[1]
            head = {"if": "with vsc.if_then(%s.b > 3):", "implies": "with vsc.implies(%s.b < 250):",
                    "foreach": "with vsc.foreach(%s.l, idx=True) as _i:"}[kind] % root
            out.append(pad + head)
            body = items_src(it[2], root, ind + 1, classes, ctx)
            out += body if body else [pad + "    pass"]
        elif k == "new":
            out.append(pad + "self.s%d = vsc.rand_attr(%s())" % (it[2], it[1]))
        else:
            raise Exception("item? %r" % (it,))
    return out


def class_src(name, c, classes):
    lines = ["@vsc.randobj", "class %s(object):" % name, "    def __init__(self):",
             "        self.a = vsc.rand_uint8_t()", "        self.b = vsc.rand_uint8_t()",
             "        self.l = vsc.rand_list_t(vsc.uint8_t(), sz=2)", "        self.u = vsc.uint8_t(0)",
             "        self.r = vsc.randsz_list_t(vsc.uint8_t())"]
    lines += items_src(c["init"], "self", 2, classes, "init")
    for i, b in enumerate(c["blocks"]):
        lines += ["    @vsc.%s" % ("dynamic_constraint" if i in c.get("dynamic", []) else "constraint"), "    def c%d(self):" % i]
        body = items_src(b, "self", 2, classes, "block")
        lines += body if body else ["        pass"]
    # a block that makes the object unsatisfiable when the non-random field u is set
    lines += ["    @vsc.constraint", "    def zz_unsat(self):", "        with vsc.implies(self.u == 1):", "            self.a > 250", "            self.a < 3",
              "        self.r.size.inside(vsc.rangelist((1, 4)))"]
    lines += ["    def pre_randomize(self):", "        _hook(self, 'pre')", "    def post_randomize(self):", "        _hook(self, 'post')"]
    return "\n".join(lines)


def count_overrides(c, seen):
    """temporary rewrites (array / dist expansion) still installed in a constraint tree"""
    if id(c) in seen:
        return 0
    seen.add(id(c))
    n = 1 if type(c).__name__ == "ConstraintOverrideModel" else 0
    for attr in ("constraint_l",):
        for x in getattr(c, attr, []) or []:
            n += count_overrides(x, seen)
    for attr in ("true_c", "false_c", "new_constraint", "orig_constraint"):
        x = getattr(c, attr, None)
        if x is not None:
            n += count_overrides(x, seen)
    return n


def leftovers(objs):
    """solver handles and constraint counts of every live object's model"""
    out = []

    def walk(m, acc):
        if hasattr(m, "is_rand_sz") and getattr(m, "is_scalar", False):
            # a scalar list holds exactly as many element models as its size says (no extension element of a call left)
            if len(m.field_l) != int(m.size.get_val()):
                acc["list_mismatch"] += 1
        for f in getattr(m, "field_l", []):
            if getattr(f, "var", None) is not None:
                acc["vars"] += 1
            walk(f, acc)
        for cm in getattr(m, "constraint_model_l", []):
            acc["stmts"] += len(cm.constraint_l)
            acc["blocks"] += 1
            acc["overrides"] += count_overrides(cm, set())
    for o in objs:
        if o is None:
            out.append(None)
            continue
        acc = {"vars": 0, "stmts": 0, "blocks": 0, "overrides": 0, "list_mismatch": 0}
        walk(o.get_model(), acc)
        out.append(acc)
    return out


CONT_SRC = """
@vsc.randobj
class _Cont(object):
    def __init__(self):
        self.x = vsc.rand_uint8_t()
        self.y = vsc.rand_uint8_t()
        self.z = vsc.rand_bit_t(4)
        self.l = vsc.rand_list_t(vsc.uint8_t(), sz=3)
    @vsc.constraint
    def c(self):
        vsc.solve_order(self.x, self.y)
        self.x < 20
        with vsc.if_then(self.x > 10):
            self.y < self.x
        with vsc.else_then:
            self.y > 100
        with vsc.foreach(self.l, idx=True) as i:
            self.l[i] < 50
        vsc.unique(self.l)
"""


def continuation(ns, objs):
    out = []
    exec(CONT_SRC, ns)
    c = ns["_Cont"]()
    c.set_randstate(RandState.mkFromSeed(99))
    for k in range(3):
        try:
            if k == 1:
                with c.randomize_with() as it:
                    it.z > 3
            else:
                c.randomize()
            out.append([int(c.x), int(c.y), int(c.z), [int(v) for v in c.l]])
        except Exception as e:  # noqa
            out.append("exc:" + type(e).__name__ + ":" + str(e)[:80])
    for i, o in enumerate(objs):
        if o is None:
            continue
        o.set_randstate(RandState.mkFromSeed(1000 + i))
        for k in range(2):
            try:
                o.randomize()
                out.append([i, int(o.a), int(o.b), [int(v) for v in o.l]])
            except Exception as e:  # noqa
                out.append("exc:" + type(e).__name__ + ":" + str(e)[:80])
    out.append(view() + [len(ctor.expr_l)])
    return out


def run(sc, twin):
    ctor.test_setup()
    del ctor.srcinfo_mode_s[:]
    random.seed(sc["seed"])
    ns = {"vsc": vsc, "_probe": _probe, "_hook": _hook}
    for name in sc["class_order"]:
        exec(class_src(name, sc["classes"][name], sc["classes"]), ns)
    exec("@vsc.covergroup\nclass _BadCg(object):\n    def __init__(self):\n        self.with_sample(dict(a=vsc.bit_t(8)))\n"
         "        self.cp = vsc.coverpoint(self.a, iff=5)\n", ns)
    objs = []
    recs = []
    for call in sc["calls"]:
        failing = call.get("fault") is not None or call.get("unsat")
        if twin and failing:
            # the pristine twin: the failed calls never happened
            if call["api"] == "new":
                objs.append(None)
            recs.append(None)
            continue
        if call.get("cg_fault") and not twin:
            # a covergroup whose construction is rejected (a bad iff argument) - must leave nothing behind either
            try:
                ns["_BadCg"]()
            except Exception:  # noqa
                pass
        del TRACE[:]
        ARMED[0] = None if twin else call.get("fault")
        HOOKS["pre"] = call.get("pre", [])
        HOOKS["post"] = call.get("post", [])
        raised = None
        buf = io.StringIO()
        try:
            with contextlib.redirect_stdout(buf):
                api = call["api"]
                if api == "new":
                    objs.append(None)
                    o = ns[call["cls"]]()
                    o.set_randstate(RandState.mkFromSeed(7 + len(objs)))
                    objs[-1] = o
                else:
                    o = objs[call["obj"]]
                    CUR[0] = o
                    if call.get("unsat"):
                        o.u = 1
                    try:
                        if api == "randomize":
                            o.randomize()
                        elif api == "with":
                            src = "def _w(o):\n    with o.randomize_with() as it:\n" + \
                                  "\n".join(items_src(call["body"], "it", 2, sc["classes"], "block") or ["        pass"]) + "\n"
                            exec(src, ns)
                            ns["_w"](o)
                        elif api == "free":
                            src = "def _w(o, fa, fb):\n    with vsc.randomize_with(fa, fb):\n" + \
                                  "\n".join(items_src(call["body"], "o", 2, sc["classes"], "block") or ["        pass"]) + "\n"
                            if call.get("unsat"):
                                # the class blocks do not take part in a free-standing call: make the inline block unsatisfiable
                                src += "        fa > 250\n        fa < 3\n"
                            exec(src, ns)
                            with vsc.raw_mode():
                                fa, fb = o.a, o.b
                            ns["_w"](o, fa, fb)
                    finally:
                        if call.get("unsat"):
                            o.u = 0
        except Boom:
            raised = "Boom"
        except vsc.SolveFailure:
            raised = "SolveFailure"
        except Exception as e:  # noqa
            raised = "exc:" + type(e).__name__ + ":" + str(e)[:100]
        recs.append({"trace": [list(t) for t in TRACE], "raised": raised, "view": view(), "exprs": len(ctor.expr_l),
                     "left": leftovers(objs)})
    try:
        cont = continuation(ns, objs)
    except Exception as e:  # noqa  (e.g. a later class definition rejected because of what a failed call left behind)
        cont = ["continuation raised " + type(e).__name__ + ": " + str(e)[:150], view() + [len(ctor.expr_l)]]
    return {"calls": recs, "continuation": cont}


def main():
    data = json.load(sys.stdin)
    res = []
    for sc in data["cases"]:
        try:
            res.append(run(sc, bool(data.get("twin"))))
        except Exception as e:  # noqa
            import traceback
            res.append({"crash": type(e).__name__ + ": " + str(e)[:300] + traceback.format_exc()[-1200:]})
    print(json.dumps({"results": res}))


if __name__ == "__main__":
    main()
