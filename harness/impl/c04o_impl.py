"""C04, random-size lists of OBJECTS: len(), the size attribute, indexing and iteration must agree after every call, and the
size must lie within the population and the size constraints (public API only; no model behind it)."""
import json
import os
import random
import sys
import zlib

sys.path.insert(0, os.path.dirname(os.path.abspath(__file__)))
import vsc  # noqa: E402


def run(sc):
    from vsc.impl import ctor
    ctor.test_setup()
    random.seed(zlib.crc32(json.dumps(sc, sort_keys=True).encode()))
    src = ["@vsc.randobj", "class _E(object):", "    def __init__(self, tag=0):", "        self.a = vsc.rand_bit_t(3)", "        self.b = vsc.rand_bit_t(2)",
           "        self.tag = vsc.uint8_t(tag)",
           "    @vsc.constraint", "    def c(self):", "        self.a >= self.b",
           "@vsc.randobj", "class _C(object):", "    def __init__(self):"]
    for i, l in enumerate(sc["lists"]):
        src.append("        self.l%d = vsc.randsz_list_t(_E())" % i)
        src.append("        for _ in range(%d):" % l["pop"])
        src.append("            self.l%d.append(_E(%d + _))" % (i, 10 * (i + 1)))
    src += ["    @vsc.constraint", "    def c(self):"]
    body = []
    for i, l in enumerate(sc["lists"]):
        if l.get("min") is not None:
            body.append("        self.l%d.size >= %d" % (i, l["min"]))
        if l.get("foreach"):
            body.append("        with vsc.foreach(self.l%d) as it:" % i)
            body.append("            it.a < %d" % l["foreach"])
    src += body or ["        pass"]
    ns = {"vsc": vsc}
    exec("\n".join(src), ns)
    o = ns["_C"]()
    out = []
    for k in range(sc["calls"]):
        rec = {}
        # between the calls: clear a list and populate it with new objects (the list must then expose exactly those)
        for li, tags in (sc.get("edits") or {}).get(str(k), []):
            lst = getattr(o, "l%d" % li)
            lst.clear()
            for t in tags:
                lst.append(ns["_E"](t))
        # ... or replace one element by a new object (l[j] = obj)
        for li, j, t in (sc.get("assigns") or {}).get(str(k), []):
            lst = getattr(o, "l%d" % li)
            if j < len(lst):
                lst[j] = ns["_E"](t)
        try:
            o.randomize()
            rec["outcome"] = "ok"
        except vsc.SolveFailure:
            rec["outcome"] = "SolveFailure"
        except Exception as e:  # noqa
            rec["outcome"] = "exc:" + type(e).__name__ + ":" + str(e)[:100]
        views = []
        for i, l in enumerate(sc["lists"]):
            lst = getattr(o, "l%d" % i)
            v = {"len": len(lst), "size": int(lst.size)}
            try:
                v["iter"] = [[int(e.a), int(e.b), int(e.tag)] for e in lst]
            except Exception as e:  # noqa
                v["iter"] = "exc:" + type(e).__name__
            try:
                v["index"] = [[int(lst[j].a), int(lst[j].b), int(lst[j].tag)] for j in range(min(v["len"], 64))]
            except Exception as e:  # noqa
                v["index"] = "exc:" + type(e).__name__
            try:
                # the list's model refers to the models of exactly the objects it exposes
                m = lst.get_model()
                v["model_ok"] = all(m.field_l[j] is lst[j].get_model() for j in range(min(v["len"], len(m.field_l))))
            except Exception as e:  # noqa
                v["model_ok"] = "exc:" + type(e).__name__
            views.append(v)
        rec["views"] = views
        out.append(rec)
    return {"calls": out}


def main():
    data = json.load(sys.stdin)
    res = []
    for sc in data["cases"]:
        try:
            res.append(run(sc))
        except Exception as e:  # noqa
            import traceback
            res.append({"crash": type(e).__name__ + ": " + str(e)[:300] + traceback.format_exc()[-900:]})
    print(json.dumps({"results": res}))


if __name__ == "__main__":
    main()
