"""C16 — a failed or aborted call does not poison later calls."""
import random

import core
from core import clist

HEADER = """From Coq Require Import ZArith List Bool.
From PV Require Import Rand.Stacks.
Import ListNotations.
"""


class Gen(object):
    def __init__(self, rnd):
        self.rnd = rnd
        self.tag = 0

    def probe(self):
        self.tag += 1
        return ["probe", self.tag]

    def block_items(self, depth):
        """user code inside a constraint scope: statements, probes, nested with-blocks"""
        rnd = self.rnd
        out = []
        for _ in range(rnd.randint(1, 4)):
            r = rnd.random()
            if r < 0.35:
                out.append(self.probe())
            elif r < 0.65 or depth <= 0:
                out.append(["stmt", rnd.randint(0, 99)])
            else:
                out.append(["block", rnd.choice(["if", "implies", "foreach"]), self.block_items(depth - 1)])
        return out

    def gen_class(self, name, classes, order, sub_ok):
        rnd = self.rnd
        init = []
        if rnd.random() < 0.7:
            init.append(self.probe())
        if sub_ok and rnd.random() < 0.5:
            sub = "S%d" % len(classes)
            classes[sub] = None
            self.gen_class(sub, classes, order, False)
            init.append(["new", sub, 0])
            if rnd.random() < 0.6:
                init.append(self.probe())
        blocks = [self.block_items(2) for _ in range(rnd.randint(0, 3))]
        if rnd.random() < 0.4:
            # a rewrite (foreach expansion) below a condition over random fields: only one branch is taken by a given solution
            blocks.append([["block", rnd.choice(["if", "implies"]), [["block", "foreach", [["stmt", rnd.randint(0, 99)], self.probe()]]]]])
        classes[name] = {"init": init, "blocks": blocks, "dynamic": [i for i in range(len(blocks)) if rnd.random() < 0.3]}
        order.append(name)

    def scenario(self):
        rnd = self.rnd
        classes, order = {}, []
        for k in range(rnd.randint(1, 2)):
            self.gen_class("K%d" % k, classes, order, True)
        roots = [n for n in order if n.startswith("K")]
        calls = []
        nobj = 0          # successfully created objects so far
        slots = []        # index in the worker's object list of every successful object
        created = 0
        for _ in range(rnd.randint(5, 9)):
            r = rnd.random()
            if nobj == 0 or r < 0.3:
                cls = rnd.choice(roots)
                tags = self.tags_of_new(classes, cls)
                fault = rnd.choice(tags) if tags and rnd.random() < 0.5 else None
                calls.append({"api": "new", "cls": cls, "fault": fault})
                if fault is None:
                    slots.append(created)
                    nobj += 1
                created += 1
                continue
            obj = rnd.choice(slots)
            pre = [self.probe()] if rnd.random() < 0.6 else []
            post = [self.probe()] if rnd.random() < 0.6 else []
            api = "randomize" if r < 0.5 else ("with" if r < 0.85 else "free")
            body = self.block_items(2) if api != "randomize" else []
            if api == "free":
                pre, post = [], []            # no object takes part in a free-standing call: no callbacks
                body = [x for x in body if not (x[0] == "block" and x[1] == "foreach")] or [["stmt", 1]]
            tags = self.tags(body) + [t[1] for t in pre]
            unsat = rnd.random() < 0.25
            # a post_randomize probe is only reached when the solve succeeds
            tags_ok = tags + ([t[1] for t in post] if not unsat else [])
            fault = rnd.choice(tags_ok) if tags_ok and rnd.random() < 0.45 else None
            calls.append({"api": api, "obj": obj, "pre": pre, "post": post, "body": body, "unsat": unsat, "fault": fault,
                          "cg_fault": rnd.random() < 0.15})
        return {"classes": classes, "class_order": order, "calls": calls, "seed": rnd.randint(0, 10 ** 6)}

    def tags(self, items):
        out = []
        for it in items:
            if it[0] == "probe":
                out.append(it[1])
            elif it[0] == "block":
                out += self.tags(it[2])
        return out

    def tags_of_new(self, classes, cls):
        c = classes[cls]
        out = []
        for it in c["init"]:
            if it[0] == "probe":
                out.append(it[1])
            elif it[0] == "new":
                out += self.tags_of_new(classes, it[1])
        for b in ordered_blocks(c):
            out += self.tags(b)
        return out


UNSAT_BLOCK = "[IBlock [IStmt; IStmt]]"


def ordered_blocks(c):
    """build_field_model elaborates the dynamic constraint blocks first, then the others, each group in name order"""
    dyn = c.get("dynamic", [])
    return [b for i, b in enumerate(c["blocks"]) if i in dyn] + [b for i, b in enumerate(c["blocks"]) if i not in dyn]


def items_lit(items, classes):
    out = []
    for it in items:
        if it[0] == "probe":
            out.append("IProbe %d%%nat" % it[1])
        elif it[0] == "stmt":
            out.append("IStmt")
        elif it[0] == "block":
            out.append("IBlock %s" % items_lit(it[2], classes))
        elif it[0] == "new":
            c = classes[it[1]]
            out.append("INew %s %s" % (items_lit(c["init"], classes), clist([items_lit(b, classes) for b in ordered_blocks(c)] + [UNSAT_BLOCK])))
    return clist(out)


def call_lit(call, classes):
    f = "None" if call.get("fault") is None else "(Some %d%%nat)" % call["fault"]
    u = "true" if call.get("unsat") else "false"
    if call["api"] == "new":
        c = classes[call["cls"]]
        a = "ANew %s %s" % (items_lit(c["init"], classes), clist([items_lit(b, classes) for b in ordered_blocks(c)] + [UNSAT_BLOCK]))
    elif call["api"] == "randomize":
        a = "ARandomize %s %s %s" % (items_lit(call["pre"], classes), items_lit(call["post"], classes), u)
    elif call["api"] == "with":
        a = "AWith %s %s %s %s" % (items_lit(call["body"], classes), items_lit(call["pre"], classes), items_lit(call["post"], classes), u)
    else:
        a = "AFree %s %s" % (items_lit(call["body"] + ([["stmt", 0], ["stmt", 0]] if call.get("unsat") else []), classes), u)
    return "(%s, %s)" % (a, f)


def model_traces(ctx, cases, tag):
    """per case: list per call of (trace as flat ints, raised) and the final state, evaluated in Coq"""
    shard = 40
    files = []
    for si in range(0, len(cases), shard):
        its = [clist([call_lit(c, sc["classes"]) for c in sc["calls"]]) for sc in cases[si:si + shard]]
        body = ("Definition enc (h : list (api * option nat)) : list Z :=\n"
                "  let '(g, outs) := run_history h idle in\n"
                "  concat (map (fun x : list obs * bool => (if snd x then 1 else 0)%%Z :: concat (map (fun o : obs => match o with (t, (a, b, c, d, e)) =>\n"
                "     map Z.of_nat [t; a; b; c; d; e] end) (fst x)) ++ [(-1)%%Z]) outs)\n"
                "  ++ [(-2)%%Z; Z.of_nat (g_scope g); Z.of_nat (g_srcinfo g); Z.of_nat (g_foreach g); Z.of_nat (g_emode g); Z.of_nat (g_raw g);\n"
                "      (if g_exprs g then 1 else 0)%%Z; (-3)%%Z].\n"
                "Definition hs : list (list (api * option nat)) := %s.\nEval vm_compute in (concat (map enc hs)).\n" % clist(its))
        files.append(("%s_%d" % (tag, si // shard), HEADER + body))
    outs = core.coq_eval_many(ctx, files)
    res = []
    for si in range(0, len(cases), shard):
        chunk = cases[si:si + shard]
        zs = core.parse_z_list(outs["%s_%d" % (tag, si // shard)])
        if zs is None:
            res += [None] * len(chunk)
            continue
        got, cur_calls, cur, i = [], [], None, 0
        while i < len(zs):
            z = zs[i]
            if z == -2:
                got.append({"calls": cur_calls, "final": zs[i + 1:i + 7]})
                cur_calls = []
                i += 8
                continue
            # a call record: raised flag, then 6-tuples, then -1
            raised = z
            i += 1
            tr = []
            while zs[i] != -1:
                tr.append([zs[i], zs[i + 1:i + 6]])
                i += 6
            i += 1
            cur_calls.append({"raised": bool(raised), "trace": tr})
        res += got if len(got) == len(chunk) else [None] * len(chunk)
    return res


def run(ctx):
    core.check_prop_file(ctx, "Prop_C16.v")
    rnd = random.Random("C16-%d" % ctx.seed)
    n = 200 if ctx.quick() else 1500
    cases = [Gen(random.Random(rnd.random())).scenario() for _ in range(n)]
    stats = {"evaluations": 0, "faults": 0, "unsat": 0, "probes": 0}

    def evaluate(cases_, tag):
        real = core.run_impl_parallel(ctx, "c16_impl.py", cases_)
        twin = core.run_impl_parallel(ctx, "c16_impl.py", cases_, extra_payload={"twin": True})
        return real, twin, model_traces(ctx, cases_, tag)

    def judge(cases_, real, twin, model):
        for sc, o, t, m in zip(cases_, real, twin, model):
            if o.get("_crash") or "crash" in o or t.get("_crash") or "crash" in t:
                ctx.tie_broken.append("implementation worker crashed: %s" % (str(o)[:300] + str(t)[:300]))
                continue
            if m is None or len(m["calls"]) != len(sc["calls"]):
                ctx.tie_broken.append("Coq evaluation failed for history %r" % (sc["calls"],))
                continue
            bad = False
            for k, (call, rec, mc) in enumerate(zip(sc["calls"], o["calls"], m["calls"])):
                stats["evaluations"] += 1
                stats["faults"] += call.get("fault") is not None
                stats["unsat"] += bool(call.get("unsat"))
                stats["probes"] += len(rec["trace"])
                what = None
                # the property: the shared state is idle after every call, nothing is left on the objects
                if rec["view"] != [0, 0, 0, 0, 0] or rec["exprs"] != 0:
                    what = "after call %d %s (fault %s, unsat %s, ended %s) the shared state is %s, %d expression(s) left" % (
                        k, call["api"], call.get("fault"), call.get("unsat"), rec["raised"], rec["view"], rec["exprs"])
                elif any(x is not None and x["overrides"] for x in rec["left"]):
                    what = "after call %d %s (ended %s) a temporary rewrite of the constraint tree is still installed: %s" % (
                        k, call["api"], rec["raised"], rec["left"])
                elif any(x is not None and x.get("list_mismatch") for x in rec["left"]):
                    what = "after call %d %s (ended %s) a random-size list holds element models beyond its size (the extension of the call " \
                           "was not taken back): %s" % (k, call["api"], rec["raised"], rec["left"])
                elif any(x is not None and x["vars"] for x in rec["left"]):
                    what = "after call %d %s (ended %s) %s field(s) still hold a solver variable" % (k, call["api"], rec["raised"], rec["left"])
                elif rec["raised"] is not None and str(rec["raised"]).startswith("exc:"):
                    what = "call %d %s ended with %s instead of the injected exception / SolveFailure" % (k, call["api"], rec["raised"])
                if what:
                    core.add_violation(ctx, what, {"scenario": sc, "call_index": k, "observed": rec})
                    bad = True
                    break
                # the tie: what the probes saw and how the call ended, as the model says
                if rec["trace"] != mc["trace"] or (rec["raised"] is not None) != mc["raised"]:
                    ctx.tie_broken.append("model trace != implementation at call %d of %r: model %r / %s, implementation %r / %s"
                                          % (k, sc["calls"], mc["trace"], mc["raised"], rec["trace"], rec["raised"]))
                    bad = True
                    break
            if bad:
                continue
            # temporary constraints: the number of statements per object never changes after construction
            counts = {}
            for k, rec in enumerate(o["calls"]):
                for i, x in enumerate(rec["left"]):
                    if x is None:
                        continue
                    key = (x["stmts"], x["blocks"])
                    if counts.setdefault(i, key) != key:
                        core.add_violation(ctx, "object %d has %s (statements, blocks) after call %d, %s after its construction: a temporary "
                                                "constraint was left behind" % (i, key, k, counts[i]), {"scenario": sc, "call_index": k})
                        bad = True
                        break
                if bad:
                    break
            if bad:
                continue
            # oracle: later constructions and randomizations behave as in a session in which the failed calls never happened
            if o["continuation"] != t["continuation"]:
                core.add_violation(ctx, "after the history with failed calls the continuation (new class with solve_order, new object, "
                                        "re-seeded objects) gives %r, in the pristine twin %r" % (o["continuation"], t["continuation"]),
                                   {"scenario": sc, "with_failures": o["continuation"], "twin": t["continuation"]})
    real, twin, model = evaluate(cases, "c16")
    judge(cases, real, twin, model)
    if ctx.tie_broken and not ctx.violations:
        for k in range(2):
            r2 = random.Random("C16-search-%d-%d" % (ctx.seed, k))
            more = [Gen(random.Random(r2.random())).scenario() for _ in range(n)]
            r_, t_, m_ = evaluate(more, "c16_s%d" % k)
            judge(more, r_, t_, m_)
            if ctx.violations:
                break
    ctx.coverage.update({
        "evaluations": stats["evaluations"],
        "distinct_nontrivial": len({repr(c["classes"]) + repr(c["calls"]) for c in cases}),
        "rule": "seeded random histories of 5-9 API calls over 1-2 synthesized classes (user __init__ with probes and a sub-object, 0-3 "
                "constraint blocks of statements / probes / nested if_then, implies, foreach blocks): construction, randomize(), "
                "randomize_with blocks and free-standing randomize_with blocks with such bodies, pre_randomize / post_randomize "
                "probes; half of the constructions and 45% of the calls raise at a randomly chosen probe, 25% of the calls are made "
                "unsatisfiable; the stacks are recorded at every probe and after every call; each history is followed by a scripted "
                "continuation and repeated in a twin process without the failed calls; each call is one evaluation",
        "samples": [cases[0]],
        "exhaustive": False,
        "faults_injected": stats["faults"],
        "unsatisfiable_calls": stats["unsat"],
        "probe_observations": stats["probes"],
        "correspondence_mismatches": len(ctx.tie_broken),
    })
    ctx.assumptions += [
        "theorems are about coq/Rand/Stacks.v, a hand transcription of the entry points of rand_obj.py / methods.py / constraints.py "
        "as far as they touch the shared stacks; the tie compares what every probe sees and how every call ends",
        "covergroup / coverpoint construction (coverage.py) and faults inside the library itself (other than SolveFailure) are not "
        "modelled; rollback of array / dist rewrites and disposal of solver variables are examined by the oracles (no variable left, "
        "statement counts unchanged, continuation equal to the pristine twin), not by the model",
    ]
