"""C17 — pre_randomize / post_randomize run once each, before and after the solve."""
import solvegen
from props import tree_common


def snapshots(sc, oi, res):
    """what the callbacks saw: pre_randomize runs before the solve (it sees the values from before the call plus what the
    callbacks that ran earlier assigned), post_randomize after every field holds its final value"""
    out = []
    lits = solvegen.Lits(sc, sc["root_cls"], solvegen.track_state(sc, oi))
    _, expect = solvegen.apply_pre_hooks(sc, lits, res["before"], res["hooks"])
    for (oid, which, snap), ex in zip(res["hooks"], expect):
        if ex is None:
            continue
        _, idxs, want = ex
        if which == "post_randomize":
            if res["outcome"] != "ok":
                out.append("post_randomize ran on object %d although the call ended with %s" % (oid, res["outcome"]))
                continue
            want = [res["values"][i] for i in idxs]
        if list(snap) != list(want):
            out.append("%s of object %d saw %s, expected %s (%s)" % (
                which, oid, snap, want, "the values before the solve" if which == "pre_randomize" else "the final values"))
    return out


def run(ctx):
    tree_common.run_tree(
        ctx, "C17", "Prop_C17.v", bits=2 | 4 | 32,
        what="pre_randomize / post_randomize did not run exactly once on the top object and every random sub-object (and on "
             "nothing else), or the values pre_randomize assigned are not the ones the solver saw (returned values violate the "
             "constraints over them / a non-random field lost the assigned value)",
        rule_extra="Every instantiated class defines both callbacks (30% of the classes inherit their fields from a decorated base "
                   "that defines none); pre_randomize assigns 60% of the object's non-random and 15% of its random scalar "
                   "fields; each invocation is logged with the object's identity and the field values it sees: pre_randomize must "
                   "see the values from before the solve, post_randomize the final values; the constants handed to the solver "
                   "and the frame are judged against the values after the assignments.",
        assumptions=["object trees (no object reachable by two attribute paths); lists of objects have a fixed population; callbacks "
                     "around a random-size list: see C04's pre_randomize stream"],
        hooks=True, extra=snapshots)
    tree_common.extra_stream(
        ctx, "C17", 2 | 4 | 32,
        "pre_randomize / post_randomize did not run exactly once on the top object, every random sub-object and every element of a "
        "random list of objects (and on nothing else), or the values pre_randomize assigned are not the ones the solver saw",
        tag="c17l", key="object_list_stream",
        rule="the same trees with 1-2 lists of 2-3 objects: every element has both callbacks (pre_randomize assigns fields of its own)",
        olists=True, hooks=True, extra=snapshots)
