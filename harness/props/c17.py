"""C17 — pre_randomize / post_randomize run once each, before and after the solve."""
from props import tree_common


def run(ctx):
    tree_common.run_tree(
        ctx, "C17", "Prop_C17.v", bits=32,
        what="pre_randomize / post_randomize did not run exactly once on the top object and every random sub-object (and on "
             "nothing else)",
        rule_extra="Every class defines both callbacks; each invocation is logged with the object's identity and the field values "
                   "it sees.",
        assumptions=["object trees (no object reachable by two attribute paths)"])
