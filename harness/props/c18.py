"""C18 — field values stay within their declared type on every access path.

The accessor methods of /repo are TRANSLATED on every run (harness/translate_access.py) into
Access_gen.v; the hand-written proofs (coq/Val/AccessProofs.v) and the property theorems
(coq/Val/Prop_C18.v) are re-checked against the regenerated definitions, and the generated functions
and the specification are both compared with real objects on exhaustively enumerated small widths."""
import random
import shutil
import subprocess
import time

import core
import translate_access
from core import cz, clist, cbool

VAL = core.COQ / "Val"


def coqc_gen(ctx, path, timeout=600):
    cmd = ["bash", "-c", "ulimit -s unlimited 2>/dev/null; exec timeout %d coqc -R %s PV -Q %s PVgen %s" % (
        timeout, core.COQ, ctx.rundir / "gen", path)]
    r = subprocess.run(cmd, stdout=subprocess.PIPE, stderr=subprocess.PIPE, text=True, cwd=ctx.rundir)
    err = "\n".join(l for l in r.stderr.splitlines() if "remapped" not in l and "overriding-logical-loadpath" not in l)
    return r.returncode, r.stdout, err


def zl(l):
    return clist([cz(x) for x in l])


def run(ctx):
    core.check_prop_file(ctx, "Prop_C18_enum.v")
    gen = ctx.rundir / "gen"
    gen.mkdir()
    # ---- 1. regenerate the model from the source -------------------------------------------------
    try:
        text = translate_access.translate(core.REPO)
    except Exception as e:  # fail closed
        text = None
        ctx.tie_broken.append("translator: %s: %s" % (type(e).__name__, e))
        ctx.log("TRANSLATOR FAILED:", e)
    proofs_ok = False
    import re
    ptxt = (VAL / "Prop_C18.v").read_text()
    names = re.findall(r"^\s*(?:Theorem|Corollary)\s+([A-Za-z0-9_']+)", ptxt, flags=re.M)
    ctx.obligations += len(names)
    ctx.checker_cmd = ("translate_access.py /repo -> gen/Access_gen.v; coqc -R /verif/coq PV -Q <run>/gen PVgen "
                       "Access_gen.v AccessProofs.v EnumProofs.v Prop_C18.v (coq 8.16.1)")
    if text is not None:
        (gen / "Access_gen.v").write_text(text)
        for f in ("AccessProofs.v", "Prop_C18.v", "AccessCheck.v"):
            shutil.copy(VAL / f, gen / f)
        t = time.time()
        rc, out, err = coqc_gen(ctx, gen / "Access_gen.v")
        if rc != 0:
            ctx.tie_broken.append("generated Access_gen.v does not compile: " + err[-500:])
        else:
            rc, out, err = coqc_gen(ctx, gen / "AccessCheck.v")
            if rc != 0:
                ctx.tie_broken.append("AccessCheck.v does not compile against the regenerated model: " + err[-500:])
            rc, out, err = coqc_gen(ctx, gen / "AccessProofs.v")
            if rc != 0:
                ctx.proof_broken.append("AccessProofs.v against regenerated Access_gen.v: " + err[-700:])
                ctx.log("PROOF BROKEN (AccessProofs.v):", err[-1200:])
            else:
                rc, out, err = coqc_gen(ctx, gen / "Prop_C18.v")
                if rc != 0:
                    ctx.proof_broken.append("Prop_C18.v: " + err[-700:])
                    ctx.log("PROOF BROKEN (Prop_C18.v):", err[-1200:])
                else:
                    proofs_ok = True
                    ctx.discharged += len(names)
                    closed = out.count("Closed under the global context")
                    ctx.trusted.append("Print Assumptions (Prop_C18.v against the regenerated Access_gen.v): %d theorem(s) "
                                       "'Closed under the global context'" % closed)
                    ctx.log("re-checked %d theorems against regenerated model in %.1fs (%d closed)" % (len(names), time.time() - t, closed))
    # ---- 2. differential run on real objects --------------------------------------------------------
    rnd = random.Random("C18-%d" % ctx.seed)
    maxw = 5 if ctx.quick() else 8
    cases = []
    for w in range(1, maxw + 1):
        for sg in (False, True):
            cases.append({"w": w, "signed": sg, "cur_step": 1 if w <= (4 if ctx.quick() else 6) else 3})
    for w in ([7, 8, 10] if ctx.quick() else [9, 10, 11, 12]):   # (every integer of [-2^(w+1), 2^(w+1)] is stored: 16 bits is too much for one Coq literal)
        for sg in (False, True):
            cases.append({"w": w, "signed": sg, "cur_step": max(1, (1 << w) // 24) + 1})
    enum_cases = [{"enum": [3, 7, -2]}, {"enum": [0, 1]}, {"enum": rnd.sample(range(-50, 50), 5)}]
    obs = core.run_impl_parallel(ctx, "c18_impl.py", cases + enum_cases, nchunks=min(core.NCPU, len(cases)))
    n_eval = 0
    files = []
    for i, (c, o) in enumerate(zip(cases, obs)):
        if o.get("_crash") or "crash" in o:
            ctx.tie_broken.append("implementation raised on %r: %s" % (c, str(o)[:400]))
            core.add_violation(ctx, "library raised on a value access path: %s" % str(o)[:300], {"case": c, "observed": str(o)[:2000]})
            continue
        n_eval += len(o["set"]) + len(o["read"]) + len(o["write"])
        if text is None:
            continue
        body = ("From Coq Require Import ZArith List Bool.\nFrom PVgen Require Import AccessCheck.\nImport ListNotations.\n"
                "Open Scope Z_scope.\nDefinition os := %s.\nDefinition ord := %s.\nDefinition ow := %s.\n"
                "Eval vm_compute in (c18_check %s %s %d%%nat os ord ow).\n"
                "Eval vm_compute in (c18_diffs %s %s %d%%nat os ord ow).\n" % (
                    zl(o["set"]), zl(o["read"]), zl(o["write"]), cz(c["w"]), cbool(c["signed"]), c["cur_step"],
                    cz(c["w"]), cbool(c["signed"]), c["cur_step"]))
        p = gen / ("case_%d.v" % i)
        p.write_text(body)
        files.append((i, p))
    from concurrent.futures import ThreadPoolExecutor
    with ThreadPoolExecutor(max_workers=core.NCPU) as ex:
        results = list(ex.map(lambda ip: (ip[0], coqc_gen(ctx, ip[1])), files))
    labels = ["store/load paths", "part-select reads", "part-select writes"]
    for i, (rc, out, err) in results:
        c = cases[i]
        if rc != 0:
            ctx.tie_broken.append("Coq evaluation failed for %r: %s" % (c, err[-300:]))
            continue
        parts = out.split("=")
        codes = core.parse_z_list(out)
        diffs = core.parse_z_list("=" + parts[2]) if len(parts) > 2 else None
        if codes is None or len(codes) != 3:
            ctx.tie_broken.append("unparsable Coq output for %r" % (c,))
            continue
        for k, code in enumerate(codes):
            if code & 2:
                core.add_violation(ctx, "%s of a %s %d-bit field differ from the specification (first differing observation index %s)" % (
                    labels[k], "signed" if c["signed"] else "unsigned", c["w"], diffs[k] if diffs else "?"),
                    {"case": c, "group": labels[k], "first_diff_index_vs_spec": diffs[k] if diffs else None,
                     "enumeration": "see coq/Val/AccessCheck.v / harness/impl/c18_impl.py", "model_agrees_with_impl": not (code & 1)})
            elif code & 1:
                ctx.tie_broken.append("translated accessor functions != implementation for %s on %r (index %s)" % (
                    labels[k], c, diffs[3 + k] if diffs else "?"))
    # enums (hand-written model Val/Enum.v)
    for c, o in zip(enum_cases, obs[len(cases):]):
        if o.get("_crash") or "crash" in o:
            core.add_violation(ctx, "library raised on an enum access path: %s" % str(o)[:300], {"case": c, "observed": str(o)[:1500]})
            continue
        for k, (got, stored, l0, l1, ini) in enumerate(o["enum"]):
            n_eval += 5
            # written value read back, stored value, list indexing, list iteration, constructor's initial value
            if not (got == k and stored == c["enum"][k] and l0 == k and l1 == k and ini == k):
                core.add_violation(ctx, "enum field does not hold/return the declared enumerator", {"case": c, "member": k, "observed": o["enum"][k]})
    ctx.coverage.update({
        "evaluations": n_eval,
        "distinct_nontrivial": n_eval,
        "rule": "for every width 1..%d and both signednesses: every integer in [-2^(w+1), 2^(w+1)] through 10 store->load paths "
                "(set_val, .val, constructor value, randobj attribute, list append/extend/index assignment/init, index read, "
                "iteration); every part-select read [hi:lo] and [k] of every (or every 3rd) value of the type; every part-select "
                "write with 9 new values per slice and 7 per bit; plus sampled values for wider fields and three IntEnum types; "
                "each observation is one evaluation, all distinct by construction" % maxw,
        "samples": [cases[0], cases[-1], enum_cases[0]],
        "exhaustive": True,
        "exhaustive_part": "widths 1..%d: all values of the stated ranges; wider: sampled current values" % (4 if ctx.quick() else 6),
        "translator": "ok" if text is not None else "FAILED",
        "proofs_rechecked_against_regenerated_model": proofs_ok,
        "correspondence_mismatches": len(ctx.tie_broken),
    })
    ctx.trusted.append("translator harness/translate_access.py (fail-closed Python-ast -> Gallina; its output is also run against the "
                       "real methods on the enumerated inputs)")
    ctx.assumptions += [
        "Python's unbounded-integer &, |, ~, <<, >> are rendered as Coq's Z.land, Z.lor, Z.lnot, Z.shiftl, Z.shiftr",
        "the translator specialises the procedural (non-expression-mode), scalar, non-enum branches of the accessors",
        "enum fields: hand-written model coq/Val/Enum.v of EnumInfo (IntEnum: distinct values)",
        "1 <= width; part-select bounds 0 <= lo <= hi < width",
    ]
