"""C06 — inline and dynamic constraints bind to exactly one call and to the right object."""
import random

import core
import dyngen
from props import solve_common


def run(ctx):
    core.check_prop_file(ctx, "Prop_C06.v")
    rnd = random.Random("C06-%d" % ctx.seed)
    n = 90 if ctx.quick() else 2500
    gen = lambda r: dyngen.DynGen(random.Random(r.random()), ninst=r.choice([1, 2, 2, 3]), with_list=r.random() < 0.4).scenario(ncalls=3)
    scs = [gen(rnd) for _ in range(n)]
    stats = {"evaluations": 0, "outcomes": {}, "with_inline": 0, "dyn_refs": 0}
    bits = 2 | 4 | 8

    def judge(scs_, results, crashed):
        for si, o in crashed:
            ctx.tie_broken.append("implementation worker crashed: %s" % str(o)[:500])
            core.add_violation(ctx, "library raised outside a randomize call (construction of a class with dynamic constraints): %s" % str(o)[:300],
                               {"scenario": scs_[si], "observed": str(o)[:2000]})
        for si, oi, code, res in results:
            stats["evaluations"] += 1
            stats["outcomes"][res["outcome"]] = stats["outcomes"].get(res["outcome"], 0) + 1
            inl = scs_[si]["ops"][oi].get("inline")
            if inl:
                stats["with_inline"] += 1
                stats["dyn_refs"] += repr(inl).count("'dyn")
            if code is None:
                ctx.tie_broken.append("Coq evaluation failed for scenario %d call %d" % (si, oi))
                continue
            if code & bits:
                core.add_violation(ctx, "the call does not behave as 'class constraints + this call's inline set + the referenced dynamic blocks of "
                                        "the objects they were referenced through' (bits %d: 2 values violate them, 4 a non-random field changed, "
                                        "8 outcome contradicts their satisfiability; outcome %s)" % (code & bits, res["outcome"]),
                                   {"scenario": solve_common.brief(scs_[si], oi), "observed": {k: res[k] for k in ("outcome", "err", "before", "values")},
                                    "code": code, "model_terms_agree": not (code & 1)})
            elif code & 1:
                ctx.tie_broken.append("model's terms != recorded solver terms in scenario %r" % (solve_common.brief(scs_[si], oi),))
    results, crashed = solve_common.evaluate(ctx, scs, "c06")
    judge(scs, results, crashed)
    if ctx.tie_broken and not ctx.violations:
        ctx.log("correspondence broke; extended search for a failing input")
        for k in range(3):
            r2 = random.Random("C06-search-%d-%d" % (ctx.seed, k))
            more = [gen(r2) for _ in range(n)]
            res2, cr2 = solve_common.evaluate(ctx, more, "c06_s%d" % k)
            judge(more, res2, cr2)
            if ctx.violations:
                break
    ctx.coverage.update({
        "evaluations": stats["evaluations"],
        "distinct_nontrivial": len({repr(s["classes"]) + repr(s["ops"]) for s in scs}),
        "rule": "seeded random root class with 1-2 sub-objects of ONE sub-class (two live instances of it per root) and 1-3 root "
                "instances created before / after the one randomized; every class has complementary dynamic blocks d0 / d1 on a "
                "pivot field and a free block d2, sometimes an always-on block referring to its own dynamic block; 6 calls per "
                "scenario, 80% with an inline set of 1-3 items: a reference as a statement (through the root or a sub-object, "
                "alternating d0 / d1 from call to call), a Boolean combination (| & ~, depth <= 2) of references, or a plain "
                "constraint; each call is one evaluation: transcript vs model terms, values / frame / outcome vs enumeration in Coq",
        "samples": [solve_common.brief(scs[0], len(scs[0]["ops"]) - 1)],
        "exhaustive": False,
        "calls_with_inline": stats["with_inline"],
        "dynamic_references": stats["dyn_refs"],
        "outcomes": stats["outcomes"],
        "correspondence_mismatches": len(ctx.tie_broken),
    })
    ctx.assumptions += [
        "which object a reference denotes is given by the path it is written through (harness: Lits.dyn_block); the statements of "
        "that object's block over that object's fields are the specification",
        "dynamic blocks hold relational expression statements; references inside if / implies bodies are not generated; 40% of the "
        "scenarios also hold 2-3 instances in a list: references through self.l[k] (inline) and through self.l[self.sel] (always-on "
        "block, selector changed between calls)",
    ]
    list_stream(ctx)


def list_stream(ctx):
    """foreach statements inside a dynamic block that calls refer to from their inline blocks, the lists growing between the calls:
    every such call enforces the block over the list as it is at that call, a call without the reference does not enforce it"""
    import listgen
    from props import c04
    rnd = random.Random("C06-lists-%d" % ctx.seed)
    n = 50 if ctx.quick() else 1200
    scs = [listgen.ListGen(random.Random(rnd.random()), dyn=True).scenario() for _ in range(n)]
    obs, results, crashed = c04.evaluate(ctx, scs, "c06l")
    ev = 0
    for si, o in crashed:
        core.add_violation(ctx, "library raised outside a randomize call on a list scenario with a dynamic block: %s" % str(o)[:300],
                           {"scenario": scs[si], "observed": str(o)[:2000]})
    for si, oi, code, res, rsz in results:
        ev += 1
        if code is None:
            ctx.tie_broken.append("Coq evaluation failed for list scenario %d call %d" % (si, oi))
        elif code & (2 | 4 | 8):
            core.add_violation(ctx, "list scenario with a foreach inside a dynamic block: the call does not behave as 'class constraints + the "
                                    "referenced dynamic block over the list as it is now' (bits %d; outcome %s)" % (code & (2 | 4 | 8), res["outcome"]),
                               {"scenario": solve_common.brief(scs[si], oi), "observed": {k: res.get(k) for k in ("outcome", "err", "before", "values", "lists")}, "code": code})
        elif code & 1:
            ctx.tie_broken.append("model's lowering != recorded solver terms in list scenario with a dynamic block %r" % (solve_common.brief(scs[si], oi),))
    ctx.coverage["evaluations"] += ev
    ctx.coverage["list_stream"] = {"scenarios": n, "evaluations": ev,
                                   "calls_referring_to_the_dynamic_block": sum(1 for s in scs for o in s["ops"] if o.get("inline") and o["inline"][0][0] == "dyn")}
