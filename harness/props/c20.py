"""C20 — solve_order decouples the earlier variable's distribution from the later one."""
import json
import math
import random

import core
import solvegen
from props import solve_common

F = lambda n: ["f", [n]]


def templates(rnd):
    """scenario classes with an ordering declaration; each with the fields solved first and their feasible values"""
    out = []
    ka = rnd.choice([1, 2, 2, 3])
    wb = rnd.choice([5, 6, 8])
    # T1: a != 0 -> b == 0  (a = 0 has 2^wb completions, every other value one)
    out.append(("implies", [("a", ka, False), ("b", wb, False)],
                [["solve_order", F("a"), F("b")], ["implies", ["bin", "Ne", F("a"), ["lit", 0]], [["expr", ["bin", "Eq", F("b"), ["lit", 0]]]]]],
                {"a": list(range(1 << ka))}))
    # T2: b <= a  (a = v has v+1 completions)
    out.append(("le", [("a", 3, False), ("b", 6, False)],
                [["solve_order", F("a"), F("b")], ["expr", ["bin", "Le", F("b"), F("a")]]],
                {"a": list(range(8))}))
    # T3: the range of a is narrowed by its own constraints (feasible = inferred range)
    lo = rnd.randint(1, 3)
    hi = lo + rnd.randint(1, 3)
    out.append(("range", [("a", 4, False), ("b", 6, False)],
                [["expr", ["bin", "Ge", F("a"), ["lit", lo]]], ["expr", ["bin", "Le", F("a"), ["lit", hi]]],
                 ["solve_order", F("a"), F("b")], ["expr", ["bin", "Lt", F("b"), ["bin", "Mul", F("a"), ["lit", 3]]]]],
                {"a": list(range(lo, hi + 1))}))
    # T4: signed first variable
    out.append(("signed", [("a", 3, True), ("b", 6, False)],
                [["solve_order", F("a"), F("b")], ["if", ["bin", "Lt", F("a"), ["lit", 0]], [["expr", ["bin", "Eq", F("b"), ["lit", 1]]]], [], None]],
                {"a": list(range(-4, 4))}))
    # T5: a chain a -> b -> c ; b is free given a, c depends on b
    out.append(("chain", [("a", 2, False), ("b", 2, False), ("c", 6, False)],
                [["solve_order", F("a"), F("b")], ["solve_order", F("b"), F("c")],
                 ["implies", ["bin", "Ne", F("b"), ["lit", 0]], [["expr", ["bin", "Eq", F("c"), ["lit", 0]]]]]],
                {"a": list(range(4)), "b": list(range(4))}))
    # T6: a list of fields solved first
    out.append(("list", [("a0", 1, False), ("a1", 2, False), ("b", 6, False)],
                [["solve_order", [F("a0"), F("a1")], F("b")],
                 ["implies", ["bin", "Eq", F("a0"), ["lit", 1]], [["expr", ["bin", "Eq", F("b"), ["lit", 5]]]]],
                 ["implies", ["bin", "Ne", F("a1"), ["lit", 0]], [["expr", ["bin", "Lt", F("b"), ["lit", 8]]]]]],
                {"a0": [0, 1], "a1": [0, 1, 2, 3]}))
    # T7: the chain again, but the constraint text mentions the last variable before the middle one (the groups must not
    # depend on the order of first reference): given a = 0, b must be uniform although 63 of the 64 values of c need b = 3
    out.append(("chain_ref_order", [("a", 1, False), ("b", 2, False), ("c", 6, False)],
                [["solve_order", F("a"), F("b")], ["solve_order", F("b"), F("c")],
                 ["implies", ["bin", "Ne", F("c"), ["lit", 0]], [["expr", ["bin", "Eq", F("b"), ["lit", 3]]]]],
                 ["expr", ["bin", "Ge", F("b"), F("a")]]],
                {"a": [0, 1], "b|a=0": [0, 1, 2, 3]}))
    # T8: a vsc list as the later argument: a = v admits (v+1)^3 assignments of the list
    out.append(("list_later", [("a", 2, False), {"name": "l", "kind": "list", "elem": {"kind": "scalar", "w": 2, "sg": False},
                                                 "rand": True, "randsz": False, "size": 3}],
                [["solve_order", F("a"), F("l")], ["foreach", ["l"], [["expr", ["bin", "Le", ["it"], F("a")]]]]],
                {"a": [0, 1, 2, 3]}))
    # T9: two alternative blocks with opposite orderings, the second one switched off: only the enabled block's declaration counts
    # (a disabled block takes no part in the call - also not with its ordering)
    out.append(("alt_orders", [("a", 2, False), ("b", 6, False)],
                [["expr", ["bin", "Le", F("b"), F("a")]]],
                {"a": [0, 1, 2, 3]},
                {"blocks": [{"name": "o1", "stmts": [["solve_order", F("a"), F("b")]]}, {"name": "o2", "stmts": [["solve_order", F("b"), F("a")]]}],
                 "off": ["o2"]}))
    # T10: a third random field of the same rand set that no declaration names (k <= b): a is still chosen first
    out.append(("unnamed_third", [("a", 1, False), ("b", 6, False), ("k", 6, False)],
                [["solve_order", F("a"), F("b")],
                 ["if", ["bin", "Eq", F("a"), ["lit", 0]], [["expr", ["bin", "Eq", F("b"), ["lit", 4]]]], [], [["expr", ["bin", "Ne", F("b"), ["lit", 4]]]]],
                 ["expr", ["bin", "Le", F("k"), F("b")]]],
                {"a": [0, 1]}))
    # T11: a total order written with a list as the later argument: solve_order(a, [b, c]); solve_order(b, c)
    out.append(("after_list", [("a", 1, False), ("b", 6, False), ("c", 6, False)],
                [["solve_order", F("a"), [F("b"), F("c")]], ["solve_order", F("b"), F("c")],
                 ["if", ["bin", "Eq", F("a"), ["lit", 0]], [["expr", ["bin", "Eq", F("b"), ["lit", 4]]]], [], [["expr", ["bin", "Ne", F("b"), ["lit", 4]]]]],
                 ["expr", ["bin", "Le", F("c"), F("b")]]],
                {"a": [0, 1]}))
    # T12: an enum-typed field solved first
    out.append(("enum_first", [{"name": "a", "kind": "enum", "enum": "E0", "rand": True}, ("b", 6, False)],
                [["solve_order", F("a"), F("b")],
                 ["if", ["bin", "Eq", F("a"), ["enumlit", "E0", 0]], [["expr", ["bin", "Eq", F("b"), ["lit", 4]]]], [], [["expr", ["bin", "Ne", F("b"), ["lit", 4]]]]]],
                {"a": [0, 1]}, {"enums": {"E0": [3, 7]}}))      # (enum fields are observed by enumerator index)
    # T13: a vsc list as the EARLIER argument: every element is chosen before a, whatever the number of values of a that
    # accompany the choice (a <= 16 * min(l): 1 .. 49 completions); the list is judged as a whole (16 tuples)
    out.append(("list_first", [{"name": "l", "kind": "list", "elem": {"kind": "scalar", "w": 2, "sg": False},
                                "rand": True, "randsz": False, "size": 2}, ("a", 6, False)],
                [["solve_order", F("l"), F("a")], ["foreach", ["l"], [["expr", ["bin", "Le", F("a"), ["bin", "Mul", ["it"], ["lit", 16]]]]]]],
                {"l": [(x, y) for x in range(4) for y in range(4)]}))
    return out


def random_orders(rnd, k):
    """ordering-tie stream: 4-6 small fields, some tied together by != constraints (so that several rand sets and unconstrained
    fields occur), and 1-4 solve_order declarations (single fields or lists on either side) oriented along a random permutation
    (acyclic); always satisfiable.  No histogram is judged on these; they feed the ordering tie and the C01/C02 oracle."""
    n = rnd.randint(4, 6)
    names = ["f%d" % i for i in range(n)]
    perm = names[:]
    rnd.shuffle(perm)
    rank = {x: i for i, x in enumerate(perm)}
    stmts = []
    for _ in range(rnd.randint(1, n)):
        a, b = rnd.sample(names, 2)
        stmts.append(["expr", ["bin", "Ne", F(a), F(b)]])
    for _ in range(rnd.randint(1, 4)):
        grp = rnd.sample(names, rnd.randint(2, min(4, n)))
        grp.sort(key=lambda x: rank[x])
        cut = rnd.randint(1, len(grp) - 1)
        bef, aft = grp[:cut], grp[cut:]
        side = lambda l: F(l[0]) if len(l) == 1 and rnd.random() < 0.7 else [F(x) for x in l]
        stmts.insert(rnd.randint(0, len(stmts)), ["solve_order", side(bef), side(aft)])
    return ("random_orders_%d" % k, [(x, 3, False) for x in names], stmts, {})


def mk_scenario(t, ncalls):
    name, fields, stmts, feas = t[:4]
    extra = t[4] if len(t) > 4 else {}
    fs = [f if isinstance(f, dict) else {"name": f[0], "kind": "scalar", "w": f[1], "sg": f[2], "rand": True} for f in fields]
    cls = {"name": "K0", "fields": fs, "blocks": [{"name": "c0", "stmts": stmts}] + extra.get("blocks", []), "pre_randomize": [], "post_randomize": []}
    ops = [{"op": "new", "var": "o", "cls": "K0"}, {"op": "seed", "var": "o", "seed": 1}]
    ops += [{"op": "cmode", "var": "o", "path": [], "block": b, "on": False} for b in extra.get("off", [])]
    ops += [{"op": "randomize", "var": "o", "inline": None} for _ in range(ncalls)]
    return {"enums": extra.get("enums", {}), "classes": [cls], "root_cls": "K0", "ops": ops, "template": name, "feasible": feas, "off": extra.get("off", [])}


def first_fields(stmts):
    before = set()
    after = set()
    for s in stmts:
        if s[0] == "solve_order":
            b = s[1] if isinstance(s[1][0], list) else [s[1]]
            a = s[2] if isinstance(s[2][0], list) else [s[2]]
            before |= {x[1][0] for x in b}
            after |= {x[1][0] for x in a}
    return before, after


def swizzle_order(log, ids_before, ids_after):
    """True iff within every solver instance no slice of a before-field is assumed after a slice of an after-field"""
    seen_after = False
    nsat = 0
    for ev in log:
        if ev[0] == "new":
            seen_after = False
            nsat = 0
        elif ev[0] == "sat":
            nsat += 1
        elif ev[0] == "assume" and nsat >= 1:
            t = ev[1]
            if t[0] == "op" and t[1] == "Eq" and isinstance(t[2], list) and t[2][0] == "slice" and t[2][1][0] == "fvar":
                fid = t[2][1][1]
                if fid in ids_after:
                    seen_after = True
                elif fid in ids_before and seen_after:
                    return False
    return True


def run(ctx):
    core.check_prop_file(ctx, "Prop_C20.v")
    rnd = random.Random("C20-%d" % ctx.seed)
    ncalls = 360 if ctx.quick() else 2400
    reps = 1 if ctx.quick() else 4
    scs = [mk_scenario(t, ncalls) for _ in range(reps) for t in templates(rnd)]
    n_fixed = len(scs)
    scs += [mk_scenario(random_orders(rnd, k), 3) for k in range(60 if ctx.quick() else 600)]
    obs = core.run_impl_parallel(ctx, "solve_impl.py", scs, nchunks=min(core.NCPU, len(scs)))
    evals = 0
    hist_out = []
    for sc, o in zip(scs, obs):
        if o.get("_crash") or "crash" in o:
            ctx.tie_broken.append("implementation worker crashed: %s" % str(o)[:400])
            core.add_violation(ctx, "library raised with solve_order: %s" % str(o)[:300], {"scenario": sc["classes"], "observed": str(o)[:1500]})
            continue
        names = [f["name"] for f in sc["classes"][0]["fields"]]
        before, after = first_fields([st for b in sc["classes"][0]["blocks"] if b["name"] not in sc.get("off", []) for st in b["stmts"]])
        # harness ids of the leaves, in the worker's flat order: a scalar has one, a fixed-size list one per element and one for its size
        lid, k = {}, 0
        for f in sc["classes"][0]["fields"]:
            if f["kind"] == "list":
                lid[f["name"]] = set(range(k, k + f["size"]))
                k += f["size"] + 1
            else:
                lid[f["name"]] = {k}
                k += 1
        idb = set().union(*[lid[n] for n in before - after]) if before - after else set()
        ida = set().union(*[lid[n] for n in after]) if after else set()
        calls = [(op, r) for op, r in zip(sc["ops"], o["ops"]) if op["op"] == "randomize"]
        counts = {n: {} for n in sc["feasible"]}
        conds = {n: (n.split("|")[0], n.split("|")[1].split("=")[0], int(n.split("=")[1])) for n in counts if "|" in n}
        for op, r in calls:
            evals += 1
            if r["outcome"] != "ok":
                core.add_violation(ctx, "a satisfiable system with solve_order did not return normally: %s %s" % (r["outcome"], r["err"]),
                                   {"scenario": sc["classes"], "observed": {"outcome": r["outcome"], "err": r["err"]}})
                break
            if not swizzle_order(r["log"], idb, ida):
                core.add_violation(ctx, "a field declared to be solved first was randomised after a field declared later (template %s)" % sc["template"],
                                   {"scenario": sc["classes"], "observed": "swizzle order in the solver transcript"})
                break
            def val(name):
                ids = sorted(lid[name])
                return r["values"][ids[0]] if len(ids) == 1 else tuple(r["values"][i] for i in ids)
            for n in counts:
                if n in conds:
                    fld, cf, cv = conds[n]
                    if val(cf) != cv:
                        continue
                    v = val(fld)
                else:
                    v = val(n)
                counts[n][v] = counts[n].get(v, 0) + 1
        # frequency support: every feasible value of a first-solved field appears, with a frequency within 6.1 sigma of uniform
        for n, c in counts.items():
            feas = sc["feasible"][n]
            N = sum(c.values())
            p = 1.0 / len(feas)
            sigma = math.sqrt(N * p * (1 - p))
            worst = max(abs(c.get(v, 0) - N * p) for v in feas)
            hist_out.append({"template": sc["template"], "field": n, "counts": {str(k): v for k, v in sorted(c.items())}, "n": N})
            extra = [v for v in c if v not in feas]
            if extra or (N >= 100 and worst > 6.1 * sigma):
                core.add_violation(ctx, "with solve_order the first-solved field %s is not uniform over its feasible values: counts %s "
                                        "(expected %.1f each, 6.1 sigma = %.1f)" % (n, sorted(c.items()), N * p, 6.1 * sigma),
                                   {"scenario": sc["classes"], "observed": {"counts": sorted(c.items()), "calls": N}})
    # ordering tie: Rand/Order.v's rand_order evaluated in Coq on the dependency map and the fields of every rand set the code
    # formed, against the groups the code derived (rs.rand_order_l); distinct (map, rand set) pairs only
    order_cases = {}
    for sc, o in zip(scs, obs):
        if o.get("_crash") or "crash" in o:
            continue
        for op, r in zip(sc["ops"], o["ops"]):
            if op["op"] != "randomize":
                continue
            for rec in r.get("orders", []):
                if "error" in rec:
                    ctx.tie_broken.append("ordering of the rand sets could not be observed: %s" % rec["error"][:200])
                    continue
                for flds, groups in rec["sets"]:
                    if any(x < 0 for x in flds) or any(a < 0 or any(b < 0 for b in bs) for a, bs in rec["deps"]):
                        continue        # a field the harness does not number
                    key = json.dumps([rec["deps"], flds, groups])
                    order_cases.setdefault(key, sc["template"])
    n_order = 0
    if order_cases:
        keys = sorted(order_cases)
        nl = lambda l: core.clist(["%d%%nat" % x for x in l])
        rows = []
        for k in keys:
            deps, flds, groups = json.loads(k)
            d = core.clist(["(%d%%nat, %s)" % (a, nl(bs)) for a, bs in deps])
            g = "None" if groups is None else "(Some %s)" % core.clist([nl(x) for x in groups])
            rows.append("(%s, %s, %s)" % (d, nl(flds), g))
        text = ("From Coq Require Import ZArith List Bool Arith.\nFrom PV Require Import Rand.Order.\nImport ListNotations.\n"
                "Fixpoint leqb (a b : list nat) : bool := match a, b with [], [] => true | x :: a', y :: b' => Nat.eqb x y && leqb a' b' | _, _ => false end.\n"
                "Fixpoint lleqb (a b : list (list nat)) : bool := match a, b with [], [] => true | x :: a', y :: b' => leqb x y && lleqb a' b' | _, _ => false end.\n"
                "Definition oeqb (a b : option (list (list nat))) : bool := match a, b with Some x, Some y => lleqb x y "
                "| None, None => true | _, _ => false end.\n"
                "Definition cases : list (deps * list nat * option (list (list nat))) := %s.\n"
                "Eval vm_compute in map (fun c => match c with (d, f, r) => if oeqb (rand_order d f) r then 0%%Z else 1%%Z end) cases.\n"
                % core.clist(rows))
        res = core.parse_z_list(core.coq_eval(ctx, "c20_order", text))
        if res is None or len(res) != len(keys):
            ctx.tie_broken.append("Coq evaluation of the ordering cases failed")
        else:
            n_order = len(keys)
            evals += n_order
            for k, bad in zip(keys, res):
                if bad:
                    deps, flds, groups = json.loads(k)
                    ctx.tie_broken.append("Rand/Order.v rand_order != rs.rand_order_l (template %s): deps %s fields %s code %s"
                                          % (order_cases[k], deps, flds, groups))
    # constraints still hold / satisfiability unchanged: the C01/C02 oracle on the first calls of every template
    short = [dict(s, ops=s["ops"][:9]) for s in scs[:len(templates(random.Random(0)))] + scs[n_fixed:]
             if all(f["kind"] == "scalar" for f in s["classes"][0]["fields"])]      # (lists: C04's oracle)
    results, crashed = solve_common.evaluate(ctx, short, "c20")
    for si, oi, code, res in results:
        evals += 1
        if code is None:
            ctx.tie_broken.append("Coq evaluation failed for template %s" % short[si]["template"])
        elif code & (2 | 8):
            core.add_violation(ctx, "with solve_order a hard constraint is violated or the outcome contradicts satisfiability",
                               {"scenario": short[si]["classes"], "observed": {k: res[k] for k in ("outcome", "values")}, "code": code})
        elif code & 1:
            ctx.tie_broken.append("model's lowering != recorded terms with solve_order (template %s)" % short[si]["template"])
    ctx.coverage.update({
        "evaluations": evals,
        "distinct_nontrivial": len({repr(s["classes"]) for s in scs}),
        "rule": "thirteen templates (a vsc list as the earlier argument, judged as a whole; an enum-typed first field; a third unnamed field in the ordered rand set; a list as the later argument of a total order; two alternative blocks with opposite orderings, one switched off; implication, b <= a, narrowed range, signed first variable, chain a->b->c, list of first variables, "
                "the chain with the last variable mentioned first - b judged given a = 0 -, a vsc list as the later argument) "
                "with seeded parameters, each randomised %d times from a fixed RandState; per call: normal return, swizzle order "
                "in the solver transcript (no slice of a first-solved field after a slice of a later one); per template: histogram "
                "of the first-solved fields against the uniform distribution over their feasible values (6.1 sigma); plus the C01/C02 "
                "oracle on the first calls" % ncalls,
        "samples": [{"template": s["template"], "stmts": s["classes"][0]["blocks"][0]["stmts"]} for s in scs[:2]],
        "exhaustive": False,
        "histograms": hist_out[:20],
        "ordering_tie_cases": n_order,
        "correspondence_mismatches": len(ctx.tie_broken),
    })
    ctx.assumptions += [
        "theorems are about coq/Rand/Order.v (ordering of groups) and coq/Rand/Swizzle.v (a pattern equal to a feasible value pins "
        "that value); PARTIAL: the distribution claim is proved as 'every draw of the pattern yields that value when the feasible "
        "values fill the inferred range'; uniformity of CPython's generator and Boolector's choice when the pattern is infeasible "
        "are runtime behaviours, observed here by histograms (support, with an exact 6.1-sigma bound per cell)",
    ]
