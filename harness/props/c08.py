"""C08 — constraints reach through the object hierarchy to exactly the fields they name."""
from props import tree_common


def run(ctx):
    tree_common.run_tree(
        ctx, "C08", "Prop_C08.v", bits=2 | 16,
        what="a constraint reached a different field than the attribute path names, or a sub-object's blocks were enforced "
             "although it is not random in the call (or skipped although it is)",
        rule_extra="Constraints of a class refer to fields of its sub-objects by attribute path; several sub-objects of one class "
                   "occur as siblings. The tie maps every solver variable back to the field object reached by the attribute path.",
        assumptions=["objects stored in lists: see C04"])
