"""C08 — constraints reach through the object hierarchy to exactly the fields they name."""
from props import tree_common


def run(ctx):
    tree_common.run_tree(
        ctx, "C08", "Prop_C08.v", bits=2 | 16,
        what="a constraint reached a different field than the attribute path names, or a sub-object's blocks were enforced "
             "although it is not random in the call (or skipped although it is)",
        rule_extra="Constraints of a class refer to fields of its sub-objects by attribute path; several sub-objects of one class "
                   "occur as siblings. The tie maps every solver variable back to the field object reached by the attribute path.",
        assumptions=["lists of objects: fixed populations of 2-3 elements (second stream); random-size lists of objects are not generated"])
    tree_common.extra_stream(
        ctx, "C08", 2 | 16,
        "a constraint reached a different field than the path through a list element names, or an element's blocks were enforced "
        "although the list is not random in the call (or skipped although it is)",
        tag="c08l", key="object_list_stream",
        rule="the same trees with 1-2 lists of 2-3 objects in the root: constraints name element fields by index (self.l[1].f), "
             "foreach blocks relate the element's fields to constants, the index, the container's fields and each other; the "
             "element class has constraint blocks of its own",
        olists=True)
