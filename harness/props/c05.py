"""C05 — soft constraints are never fatal, are honoured maximally, and later ones win."""
import core
from props import solve_common


def list_stream(ctx):
    """soft constraints next to list constraints: scalars and constant-index elements of fixed-size lists carry soft constraints,
    related to each other by hard statements in both operand orders (the rand sets they sit in are merged along the way)"""
    import random
    import listgen
    from props import c04
    rnd = random.Random("C05-lists-%d" % ctx.seed)
    n = 120 if ctx.quick() else 2500
    scs = [listgen.ListGen(random.Random(rnd.random()), softs=True).scenario() for _ in range(n)]
    obs, results, crashed = c04.evaluate(ctx, scs, "c05l")
    ev = 0
    for si, o in crashed:
        ctx.tie_broken.append("implementation worker crashed: %s" % str(o)[:500])
        core.add_violation(ctx, "library raised outside a randomize call on a list scenario with soft constraints: %s" % str(o)[:300],
                           {"scenario": scs[si], "observed": str(o)[:2000]})
    for si, oi, code, res, rsz in results:
        ev += 1
        if code is None:
            ctx.tie_broken.append("Coq evaluation failed for list scenario %d call %d" % (si, oi))
        elif code & (64 | 128 | 8):
            core.add_violation(ctx, "soft constraints next to list constraints: a soft constraint that could have been honoured was not, "
                                    "the soft terms differ from the specification, or a satisfiable system failed (bits %d; outcome %s)"
                               % (code & (64 | 128 | 8), res["outcome"]),
                               {"scenario": solve_common.brief(scs[si], oi), "observed": {k: res.get(k) for k in ("outcome", "err", "before", "values")}, "code": code})
        elif code & 1:
            ctx.tie_broken.append("model's lowering != recorded solver terms in list scenario with softs %r" % (solve_common.brief(scs[si], oi),))
    ctx.coverage["list_scenarios_with_softs"] = {"scenarios": n, "evaluations": ev}


def run(ctx):
    core.check_prop_file(ctx, "Prop_C05.v")
    scs, stats = solve_common.run_generic(
        ctx, "C05", bits=64 | 128 | 8,
        what="soft constraints: a violated soft constraint could have been honoured together with the hard constraints and the "
             "honoured higher-priority soft constraints, or the soft terms / their priority order differ from the specification, "
             "or a satisfiable hard system failed",
        n_quick=110, n_thorough=3500, softs=True, soft_bias=True)
    list_stream(ctx)
    nsoft = sum(repr(s).count('"soft"') + repr(s).count("'soft'") for s in scs)
    ctx.coverage.update({
        "evaluations": stats["evaluations"],
        "distinct_nontrivial": len({repr(s["classes"]) for s in scs if "'soft'" in repr(s["classes"]) or "'soft'" in repr(s["ops"])}),
        "rule": "the C01 generator with ~45% of the statements soft (field ==/</>/!= constant on few fields so that they conflict), "
                "nested under if / else / implies with relational guards, in class blocks and inline; <= 11 random bits so that "
                "maximality is decided by enumerating every assignment inside Coq; 3 calls per scenario, each one evaluation; "
                "non-trivial = has a soft constraint",
        "samples": [solve_common.brief(scs[0], len(scs[0]["ops"]) - 1)],
        "exhaustive": False,
        "soft_constraints_generated": nsoft,
        "outcomes": stats["outcomes"],
        "correspondence_mismatches": len(ctx.tie_broken),
    })
    ctx.assumptions += [
        "theorems are about coq/Rand/Soft.v; the satisfiability test is a parameter that is monotone in the set of terms",
        "tie: the batch of soft terms handed to the solver after the hard phase equals the model's soft terms in priority order "
        "(recording proxy); oracle: priority-greedy maximality of the returned values by enumeration",
        "guards of nested soft constraints are relational (1-bit) conditions",
    ]
