"""C05 — soft constraints are never fatal, are honoured maximally, and later ones win."""
import core
from props import solve_common


def run(ctx):
    core.check_prop_file(ctx, "Prop_C05.v")
    scs, stats = solve_common.run_generic(
        ctx, "C05", bits=64 | 128 | 8,
        what="soft constraints: a violated soft constraint could have been honoured together with the hard constraints and the "
             "honoured higher-priority soft constraints, or the soft terms / their priority order differ from the specification, "
             "or a satisfiable hard system failed",
        n_quick=110, n_thorough=3500, softs=True, soft_bias=True)
    nsoft = sum(repr(s).count('"soft"') + repr(s).count("'soft'") for s in scs)
    ctx.coverage.update({
        "evaluations": stats["evaluations"],
        "distinct_nontrivial": len({repr(s["classes"]) for s in scs if "'soft'" in repr(s["classes"]) or "'soft'" in repr(s["ops"])}),
        "rule": "the C01 generator with ~45% of the statements soft (field ==/</>/!= constant on few fields so that they conflict), "
                "nested under if / else / implies with relational guards, in class blocks and inline; <= 11 random bits so that "
                "maximality is decided by enumerating every assignment inside Coq; 3 calls per scenario, each one evaluation; "
                "non-trivial = has a soft constraint",
        "samples": [solve_common.brief(scs[0], len(scs[0]["ops"]) - 1)],
        "exhaustive": False,
        "soft_constraints_generated": nsoft,
        "outcomes": stats["outcomes"],
        "correspondence_mismatches": len(ctx.tie_broken),
    })
    ctx.assumptions += [
        "theorems are about coq/Rand/Soft.v; the satisfiability test is a parameter that is monotone in the set of terms",
        "tie: the batch of soft terms handed to the solver after the hard phase equals the model's soft terms in priority order "
        "(recording proxy); oracle: priority-greedy maximality of the returned values by enumeration",
        "guards of nested soft constraints are relational (1-bit) conditions",
    ]
