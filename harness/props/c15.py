"""C15 — dist and weighted selection follow their weights; zero weight means never.
This module: the procedural helpers distselect / randselect, exhaustively over every draw (the dist-constraint half
is checked by props/c15 through the solver harness: see run())."""
import itertools
import random

import core
import solvegen
from core import cz, clist

PROP_FILE = "Prop_C15.v"
HEADER = """From Coq Require Import ZArith List Bool.
From PV Require Import Rand.Select Rand.SelectCheck.
Import ListNotations.
Open Scope Z_scope.
"""


class DistGen(solvegen.Gen):
    """one class with 2-4 small scalars, a dist on a random one, a window lo <= a <= hi and / or a relation to another field"""

    def fill_blocks(self, softs):
        rnd = self.rnd
        c = self.classes[0]
        sc = {"classes": self.classes, "enums": self.enums}
        if not any(f["kind"] == "scalar" for f in c["fields"]):
            c["fields"].append({"name": "f%d" % self.nfield, "kind": "scalar", "w": 3, "sg": False, "rand": True})
            self.nfield += 1
        self.fs = [(list(p), f) for p, f in solvegen.leaves_of(sc, c["name"])]
        d = self.dist_stmt(c)
        path = d[1][1]
        f = next(x for x in c["fields"] if x["name"] == path[0])
        lo, hi = solvegen.type_range(f["w"], f["sg"])
        stmts = [d]
        r = rnd.random()
        if r < 0.6:
            a = rnd.randint(lo, hi)
            b = rnd.randint(a, hi)
            stmts += [["expr", ["bin", "Ge", ["f", path], ["lit", a]]], ["expr", ["bin", "Le", ["f", path], ["lit", b]]]]
        if rnd.random() < 0.4:
            stmts.append(["expr", self.relation(1)])
        rnd.shuffle(stmts)
        c["blocks"] = [{"name": "c0", "stmts": stmts}]


def binom_tail(n, k, p):
    """two-sided binomial tail: P(|X - np| >= |k - np|) for X ~ Bin(n, p), summed term by term (terms computed in log space)"""
    from math import lgamma, log, exp
    if p <= 0:
        return 1.0 if k == 0 else 0.0
    if p >= 1:
        return 1.0 if k == n else 0.0
    d = abs(k - n * p)
    tot = 0.0
    for x in range(n + 1):
        if abs(x - n * p) >= d - 1e-12:
            tot += exp(lgamma(n + 1) - lgamma(x + 1) - lgamma(n - x + 1) + x * log(p) + (n - x) * log(1 - p))
    return min(1.0, tot)


def dist_streams(ctx):
    """the dist-constraint half: (1) per call, the rewrite judged through the solver harness; (2) frequencies of an otherwise
    unconstrained dist against weight / total with exact binomial tails"""
    from props import solve_common
    rnd = random.Random("C15-dist-%d" % ctx.seed)
    n = 80 if ctx.quick() else 2500
    scs = []
    for _ in range(n):
        g = DistGen(random.Random(rnd.random()), small=True)
        g.dists = False            # (the dist statement is placed by DistGen.fill_blocks itself)
        scs.append(g.scenario(ncalls=3))
    results, crashed = solve_common.evaluate(ctx, scs, "c15d")
    st = {"evaluations": 0, "outcomes": {}}
    for si, o in crashed:
        ctx.tie_broken.append("implementation worker crashed: %s" % str(o)[:400])
    for si, oi, code, res in results:
        st["evaluations"] += 1
        st["outcomes"][res["outcome"]] = st["outcomes"].get(res["outcome"], 0) + 1
        if code is None:
            ctx.tie_broken.append("Coq evaluation failed for dist scenario %d call %d" % (si, oi))
        elif code & (2 | 8):
            core.add_violation(ctx, "a call with a dist constraint returned a value outside the listed non-zero-weight entries (or "
                                    "violating the accompanying constraints), or its outcome contradicts satisfiability (bits %d; outcome %s, "
                                    "values %s)" % (code & 10, res["outcome"], res["values"]),
                               {"scenario": solve_common.brief(scs[si], oi), "observed": {k: res[k] for k in ("outcome", "err", "before", "values")},
                                "code": code, "model_terms_agree": not (code & 1)})
        elif code & 1:
            ctx.tie_broken.append("model's rewrite of dist != recorded solver terms in scenario %r" % (solve_common.brief(scs[si], oi),))
    # ---- frequencies
    ncalls = 400 if ctx.quick() else 1500
    fcases = []
    for k in range(6 if ctx.quick() else 30):
        r = random.Random("C15-freq-%d-%d" % (ctx.seed, k))
        ents, used = [], set()
        for _ in range(r.randint(2, 4)):
            a = r.choice([x for x in range(0, 14) if x not in used and x + 1 not in used] or [15])
            if r.random() < 0.5 and a + 1 not in used:
                it = [a, a + 1]
                used |= {a, a + 1}
            else:
                it = a
                used.add(a)
            ents.append([it, r.choice([0, 1, 2, 3, 6])])
        if all(e[1] == 0 for e in ents):
            ents[0][1] = 2
        fields = [{"name": "a", "kind": "scalar", "w": 4, "sg": False, "rand": True},
                  {"name": "b", "kind": "scalar", "w": 4, "sg": False, "rand": True}]
        kind = ["single", "shared", "foreach"][k % 3]
        judged = [(0, ents)]              # (index of the value among the leaves, entries with numeric weights)
        if kind == "single":
            stmts = [["dist", ["f", ["a"]], ents]]
        elif kind == "shared":
            # a second dist on another field; both read one of their weights from the same non-random field (the two rand sets
            # are merged through it - each field must keep its own weighting)
            wv = r.choice([2, 5, 8])
            fields.append({"name": "w", "kind": "scalar", "w": 4, "sg": False, "rand": False, "init": wv})
            ents = [[it, wv] if j == 0 else [it, w] for j, (it, w) in enumerate(ents)]
            ents2 = [[1, wv], [2, 1], [[4, 5], 2]]
            sym = lambda es: [[it, ["f", ["w"]]] if j == 0 else [it, w] for j, (it, w) in enumerate(es)]
            stmts = [["dist", ["f", ["a"]], sym(ents)], ["dist", ["f", ["b"]], sym(ents2)]]
            judged = [(0, ents), (1, ents2)]
        else:
            # the dist inside a foreach over a two-element list (the statement is copied per element)
            fields.append({"name": "l", "kind": "list", "elem": {"kind": "scalar", "w": 4, "sg": False}, "rand": True, "randsz": False, "size": 2})
            if not any(isinstance(it, list) for it, _ in ents):
                ents.append([[14, 15], 2])
            stmts = [["foreach", ["l"], [["dist", ["it"], ents]]]]
            judged = [(2, ents), (3, ents)]
        cls = {"name": "K0", "fields": fields, "blocks": [{"name": "c0", "stmts": stmts}], "pre_randomize": [], "post_randomize": []}
        fcases.append({"enums": {}, "classes": [cls], "root_cls": "K0", "judged": judged, "kind": kind,
                       "ops": [{"op": "new", "var": "o", "cls": "K0"}, {"op": "seed", "var": "o", "seed": 1000 + k}]
                       + [{"op": "randomize", "var": "o", "inline": None} for _ in range(ncalls)]})
    fobs = core.run_impl_parallel(ctx, "solve_impl.py", fcases)
    alpha = 1e-7
    ntests = 0
    for c, o in zip(fcases, fobs):
        if o.get("_crash") or "crash" in o:
            ctx.tie_broken.append("frequency worker crashed: %s" % str(o)[:300])
            continue
        for vi, ents in c["judged"]:
            vals = [r["values"][vi] for op, r in zip(c["ops"], o["ops"]) if op["op"] == "randomize" and r["outcome"] == "ok"]
            if len(vals) < ncalls:
                core.add_violation(ctx, "a satisfiable dist scenario (%s) did not return normally in %d of %d calls" % (c["kind"], ncalls - len(vals), ncalls),
                                   {"case": c["classes"]})
                break
            total = sum(w for _, w in ents)
            for it, w in ents:
                members = list(range(it[0], it[1] + 1)) if isinstance(it, list) else [it]
                k_ent = sum(1 for v in vals if v in members)
                ntests += 1
                p = w / total
                if w == 0 and k_ent > 0:
                    core.add_violation(ctx, "zero-weight entry %r produced %d times" % (it, k_ent), {"case": c["classes"], "counts": k_ent})
                elif binom_tail(len(vals), k_ent, p) < alpha:
                    core.add_violation(ctx, "entry %r of weights %r chosen %d times in %d calls: exact two-sided binomial tail %.3g for p = %d/%d"
                                       % (it, ents, k_ent, len(vals), binom_tail(len(vals), k_ent, p), w, total), {"case": c["classes"], "values": vals[:200]})
                if w > 0 and len(members) > 1:
                    for m in members:
                        ntests += 1
                        km = sum(1 for v in vals if v == m)
                        if km == 0 and (1 - p / len(members)) ** len(vals) < alpha:
                            core.add_violation(ctx, "value %d of range entry %r (weight %d of %d) was never produced in %d calls (probability of "
                                                    "that %.3g)" % (m, it, w, total, len(vals), (1 - p / len(members)) ** len(vals)),
                                               {"case": c["classes"], "values": vals[:200]})
                        elif binom_tail(len(vals), km, p / len(members)) < alpha:
                            core.add_violation(ctx, "value %d of range entry %r produced %d times in %d calls (expected share %d/%d/%d)"
                                               % (m, it, km, len(vals), w, total, len(members)), {"case": c["classes"], "values": vals[:200]})
            if any(v not in {m for it, w in ents if w > 0 for m in (range(it[0], it[1] + 1) if isinstance(it, list) else [it])} for v in vals):
                core.add_violation(ctx, "an unlisted or zero-weight value was produced by an otherwise unconstrained dist", {"case": c["classes"], "values": vals[:200]})
    return st, len(fcases) * ncalls, ntests


def run(ctx):
    core.check_prop_file(ctx, PROP_FILE)
    maxw = 4 if ctx.quick() else 6
    maxlen = 4 if ctx.quick() else 5
    cases = []
    for n in range(1, maxlen + 1):
        for ws in itertools.product(range(0, maxw + 1), repeat=n):
            if sum(ws) > 0:
                cases.append({"ws": list(ws)})
    rnd = random.Random("C15-%d" % ctx.seed)
    for _ in range(40 if ctx.quick() else 600):
        n = rnd.randint(2, 8)
        ws = [rnd.choice([0, 0, 1, 2, 5, 10, 40, rnd.randint(0, 100)]) for _ in range(n)]
        if sum(ws) > 0:
            cases.append({"ws": ws})
    n_exh = len(cases)
    obs = core.run_impl_parallel(ctx, "c15_impl.py", cases)
    shard = 400
    files = []
    for si in range(0, len(cases), shard):
        items = []
        for c, o in zip(cases[si:si + shard], obs[si:si + shard]):
            if o.get("_crash") or "crash" in o:
                items.append("9")
            else:
                zl = lambda l: clist([cz(x) for x in l])
                items.append("c15_check %s %s %s" % (zl(c["ws"]), zl(o["sel"]), zl(o["rsel"])))
        files.append(("c15_%d" % (si // shard), HEADER + "Definition codes : list Z := %s.\nEval vm_compute in codes.\n" % clist(items)))
    outs = core.coq_eval_many(ctx, files)
    draws = 0
    for si in range(0, len(cases), shard):
        chunk = cases[si:si + shard]
        zs = core.parse_z_list(outs["c15_%d" % (si // shard)])
        if zs is None or len(zs) != len(chunk):
            zs = [None] * len(chunk)
        for c, o, code in zip(chunk, obs[si:si + shard], zs):
            draws += sum(c["ws"])
            if code == 9 or o.get("_crash") or "crash" in o:
                ctx.tie_broken.append("implementation raised on %r: %s" % (c, str(o)[:300]))
                core.add_violation(ctx, "distselect / randselect raised on weights %r: %s" % (c["ws"], str(o)[:200]), {"case": c, "observed": str(o)[:1500]})
            elif code is None:
                ctx.tie_broken.append("Coq evaluation failed for %r" % (c,))
            elif code & 2:
                core.add_violation(ctx, "distselect / randselect do not select index i for exactly weight_i of the %d equally likely draws "
                                        "(weights %r)" % (sum(c["ws"]), c["ws"]), {"case": c, "observed": o, "model_agrees_with_impl": not (code & 1)})
            elif code & 1:
                ctx.tie_broken.append("model != implementation for weights %r" % (c["ws"],))
            if not (o.get("_crash") or "crash" in o) and o["draw_bounds"] != [[1, sum(c["ws"])]]:
                core.add_violation(ctx, "the draw is not randint(1, total): %r" % (o["draw_bounds"],), {"case": c, "observed": o})
    dstats, fcalls, ftests = dist_streams(ctx)
    ctx.coverage.update({
        "dist_constraint_stream": {"evaluations": dstats["evaluations"], "outcomes": dstats["outcomes"],
                                   "rule": "classes with 2-4 small scalars, a dist on a random one (1-4 entries: values and ranges inside and "
                                           "outside the type, overlapping entries, zero weights, a weight held in a non-random field), a window "
                                           "lo <= a <= hi and / or a relation to another field; per call the rewritten dist (Rand/Dist.v) is "
                                           "compared with the solver transcript and values / outcome are judged by enumeration in Coq"},
        "dist_frequency_stream": {"calls": fcalls, "binomial_tests": ftests,
                                  "rule": "an otherwise unconstrained 4-bit field with 2-4 disjoint entries; per entry and per value of a "
                                          "range the count over the calls is tested against weight / total (and / range size) with the exact "
                                          "two-sided binomial tail at 1e-7; zero-weight and unlisted values must never appear"},
        "evaluations": draws + dstats["evaluations"],
        "distinct_nontrivial": len({tuple(c["ws"]) for c in cases if 0 in c["ws"] or len(set(c["ws"])) > 1}),
        "rule": "every weight vector of length <= %d with entries 0..%d (not all zero) plus seeded random longer vectors; for each "
                "vector EVERY value the draw randint(1, total) can return is substituted and the selected index of distselect and "
                "of randselect recorded (one evaluation per draw); non-trivial = has a zero weight or unequal weights" % (maxlen, maxw),
        "samples": [cases[0], cases[len(cases) // 2], cases[-1]],
        "exhaustive": True,
        "exhaustive_part": "all draws of all %d enumerated weight vectors" % n_exh,
        "correspondence_mismatches": len(ctx.tie_broken),
    })
    ctx.assumptions += [
        "the draw random.randint(1, total) is uniform (CPython's generator is modelled, not verified): the theorems count draws",
        "weights are non-negative integers with a positive sum (the code raises otherwise)",
        "frequencies: the draws of one object with a fixed RandState are deterministic; the binomial tails treat them as independent "
        "uniform draws (CPython's generator is modelled, not verified); a tail below 1e-7 is reported",
    ]
