"""C15 — dist and weighted selection follow their weights; zero weight means never.
This module: the procedural helpers distselect / randselect, exhaustively over every draw (the dist-constraint half
is checked by props/c15 through the solver harness: see run())."""
import itertools
import random

import core
from core import cz, clist

PROP_FILE = "Prop_C15.v"
HEADER = """From Coq Require Import ZArith List Bool.
From PV Require Import Rand.Select Rand.SelectCheck.
Import ListNotations.
Open Scope Z_scope.
"""


def run(ctx):
    core.check_prop_file(ctx, PROP_FILE)
    maxw = 4 if ctx.quick() else 6
    maxlen = 4 if ctx.quick() else 5
    cases = []
    for n in range(1, maxlen + 1):
        for ws in itertools.product(range(0, maxw + 1), repeat=n):
            if sum(ws) > 0:
                cases.append({"ws": list(ws)})
    rnd = random.Random("C15-%d" % ctx.seed)
    for _ in range(40 if ctx.quick() else 600):
        n = rnd.randint(2, 8)
        ws = [rnd.choice([0, 0, 1, 2, 5, 10, 40, rnd.randint(0, 100)]) for _ in range(n)]
        if sum(ws) > 0:
            cases.append({"ws": ws})
    n_exh = len(cases)
    obs = core.run_impl_parallel(ctx, "c15_impl.py", cases)
    shard = 400
    files = []
    for si in range(0, len(cases), shard):
        items = []
        for c, o in zip(cases[si:si + shard], obs[si:si + shard]):
            if o.get("_crash") or "crash" in o:
                items.append("9")
            else:
                zl = lambda l: clist([cz(x) for x in l])
                items.append("c15_check %s %s %s" % (zl(c["ws"]), zl(o["sel"]), zl(o["rsel"])))
        files.append(("c15_%d" % (si // shard), HEADER + "Definition codes : list Z := %s.\nEval vm_compute in codes.\n" % clist(items)))
    outs = core.coq_eval_many(ctx, files)
    draws = 0
    for si in range(0, len(cases), shard):
        chunk = cases[si:si + shard]
        zs = core.parse_z_list(outs["c15_%d" % (si // shard)])
        if zs is None or len(zs) != len(chunk):
            zs = [None] * len(chunk)
        for c, o, code in zip(chunk, obs[si:si + shard], zs):
            draws += sum(c["ws"])
            if code == 9 or o.get("_crash") or "crash" in o:
                ctx.tie_broken.append("implementation raised on %r: %s" % (c, str(o)[:300]))
                core.add_violation(ctx, "distselect / randselect raised on weights %r: %s" % (c["ws"], str(o)[:200]), {"case": c, "observed": str(o)[:1500]})
            elif code is None:
                ctx.tie_broken.append("Coq evaluation failed for %r" % (c,))
            elif code & 2:
                core.add_violation(ctx, "distselect / randselect do not select index i for exactly weight_i of the %d equally likely draws "
                                        "(weights %r)" % (sum(c["ws"]), c["ws"]), {"case": c, "observed": o, "model_agrees_with_impl": not (code & 1)})
            elif code & 1:
                ctx.tie_broken.append("model != implementation for weights %r" % (c["ws"],))
            if not (o.get("_crash") or "crash" in o) and o["draw_bounds"] != [[1, sum(c["ws"])]]:
                core.add_violation(ctx, "the draw is not randint(1, total): %r" % (o["draw_bounds"],), {"case": c, "observed": o})
    ctx.coverage.update({
        "evaluations": draws,
        "distinct_nontrivial": len({tuple(c["ws"]) for c in cases if 0 in c["ws"] or len(set(c["ws"])) > 1}),
        "rule": "every weight vector of length <= %d with entries 0..%d (not all zero) plus seeded random longer vectors; for each "
                "vector EVERY value the draw randint(1, total) can return is substituted and the selected index of distselect and "
                "of randselect recorded (one evaluation per draw); non-trivial = has a zero weight or unequal weights" % (maxlen, maxw),
        "samples": [cases[0], cases[len(cases) // 2], cases[-1]],
        "exhaustive": True,
        "exhaustive_part": "all draws of all %d enumerated weight vectors" % n_exh,
        "correspondence_mismatches": len(ctx.tie_broken),
    })
    ctx.assumptions += [
        "the draw random.randint(1, total) is uniform (CPython's generator is modelled, not verified): the theorems count draws",
        "weights are non-negative integers with a positive sum (the code raises otherwise)",
        "this run covers the procedural helpers; the dist-constraint half (rewrite to in + zero-weight exclusions, target-range "
        "selection) is covered by the theorems on next_target_at and by the solver harness when dist statements are generated",
    ]
