"""C04 — list constraints hold on exactly the list the user sees."""
import random

import core
import listgen
import solvegen
from core import clist, cz
from props import solve_common


def literal(sc, oi, res):
    randsz = any(f.get("randsz") for f in sc["classes"][0]["fields"] if f["kind"] == "list")
    paths = res["leaves_after"] if randsz else res["leaves_before"]
    lits = listgen.ListLits(sc, sc["root_cls"], paths, solvegen.track_state(sc, oi))
    bmap = {tuple(p): v for p, v in zip(res["leaves_before"], res["before"])}
    amap = {tuple(p): v for p, v in zip(res["leaves_after"], res["values"])}
    r2 = dict(res)
    r2["before"] = [bmap.get(tuple(p), amap.get(tuple(p), 0) if tuple(p)[-1] == "size" else 0) for p in paths]
    r2["values"] = [amap.get(tuple(p), 0) for p in paths]
    if randsz:
        r2["log"] = []            # element models created during the call have no identity in the harness: no term-level tie
        r2["hooks"] = res["hooks"]
    return solvegen.case_literal(sc, oi, r2, lits), randsz


def size_variants(sc, oi, res, max_size=5):
    """for a call on a scenario with random-size lists: the same call with every size vector 0..max_size fixed (the size leaf
    a constant, exactly that many random elements) - Coq literals `sat3 (...)`.  A call is satisfiable iff one of them is."""
    import itertools
    fields = sc["classes"][0]["fields"]
    rs = [f["name"] for f in fields if f["kind"] == "list" and f.get("randsz")]
    bmap = {tuple(p): v for p, v in zip(res["leaves_before"], res["before"])}
    out = []
    for sizes in itertools.product(range(max_size + 1), repeat=len(rs)):
        want = dict(zip(rs, sizes))
        paths, before = [], []
        done = set()
        for p in [tuple(x) for x in res["leaves_before"]]:
            if p[0] in want:
                if p[0] not in done:
                    done.add(p[0])
                    for i in range(want[p[0]]):
                        paths.append((p[0], i))
                        before.append(0)
                    paths.append((p[0], "size"))
                    before.append(want[p[0]])
                continue
            paths.append(p)
            before.append(bmap[p])
        lits = listgen.ListLits(sc, sc["root_cls"], paths, solvegen.track_state(sc, oi))
        lits.size_const = True
        r2 = dict(res, before=before, values=before, log=[], leaves_before=[list(p) for p in paths], leaves_after=[list(p) for p in paths])
        out.append((sizes, "sat3 %s" % solvegen.case_literal(sc, oi, r2, lits)))
    return out


def randsz_satisfiability(ctx, scs, obs, tag):
    """SolveFailure on a scenario with random-size lists: is there a size for which the statements (expanded over that many
    elements by Rand/Unroll.v) have a solution?  Decided by enumeration inside Coq for every size vector 0..5"""
    items = []
    for si, (sc, o) in enumerate(zip(scs, obs)):
        if not isinstance(o, dict) or "ops" not in o or not any(f.get("randsz") for f in sc["classes"][0]["fields"] if f["kind"] == "list"):
            continue
        for oi, (op, res) in enumerate(zip(sc["ops"], o["ops"])):
            if op["op"] == "randomize" and res.get("outcome") == "SolveFailure" and op.get("free") is None:
                try:
                    items.append((si, oi, size_variants(sc, oi, res)))
                except Exception as e:  # noqa
                    ctx.tie_broken.append("cannot express the size variants of a failed call: %s" % e)
    if not items:
        return 0
    files = []
    for k, (si, oi, vs) in enumerate(items):
        files.append(("%s_rsz_%d" % (tag, k), solve_common.HEADER + "Definition codes : list Z := %s.\nEval vm_compute in codes.\n" % clist([v for _, v in vs])))
    outs = core.coq_eval_many(ctx, files, timeout=900)
    for k, (si, oi, vs) in enumerate(items):
        zs = core.parse_z_list(outs["%s_rsz_%d" % (tag, k)])
        if zs is None or len(zs) != len(vs):
            ctx.tie_broken.append("Coq evaluation of the size variants failed for scenario %d call %d" % (si, oi))
            continue
        sat = [sizes for (sizes, _), z in zip(vs, zs) if z == 1]
        if sat:
            core.add_violation(ctx, "SolveFailure on a call that has a solution: with list size(s) %s the statements, expanded over that many "
                                    "elements, are satisfiable (decided by enumeration)" % (list(sat[0]),),
                               {"scenario": solve_common.brief(scs[si], oi), "satisfiable_sizes": [list(x) for x in sat],
                                "observed": {k2: obs[si]["ops"][oi].get(k2) for k2 in ("outcome", "before", "lists")}})
    return len(items)


def evaluate(ctx, scs, tag):
    obs = core.run_impl_parallel(ctx, "solve_impl.py", scs)
    solve_common.report_busy(ctx, scs, obs)
    n_rsz = randsz_satisfiability(ctx, scs, obs, tag)
    ctx.coverage["randsz_failed_calls_examined_for_every_size"] = ctx.coverage.get("randsz_failed_calls_examined_for_every_size", 0) + n_rsz
    items = []
    crashed = []
    for si, (sc, o) in enumerate(zip(scs, obs)):
        if o.get("_crash") or "crash" in o:
            crashed.append((si, o))
            continue
        for oi, (op, res) in enumerate(zip(sc["ops"], o["ops"])):
            if op["op"] != "randomize":
                continue
            try:
                lit, rsz = literal(sc, oi, res)
            except Exception as e:
                import traceback
                ctx.tie_broken.append("cannot express observation in the model's language: %s %s" % (e, traceback.format_exc()[-300:]))
                continue
            items.append((si, oi, lit, res, rsz))
    shard = 60
    files = []
    for k in range(0, len(items), shard):
        body = clist(["s_check2 %s true %s" % (it[2], solvegen.insts_literal(it[3])) for it in items[k:k + shard]])
        files.append(("%s_%d" % (tag, k // shard), solve_common.HEADER + "Definition codes : list Z := %s.\nEval vm_compute in codes.\n" % body))
    outs = core.coq_eval_many(ctx, files, timeout=900)
    results = []
    for k in range(0, len(items), shard):
        chunk = items[k:k + shard]
        zs = core.parse_z_list(outs["%s_%d" % (tag, k // shard)])
        if zs is None or len(zs) != len(chunk):
            zs = [None] * len(chunk)
        for (si, oi, lit, res, rsz), code in zip(chunk, zs):
            results.append((si, oi, code, res, rsz))
    return obs, results, crashed


def size_was_solved(res, name):
    """did the size leaf of list `name` occur (as a variable) in a solver instance that was followed by another one - i.e. one
    whose solve completed - during this failed call?"""
    paths = [tuple(p) for p in res.get("leaves_before") or []]       # (field models are numbered before the call)
    if (name, "size") not in paths:
        return True
    sid = paths.index((name, "size"))
    insts, cur = [], None
    for ev in res.get("log") or []:
        if ev[0] == "new":
            if cur is not None:
                insts.append(cur)
            cur = []
        elif ev[0] in ("assume", "assert") and cur is not None:
            cur.append(ev[1])
    completed = insts          # the last instance (not appended) is the failing one

    def has(t):
        return isinstance(t, list) and ((len(t) > 1 and t[0] == "fvar" and t[1] == sid) or any(has(x) for x in t[1:]))
    return any(has(t) for inst in completed for t in inst)


def expected_lists(sc, obs_ops):
    """Python-level bookkeeping of what every list must expose after each operation (append / clear / assign reduce the
    value modulo 2^w, signed re-interpretation; a fixed-size list keeps its length over a call)"""
    problems = []
    exp = {}
    decl = {f["name"]: f for f in sc["classes"][0]["fields"] if f["kind"] == "list"}
    for name, f in decl.items():
        exp[name] = [0] * f.get("size", 0) if not f.get("randsz") else []

    def wrap(v, f):
        w, sg = f["elem"]["w"], f["elem"]["sg"]
        v &= (1 << w) - 1
        return v - (1 << w) if sg and v >= (1 << (w - 1)) else v
    for oi, (op, res) in enumerate(zip(sc["ops"], obs_ops)):
        k = op["op"]
        if k in ("l_append", "l_clear", "l_set"):
            name = op["path"][0]
            if k == "l_append":
                exp[name] = exp[name] + [wrap(op["value"], decl[name])]
            elif k == "l_clear":
                exp[name] = []
            else:
                exp[name][op["index"]] = wrap(op["value"], decl[name])
        views = res.get("lists")
        if views is None:
            continue
        for name, v in views.items():
            f = decl[name]
            if k == "randomize":
                if res["outcome"] != "ok":
                    # a failed call may already have written the rand sets solved before the failing one
                    if isinstance(v["iter"], str):
                        pass
                    elif f.get("rand") and len(v["iter"]) == len(exp[name]):
                        exp[name] = list(v["iter"])
                    elif f.get("randsz"):
                        # a rand set solved before the failing one has been written; a list whose size never reached a solver
                        # instance that got past its hard constraints must be left as it was (content and length)
                        if not isinstance(v["iter"], str) and v["iter"] != exp[name] and not size_was_solved(res, name):
                            problems.append((oi, "a failed call changed random-size list %s although its size was never solved for: %s -> %s"
                                             % (name, exp[name], v["iter"])))
                        exp[name] = list(v["iter"])
                    continue
                if not f.get("randsz") and v["len"] != len(exp[name]):
                    problems.append((oi, "fixed-size list %s changed its length over a call: %d -> %d" % (name, len(exp[name]), v["len"])))
                exp[name] = list(v["iter"]) if f.get("rand") or f.get("randsz") else exp[name]
            if isinstance(v["iter"], str) or isinstance(v["index"], str) or not (v["len"] == v["size"] == len(v["iter"]) and v["index"] == v["iter"]):
                problems.append((oi, "list %s: len() %s, size %s, iteration %s, indexing %s disagree" % (name, v["len"], v["size"], v["iter"], v["index"])))
            elif v.get("contains_all") is False or (v.get("str") is not None and v["str"] != "[" + ", ".join(str(x) for x in v["iter"]) + "]"):
                problems.append((oi, "list %s: indexing / iteration give %s, but membership of those values is %s and the printed form is %s"
                                 % (name, v["iter"], v.get("contains_all"), v.get("str"))))
            elif v["iter"] != exp[name]:
                problems.append((oi, "list %s exposes %s after %s, expected %s" % (name, v["iter"], k, exp[name])))
            if v["model_len"] != v["len"] and k != "randomize":
                problems.append((oi, "list %s holds %d element models but exposes %d" % (name, v["model_len"], v["len"])))
    return problems


def run(ctx):
    core.check_prop_file(ctx, "Prop_C04.v")
    known = {f["sig"]: f for f in core.known_for("C04")}
    rnd = random.Random("C04-%d" % ctx.seed)
    n = 180 if ctx.quick() else 3000
    scs = [listgen.ListGen(random.Random(rnd.random()), randsz=(i % 4 == 3)).scenario() for i in range(n)]
    stats = {"evaluations": 0, "known_region": 0, "outcomes": {}}

    def judge(scs_, obs, results, crashed):
        for si, o in crashed:
            ctx.tie_broken.append("implementation worker crashed: %s" % str(o)[:500])
            core.add_violation(ctx, "library raised outside a randomize call on a list scenario: %s" % str(o)[:300], {"scenario": scs_[si], "observed": str(o)[:2000]})
        for si, oi, code, res, rsz in results:
            stats["evaluations"] += 1
            stats["outcomes"][res["outcome"]] = stats["outcomes"].get(res["outcome"], 0) + 1
            sc = scs_[si]
            if code is None:
                ctx.tie_broken.append("Coq evaluation failed for scenario %d call %d" % (si, oi))
                continue
            bits = code & (2 | 4 | 8)
            if bits:
                core.add_violation(ctx, "list constraints do not hold on the exposed list, a non-random element changed, or the outcome "
                                        "contradicts satisfiability (bits %d; outcome %s; lists %s)" % (bits, res["outcome"], res.get("lists")),
                                   {"scenario": solve_common.brief(sc, oi), "observed": {k: res.get(k) for k in ("outcome", "err", "before", "values", "lists")}, "code": code})
            elif (code & 1) and not rsz:
                ctx.tie_broken.append("model's lowering != recorded solver terms in list scenario %r" % (solve_common.brief(sc, oi),))
            elif (code & 512) and not rsz:
                ctx.tie_broken.append("statements of one rand set of the model (Rand/Randset.build) were handed to different solver "
                                      "instances in list scenario %r" % (solve_common.brief(sc, oi),))
        for si, (sc, o) in enumerate(zip(scs_, obs)):
            if "ops" not in o:
                continue
            for oi, msg in expected_lists(sc, o["ops"]):
                core.add_violation(ctx, msg, {"scenario": solve_common.brief(sc, oi), "observed": o["ops"][oi].get("lists")})
    obs, results, crashed = evaluate(ctx, scs, "c04")
    judge(scs, obs, results, crashed)
    for f in core.known_for("C04"):
        o1, r1, c1 = evaluate(ctx, [f["case"]], "c04_known")
        if any(code is not None and code & (2 | 8) for _, _, code, _, _ in r1):
            ctx.known.append("%s: %s" % (f["sig"], f["what"]))
    if ctx.tie_broken and not ctx.violations:
        for k in range(3):
            r2 = random.Random("C04-search-%d-%d" % (ctx.seed, k))
            more = [listgen.ListGen(random.Random(r2.random())).scenario() for _ in range(n)]
            o2, res2, cr2 = evaluate(ctx, more, "c04_s%d" % k)
            judge(more, o2, res2, cr2)
            if ctx.violations:
                break
    ctx.coverage.update({
        "evaluations": stats["evaluations"],
        "distinct_nontrivial": len({repr(s["classes"]) for s in scs}),
        "rule": "seeded random classes with 1-2 scalar fields and 1-2 scalar lists (fixed size 0..3, random or not; every 4th scenario "
                "a random-size list with size constraints), 2-4 list statements: foreach with it / idx / l[i] / guarded l[i-1], sum, "
                "unique over lists (+ scalars), size, membership in a list; append / clear / element assignment between 3 calls; each "
                "call is one evaluation. The list forms are expanded over the elements the call exposes and judged by the integer "
                "semantics in Coq; for fixed-size lists the expanded terms are also compared with the solver transcript",
        "samples": [solve_common.brief(scs[0], len(scs[0]["ops"]) - 1)],
        "exhaustive": False,
        "known_region_cases": stats["known_region"],
        "outcomes": stats["outcomes"],
        "correspondence_mismatches": len(ctx.tie_broken),
    })
    # lists of objects: foreach over a fixed population of element objects (expanded by Rand/Unroll.v over the elements' fields)
    from props import tree_common
    tree_common.extra_stream(
        ctx, "C04", 2 | 4 | 8,
        "a foreach body over a list of objects does not hold for every element, an element of a non-random list changed, or the "
        "outcome contradicts satisfiability",
        tag="c04o", key="object_list_stream",
        rule="object trees with 1-2 lists of 2-3 objects; foreach blocks over them relate each element's fields to constants, the "
             "index, the container's fields and each other; element classes have blocks of their own",
        olists=True)
    # random-size lists of objects: views only (public API oracle, no model behind it)
    r3 = random.Random("C04-objsz-%d" % ctx.seed)
    ocases = []
    for _ in range(40 if ctx.quick() else 600):
        lists = []
        for _ in range(r3.randint(1, 3)):
            pop = r3.randint(0, 4)
            lists.append({"pop": pop, "min": r3.choice([None, None, 0, min(pop, 1), min(pop, 2)]), "foreach": r3.choice([None, 5, 7])})
        edits = {}
        for k in (1, 2):
            if r3.random() < 0.4:
                li = r3.randrange(len(lists))
                edits[str(k)] = [[li, [100 * k + j for j in range(r3.randint(1, 3))]]]
        assigns = {}
        for k in (1, 2):
            if r3.random() < 0.3 and str(k) not in edits:
                assigns[str(k)] = [[r3.randrange(len(lists)), r3.randint(0, 2), 50 * k + 7]]
        ocases.append({"lists": lists, "calls": 3, "edits": edits, "assigns": assigns})
    oobs = core.run_impl_parallel(ctx, "c04o_impl.py", ocases, nchunks=4)
    nviews = 0
    for c, o in zip(ocases, oobs):
        if o.get("_crash") or "crash" in o:
            core.add_violation(ctx, "library raised on an object with random-size lists of objects: %s" % str(o)[:300], {"case": c, "observed": str(o)[:1500]})
            continue
        pops = [[10 * (i + 1) + j for j in range(l["pop"])] for i, l in enumerate(c["lists"])]      # the tags each list holds
        fresh = set()
        for k, rec in enumerate(o["calls"]):
            for li, tags in c.get("edits", {}).get(str(k), []):
                pops[li] = list(tags)
            for li, j, t in c.get("assigns", {}).get(str(k), []):
                # (the list exposes a prefix of its population: an assignment beyond the exposed length is not made)
                if k > 0 and j < len(o["calls"][k - 1]["views"][li]["iter"]) and o["calls"][k - 1]["outcome"] == "ok":
                    pops[li][j] = t
                    fresh.add((li, t))
            if rec["outcome"] != "ok":
                if rec["outcome"] != "SolveFailure":
                    core.add_violation(ctx, "call %d on random-size lists of objects ended with %s" % (k, rec["outcome"]), {"case": c, "observed": rec})
                    break
                continue
            bad = None
            for li, (l, v) in enumerate(zip(c["lists"], rec["views"])):
                nviews += 1
                l = dict(l, pop=len(pops[li]))
                if isinstance(v["iter"], str) or isinstance(v["index"], str) or not (v["len"] == v["size"] == len(v["iter"]) == len(v["index"])) \
                        or v["iter"] != v["index"]:
                    bad = "len() %s, size %s, iteration %s, indexing %s disagree" % (v["len"], v["size"], v["iter"], v["index"])
                elif v["len"] > l["pop"] or (l.get("min") is not None and v["len"] < l["min"]):
                    bad = "size %d outside [%s, population %d]" % (v["len"], l.get("min"), l["pop"])
                elif l.get("foreach") and any(e[0] >= l["foreach"] for e in v["iter"]):
                    bad = "foreach body (a < %d) violated by an exposed element: %s" % (l["foreach"], v["iter"])
                elif any(e[0] < e[1] for e in v["iter"]):
                    bad = "an exposed element violates its own class constraint a >= b: %s" % (v["iter"],)
                elif v.get("model_ok") is not True:
                    bad = "the list's model does not refer to the objects the list exposes (solve, constraints and callbacks go elsewhere): %s" % (v.get("model_ok"),)
                elif [e[2] for e in v["iter"]] != pops[li][:len(v["iter"])]:
                    bad = "the list exposes the objects tagged %s, it holds (after clear / append) %s" % ([e[2] for e in v["iter"]], pops[li])
                if bad:
                    break
            if bad:
                core.add_violation(ctx, "random-size list of objects after call %d: %s" % (k, bad), {"case": c, "observed": rec})
                break
    ctx.coverage["object_randsz_views"] = {"cases": len(ocases), "views_checked": nviews,
                                           "rule": "1-3 random-size lists of 0-4 objects in one object, optional lower bound on the size and foreach "
                                                   "over the elements; after each of 3 calls len / size / iteration / indexing must agree, lie "
                                                   "within bounds and population, and the exposed elements must satisfy foreach body and their "
                                                   "own block (public-API oracle, no model)"}
    ctx.assumptions += [
        "the expansion of foreach / sum / unique / membership over the exposed elements is done by the harness (listgen.ListLits) "
        "and is the specification of 'the list the user sees'; the flat statements are then covered by the C01 theorems",
        "scalar lists of fixed and random size; lists of objects with a fixed population (random-size lists of objects are not generated)",
        "known finding randsz.aggregate_over_hidden (sum / unique / membership over a random-size list count the elements of the "
        "maximum size, not of the solved size)",
    ]
