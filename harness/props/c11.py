"""C11 — cross bins count joint hits of their coverpoints."""
import random

import core
from core import cz, clist, cbool, cstr, cpair
from props import c10

PROP_FILE = "Prop_C11.v"
HEADER = """From Coq Require Import ZArith List Bool String.
From PV Require Import Cov.Rangelist Cov.Partition Cov.Coverpoint Cov.Cross Cov.CrossCheck.
Import ListNotations.
Open Scope Z_scope.
"""


def case_lit(c):
    cps = clist([c10.spec_lit(cp) for cp in c["cps"]])
    ss = clist(["(mkXS %s %s)" % (clist([cpair(cz(v), cbool(g)) for v, g in s["vals"]]), cbool(s["iff"]))
                for s in c["samples"]])
    return "(mkC11 %s %s)" % (cps, ss)


def obs_lit(o):
    zl = lambda l: clist([cz(x) for x in l])
    return "(mkO11 %s %s %s %s)" % (
        clist([clist([cstr(n) for n in ns]) for ns in o["cp_names"]]),
        clist([cstr(n) for n in o["x_names"]]),
        clist([clist([zl(d) for d in step]) for step in o["cp_deltas"]]),
        clist([zl(d) for d in o["x_deltas"]]))


def gen_cp(rnd):
    sg = rnd.random() < 0.3
    w = rnd.choice([1, 2, 2, 3, 3, 4])
    lo, hi = c10.type_range(w, sg)
    cp = {"width": w, "signed": sg, "ignore": [], "illegal": []}
    r0 = rnd.random()
    if r0 < 0.3:
        its = c10.disjoint_items(rnd, lo, hi, rnd.randint(1, 2))
        (cp["ignore"] if rnd.random() < 0.5 else cp["illegal"]).append(its)
    elif r0 < 0.45 and hi - lo >= 3:
        # several dedicated exclusion bins (pairwise disjoint), possibly two or three of the same kind
        k = rnd.randint(2, 3)
        its = c10.disjoint_items(rnd, lo, hi, k)
        kinds = rnd.choice([["ignore"] * 3, ["illegal"] * 3, ["ignore", "illegal", "illegal"], ["illegal", "ignore", "ignore"]])
        for part, kd in zip(c10.split_items(rnd, its, min(k, len(its))), kinds):
            if part:
                cp[kd].append(part)
    r = rnd.random()
    if r < 0.6:
        cp["kind"] = "bins"
        nb = rnd.randint(1, 3)
        its = c10.disjoint_items(rnd, lo, hi, rnd.randint(nb, nb + 3))
        parts = c10.split_items(rnd, its, nb)     # bins of one coverpoint are mutually disjoint
        cp["bins"] = []
        for p in parts:
            if rnd.random() < 0.45:
                cp["bins"].append(["bin", p])
            else:
                nv = sum((it[1] - it[0] + 1) if isinstance(it, list) else 1 for it in p)
                cp["bins"].append(["arr", rnd.choice([None, None, 1, 2, 3, nv]), p, True])
    elif r < 0.85:
        cp["kind"] = "auto"
        cp["auto_bin_max"] = rnd.choice([1, 2, 3, 4, 64])
    else:
        cp["kind"] = "enum"
        cp["enum"] = rnd.sample(range(0, 8), rnd.randint(2, 4))
        cp["width"], cp["signed"] = 32, True
    return cp


def cp_values(cp):
    if cp["kind"] == "enum":
        return list(cp["enum"])
    lo, hi = c10.type_range(cp["width"], cp["signed"])
    return list(range(lo, hi + 1))


def gen_case(rnd, overlap=False):
    n = rnd.choice([2, 2, 2, 3])
    cps = [gen_cp(rnd) for _ in range(n)]
    iff_kind = [rnd.choice(["none", "field", "field", "lambda"]) for _ in range(n)] + [rnd.choice(["none", "field"])]
    vals = [cp_values(cp) for cp in cps]
    samples = []
    total = 1
    for v in vals:
        total *= len(v)
    if total <= 200:
        import itertools
        for t in itertools.product(*vals):
            samples.append({"vals": [[x, True] for x in t], "iff": True})
    for _ in range(120):
        vs = []
        for j in range(n):
            g = True if iff_kind[j] == "none" else rnd.random() < 0.75
            vs.append([rnd.choice(vals[j]), g])
        samples.append({"vals": vs, "iff": True if iff_kind[n] == "none" else rnd.random() < 0.8})
    rnd.shuffle(samples)
    return {"cps": cps, "iff_kind": iff_kind, "samples": samples}


def evaluate(ctx, cases, tag):
    obs = core.run_impl_parallel(ctx, "c11_impl.py", cases)
    shard = 40
    files = []
    for si in range(0, len(cases), shard):
        items = []
        for c, o in zip(cases[si:si + shard], obs[si:si + shard]):
            if o.get("_crash") or "crash" in o:
                items.append("9")
            elif "err" in o:
                items.append("8")
            else:
                items.append("c11_check %s %s" % (case_lit(c), obs_lit(o)))
        files.append(("%s_%d" % (tag, si // shard),
                      HEADER + "Definition codes : list Z := %s.\nEval vm_compute in codes.\n" % clist(items)))
    outs = core.coq_eval_many(ctx, files)
    codes = []
    for si in range(0, len(cases), shard):
        n = len(cases[si:si + shard])
        zs = core.parse_z_list(outs["%s_%d" % (tag, si // shard)])
        codes.extend(zs if zs is not None and len(zs) == n else [None] * n)
    return obs, codes


def judge(ctx, cases, obs, codes, stats):
    for c, o, code in zip(cases, obs, codes):
        stats["evaluations"] += 1
        brief = {"cps": c["cps"], "iff_kind": c["iff_kind"], "n_samples": len(c["samples"])}
        if o.get("_crash") or "crash" in o or code in (8, 9):
            ctx.tie_broken.append("implementation raised on %r: %s" % (brief, str(o)[:300]))
            core.add_violation(ctx, "library raised while building/sampling a cross: %s" % str(o)[:300], {"case": c, "observed": o})
        elif code is None:
            ctx.tie_broken.append("Coq evaluation failed for case %r" % (brief,))
        elif code & 2:
            core.add_violation(ctx, "cross bins do not count the joint hits of the coverpoints for %r" % (brief,),
                               {"case": c, "observed": o, "model_agrees_with_impl": not (code & 1)})
        elif code & 1:
            ctx.tie_broken.append("model != implementation on %r" % (brief,))


def run(ctx):
    core.check_prop_file(ctx, PROP_FILE)
    rnd = random.Random("C11-%d" % ctx.seed)
    n = 120 if ctx.quick() else 2500
    cases = [gen_case(rnd) for _ in range(n)]
    stats = {"evaluations": 0}
    obs, codes = evaluate(ctx, cases, "c11")
    judge(ctx, cases, obs, codes, stats)
    if ctx.tie_broken and not ctx.violations:
        ctx.log("correspondence broke; extended search for a failing input")
        for k in range(3):
            r2 = random.Random("C11-search-%d-%d" % (ctx.seed, k))
            more = [gen_case(r2) for _ in range(n)]
            o2, c2 = evaluate(ctx, more, "c11_s%d" % k)
            judge(ctx, more, o2, c2, stats)
            if ctx.violations:
                break
    nsamp = sum(len(c["samples"]) for c in cases)
    gated = sum(1 for c in cases for s in c["samples"] if not s["iff"] or any(not g for _, g in s["vals"]))
    ctx.coverage.update({
        "evaluations": stats["evaluations"],
        "distinct_nontrivial": len({repr((c["cps"], c["iff_kind"])) for c in cases if len(c["samples"]) > 120 or True}),
        "rule": "seeded random covergroups with 2-3 coverpoints (explicit bins, bin arrays, auto-bins, enums; ignore/illegal bins) "
                "and one cross, iff on coverpoints (field or lambda) and on the cross; samples = every value combination when "
                "there are <= 200 plus 120 random samples with the iff flags toggled; after every sample the increments of every "
                "coverpoint bin and cross bin are recorded; distinct by (coverpoint specs, iff kinds)",
        "samples": [{"cps": cases[0]["cps"], "iff_kind": cases[0]["iff_kind"], "first_samples": cases[0]["samples"][:3]}],
        "exhaustive": False,
        "covergroup_samples": nsamp, "gated_off_samples": gated,
        "correspondence_mismatches": len(ctx.tie_broken),
    })
    ctx.assumptions += [
        "theorems are about the Gallina model coq/Cov/Cross.v; tie = this run's differential comparison",
        "bins of one coverpoint are mutually disjoint (a value hits at most one bin of each coverpoint)",
    ]
