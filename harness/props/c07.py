"""C07 — enforced blocks = most-derived, enabled, of this very instance (constraint_mode)."""
from props import tree_common


def run(ctx):
    tree_common.run_tree(
        ctx, "C07", "Prop_C07.v", bits=2 | 8,
        what="the constraint blocks enforced in the call are not the enabled blocks of this instance (values violate an enabled "
             "block, or the outcome shows a disabled / foreign block was enforced)",
        rule_extra="2-3 instances of the same class live together, some created after toggles on others; constraint_mode is "
                   "toggled through the instance (obj.blk.constraint_mode / obj.sub.blk.constraint_mode). The tie compares the "
                   "multiset of hard terms of every call with the model's enabled blocks of that instance.",
        assumptions=["the procedural per-instance path obj.block.constraint_mode(); toggling inside a randomize_with block is "
                     "not generated", "one level of inheritance (second stream)"],
        ninst=3, n_quick=40, n_thorough=1500)
    tree_common.extra_stream(
        ctx, "C07", 2 | 8,
        "the constraint blocks enforced in the call are not the most-derived, enabled blocks of this instance (class hierarchies with "
        "overridden block names; instances held in lists)",
        tag="c07h", key="hierarchy_and_list_stream",
        rule="30% of the classes inherit fields and blocks from a decorated base whose blocks are overridden by name in the derived "
             "class (the base's other blocks stay in force); 1-2 lists of 2-3 objects whose blocks are toggled per element "
             "(obj.l[i].blk.constraint_mode)",
        olists=True, hooks=True)
    scalar_list_stream(ctx)


def scalar_list_stream(ctx):
    """a block holding foreach / sum / product statements over scalar lists is switched off, the lists grow while it is off, it
    is switched on again: every call enforces exactly the enabled blocks over the list as it is at that call"""
    import random
    import core
    import listgen
    from props import c04, solve_common
    rnd = random.Random("C07-lists-%d" % ctx.seed)
    n = 60 if ctx.quick() else 1500
    scs = [listgen.ListGen(random.Random(rnd.random()), cmodes=True).scenario() for _ in range(n)]
    obs, results, crashed = c04.evaluate(ctx, scs, "c07s")
    ev = 0
    for si, o in crashed:
        core.add_violation(ctx, "library raised outside a randomize call on a list scenario with constraint_mode: %s" % str(o)[:300],
                           {"scenario": scs[si], "observed": str(o)[:2000]})
    for si, oi, code, res, rsz in results:
        ev += 1
        if code is None:
            ctx.tie_broken.append("Coq evaluation failed for list scenario %d call %d" % (si, oi))
        elif code & (2 | 8):
            core.add_violation(ctx, "list scenario with constraint_mode history: the values violate an enabled block (expanded over the "
                                    "list as it is at this call), or the outcome shows a disabled block was enforced (bits %d; outcome %s)"
                               % (code & (2 | 8), res["outcome"]),
                               {"scenario": solve_common.brief(scs[si], oi), "observed": {k: res.get(k) for k in ("outcome", "err", "before", "values", "lists")}, "code": code})
        elif code & 1:
            ctx.tie_broken.append("model's lowering != recorded solver terms in list scenario with constraint_mode %r" % (solve_common.brief(scs[si], oi),))
    ctx.coverage["evaluations"] += ev
    ctx.coverage["scalar_list_stream"] = {"scenarios": n, "evaluations": ev,
                                          "toggles": sum(1 for s in scs for o in s["ops"] if o["op"] == "cmode")}
