"""C07 — enforced blocks = most-derived, enabled, of this very instance (constraint_mode)."""
from props import tree_common


def run(ctx):
    tree_common.run_tree(
        ctx, "C07", "Prop_C07.v", bits=2 | 8,
        what="the constraint blocks enforced in the call are not the enabled blocks of this instance (values violate an enabled "
             "block, or the outcome shows a disabled / foreign block was enforced)",
        rule_extra="2-3 instances of the same class live together, some created after toggles on others; constraint_mode is "
                   "toggled through the instance (obj.blk.constraint_mode / obj.sub.blk.constraint_mode). The tie compares the "
                   "multiset of hard terms of every call with the model's enabled blocks of that instance.",
        assumptions=["the procedural per-instance path obj.block.constraint_mode(); toggling inside a randomize_with block is "
                     "not generated", "one level of inheritance (second stream)"],
        ninst=3, n_quick=40, n_thorough=1500)
    tree_common.extra_stream(
        ctx, "C07", 2 | 8,
        "the constraint blocks enforced in the call are not the most-derived, enabled blocks of this instance (class hierarchies with "
        "overridden block names; instances held in lists)",
        tag="c07h", key="hierarchy_and_list_stream",
        rule="30% of the classes inherit fields and blocks from a decorated base whose blocks are overridden by name in the derived "
             "class (the base's other blocks stay in force); 1-2 lists of 2-3 objects whose blocks are toggled per element "
             "(obj.l[i].blk.constraint_mode)",
        olists=True, hooks=True)
