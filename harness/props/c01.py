"""C01 — returned values satisfy every active hard constraint and their declared type."""
from props import solve_common

PROP_FILE = "Prop_C01.v"


def run(ctx):
    import core
    core.check_prop_file(ctx, PROP_FILE)
    scs, stats = solve_common.run_generic(
        ctx, "C01", bits=2,
        what="after a normal return a hard constraint is violated, or a value lies outside its declared type / enum",
        n_quick=140, n_thorough=4000)
    # a second stream with wide fields (no enumeration-based satisfiability): values and terms only
    scs2, stats2 = solve_common.run_generic(
        ctx, "C01", bits=2,
        what="after a normal return a hard constraint is violated, or a value lies outside its declared type / enum (wide fields)",
        n_quick=50, n_thorough=1500, small=False, tag="c01w")
    # a third stream: object trees, free-standing vsc.randomize(...) / vsc.randomize_with(...), rangelist objects
    scs3, stats3 = solve_common.run_generic(
        ctx, "C01", bits=2,
        what="after a normal return (object tree / free-standing call) a hard constraint is violated, or a value lies outside its "
             "declared type / enum",
        n_quick=40, n_thorough=1200, tree=True, hist=True, free=True, rls=True, tag="c01f")
    ctx.coverage["tree_and_free_stream"] = {"evaluations": stats3["evaluations"], "outcomes": stats3["outcomes"],
                                            "free_standing_calls": sum(1 for s in scs3 for o in s["ops"] if o.get("free") is not None)}
    ev = stats["evaluations"] + stats2["evaluations"] + stats3["evaluations"]
    ctx.coverage.update({
        "evaluations": ev,
        "distinct_nontrivial": len({repr(s["classes"][0]["blocks"]) + repr(s["classes"][0]["fields"]) for s in scs + scs2}),
        "rule": "seeded random classes with 1-5 scalar/enum fields (widths 1..6 in the main stream, up to 64 in the wide stream, "
                "both signednesses, ~28% non-random with random current values) and 1-2 constraint blocks of 1-3 statements of depth "
                "<= 3 over == != < <= > >= + - * / % & | ^ << >> ~, part-select, inside/not_inside, if/else_if/else, implies, unique, "
                "Boolean composition; 3 randomize calls each (40% with inline constraints, 40% preceded by a field assignment); "
                "non-trivial and distinct by (fields, blocks); every call contributes one evaluation",
        "samples": [solve_common.brief(scs[0], len(scs[0]["ops"]) - 1)],
        "exhaustive": False,
        "outcomes": {k: stats["outcomes"].get(k, 0) + stats2["outcomes"].get(k, 0) for k in set(stats["outcomes"]) | set(stats2["outcomes"])},
        "correspondence_mismatches": len(ctx.tie_broken),
    })
    ctx.assumptions += [
        "theorems are about the Gallina models coq/Rand/{Expr,BV,Lower,Typing}.v; tie (A): for every call the multiset of hard terms "
        "handed to Boolector (recording proxy) equals the model's lowering of the enabled hard statements, syntactically",
        "Boolector is sound: a model it returns satisfies the asserted terms (premise of C01_solve_sound)",
        "main streams: single-object programs over scalar and enum fields; third stream: object trees, free-standing calls, "
        "rangelist objects; lists, foreach, dist, soft, dynamic constraints are covered by C04-C08, C15, C05",
        "statements outside the typed fragment `wt` (three documented corners) and undefined ones (division by zero, part-select "
        "out of range) get no verdict from the value oracle",
    ]
