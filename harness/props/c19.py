"""C19 — wildcard bins match exactly the values that agree with the pattern."""
import itertools
import random

import core
from core import cz, clist, cbool, cstr, copt, cpair

PROP_FILE = "Prop_C19.v"
HEADER = """From Coq Require Import ZArith List Bool String.
From PV Require Import Cov.Rangelist Cov.Partition Cov.Wildcard Cov.WildcardCheck.
Import ListNotations.
Open Scope Z_scope.
"""


def spec_lit(s):
    if s[0] == "s":
        return "(WStr %s)" % cstr(s[1])
    return "(WPair %s %s)" % (cz(s[1]), cz(s[2]))


def case_lit(c):
    return "(mkW %s %s %s %s)" % (clist([spec_lit(s) for s in c["specs"]]), cbool(c["array"]),
                                   copt(c["nbins"], cz), cz(c["width"]))


def obs_lit(o):
    if "err" in o:
        return "None"
    return "(Some (%s, %s))" % (cz(o["nbins"]), clist([clist([cz(i) for i in h]) for h in o["hits"]]))


def top_wild(case):
    """classifier of known finding wildcard_array.top_digit_wild"""
    if not case["array"]:
        return False
    for s in case["specs"]:
        if s[0] == "s":
            body = s[1][2:].replace("_", "")
            if body and body[0] in "xX?":
                return True
    return False


def pattern_width(s):
    if s[0] == "s":
        b = {"b": 1, "o": 3, "x": 4}.get(s[1][1:2].lower(), 1)
        return b * len(s[1][2:].replace("_", ""))
    return max(s[2], 0).bit_length()


def n_wild_bits(s):
    if s[0] == "s":
        b = {"b": 1, "o": 3, "x": 4}.get(s[1][1:2].lower(), 1)
        return b * sum(1 for ch in s[1][2:] if ch in "xX?")
    w = max(s[2], 0).bit_length()
    return w - bin(max(s[2], 0)).count("1")


def mk(specs, array, nbins=None, extra=1):
    w = max([pattern_width(s) for s in specs] + [1]) + extra
    return {"specs": specs, "array": array, "nbins": nbins if array else None, "width": min(w, 10)}


def gen_cases(ctx):
    rnd = random.Random("C19-%d" % ctx.seed)
    cases = []
    maxbits = 4 if ctx.quick() else 6
    # exhaustive (value, mask) pairs
    for m in range(1 << maxbits):
        for v in range(1 << maxbits):
            if ctx.quick() and maxbits == 4 or True:
                cases.append(mk([["p", v, m]], False))
                cases.append(mk([["p", v, m]], True))
    n_exh = len(cases)
    # all string patterns of <= k digits
    def strs(prefix, alphabet, k):
        for n in range(1, k + 1):
            for t in itertools.product(alphabet, repeat=n):
                yield prefix + "".join(t)
    pats = list(strs("0b", "01x", 4 if ctx.quick() else 6))
    pats += list(strs("0o", "07x3", 2)) + list(strs("0x", "0fx9A", 2 if not ctx.quick() else 1))
    for p in pats:
        cases.append(mk([["s", p]], False))
        cases.append(mk([["s", p]], True))
    # random structured: several specs, separators, case variants, counts
    def rnd_str():
        base = rnd.choice(["0b", "0B", "0o", "0O", "0x", "0X"])
        digs = {"b": "01", "o": "01234567", "x": "0123456789abcdefABCDEF"}[base[1].lower()]
        maxd = {"b": 8, "o": 3, "x": 2}[base[1].lower()]
        n = rnd.randint(1, maxd)
        s = ""
        for i in range(n):
            r = rnd.random()
            s += rnd.choice("xX?") if r < 0.3 else rnd.choice(digs)
            if rnd.random() < 0.15:
                s += "_"
        return base + s
    def rnd_spec():
        if rnd.random() < 0.6:
            return ["s", rnd_str()]
        w = rnd.randint(1, 8)
        return ["p", rnd.randrange(1 << w), rnd.randrange(1 << w)]
    nrand = 300 if ctx.quick() else 6000
    for i in range(nrand):
        k = rnd.choice([1, 1, 2, 2, 3])
        specs = [rnd_spec() for _ in range(k)]
        if sum(n_wild_bits(s) for s in specs) > 12:
            continue
        array = rnd.random() < 0.6
        nb = None
        if array and rnd.random() < 0.6:
            nb = rnd.randint(1, 9)
        cases.append(mk(specs, array, nb))
    # malformed stream (kept separate in the statistics)
    malformed = [mk([["s", s]], a) for a in (False, True) for s in
                 ["0b12", "0o8", "0xg", "12", "x", "0b", "0q11", "0b1 0"]]
    for c in malformed:
        c["malformed"] = True
    malformed.append(dict(mk([["p", 5, 7]], True, 0), malformed=True))
    cases += malformed
    return cases, n_exh


def evaluate(ctx, cases, tag):
    """Runs implementation and Coq on cases; returns list of codes (None where Coq failed)."""
    obs = core.run_impl_parallel(ctx, "c19_impl.py", cases)
    shard = 150
    files = []
    for si in range(0, len(cases), shard):
        items = []
        for c, o in zip(cases[si:si + shard], obs[si:si + shard]):
            if o.get("_crash") or "crash" in o:
                items.append(None)
                continue
            items.append("w_check %s %s" % (case_lit(c), obs_lit(o)))
        body = clist([x if x is not None else "9" for x in items])
        files.append(("%s_%d" % (tag, si // shard), HEADER + "Definition codes : list Z := %s.\nEval vm_compute in codes.\n" % body))
    outs = core.coq_eval_many(ctx, files)
    codes = []
    for si in range(0, len(cases), shard):
        out = outs["%s_%d" % (tag, si // shard)]
        n = len(cases[si:si + shard])
        zs = core.parse_z_list(out)
        if zs is None or len(zs) != n:
            codes.extend([None] * n)
        else:
            codes.extend(zs)
    return obs, codes


def judge(ctx, cases, obs, codes, stats):
    known_sig = {f["sig"]: f for f in core.known_for("C19")}
    for c, o, code in zip(cases, obs, codes):
        stats["evaluations"] += 1
        if o.get("_crash") or "crash" in o or code == 9:
            ctx.tie_broken.append("implementation worker crashed on %r: %s" % (c, str(o)[:300]))
            core.add_violation(ctx, "library raised an internal error while sampling a wildcard bin: %s" % str(o)[:200],
                               {"case": c, "observed": o})
            continue
        if code is None:
            ctx.tie_broken.append("Coq evaluation failed for case %r" % (c,))
            continue
        a_fail = code & 1
        b_fail = code & 2
        if b_fail and c.get("malformed"):
            b_fail = 0      # the specification says nothing about rejected input; only the model tie is checked
        if b_fail:
            if top_wild(c) and not a_fail and "wildcard_array.top_digit_wild" in known_sig:
                stats["known_region"] += 1
                continue
            core.add_violation(ctx, "spec oracle: observed bins/hits differ from the pattern semantics for %r" % (c["specs"],),
                               {"case": c, "observed": o, "model_agrees_with_impl": not a_fail})
        elif a_fail:
            ctx.tie_broken.append("model != implementation on %r (spec still satisfied)" % (c,))


def run(ctx):
    core.check_prop_file(ctx, PROP_FILE)
    cases, n_exh = gen_cases(ctx)
    stats = {"evaluations": 0, "known_region": 0}
    # corpus first (minimised past failures and the listed known findings)
    corpus = [mk([["s", "0bx1"]], True), mk([["s", "0b1xx"], ["s", "0b101"]], True), mk([["p", 0x8F, 0xF0]], False),
              mk([["s", "0x?1"]], True, 3)]
    allc = corpus + cases
    obs, codes = evaluate(ctx, allc, "c19")
    judge(ctx, allc, obs, codes, stats)
    # listed known findings: replay the minimal input, print the line only while it still fails
    for f in core.known_for("C19"):
        c = f["case"]
        o, cd = evaluate(ctx, [c], "c19_known")
        if cd[0] is not None and cd[0] & 2:
            ctx.known.append("%s: %s" % (f["sig"], f["what"]))
    # search when the tie broke without a concrete failing input
    if ctx.tie_broken and not ctx.violations:
        ctx.log("correspondence broke; extended search for a failing input")
        ctx2seed = ctx.seed
        for k in range(3):
            ctx.seed = ctx2seed + 1000 + k
            more, _ = gen_cases(ctx)
            o2, c2 = evaluate(ctx, more, "c19_search%d" % k)
            judge(ctx, more, o2, c2, stats)
            if ctx.violations:
                break
        ctx.seed = ctx2seed
    # parameterised covergroups: instances whose wildcard patterns differ must not share a type (public-API oracle)
    import io
    import contextlib
    r3 = random.Random("C19-pair-%d" % ctx.seed)
    pcases = []
    for _ in range(30 if ctx.quick() else 400):
        w = r3.choice([4, 5, 6])
        def spec():
            m = r3.randrange(1, 1 << w)
            return ["p", r3.randrange(1 << w), m]
        a = [spec() for _ in range(r3.randint(1, 2))]
        q = r3.random()
        if q < 0.25:
            b = [list(x) for x in a]                                   # identical patterns: one type
        elif q < 0.7:
            b = [list(x) for x in a]
            k = r3.randrange(len(b))
            # same masked value, another mask (more or fewer wildcard bits), or the same pattern written with other don't-care bits
            nm = r3.randrange(1, 1 << w)
            b[k] = ["p", (b[k][1] & b[k][2]) | (r3.randrange(1 << w) & ~b[k][2] & ((1 << w) - 1) if r3.random() < 0.3 else 0), nm if r3.random() < 0.8 else b[k][2]]
        else:
            b = [spec() for _ in range(len(a))]
        samples = [[r3.randrange(1 << w) for _ in range(r3.randint(3, 12))] for _ in range(2)]
        pcases.append({"width": w, "pair": [a, b], "samples": samples})
    pobs = core.run_impl_parallel(ctx, "c19_impl.py", pcases, nchunks=4)
    norm = lambda sp: [(v & m, m) for _, v, m in sp]
    hit = lambda sp, v: any((v & m) == (pv & m) for _, pv, m in sp)
    npairs = 0
    for c, o in zip(pcases, pobs):
        if o.get("_crash") or "crash" in o:
            core.add_violation(ctx, "library raised on two instances of a parameterised covergroup with wildcard bins: %s" % str(o)[:300], {"case": c})
            continue
        npairs += 1
        a, b = c["pair"]
        exp_inst = [[sum(1 for v in c["samples"][k] if hit(c["pair"][k], v))] for k in range(2)]
        same = norm(a) == norm(b)
        got = o["pair"]
        shared = got[0]["type_id"] == got[1]["type_id"]
        # (instances with equal patterns written differently may or may not share a type; what must not happen is sharing
        # between different patterns)
        exp_type = [[exp_inst[0][0] + exp_inst[1][0]]] * 2 if shared else exp_inst
        what = None
        if [g["inst_hits"] for g in got] != exp_inst:
            what = "instance hits %s, expected %s" % ([g["inst_hits"] for g in got], exp_inst)
        elif shared and not same:
            what = "the two instances share a type although their patterns are different"
        elif [g["type_hits"] for g in got] != exp_type:
            what = "type-level hits %s, expected %s" % ([g["type_hits"] for g in got], exp_type)
        if what:
            core.add_violation(ctx, "parameterised covergroup with wildcard patterns %s / %s: %s" % (a, b, what), {"case": c, "observed": got})
    ctx.coverage["parameterised_pairs"] = {"pairs": npairs, "rule": "two instances of one covergroup class whose wildcard_bin patterns are equal, "
                                           "equal up to don't-care value bits, differ only in the mask, or differ altogether; per-instance "
                                           "hits, type sharing and type-level hits against the pattern semantics (public-API oracle)"}
    # evidence
    distinct = len({repr((c["specs"], c["array"], c["nbins"])) for c in cases if not c.get("malformed")
                    and any(n_wild_bits(s) > 0 for s in c["specs"])})
    kinds = {"single": sum(1 for c in cases if not c["array"]), "array": sum(1 for c in cases if c["array"] and c["nbins"] is None),
             "array_count": sum(1 for c in cases if c["array"] and c["nbins"] is not None),
             "string_specs": sum(1 for c in cases for s in c["specs"] if s[0] == "s"),
             "pair_specs": sum(1 for c in cases for s in c["specs"] if s[0] == "p"),
             "malformed": sum(1 for c in cases if c.get("malformed")),
             "rejected_by_impl": sum(1 for o in obs if "err" in o)}
    ctx.coverage.update({
        "evaluations": stats["evaluations"],
        "distinct_nontrivial": distinct,
        "rule": "cases = every (value,mask) pair below 2^%d as single bin and as bin array (exhaustive), every binary pattern string "
                "up to %d digits, octal/hex strings over a digit subset, seeded random multi-spec/count cases, a malformed stream; "
                "each case samples every value below 2^(pattern width+1) on a real covergroup; a case is non-trivial if it has at "
                "least one wildcard bit; distinct by (specs, kind, count)" % (4 if ctx.quick() else 6, 4 if ctx.quick() else 6),
        "samples": [allc[0], allc[5], allc[len(allc) // 2], allc[-20]],
        "exhaustive": False,
        "exhaustive_part": "%d cases: all (value,mask) pairs below 2^%d, both bin kinds" % (n_exh, 4 if ctx.quick() else 6),
        "distribution": kinds,
        "known_region_cases": stats["known_region"],
        "correspondence_mismatches": len(ctx.tie_broken),
    })
    ctx.assumptions += [
        "theorems are about the Gallina model coq/Cov/Wildcard.v; the model is tied to /repo by this run's differential comparison",
        "patterns and masks are non-negative; at most 20 wildcard bits (the code rejects more)",
        "known finding wildcard_array.top_digit_wild: a string pattern whose leading digit is a wildcard loses that digit in "
        "wildcard_bin_array (array_exact is proved under msb_not_wild)",
    ]
