"""C03 — a call changes only what is random in it; everything else acts as a constant."""
from props import tree_common, solve_common


def run(ctx):
    scs, stats = tree_common.run_tree(
        ctx, "C03", "Prop_C03.v", bits=4 | 16,
        what="a field that is not random in the call changed, or the solver was given a variable where the current value "
             "should have been a constant (or vice versa)",
        rule_extra="Checked per call: every leaf that is not random by the specification keeps its value (also when the call "
                   "fails); leaves presented to the solver as variables / constants are exactly the model's; constants carry the "
                   "value current at the time of the call (term equality).",
        assumptions=["values are in range (C18 covers out-of-range assignments); non-random lists: see C04"])
    # second stream: free-standing vsc.randomize(...) / vsc.randomize_with(...) over some leaves of an object (everything not
    # passed is a constant and keeps its value) and rangelist objects edited between calls (content at the time of the call)
    what = ("a field not passed to a free-standing call (or not random in the call) changed, the solver was given a variable where "
            "the current value should have been a constant, or a rangelist contributed something else than its current content")
    scs2, stats2 = solve_common.run_generic(ctx, "C03", bits=2 | 4 | 8 | 16, what=what, n_quick=60, n_thorough=2000, tree=True, hist=True,
                                            tag="c03f", free=True, rls=True)
    ctx.coverage["evaluations"] += stats2["evaluations"]
    ctx.coverage["free_and_rangelist_stream"] = {
        "evaluations": stats2["evaluations"], "outcomes": stats2["outcomes"],
        "free_standing_calls": sum(1 for s in scs2 for o in s["ops"] if o.get("free") is not None),
        "rangelist_edits": sum(1 for s in scs2 for o in s["ops"] if o["op"].startswith("rl_")),
        "rule": "the same trees with 1-2 rangelist objects in the root used through inside / not_inside and edited (append / extend "
                "/ clear) between calls; half of the calls are free-standing over 1-3 leaves, 75% with an inline block",
    }
    sublist_stream(ctx)


def gen_sublist(rnd):
    lists = []
    for _ in range(rnd.randint(1, 2)):
        kind = rnd.choice(["randsz", "randsz", "fixed"])
        init = [rnd.randint(0, 15) for _ in range(rnd.randint(0, 3))]
        l = {"kind": kind, "rand": rnd.random() < 0.6, "init": init}
        if kind == "randsz":
            lo = rnd.randint(0, 2)
            l["lo"], l["hi"] = lo, lo + rnd.randint(1, 3)
        if rnd.random() < 0.4:
            l["foreach"] = rnd.randint(8, 15)
        lists.append(l)
    sub = rnd.choice(["attr", "attr", "rand", "rand"])
    ops = []
    for _ in range(rnd.randint(3, 7)):
        r = rnd.random()
        if r < 0.25:
            cand = [i for i, l in enumerate(lists) if l["kind"] == "randsz"]
            if cand:
                ops.append(["append", rnd.choice(cand), rnd.randint(0, 15)])
                continue
        if r < 0.75:
            ops.append(["randomize"])
        elif r < 0.9:
            ops.append(["randomize_with", rnd.randint(0, 15)])
        else:
            ops.append(["randomize_sub"])
    return {"lists": lists, "sub": sub, "cross": rnd.random() < 0.5, "ops": ops}


def sublist_stream(ctx):
    """lists inside a sub-object (fixed / random size, random or not), the sub-object declared with attr or rand_attr (the
    library has no rand_mode for whole objects): a call on the parent must leave a sub-object that is not random in it
    untouched - its scalars, its list elements and the lengths of its lists"""
    import random
    import core
    rnd = random.Random("C03-sublists-%d" % ctx.seed)
    n = 150 if ctx.quick() else 3000
    cases = [gen_sublist(rnd) for _ in range(n)]
    obs = core.run_impl_parallel(ctx, "c03l_impl.py", cases)
    calls = frozen = 0
    for sc, o in zip(cases, obs):
        if o.get("_crash") or "crash" in o:
            core.add_violation(ctx, "library raised while building / using lists in a sub-object: %s" % str(o)[:300], {"case": sc, "observed": str(o)[:1500]})
            continue
        mode = sc["sub"] == "rand"
        for op, rec in zip(sc["ops"], o["ops"]):
            if op[0] == "rand_mode":
                mode = bool(op[1])
            if rec["outcome"].startswith("exc:"):
                core.add_violation(ctx, "operation %r on an object with lists in a sub-object raised %s" % (op, rec["outcome"][:200]),
                                   {"case": sc, "op": op, "observed": rec})
                continue
            if op[0] not in ("randomize", "randomize_with"):
                continue
            calls += 1
            b, a = rec["before"], rec["after"]
            if a["k"] != b["k"]:
                core.add_violation(ctx, "the non-random scalar s.k changed over a call on the parent", {"case": sc, "op": op, "observed": rec})
            if not (sc["sub"] == "rand" and mode):
                frozen += 1
                if (a["x"], a["lists"], a["sizes"]) != (b["x"], b["lists"], b["sizes"]):
                    core.add_violation(ctx, "a sub-object that is not random in the call was changed by the parent's call: %r -> %r"
                                       % ((b["x"], b["lists"], b["sizes"]), (a["x"], a["lists"], a["sizes"])), {"case": sc, "op": op, "observed": rec})
            else:
                for l, bl, al in zip(sc["lists"], b["lists"], a["lists"]):
                    if l["kind"] == "fixed" and (len(al) != len(bl) or (not l["rand"] and al != bl)):
                        core.add_violation(ctx, "a fixed-size list changed its length, or a non-random list its content, over a call: %r -> %r" % (bl, al),
                                           {"case": sc, "op": op, "observed": rec})
            for al, sz in zip(a["lists"], a["sizes"]):
                if len(al) != sz:
                    core.add_violation(ctx, "a list's size attribute (%d) disagrees with its length (%d) after a call" % (sz, len(al)),
                                       {"case": sc, "op": op, "observed": rec})
    ctx.coverage["evaluations"] += calls
    ctx.coverage["sublist_stream"] = {
        "scenarios": n, "calls_on_the_parent": calls, "of_which_with_a_non_random_sub_object": frozen,
        "rule": "a parent with one sub-object (attr or rand_attr) holding 1-2 lists (random-size with a size "
                "range, fixed-size random / non-random; optional foreach bound) and scalars; 3-7 operations: append, "
                "randomize / randomize_with on the parent, randomize on the sub-object; public-API oracle (frame rule)",
    }
