"""C03 — a call changes only what is random in it; everything else acts as a constant."""
from props import tree_common


def run(ctx):
    tree_common.run_tree(
        ctx, "C03", "Prop_C03.v", bits=4 | 16,
        what="a field that is not random in the call changed, or the solver was given a variable where the current value "
             "should have been a constant (or vice versa)",
        rule_extra="Checked per call: every leaf that is not random by the specification keeps its value (also when the call "
                   "fails); leaves presented to the solver as variables / constants are exactly the model's; constants carry the "
                   "value current at the time of the call (term equality).",
        assumptions=["values are in range (C18 covers out-of-range assignments); lists and mutable rangelists: see C04"])
