"""C03 — a call changes only what is random in it; everything else acts as a constant."""
from props import tree_common, solve_common


def run(ctx):
    scs, stats = tree_common.run_tree(
        ctx, "C03", "Prop_C03.v", bits=4 | 16,
        what="a field that is not random in the call changed, or the solver was given a variable where the current value "
             "should have been a constant (or vice versa)",
        rule_extra="Checked per call: every leaf that is not random by the specification keeps its value (also when the call "
                   "fails); leaves presented to the solver as variables / constants are exactly the model's; constants carry the "
                   "value current at the time of the call (term equality).",
        assumptions=["values are in range (C18 covers out-of-range assignments); non-random lists: see C04"])
    # second stream: free-standing vsc.randomize(...) / vsc.randomize_with(...) over some leaves of an object (everything not
    # passed is a constant and keeps its value) and rangelist objects edited between calls (content at the time of the call)
    what = ("a field not passed to a free-standing call (or not random in the call) changed, the solver was given a variable where "
            "the current value should have been a constant, or a rangelist contributed something else than its current content")
    scs2, stats2 = solve_common.run_generic(ctx, "C03", bits=2 | 4 | 8 | 16, what=what, n_quick=60, n_thorough=2000, tree=True, hist=True,
                                            tag="c03f", free=True, rls=True)
    ctx.coverage["evaluations"] += stats2["evaluations"]
    ctx.coverage["free_and_rangelist_stream"] = {
        "evaluations": stats2["evaluations"], "outcomes": stats2["outcomes"],
        "free_standing_calls": sum(1 for s in scs2 for o in s["ops"] if o.get("free") is not None),
        "rangelist_edits": sum(1 for s in scs2 for o in s["ops"] if o["op"].startswith("rl_")),
        "rule": "the same trees with 1-2 rangelist objects in the root used through inside / not_inside and edited (append / extend "
                "/ clear) between calls; half of the calls are free-standing over 1-3 leaves, 75% with an inline block",
    }
