"""C12 — instance and type coverage aggregate consistently and stay within 0..100."""
import random

import core
from core import cz, clist, cpair
from props import c10, c11

PROP_FILE = "Prop_C12.v"
HEADER = """From Coq Require Import ZArith List Bool QArith.
From PV Require Import Cov.Rangelist Cov.Partition Cov.Coverpoint Cov.Cross Cov.Covergroup Cov.CovergroupCheck.
Import ListNotations.
Open Scope Z_scope.
"""


def cq(fr):
    return "(%s # %d)" % (cz(fr[0]), fr[1])


def cnat(n):
    return "%d%%nat" % n


def item_lit(it, cg=None):
    """an option a coverpoint / cross does not set itself cascades from the covergroup (impl/options.py create_model)"""
    cg = cg or {}
    eff = lambda k: it[k] if it.get(k) is not None else (cg[k] if cg.get(k) is not None else 1)
    return "(mkItem %s %s)" % (cz(eff("at_least")), cz(eff("weight")))


def param_lit(p):
    cg = p.get("cg_options")

    def eff_cp(cp):
        d = dict(cp, ignore=cp.get("ignore", []), illegal=cp.get("illegal", []))
        if cp["kind"] == "auto" and cp.get("auto_bin_max") is None:
            # not set on the coverpoint: the covergroup's, else the default 64
            d["auto_bin_max"] = (cg or {}).get("auto_bin_max") or 64
        return d
    cps = clist([c10.spec_lit(eff_cp(cp)) for cp in p["cps"]])
    xs = clist([clist([cnat(j) for j in x["cps"]]) for x in p["crosses"]])
    items = clist([item_lit(cp, cg) for cp in p["cps"]] + [item_lit(x, cg) for x in p["crosses"]])
    return "(mkP12 %s %s %s)" % (cps, xs, items)


def case_lit(c, o, names):
    ops = []
    for op, oo in zip(c["ops"], o["ops"]):
        if op[0] == "new":
            ops.append("(ONew %s %s)" % (cz(names[op[1]]), cnat(op[2])))
        else:
            ops.append("(OSample %s %s %s %s)" % (cnat(op[1]), clist([clist([cz(i) for i in d]) for d in oo["deltas"]]),
                                                 cq(oo["type_cov"]), cq(oo["inst_cov"])))
    return "(mkC12 %s %s)" % (clist([param_lit(p) for p in c["params"]]), clist(ops))


def obs_lit(o):
    h3 = lambda x: clist([clist([clist([cz(v) for v in bins]) for bins in inst]) for inst in x])
    return "(mkO12 %s %s %s %s %s)" % (clist([cz(a) for a in o["attach"]]), h3(o["inst_hits"]), h3(o["type_hits"]),
                                        clist([cq(f) for f in o["inst_cov"]]), clist([cq(f) for f in o["type_cov"]]))


def gen_param(rnd, base=None):
    """a constructor parameter record; variants of `base` change one coverpoint's bins (different shape)
    or only the options (same shape)"""
    if base is None:
        ncp = rnd.choice([1, 2, 2, 3, 3])
        cps = []
        for _ in range(ncp):
            cp = c11.gen_cp(rnd)
            cp["at_least"] = rnd.choice([None, None, 1, 2, 3])
            cp["weight"] = rnd.choice([None, None, 1, 2, 5, 0])
            cps.append(cp)
        crosses = []
        if ncp >= 2 and rnd.random() < 0.6:
            crosses.append({"cps": [0, 1], "at_least": rnd.choice([None, 1, 2]), "weight": rnd.choice([None, 1, 3])})
        p = {"cps": cps, "crosses": crosses}
        if rnd.random() < 0.4:
            # covergroup-level options: they cascade to every coverpoint / cross that does not set its own
            p["cg_options"] = {"at_least": rnd.choice([None, 2, 3]), "weight": rnd.choice([None, 2, 3]), "auto_bin_max": rnd.choice([None, 2, 3, 5])}
            for cp in cps:
                if cp["kind"] == "auto" and rnd.random() < 0.6:
                    cp["auto_bin_max"] = None
            for it in cps + crosses:
                if rnd.random() < 0.6:
                    it["at_least"] = None
                if rnd.random() < 0.6:
                    it["weight"] = None
    else:
        import copy
        p = copy.deepcopy(base)
        j = rnd.randrange(len(p["cps"]))
        outside = [k for k in range(len(p["cps"])) if not any(k in x["cps"] for x in p["crosses"])]
        if p["crosses"] and outside and rnd.random() < 0.6:
            j = rnd.choice(outside)      # a coverpoint that no cross covers: only its own comparison can tell the shapes apart
        if p["crosses"] and rnd.random() < 0.2:
            # the same covergroup, but this variant's cross is gated by an iff (CovergroupModel.equals does not look at it:
            # the instances share one type covergroup)
            p["crosses"][0]["iff"] = not p["crosses"][0].get("iff")
            return p
        r = rnd.random()
        cp = p["cps"][j]
        if r < 0.35:
            cp["at_least"] = rnd.choice([1, 2, 3])          # same bins, other options
            cp["weight"] = rnd.choice([1, 2, 5])
        elif cp["kind"] == "auto":
            cp["auto_bin_max"] = rnd.choice([1, 2, 3, 4, 64])
        elif cp["kind"] == "bins":
            arrs = [b for b in cp["bins"] if b[0] == "arr"]
            if arrs and rnd.random() < 0.5:
                b = rnd.choice(arrs)
                b[1] = rnd.choice([None, 1, 2, 3, 4])        # the bin_array count: the classic "different number of bins"
            elif arrs:
                # same name, same lower bound, another upper bound of the array's last range (more or fewer values)
                b = rnd.choice(arrs)
                last = b[2][-1]
                if isinstance(last, list):
                    last[1] = max(last[0], last[1] + rnd.choice([-3, -2, -1, 1, 2, 3]))
                else:
                    b[2][-1] = [last, last + rnd.randint(1, 3)]
            else:
                new = c11.gen_cp(rnd)
                new["at_least"], new["weight"] = cp.get("at_least"), cp.get("weight")
                p["cps"][j] = new
        else:
            new = c11.gen_cp(rnd)
            new["at_least"], new["weight"] = cp.get("at_least"), cp.get("weight")
            p["cps"][j] = new
    # at least one positive weight
    if all((it.get("weight") == 0) for it in p["cps"] + p["crosses"]):
        p["cps"][0]["weight"] = 1
    return p


def gen_case(rnd):
    base = gen_param(rnd)
    params = [base] + [gen_param(rnd, base) for _ in range(rnd.randint(0, 2))]
    if rnd.random() < 0.3:
        params.append(gen_param(rnd))
    names = ["cgA", "cgB"] if rnd.random() < 0.3 else ["cgA"]
    ops = []
    ninst = rnd.randint(1, 5)
    inst_params = []
    for _ in range(ninst):
        pi = rnd.randrange(len(params))
        ops.append(["new", rnd.choice(names), pi])
        inst_params.append(pi)
    rnd.shuffle(ops)
    inst_params = [op[2] for op in ops]
    nsamp = rnd.randint(5, 40)
    sample_ops = []
    for _ in range(nsamp):
        k = rnd.randrange(ninst)
        p = params[inst_params[k]]
        vals = [rnd.choice(c11.cp_values(cp)) for cp in p["cps"]]
        sample_ops.append(["sample", k, vals] + ([rnd.choice([0, 0, 1])] if any(x.get("iff") for q in params for x in q["crosses"]) else []))
    # interleave creation of later instances with sampling of earlier ones
    out = [ops[0]]
    created = 1
    pending_new = ops[1:]
    for s in sample_ops:
        while pending_new and (rnd.random() < 0.3):
            out.append(pending_new.pop(0))
            created += 1
        if s[1] < created:
            out.append(s)
    out += pending_new
    return {"params": params, "ops": out}


def bad_empty(c):
    return False


def evaluate(ctx, cases, tag):
    obs = core.run_impl_parallel(ctx, "c12_impl.py", cases)
    shard = 40
    files = []
    for si in range(0, len(cases), shard):
        its = []
        for c, o in zip(cases[si:si + shard], obs[si:si + shard]):
            if o.get("_crash") or "crash" in o:
                its.append("9")
            else:
                its.append("c12_check %s %s" % (case_lit(c, o, {"cgA": 1, "cgB": 2}), obs_lit(o)))
        files.append(("%s_%d" % (tag, si // shard),
                      HEADER + "Definition codes : list Z := %s.\nEval vm_compute in codes.\n" % clist(its)))
    outs = core.coq_eval_many(ctx, files)
    codes = []
    for si in range(0, len(cases), shard):
        n = len(cases[si:si + shard])
        zs = core.parse_z_list(outs["%s_%d" % (tag, si // shard)])
        codes.extend(zs if zs is not None and len(zs) == n else [None] * n)
    return obs, codes


def judge(ctx, cases, obs, codes, stats):
    for c, o, code in zip(cases, obs, codes):
        stats["evaluations"] += 1
        if o.get("_crash") or "crash" in o or code == 9:
            # a coverpoint whose every value is excluded has no bins: coverage divides by zero; outside the property
            if "ZeroDivisionError" in str(o):
                stats["zero_bins"] += 1
                continue
            ctx.tie_broken.append("implementation raised on %r: %s" % (c, str(o)[:400]))
            core.add_violation(ctx, "library raised during covergroup construction/sampling/coverage query: %s" % str(o)[:300],
                               {"case": c, "observed": o})
        elif code is None:
            ctx.tie_broken.append("Coq evaluation failed for case %r" % (c,))
        elif code & 2:
            core.add_violation(ctx, "instance/type aggregation or coverage arithmetic differs from the specification",
                               {"case": c, "observed": o, "model_agrees_with_impl": not (code & 1)})
        elif code & 1:
            ctx.tie_broken.append("model != implementation on %r" % (c,))


def run(ctx):
    core.check_prop_file(ctx, PROP_FILE)
    rnd = random.Random("C12-%d" % ctx.seed)
    n = 300 if ctx.quick() else 3000
    cases = [gen_case(rnd) for _ in range(n)]
    stats = {"evaluations": 0, "zero_bins": 0}
    obs, codes = evaluate(ctx, cases, "c12")
    judge(ctx, cases, obs, codes, stats)
    if ctx.tie_broken and not ctx.violations:
        ctx.log("correspondence broke; extended search for a failing input")
        for k in range(3):
            r2 = random.Random("C12-search-%d-%d" % (ctx.seed, k))
            more = [gen_case(r2) for _ in range(n)]
            o2, c2 = evaluate(ctx, more, "c12_s%d" % k)
            judge(ctx, more, o2, c2, stats)
            if ctx.violations:
                break
    multi = sum(1 for c in cases if len({(op[1], op[2]) for op in c["ops"] if op[0] == "new"}) > 1)
    ctx.coverage.update({
        "evaluations": stats["evaluations"],
        "distinct_nontrivial": len({repr(c) for c in cases if sum(1 for op in c["ops"] if op[0] == "new") > 1}),
        "rule": "seeded random populations of 1-5 covergroup instances of 1-2 classes whose constructor parameters are variants of "
                "one base (same bins with other options, another bin_array count / auto_bin_max, another coverpoint), creation "
                "interleaved with 5-40 samples; at_least in {1,2,3}, weights in {0,1,2,3,5}; after every sample the increments and "
                "both coverage numbers are recorded, at the end all instance and type counters; non-trivial = more than one "
                "instance; distinct by whole scenario",
        "samples": [cases[0]],
        "exhaustive": False,
        "scenarios_with_several_shapes": multi,
        "skipped_zero_bin_coverpoints": stats["zero_bins"],
        "correspondence_mismatches": len(ctx.tie_broken),
    })
    ctx.assumptions += [
        "theorems are about the Gallina model coq/Cov/Covergroup.v; tie = this run's differential comparison",
        "what a sample does to the bins of the sampled instance is taken from C10/C11 (observed increments are the model's input)",
        "every coverpoint has at least one bin and at least one item has a positive weight (else the code divides by zero / "
        "reports 0)",
        "percentages are compared within 1e-4 (the code rounds the covergroup figure to 4 decimals)",
    ]
