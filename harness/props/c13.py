"""C13 — coverage reports and saved databases equal the in-memory coverage."""
import random

import core
from core import cz, clist, cbool, cstr, cpair
from props import c12

PROP_FILE = "Prop_C13.v"
HEADER = """From Coq Require Import ZArith List Bool String QArith.
From PV Require Import Cov.Covergroup Cov.Save Cov.SaveCheck.
Import ListNotations.
Open Scope Z_scope.
"""


def cq(fr):
    return "(%s # %d)" % (cz(fr[0]), fr[1])


def bins_lit(bs):
    return clist([cpair(cstr(n), cz(c)) for n, c in bs])


def mem_item(it):
    return "(mkIt %s %s %s %s %s %s %s)" % (cstr(it["name"]), cbool(it["cross"]), cz(it["weight"]), cz(it["at_least"]),
                                            bins_lit(it["bins"]), bins_lit(it["ignore"]), bins_lit(it["illegal"]))


def mem_cg(g):
    return "(mkCg %s %s %s)" % (cstr(g["name"]), cz(g["weight"]), clist([mem_item(i) for i in g["items"]]))


def mem_lit(m):
    return clist(["(mkTyR %s %s)" % (mem_cg(t["cg"]), clist([mem_cg(i) for i in t["insts"]])) for t in m])


def r_item(it):
    return "(mkRI %s %s %s %s %s %s %s)" % (cstr(it["name"]), cbool(it["cross"]), cz(it["weight"]), cq(it["cov"]),
                                            bins_lit(it["bins"]), bins_lit(it["ignore"]), bins_lit(it["illegal"]))


def r_cg(g):
    return "(mkRC %s %s %s %s)" % (cstr(g["name"]), cz(g["weight"]), cq(g["cov"]), clist([r_item(i) for i in g["items"]]))


def tree_lit(t):
    return clist(["(mkRT %s %s)" % (r_cg(x["cg"]), clist([r_cg(i) for i in x["insts"]])) for x in t])


def obs_lit(o):
    covs = clist([cpair(cq(c[0]), clist([cq(x) for x in c[1]])) for c in o["covs"]])
    return "(mkO13 %s %s %s %s %s %s)" % (mem_lit(o["before"]), covs, tree_lit(o["report"]), tree_lit(o["text"]),
                                           tree_lit(o["xml"]), mem_lit(o["after"]))


def cross_weighted(c):
    """classifier of known finding report.cross_weight: an instantiated parameter set has a cross with weight != 1"""
    used = {op[2] for op in c["ops"] if op[0] == "new"}

    def eff(p, x):
        w = x.get("weight")
        return w if w is not None else (p.get("cg_options") or {}).get("weight")
    return any(eff(c["params"][pi], x) not in (None, 1) for pi in used for x in c["params"][pi]["crosses"])


def with_reports(case, rnd):
    """half of the histories also report / save in the middle (1-2 times, after the first instance exists)"""
    if rnd.random() < 0.5:
        ops = list(case["ops"])
        for _ in range(rnd.randint(1, 2)):
            ops.insert(rnd.randint(1, len(ops)), ["report"])
        case = dict(case, ops=ops)
    return case


def evaluate(ctx, cases, tag):
    obs = core.run_impl_parallel(ctx, "c13_impl.py", cases)
    shard = 25
    files = []
    for si in range(0, len(cases), shard):
        its = []
        for c, o in zip(cases[si:si + shard], obs[si:si + shard]):
            if o.get("_crash") or "crash" in o:
                its.append("9")
            else:
                its.append("c13_check %s" % obs_lit(o))
        files.append(("%s_%d" % (tag, si // shard),
                      HEADER + "Definition codes : list Z := %s.\nEval vm_compute in codes.\n" % clist(its)))
    outs = core.coq_eval_many(ctx, files)
    codes = []
    for si in range(0, len(cases), shard):
        n = len(cases[si:si + shard])
        zs = core.parse_z_list(outs["%s_%d" % (tag, si // shard)])
        codes.extend(zs if zs is not None and len(zs) == n else [None] * n)
    return obs, codes


def judge(ctx, cases, obs, codes, stats):
    for c, o, code in zip(cases, obs, codes):
        stats["evaluations"] += 1
        if o.get("_crash") or "crash" in o or code == 9:
            if "ZeroDivisionError" in str(o):
                stats["zero_bins"] += 1
                continue
            ctx.tie_broken.append("implementation raised on %r: %s" % (c, str(o)[:500]))
            core.add_violation(ctx, "library raised while reporting/saving coverage: %s" % str(o)[:300], {"case": c, "observed": o})
        elif code is None:
            ctx.tie_broken.append("Coq evaluation failed for case %r" % (c,))
        elif code & 2 and not (code & 1) and cross_weighted(c) and any(f["sig"] == "report.cross_weight" for f in core.known_for("C13")):
            stats["known_region"] += 1
        elif code & 2:
            core.add_violation(ctx, "report model / text / XML differs from the in-memory coverage (names, counts, percentages or state changed)",
                               {"case": c, "observed": o, "model_agrees_with_impl": not (code & 1)})
        elif code & 1:
            ctx.tie_broken.append("model != implementation on %r" % (c,))


def run(ctx):
    core.check_prop_file(ctx, PROP_FILE)
    rnd = random.Random("C13-%d" % ctx.seed)
    n = 90 if ctx.quick() else 1500
    cases = [with_reports(c12.gen_case(rnd), rnd) for _ in range(n)]
    stats = {"evaluations": 0, "zero_bins": 0, "known_region": 0}
    obs, codes = evaluate(ctx, cases, "c13")
    judge(ctx, cases, obs, codes, stats)
    for f in core.known_for("C13"):
        o1, c1 = evaluate(ctx, [f["case"]], "c13_known")
        if c1[0] is not None and c1[0] != 9 and (c1[0] & 2):
            ctx.known.append("%s: %s" % (f["sig"], f["what"]))
    if ctx.tie_broken and not ctx.violations:
        ctx.log("correspondence broke; extended search for a failing input")
        for k in range(3):
            r2 = random.Random("C13-search-%d-%d" % (ctx.seed, k))
            more = [with_reports(c12.gen_case(r2), r2) for _ in range(n)]
            o2, c2 = evaluate(ctx, more, "c13_s%d" % k)
            judge(ctx, more, o2, c2, stats)
            if ctx.violations:
                break
    nb = sum(len(it["bins"]) + len(it["ignore"]) + len(it["illegal"]) for o in obs if "before" in o
             for t in o["before"] for g in [t["cg"]] + t["insts"] for it in g["items"])
    ctx.coverage.update({
        "evaluations": stats["evaluations"],
        "distinct_nontrivial": len({repr(c) for c in cases if sum(1 for op in c["ops"] if op[0] == "new") > 1}),
        "rule": "the scenarios of C12 (populations of instances of 1-2 covergroup classes with parameter variants, interleaved "
                "sampling, at_least/weight options, ignore/illegal bins, crosses); at the end the in-memory state is read through "
                "the model getters, then get_coverage_report_model(), get_coverage_report(details=True) (parsed) and "
                "write_coverage_db + XmlFactory.read are taken and the in-memory state is read again; non-trivial = more than one "
                "instance",
        "samples": [cases[0]],
        "exhaustive": False,
        "bins_compared": nb,
        "skipped_zero_bin_coverpoints": stats["zero_bins"],
        "known_region_cases": stats["known_region"],
        "correspondence_mismatches": len(ctx.tie_broken),
    })
    ctx.assumptions += [
        "theorems are about the Gallina model coq/Cov/Save.v of CoverageSaveVisitor and of PyUCIS's percentage arithmetic",
        "PyUCIS (MemFactory database, report builder, text formatter, XML writer/reader) is modelled, not verified; its XML does "
        "not carry at_least, so percentages after read-back are not compared (names and counts are)",
        "fewer than 1000 instances share a base name",
    ]
