"""C03 / C07 / C08 / C17 share the object-tree scenarios (sub-objects, rand_mode and constraint_mode histories,
several instances of one class)."""
import core
from props import solve_common


def run_tree(ctx, prop, prop_file, bits, what, rule_extra, assumptions, ninst=1, n_quick=70, n_thorough=2500, hooks=False, extra=None):
    core.check_prop_file(ctx, prop_file)
    scs, stats = solve_common.run_generic(ctx, prop, bits=bits, what=what, n_quick=n_quick, n_thorough=n_thorough,
                                          tree=True, hist=True, ninst=ninst, hooks=hooks, extra=extra)
    ncalls = stats["evaluations"]
    ctx.coverage.update({
        "evaluations": ncalls,
        "distinct_nontrivial": len({repr(s["classes"]) + repr([o for o in s["ops"] if o["op"] != "randomize"]) for s in scs
                                    if len(s["classes"]) > 1 or any(o["op"] in ("rand_mode", "cmode") for o in s["ops"])}),
        "rule": "seeded random class trees (root with 1-3 scalar/enum fields and 0-2 sub-objects, depth <= 2, each sub-object "
                "random or not, each class with 1-2 constraint blocks over its own and its sub-objects' fields), %d instance(s) "
                "of the root class, histories of field assignments, rand_mode and constraint_mode toggles interleaved with "
                "randomize / randomize_with calls (each call is one evaluation); non-trivial = has a sub-object or a toggle; "
                "distinct by (classes, non-call operations). %s" % (ninst, rule_extra),
        "samples": [solve_common.brief(scs[0], len(scs[0]["ops"]) - 1)],
        "exhaustive": False,
        "outcomes": stats["outcomes"],
        "correspondence_mismatches": len(ctx.tie_broken),
    })
    ctx.assumptions += [
        "theorems are about the Gallina models coq/Rand/{World,Expr,Lower,Solve}.v; tie: per call the terms handed to the solver, "
        "which leaves were variables / constants, and which callbacks ran are compared with the model (recording proxy)",
    ] + assumptions
    return scs, stats


def extra_stream(ctx, prop, bits, what, tag, key, rule, n_quick=50, n_thorough=1500, **gen_opts):
    """a further stream of scenarios for the same property (other generator options); adds its counts to the coverage"""
    scs, stats = solve_common.run_generic(ctx, prop, bits=bits, what=what, n_quick=n_quick, n_thorough=n_thorough, tree=True, hist=True,
                                          tag=tag, **gen_opts)
    ctx.coverage["evaluations"] += stats["evaluations"]
    ctx.coverage[key] = {"evaluations": stats["evaluations"], "outcomes": stats["outcomes"], "rule": rule}
    return scs, stats
