"""C10 — coverpoint bins count exactly the samples whose value they contain."""
import random

import core
from core import cz, clist, cbool, copt, cpair, cranges

PROP_FILE = "Prop_C10.v"
HEADER = """From Coq Require Import ZArith List Bool.
From PV Require Import Cov.Rangelist Cov.Partition Cov.Coverpoint Cov.CoverpointCheck.
Import ListNotations.
Open Scope Z_scope.
"""


def rl_of(items):
    return [(it[0], it[1]) if isinstance(it, list) else (it, it) for it in items]


def spec_lit(c):
    if c["kind"] == "bins":
        bs = []
        for b in c["bins"]:
            if b[0] == "bin":
                bs.append("(BBin %s)" % cranges(rl_of(b[1])))
            else:
                bs.append("(BArray %s %s)" % (copt(b[1], cz), cranges(rl_of(b[2]))))
        kind = "(KBins %s)" % clist(bs)
    elif c["kind"] == "auto":
        kind = "(KAutoInt %s %s %s)" % (cbool(c["signed"]), cz(c["width"]), cz(c["auto_bin_max"]))
    else:
        kind = "(KAutoEnum %s)" % clist([cz(v) for v in c["enum"]])
    return "(mkCp %s %s %s)" % (kind, clist([cranges(rl_of(b)) for b in c["ignore"]]),
                                clist([cranges(rl_of(b)) for b in c["illegal"]]))


def case_lit(c):
    spec = spec_lit(c)
    dom = copt(c.get("dom"), lambda d: cpair(cz(d[0]), cz(d[1])))
    samples = clist([cpair(cz(v), cbool(g)) for v, g in c["samples"]])
    return "(mkC10 %s %s %s)" % (spec, dom, samples)


def obs_lit(o):
    if "err" in o:
        return "None"
    f = lambda l: clist([cz(x) for x in l])
    return "(Some (%s, %s, %s))" % (f(o["hits"]), f(o["ignore"]), f(o["illegal"]))


def type_range(w, sg):
    return (-(1 << (w - 1)), (1 << (w - 1)) - 1) if sg else (0, (1 << w) - 1)


def disjoint_items(rnd, lo, hi, k, single_p=0.5):
    """k pairwise disjoint items (value or [a,b]) inside [lo,hi], in random order; adjacency allowed."""
    span = hi - lo + 1
    k = min(k, span)
    starts = sorted(rnd.sample(range(lo, hi + 1), k))
    items = []
    for i, s in enumerate(starts):
        limit = (starts[i + 1] - 1) if i + 1 < len(starts) else hi
        if rnd.random() < single_p or limit == s:
            items.append(s if rnd.random() < 0.8 else [s, s])
        else:
            e = s + min(rnd.choice([1, 1, 2, 3, 5, 9, 17]), limit - s)
            if rnd.random() < 0.35:
                e = limit            # adjacent to the next item
            items.append([s, e])
    rnd.shuffle(items)
    return items


def split_items(rnd, items, nparts):
    parts = [[] for _ in range(nparts)]
    for it in items:
        parts[rnd.randrange(nparts)].append(it)
    return [p for p in parts if p]


def gen_samples(rnd, c, lo, hi, small):
    s = []
    if small:
        dom = list(range(lo, hi + 1))
        for v in dom:
            s.append([v, True])
            if (v - lo) % 3 == 1:
                s.append([v, True])
        for _ in range(len(dom)):
            s.append([rnd.randint(lo, hi), rnd.random() < 0.7])
        rnd.shuffle(s)
    else:
        w = c["width"]
        pts = set()
        for k in range(0, 66):
            base = lo + (k * (hi - lo + 1)) // 64
            for d in (-2, -1, 0, 1, 2):
                pts.add(min(hi, max(lo, base + d)))
        for it in [x for b in c["ignore"] + c["illegal"] for x in b]:
            a, b = (it, it) if not isinstance(it, list) else it
            for d in (-1, 0, 1):
                pts.add(min(hi, max(lo, a + d)))
                pts.add(min(hi, max(lo, b + d)))
        for _ in range(60):
            pts.add(rnd.randint(lo, hi))
        s = [[v, rnd.random() < 0.85] for v in sorted(pts)]
        rnd.shuffle(s)
    return s


def gen_case(rnd, idx):
    r = rnd.random()
    sg = rnd.random() < 0.4
    w = rnd.choice([2, 3, 4, 4, 5, 5, 6, 6, 8])
    lo, hi = type_range(w, sg)
    c = {"width": w, "signed": sg, "ignore": [], "illegal": [], "dom": [lo, hi]}
    # exclusions
    nex = rnd.choice([0, 0, 1, 2, 3])
    ex_items = disjoint_items(rnd, lo, hi, nex + rnd.randint(0, 2)) if nex else []
    parts = split_items(rnd, ex_items, max(1, nex)) if ex_items else []
    for p in parts:
        (c["ignore"] if rnd.random() < 0.6 else c["illegal"]).append(p)
    if r < 0.55:
        c["kind"] = "bins"
        nb = rnd.randint(1, 3)
        c["bins"] = []
        for _ in range(nb):
            k = rnd.randint(1, 6)
            its = disjoint_items(rnd, lo, hi, k)
            if rnd.random() < 0.35:
                c["bins"].append(["bin", its])
            else:
                nvals = sum((it[1] - it[0] + 1) if isinstance(it, list) else 1 for it in its)
                n = rnd.choice([None, None, 1, 2, 3, rnd.randint(1, nvals + 2), nvals, max(1, nvals - 1)])
                as_list = rnd.random() < 0.8
                c["bins"].append(["arr", n, its, as_list])
    elif r < 0.85:
        c["kind"] = "auto"
        c["auto_bin_max"] = rnd.choice([1, 2, 3, 4, 5, 7, 8, 16, 64, rnd.randint(1, 70)])
        c["abm_at"] = rnd.choice(["cp", "cp", "cg", "cg", "both"])
        c["cp_opts"] = rnd.choice([None, {"at_least": 2}, {"weight": 3}, {"at_least": 3, "weight": 2}])
    else:
        c["kind"] = "enum"
        n = rnd.randint(2, 6)
        c["enum"] = rnd.sample(range(max(lo, -8), min(hi, 40) + 1), min(n, min(hi, 40) - max(lo, -8) + 1))
        c["width"], c["signed"] = 32, True
        c["dom"] = [min(c["enum"]), max(c["enum"])]
        c["samples"] = [[v, rnd.random() < 0.8] for v in c["enum"] * 3]
        rnd.shuffle(c["samples"])
        return c
    c["samples"] = gen_samples(rnd, c, lo, hi, True)
    return c


def gen_wide(rnd):
    sg = rnd.random() < 0.4
    w = rnd.choice([12, 16, 31, 32, 33, 63, 64])
    lo, hi = type_range(w, sg)
    c = {"width": w, "signed": sg, "ignore": [], "illegal": [], "dom": None, "kind": "auto",
         "auto_bin_max": rnd.choice([1, 2, 3, 7, 16, 64, 64, 100])}
    nex = rnd.choice([0, 1, 1, 2])
    for _ in range(nex):
        a = rnd.choice([lo, hi, rnd.randint(lo, hi), lo + (hi - lo) // 2])
        b = min(hi, a + rnd.choice([0, 0, 1, 2, 1000]))
        # keep exclusions pairwise disjoint
        if any(not (b < x[0][0] or a > x[0][1]) for x in c["ignore"] + c["illegal"]):
            continue
        (c["ignore"] if rnd.random() < 0.5 else c["illegal"]).append([[a, b]])
    c["samples"] = gen_samples(rnd, c, lo, hi, False)
    return c


CORPUS = [
    # minimised past failures / fixed defects
    {"kind": "bins", "bins": [["arr", 2, [[0, 3], [10, 20]], True]], "ignore": [[[0, 3]], [[12, 13]]], "illegal": [],
     "width": 8, "signed": False, "dom": [0, 31], "samples": [[v, True] for v in range(0, 24)]},
    {"kind": "bins", "bins": [["bin", [4]]], "ignore": [[4], [7]], "illegal": [], "width": 4, "signed": False,
     "dom": [0, 15], "samples": [[4, True], [7, True], [5, True]]},
]


def evaluate(ctx, cases, tag):
    obs = core.run_impl_parallel(ctx, "c10_impl.py", cases)
    shard = 120
    files = []
    for si in range(0, len(cases), shard):
        items = []
        for c, o in zip(cases[si:si + shard], obs[si:si + shard]):
            if o.get("_crash") or "crash" in o:
                items.append("9")
            else:
                items.append("c10_check %s %s" % (case_lit(c), obs_lit(o)))
        files.append(("%s_%d" % (tag, si // shard),
                      HEADER + "Definition codes : list Z := %s.\nEval vm_compute in codes.\n" % clist(items)))
    outs = core.coq_eval_many(ctx, files)
    codes = []
    for si in range(0, len(cases), shard):
        n = len(cases[si:si + shard])
        zs = core.parse_z_list(outs["%s_%d" % (tag, si // shard)])
        codes.extend(zs if zs is not None and len(zs) == n else [None] * n)
    return obs, codes


def judge(ctx, cases, obs, codes, stats):
    for c, o, code in zip(cases, obs, codes):
        stats["evaluations"] += 1
        brief = {k: c[k] for k in c if k != "samples"}
        if o.get("_crash") or "crash" in o or code == 9:
            ctx.tie_broken.append("implementation worker crashed on %r: %s" % (brief, str(o)[:300]))
            core.add_violation(ctx, "library raised while building/sampling a coverpoint: %s" % str(o)[:300],
                               {"case": c, "observed": o})
            continue
        if code is None:
            ctx.tie_broken.append("Coq evaluation failed for case %r" % (brief,))
            continue
        if "err" in o and (code & 1) and not c.get("malformed"):
            core.add_violation(ctx, "library raised %s while building a legal coverpoint %r" % (o["err"], brief),
                               {"case": c, "observed": o})
        elif code & 2:
            core.add_violation(ctx, "bin hit counts differ from the specified value sets for %r: observed %r" % (brief, o),
                               {"case": c, "observed": o, "model_agrees_with_impl": not (code & 1)})
        elif code & 1:
            stats["a_only"].append(c)
            ctx.tie_broken.append("model != implementation on %r (observed %r)" % (brief, o))


def run(ctx):
    core.check_prop_file(ctx, PROP_FILE)
    rnd = random.Random("C10-%d" % ctx.seed)
    n = 260 if ctx.quick() else 6000
    nw = 40 if ctx.quick() else 600
    cases = [gen_case(rnd, i) for i in range(n)] + [gen_wide(rnd) for _ in range(nw)]
    stats = {"evaluations": 0, "a_only": []}
    allc = CORPUS + cases
    obs, codes = evaluate(ctx, allc, "c10")
    judge(ctx, allc, obs, codes, stats)
    if ctx.tie_broken and not ctx.violations:
        ctx.log("correspondence broke; extended search for a failing input")
        for k in range(3):
            r2 = random.Random("C10-search-%d-%d" % (ctx.seed, k))
            more = [gen_case(r2, i) for i in range(n)]
            o2, c2 = evaluate(ctx, more, "c10_s%d" % k)
            judge(ctx, more, o2, c2, stats)
            if ctx.violations:
                break
    kinds = {}
    for c in cases:
        key = c["kind"] + ("" if c.get("dom") else "_wide")
        kinds[key] = kinds.get(key, 0) + 1
    nontriv = {repr({k: c[k] for k in c if k != "samples"}) for c in cases
               if c["ignore"] or c["illegal"] or c["kind"] != "bins" or any(b[0] == "arr" for b in c.get("bins", []))}
    ctx.coverage.update({
        "evaluations": stats["evaluations"],
        "distinct_nontrivial": len(nontriv),
        "rule": "seeded random coverpoint specs (explicit bins, bin arrays with/without count, auto-bins, enum auto-bins; 0-3 "
                "ignore/illegal bins; signed/unsigned types of 2..8 bits) each sampled on a real covergroup with every value of the "
                "type (some twice) plus random samples with iff toggled; wide types (12..64 bits) with boundary samples are "
                "compared with the model only; non-trivial = has exclusions, an array or auto-bins; distinct by spec",
        "samples": [{k: v for k, v in allc[0].items() if k != "samples"}, {k: v for k, v in cases[0].items() if k != "samples"},
                    {k: v for k, v in cases[-1].items() if k != "samples"}],
        "exhaustive": False,
        "distribution": kinds,
        "samples_per_case_mean": round(sum(len(c["samples"]) for c in cases) / max(1, len(cases)), 1),
        "rejected_by_impl": sum(1 for o in obs if "err" in o),
        "correspondence_mismatches": len(ctx.tie_broken),
    })
    ctx.assumptions += [
        "theorems are about the Gallina model coq/Cov/{Rangelist,Partition,Coverpoint}.v; tie = this run's differential comparison",
        "ranges inside one bin specification are pairwise disjoint (the property's quantifier); ignore/illegal items are pairwise "
        "disjoint; ignore/illegal ranges are given as tuples",
        "for types wider than 8 bits the specification oracle (B) is not evaluated (no enumeration); the model (A) is",
    ]
