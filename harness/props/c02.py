"""C02 — SolveFailure is raised exactly when the hard constraints are unsatisfiable."""
from props import solve_common

PROP_FILE = "Prop_C02.v"


# minimised past failures (run first)
LIST_CORPUS = [
    # 7b4d231: the sum of a still empty random-size list taken for the constant 0 by bounds inference
    {"enums": {}, "root_cls": "K0",
     "classes": [{"name": "K0", "fields": [{"name": "f0", "kind": "scalar", "w": 2, "sg": False, "rand": False, "init": 1},
                                           {"name": "l0", "kind": "list", "elem": {"kind": "scalar", "w": 2, "sg": False}, "rand": True, "randsz": True, "size": 0}],
                  "blocks": [{"name": "c0", "stmts": [["expr", ["in", ["size", ["l0"]], [[["lit", 0], ["lit", 2]]]]],
                                                      ["expr", ["bin", "Eq", ["sum", ["l0"]], ["f", ["f0"]]]],
                                                      ["expr", ["bin", "Eq", ["f", ["f0"]], ["size", ["l0"]]]]]}],
                  "pre_randomize": [], "post_randomize": []}],
     "ops": [{"op": "new", "var": "o", "cls": "K0"}, {"op": "randomize", "var": "o", "inline": None}, {"op": "randomize", "var": "o", "inline": None}]},
]


def list_stream(ctx):
    """the outcome on list scenarios: fixed-size lists by enumeration of every assignment, random-size lists by enumeration for
    every admissible size (a call fails exactly when no size has a solution); half of the scenarios have a random-size list,
    a third of those the 'exhaust' shape (unique uses up the element type while the size domain reaches further up)"""
    import random
    import core
    import listgen
    from props import c04
    rnd = random.Random("C02-lists-%d" % ctx.seed)
    n = 70 if ctx.quick() else 1500
    scs = LIST_CORPUS + [listgen.ListGen(random.Random(rnd.random()), randsz=(i % 2 == 1)).scenario() for i in range(n)]
    obs, results, crashed = c04.evaluate(ctx, scs, "c02l")       # (reports SolveFailure on satisfiable random-size systems itself)
    ev = 0
    outcomes = {}
    for si, o in crashed:
        core.add_violation(ctx, "library raised outside a randomize call on a list scenario: %s" % str(o)[:300], {"scenario": scs[si], "observed": str(o)[:2000]})
    for si, oi, code, res, rsz in results:
        ev += 1
        outcomes[res["outcome"]] = outcomes.get(res["outcome"], 0) + 1
        if code is None:
            ctx.tie_broken.append("Coq evaluation failed for list scenario %d call %d" % (si, oi))
        elif code & 8:
            core.add_violation(ctx, "outcome of a call on a list scenario contradicts the satisfiability of the hard constraints (decided by "
                                    "enumeration), or another exception escaped from the library (outcome %s)" % res["outcome"],
                               {"scenario": solve_common.brief(scs[si], oi), "observed": {k: res.get(k) for k in ("outcome", "err", "before", "values", "lists")}, "code": code})
    ctx.coverage["list_stream"] = {"scenarios": n, "evaluations": ev, "outcomes": outcomes}


def run(ctx):
    import core
    core.check_prop_file(ctx, PROP_FILE)
    scs, stats = solve_common.run_generic(
        ctx, "C02", bits=8,
        what="outcome of the call contradicts the satisfiability of the hard constraints (decided by enumeration), or another "
             "exception escaped from the library",
        n_quick=170, n_thorough=5000)
    list_stream(ctx)
    ctx.coverage.update({
        "evaluations": stats["evaluations"] + ctx.coverage.get("list_stream", {}).get("evaluations", 0),
        "distinct_nontrivial": len({repr(s["classes"][0]["blocks"]) + repr(s["classes"][0]["fields"]) for s in scs}),
        "rule": "the C01 generator restricted to <= 11 random bits per object so that satisfiability is decided independently of "
                "Boolector by enumerating every assignment of the random fields under the integer semantics; about half of the "
                "systems are unsatisfiable; 3 calls per scenario, each one evaluation; distinct by (fields, blocks)",
        "samples": [solve_common.brief(scs[0], len(scs[0]["ops"]) - 1)],
        "exhaustive": False,
        "outcomes": stats["outcomes"],
        "correspondence_mismatches": len(ctx.tie_broken),
    })
    ctx.assumptions += [
        "theorems are about the Gallina models coq/Rand/*.v; Boolector is sound and complete for the asserted QF_BV terms "
        "(premises of the C02 theorems); the oracle of this run does not use Boolector to decide satisfiability",
        "systems containing a statement outside the typed fragment or an undefined operation get no verdict",
    ]
