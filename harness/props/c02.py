"""C02 — SolveFailure is raised exactly when the hard constraints are unsatisfiable."""
from props import solve_common

PROP_FILE = "Prop_C02.v"


def run(ctx):
    import core
    core.check_prop_file(ctx, PROP_FILE)
    scs, stats = solve_common.run_generic(
        ctx, "C02", bits=8,
        what="outcome of the call contradicts the satisfiability of the hard constraints (decided by enumeration), or another "
             "exception escaped from the library",
        n_quick=170, n_thorough=5000)
    ctx.coverage.update({
        "evaluations": stats["evaluations"],
        "distinct_nontrivial": len({repr(s["classes"][0]["blocks"]) + repr(s["classes"][0]["fields"]) for s in scs}),
        "rule": "the C01 generator restricted to <= 11 random bits per object so that satisfiability is decided independently of "
                "Boolector by enumerating every assignment of the random fields under the integer semantics; about half of the "
                "systems are unsatisfiable; 3 calls per scenario, each one evaluation; distinct by (fields, blocks)",
        "samples": [solve_common.brief(scs[0], len(scs[0]["ops"]) - 1)],
        "exhaustive": False,
        "outcomes": stats["outcomes"],
        "correspondence_mismatches": len(ctx.tie_broken),
    })
    ctx.assumptions += [
        "theorems are about the Gallina models coq/Rand/*.v; Boolector is sound and complete for the asserted QF_BV terms "
        "(premises of the C02 theorems); the oracle of this run does not use Boolector to decide satisfiability",
        "systems containing a statement outside the typed fragment or an undefined operation get no verdict",
    ]
