"""C14 — no legal value is starved: inferred value ranges over-approximate the solutions."""
import random

import core
import solvegen
from props import solve_common


def run(ctx):
    core.check_prop_file(ctx, "Prop_C14.v")
    known = {f["sig"]: f for f in core.known_for("C14")}
    rnd = random.Random("C14-%d" % ctx.seed)
    n = 150 if ctx.quick() else 5000
    scs = [solvegen.Gen(random.Random(rnd.random()), small=True, tree=(i % 3 == 0), hist=(i % 3 == 0)).scenario(ncalls=3) for i in range(n)]
    stats = {"evaluations": 0, "known_region": 0, "outcomes": {}}

    def judge(scs_, results, crashed):
        for si, o in crashed:
            ctx.tie_broken.append("implementation worker crashed: %s" % str(o)[:400])
        for si, oi, code, res in results:
            stats["evaluations"] += 1
            stats["outcomes"][res["outcome"]] = stats["outcomes"].get(res["outcome"], 0) + 1
            if code is None:
                ctx.tie_broken.append("Coq evaluation failed for scenario %d call %d" % (si, oi))
                continue
            if code & 256:
                sc = scs_[si]
                st = solvegen.track_state(sc, oi)
                leaves = solvegen.leaves_of(sc, sc["root_cls"])
                vals = {p: v for (p, f), v in zip(leaves, solvegen.Lits(sc, sc["root_cls"], st).values(res["before"]))}
                for p, f in leaves:
                    f["rand_now"] = st["rand_mode"].get(p, f["rand"]) and f["rand"]
                stmts = solvegen.active_statements(sc, sc["root_cls"], st, sc["ops"][oi].get("inline"))
                in_known = "bounds.python_int_semantics" in known and solvegen.py_bound_out_of_type(sc, sc["root_cls"], stmts, vals)
                for p, f in leaves:
                    f.pop("rand_now", None)
                if in_known and not (code & 1):
                    stats["known_region"] += 1
                    continue
                core.add_violation(ctx, "a value that a random field takes in some solution lies outside the value range inferred for "
                                        "it (or an unmentioned field's range is not its whole type): domains %s" % res.get("domains"),
                                   {"scenario": solve_common.brief(sc, oi), "observed": {k: res[k] for k in ("outcome", "before", "values", "domains")},
                                    "code": code})
            elif code & 1:
                ctx.tie_broken.append("model's lowering != recorded solver terms in scenario %r" % (solve_common.brief(scs_[si], oi),))
    results, crashed = solve_common.evaluate(ctx, scs, "c14")
    judge(scs, results, crashed)
    for f in core.known_for("C14"):
        r1, c1 = solve_common.evaluate(ctx, [f["case"]], "c14_known")
        if any(code is not None and code & 256 for _, _, code, _ in r1):
            ctx.known.append("%s: %s" % (f["sig"], f["what"]))
    if ctx.tie_broken and not ctx.violations:
        for k in range(3):
            r2 = random.Random("C14-search-%d-%d" % (ctx.seed, k))
            more = [solvegen.Gen(random.Random(r2.random())).scenario(ncalls=3) for _ in range(n)]
            res2, cr2 = solve_common.evaluate(ctx, more, "c14_s%d" % k)
            judge(more, res2, cr2)
            if ctx.violations:
                break
    ctx.coverage.update({
        "evaluations": stats["evaluations"],
        "distinct_nontrivial": len({repr(s["classes"]) for s in scs}),
        "rule": "the C01 / C03 generators (single objects and object trees, <= 11 random bits); per call the value ranges the "
                "library inferred for every field (bound map handed to Randomizer.randomize) are recorded and every solution of the "
                "hard constraints, enumerated inside Coq under the integer semantics, must lie in them; a field no statement "
                "mentions must range over its whole type; each call is one evaluation",
        "samples": [solve_common.brief(scs[0], len(scs[0]["ops"]) - 1)],
        "exhaustive": False,
        "known_region_cases": stats["known_region"],
        "outcomes": stats["outcomes"],
        "correspondence_mismatches": len(ctx.tie_broken),
    })
    ctx.assumptions += [
        "theorems are about coq/Rand/Swizzle.v (pattern slicing, range trimming primitives); the bounds visitor as a whole is not "
        "modelled: its output is judged per call by the enumeration oracle",
        "PARTIAL: 'non-zero probability' is proved as: a pattern equal to a feasible value of the chosen range is consistent with "
        "every slice constraint and pins that value; which completion Boolector picks when several feasible values share the pinned "
        "low bits (multi-range domains) is a runtime behaviour outside the model",
        "known finding bounds.python_int_semantics (bounds evaluated in unbounded Python integers)",
    ]
