"""C14 — no legal value is starved: inferred value ranges over-approximate the solutions."""
import random

import core
import solvegen
from props import solve_common


BHEADER = """From Coq Require Import ZArith List Bool.
From PV Require Import Rand.Swizzle Rand.Bounds.
Import ListNotations.
Open Scope Z_scope.
"""


def bounds_stream(ctx):
    """fields constrained only against constants (f < c, <=, >, >=, in rangelist): the inferred domain the library recorded is
    compared, as a set of values, with Rand/Bounds.v's `infer`, and every value satisfying all constraints must lie in it"""
    from core import clist, cz, cpair
    rnd = random.Random("C14-bounds-%d" % ctx.seed)
    n = 60 if ctx.quick() else 1500
    cases = []
    for k in range(n):
        r = random.Random(rnd.random())
        fields, stmts, cons = [], [], {}
        for i in range(r.randint(1, 3)):
            w, sg = r.choice([2, 3, 4, 5, 6]), r.random() < 0.4
            name = "f%d" % i
            fields.append({"name": name, "kind": "scalar", "w": w, "sg": sg, "rand": True})
            lo, hi = solvegen.type_range(w, sg)
            ks = []
            for _ in range(r.randint(0, 4)):
                q = r.random()
                # (an unsigned field is only compared with non-negative constants: a mixed signed / unsigned comparison is not
                # propagated by the library)
                c = r.randint(lo - (2 if sg else 0), hi + 2)
                if q < 0.15:
                    # the constant on the left (a sized literal: a Python int there would be reflected by Python itself)
                    c = r.randint(lo, hi)
                    op = r.choice(["Lt", "Le", "Gt", "Ge"])
                    stmts.append(["expr", ["bin", op, (["s", c, w + 1] if sg else ["u", c, w]), ["f", [name]]]])
                    ks.append({"Lt": "(CMin %s)" % cz(c + 1), "Le": "(CMin %s)" % cz(c), "Gt": "(CMax %s)" % cz(c - 1), "Ge": "(CMax %s)" % cz(c)}[op])
                elif q < 0.6:
                    op = r.choice(["Lt", "Le", "Gt", "Ge"])
                    stmts.append(["expr", ["bin", op, ["f", [name]], ["lit", c]]])
                    ks.append({"Lt": "(CMax %s)" % cz(c - 1), "Le": "(CMax %s)" % cz(c), "Gt": "(CMin %s)" % cz(c + 1), "Ge": "(CMin %s)" % cz(c)}[op])
                else:
                    items, lits = [], []
                    for _ in range(r.randint(1, 4)):
                        a = r.randint(lo if sg else 0, hi + 1)
                        if r.random() < 0.5:
                            b = a + r.randint(0, 3)
                            items.append([["lit", a], ["lit", b]])
                            lits.append((a, b))
                        else:
                            items.append([["lit", a]])
                            lits.append((a, a))
                    stmts.append(["expr", ["in", ["f", [name]], items]])
                    ks.append("(CIn %s)" % clist([cpair(cz(a), cz(b)) for a, b in lits]))
            cons[name] = (w, sg, ks)
        r.shuffle(stmts)
        # the order of the constraints of one field must follow the statements: rebuild per field in statement order
        cls = {"name": "K0", "fields": fields, "blocks": [{"name": "c0", "stmts": stmts}], "pre_randomize": [], "post_randomize": []}
        cases.append(({"enums": {}, "classes": [cls], "root_cls": "K0",
                       "ops": [{"op": "new", "var": "o", "cls": "K0"}, {"op": "randomize", "var": "o", "inline": None}]}, cons))
    obs = core.run_impl_parallel(ctx, "solve_impl.py", [c for c, _ in cases])
    items, meta = [], []
    for (sc, cons), o in zip(cases, obs):
        if o.get("_crash") or "crash" in o:
            ctx.tie_broken.append("bounds stream: worker crashed: %s" % str(o)[:300])
            continue
        res = o["ops"][1]
        if str(res["outcome"]).startswith("exc"):
            core.add_violation(ctx, "a call over constant comparisons raised %s" % res["outcome"], {"scenario": sc["classes"], "observed": res.get("err")})
            continue
        for i, f in enumerate(sc["classes"][0]["fields"]):
            w, sg, ks = cons[f["name"]]
            rec = res["domains"].get(str(i))
            if rec is None:
                continue
            items.append("bounds_check %s %s %s %s" % ("true" if sg else "false", cz(w), clist(ks), clist([cpair(cz(a), cz(b)) for a, b in rec])))
            meta.append((sc, f["name"], ks, rec))
    out = core.coq_eval(ctx, "c14_bounds", BHEADER + "Definition codes : list Z := %s.\nEval vm_compute in codes.\n" % clist(items))
    zs = core.parse_z_list(out) if out else None
    if zs is None or len(zs) != len(items):
        ctx.tie_broken.append("Coq evaluation of the bounds stream failed")
        zs = []
    for code, (sc, name, ks, rec) in zip(zs, meta):
        if code & 2:
            core.add_violation(ctx, "field %s: a value satisfying all of %s lies outside the inferred domain %s" % (name, ks, rec),
                               {"scenario": sc["classes"], "field": name, "recorded_domain": rec, "model_agrees_with_impl": not (code & 1)})
        elif code & 1:
            ctx.tie_broken.append("bounds model (Rand/Bounds.v infer) != recorded domain for %s: constraints %s, recorded %s" % (name, ks, rec))
    return {"evaluations": len(items), "mismatches": sum(1 for z in zs if z & 1),
            "rule": "1-3 random scalar fields (2-6 bits, signed or not) with 0-4 statements each: comparisons with constants at and beyond "
                    "the type's range, membership in 1-4 constant values / ranges (overlapping, adjacent, unsorted, partly outside the type); "
                    "per field the recorded inferred domain is compared as a set of values with the model and with the constraints' "
                    "solutions over every value of the type"}


def run(ctx):
    core.check_prop_file(ctx, "Prop_C14.v")
    known = {f["sig"]: f for f in core.known_for("C14")}
    rnd = random.Random("C14-%d" % ctx.seed)
    n = 150 if ctx.quick() else 5000
    scs = [solvegen.Gen(random.Random(rnd.random()), small=True, tree=(i % 3 == 0), hist=(i % 3 == 0), free=(i % 3 == 1)).scenario(ncalls=3) for i in range(n)]
    stats = {"evaluations": 0, "known_region": 0, "outcomes": {}}

    def judge(scs_, results, crashed):
        for si, o in crashed:
            ctx.tie_broken.append("implementation worker crashed: %s" % str(o)[:400])
        for si, oi, code, res in results:
            stats["evaluations"] += 1
            stats["outcomes"][res["outcome"]] = stats["outcomes"].get(res["outcome"], 0) + 1
            if code is None:
                ctx.tie_broken.append("Coq evaluation failed for scenario %d call %d" % (si, oi))
                continue
            if code & 256:
                sc = scs_[si]
                st = solvegen.track_state(sc, oi)
                leaves = solvegen.leaves_of(sc, sc["root_cls"])
                vals = {p: v for (p, f), v in zip(leaves, solvegen.Lits(sc, sc["root_cls"], st).values(res["before"]))}
                for p, f in leaves:
                    f["rand_now"] = st["rand_mode"].get(p, f["rand"]) and f["rand"]
                stmts = solvegen.active_statements(sc, sc["root_cls"], st, sc["ops"][oi].get("inline"))
                in_known = "bounds.python_int_semantics" in known and solvegen.py_bound_out_of_type(sc, sc["root_cls"], stmts, vals)
                for p, f in leaves:
                    f.pop("rand_now", None)
                if in_known and not (code & 1):
                    stats["known_region"] += 1
                    continue
                core.add_violation(ctx, "a value that a random field takes in some solution lies outside the value range inferred for "
                                        "it (or an unmentioned field's range is not its whole type): domains %s" % res.get("domains"),
                                   {"scenario": solve_common.brief(sc, oi), "observed": {k: res[k] for k in ("outcome", "before", "values", "domains")},
                                    "code": code})
            elif code & 1:
                ctx.tie_broken.append("model's lowering != recorded solver terms in scenario %r" % (solve_common.brief(scs_[si], oi),))
    results, crashed = solve_common.evaluate(ctx, scs, "c14")
    judge(scs, results, crashed)
    for f in core.known_for("C14"):
        r1, c1 = solve_common.evaluate(ctx, [f["case"]], "c14_known")
        if any(code is not None and code & 256 for _, _, code, _ in r1):
            ctx.known.append("%s: %s" % (f["sig"], f["what"]))
    if ctx.tie_broken and not ctx.violations:
        for k in range(3):
            r2 = random.Random("C14-search-%d-%d" % (ctx.seed, k))
            more = [solvegen.Gen(random.Random(r2.random())).scenario(ncalls=3) for _ in range(n)]
            res2, cr2 = solve_common.evaluate(ctx, more, "c14_s%d" % k)
            judge(more, res2, cr2)
            if ctx.violations:
                break
    bstats = bounds_stream(ctx)
    ctx.coverage.update({
        "bounds_model_stream": bstats,
        "evaluations": stats["evaluations"] + bstats["evaluations"],
        "distinct_nontrivial": len({repr(s["classes"]) for s in scs}),
        "rule": "the C01 / C03 generators (single objects and object trees, <= 11 random bits); per call the value ranges the "
                "library inferred for every field (bound map handed to Randomizer.randomize) are recorded and every solution of the "
                "hard constraints, enumerated inside Coq under the integer semantics, must lie in them; a field no statement "
                "mentions must range over its whole type; each call is one evaluation",
        "samples": [solve_common.brief(scs[0], len(scs[0]["ops"]) - 1)],
        "exhaustive": False,
        "known_region_cases": stats["known_region"],
        "outcomes": stats["outcomes"],
        "correspondence_mismatches": len(ctx.tie_broken),
    })
    ctx.assumptions += [
        "theorems are about coq/Rand/Swizzle.v (pattern slicing, range trimming primitives); the bounds visitor as a whole is not "
        "modelled: its output is judged per call by the enumeration oracle",
        "PARTIAL: 'non-zero probability' is proved as: a pattern equal to a feasible value of the chosen range is consistent with "
        "every slice constraint and pins that value; which completion Boolector picks when several feasible values share the pinned "
        "low bits (multi-range domains) is a runtime behaviour outside the model",
        "known finding bounds.python_int_semantics (bounds evaluated in unbounded Python integers)",
    ]
