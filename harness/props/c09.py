"""C09 — random stability: results depend only on seed, model and call history."""
import random

import core
import listgen
import solvegen
from core import clist, cz

HEADER = """From Coq Require Import ZArith List Bool.
From PV Require Import Rand.Rnd.
Import ListNotations.
"""

CONFIGS = [
    ("plain", {"PYTHONHASHSEED": "0"}, {}),
    ("hash1+noise", {"PYTHONHASHSEED": "1"}, {"noise": True}),
    ("hash777+diagnostics", {"PYTHONHASHSEED": "777", "VSC_CAPTURE_SRCINFO": "1"}, {"debug": 1, "solve_fail_debug": 1}),
    ("hash31337+noise+diagnostics", {"PYTHONHASHSEED": "31337", "VSC_CAPTURE_SRCINFO": "1"}, {"noise": True, "solve_fail_debug": 1}),
]


def gen_case(rnd):
    r = random.Random(rnd.random())
    q = r.random()
    if q < 0.2:
        # many fields, rand sets that are merged late (a statement that joins two groups which already hold several
        # constraints each), more random fields than one swizzle round pins: the order in which constraints and fields are
        # handed to the solver matters for the values it picks
        n = r.randint(6, 8)
        fs = [{"name": "f%d" % i, "kind": "scalar", "w": 8, "sg": False, "rand": True} for i in range(n)]
        F = lambda i: ["f", ["f%d" % i]]
        half = n // 2
        stmts = []
        for i in range(half - 1):
            stmts.append(["expr", ["bin", r.choice(["Lt", "Ne", "Le"]), F(i), F(i + 1)]])
        for i in range(half, n - 1):
            stmts.append(["expr", ["bin", r.choice(["Lt", "Ne", "Ge"]), F(i), F(i + 1)]])
        stmts.append(["expr", ["bin", "Ne", F(n - 1), ["lit", 0]]])
        stmts.append(["expr", ["bin", r.choice(["Ne", "Lt"]), F(r.randrange(half)), F(r.randrange(half, n))]])     # joins the two groups
        cls = {"name": "K0", "fields": fs, "blocks": [{"name": "c0", "stmts": stmts}], "pre_randomize": [], "post_randomize": []}
        base = {"enums": {}, "classes": [cls], "root_cls": "K0"}
        inlines = [[["expr", ["bin", "Ne", F(0), ["lit", 7]]]], [["expr", ["bin", "Gt", F(n - 1), ["lit", 3]]]]]
    elif q < 0.68:
        g = solvegen.Gen(r, small=True, tree=r.random() < 0.5)
        base = g.scenario(ncalls=1)
        g.fs = [(list(p), f) for p, f in solvegen.leaves_of(base, base["root_cls"])]
        inlines = [[g.stmt(1, False) for _ in range(r.randint(1, 2))] for _ in range(2)]
    else:
        lg = listgen.ListGen(r, randsz=r.random() < 0.3)
        base = lg.scenario()
        inlines = [[["expr", lg.easy()]] for _ in range(2)] if hasattr(lg, "easy") else [[lg.scalar_stmt()] for _ in range(2)]
    nobj = r.randint(2, 3)
    ops = []
    nh = 0
    # some objects start from an explicit state, the others from the default derived from Python's global generator
    for o in range(nobj):
        if r.random() < 0.5:
            # (a third of the explicit states are made from a number and a name: RandState.mkFromSeed(n, "name"))
            ops.append(["mk", r.randint(0, 50)] + ([r.choice(["abc", "core0", "x"])] if r.random() < 0.35 else []))
            ops.append(["set", o, nh])
            nh += 1
    desc = lambda: r.choice([None, None, 0, 1])

    def noise_ops(avoid_o):
        out = []
        for _ in range(r.randint(0, 3)):
            q = r.random()
            others = [x for x in range(nobj) if x != avoid_o]
            if q < 0.5 and others:
                out.append(["call", r.choice(others), desc()])
            elif q < 0.7:
                out.append(["global"])
            elif q < 0.85 and nh > 0:
                out.append(["drawh", r.randrange(nh)])
            elif others:
                out.append(["get", r.choice(others)])
        return out
    for _ in range(r.randint(1, 2)):
        o = r.randrange(nobj)
        for x in noise_ops(None):
            if x[0] == "get":
                nh += 1
            ops.append(x)
        ops.append(["get", o])
        h = nh
        nh += 1
        batch = [desc() for _ in range(r.randint(1, 3))]
        for d in batch:
            ops.append(["call", o, d])
            for x in noise_ops(o):
                if x[0] == "drawh" and x[1] == h:
                    continue
                if x[0] == "get":
                    nh += 1
                ops.append(x)
        # restore and replay; sometimes seed a second object from the same snapshot as well
        ops.append(["set", o, h])
        for d in batch:
            ops.append(["call", o, d])
        if r.random() < 0.5:
            o2 = r.choice([x for x in range(nobj) if x != o])
            ops.append(["set", o2, h])
            for d in batch:
                ops.append(["call", o2, d])
    return {"enums": base.get("enums", {}), "classes": base["classes"], "root_cls": base["root_cls"], "nobj": nobj,
            "inlines": inlines, "ops": ops, "seed": r.randint(0, 10 ** 6)}


def op_lit(op):
    k = op[0]
    if k == "call":
        return "(OCall %d%%nat %d%%nat)" % (op[1], 0 if op[2] is None else op[2] + 1)
    if k == "get":
        return "(OGet %d%%nat)" % op[1]
    if k == "set":
        return "(OSet %d%%nat %d%%nat)" % (op[1], op[2])
    if k == "mk":
        if len(op) > 2:
            # a (number, name) pair is a seed of its own kind: equal pairs are equal seeds, nothing else is
            return "(OMk %s)" % cz(2 * (1000 + 10 * op[1] + ["abc", "core0", "x"].index(op[2])))
        return "(OMk %s)" % cz(2 * op[1])          # explicit seeds are the even numbers of the symbolic instance
    if k == "drawh":
        return "(ODrawH %d%%nat)" % op[1]
    return "OGlobal"


def model_classes(ctx, cases, tag):
    shard = 100
    files = []
    for si in range(0, len(cases), shard):
        its = ["classes %d%%nat %s" % (c["nobj"], clist([op_lit(op) for op in c["ops"]])) for c in cases[si:si + shard]]
        files.append(("%s_%d" % (tag, si // shard), HEADER + "Definition cls : list (list Z) := %s.\nEval vm_compute in (concat (map (fun l => l ++ [(-7)%%Z]) cls)).\n" % clist(its)))
    outs = core.coq_eval_many(ctx, files)
    res = []
    for si in range(0, len(cases), shard):
        zs = core.parse_z_list(outs["%s_%d" % (tag, si // shard)])
        chunk = cases[si:si + shard]
        if zs is None:
            res += [None] * len(chunk)
            continue
        cur, got = [], []
        for z in zs:
            if z == -7:
                got.append(cur)
                cur = []
            else:
                cur.append(z)
        res += got if len(got) == len(chunk) else [None] * len(chunk)
    return res


def expected_global_draws(case):
    created = set()
    out = []
    for op in case["ops"]:
        n = 0
        if op[0] in ("call", "get") and op[1] not in created:
            created.add(op[1])
            n = 1               # RandState.mk(): the default state is derived from Python's global generator
        elif op[0] == "set":
            created.add(op[1])
        elif op[0] == "global":
            n = 1
        out.append(n)
    return out


def has_randsz(c):
    return any(f.get("randsz") for k in c["classes"] for f in k["fields"])


def first_call_on(c, k):
    """is operation k the first call on its object?"""
    o = c["ops"][k][1]
    return not any(op[0] == "call" and op[1] == o for op in c["ops"][:k])


def replays_first_call(c, z, k):
    """call k replays call z from a snapshot that was taken before the first-ever call of z's object (so the values that
    followed the snapshot include that first call)"""
    ok = c["ops"][k][1]
    sets = [i for i, op in enumerate(c["ops"][:k]) if op[0] == "set" and op[1] == ok]
    if not sets:
        return False
    h = c["ops"][sets[-1]][2]
    made = [i for i, op in enumerate(c["ops"]) if op[0] in ("get", "mk")]
    if h >= len(made):
        return False
    oz = c["ops"][z][1]
    firsts = [i for i, op in enumerate(c["ops"]) if op[0] == "call" and op[1] == oz]
    return bool(firsts) and made[h] <= firsts[0] <= z


def run(ctx):
    core.check_prop_file(ctx, "Prop_C09.v")
    known = {f["sig"] for f in core.known_for("C09")}
    rnd = random.Random("C09-%d" % ctx.seed)
    n = 60 if ctx.quick() else 1200
    cases = [gen_case(rnd) for _ in range(n)]
    stats = {"evaluations": 0, "replayed_calls": 0, "outcomes": {}}

    def evaluate(cases_, tag):
        runs = []
        for name, env, cfg in CONFIGS:
            runs.append(core.run_impl_parallel(ctx, "c09_impl.py", cases_, env_extra=env, extra_payload={"config": cfg}, nchunks=4))
        return runs, model_classes(ctx, cases_, tag)

    def judge(cases_, runs, cls):
        for ci, c in enumerate(cases_):
            base = runs[0][ci]
            if base.get("_crash") or "crash" in base:
                ctx.tie_broken.append("implementation worker crashed on %r: %s" % (c["ops"], str(base)[:400]))
                continue
            stats["evaluations"] += sum(1 for op in c["ops"] if op[0] == "call") * len(CONFIGS)
            for op, rec in zip(c["ops"], base["ops"]):
                if op[0] == "call":
                    stats["outcomes"][rec["outcome"]] = stats["outcomes"].get(rec["outcome"], 0) + 1
            # (1) the configuration must not matter
            for (name, _, _), r in zip(CONFIGS[1:], runs[1:]):
                o = r[ci]
                if o.get("_crash") or "crash" in o:
                    core.add_violation(ctx, "the history raised under configuration %s only: %s" % (name, str(o)[:300]), {"case": c, "config": name})
                    continue
                for k, (a, b) in enumerate(zip(base["ops"], o["ops"])):
                    if a != b and "diag.solve_fail_debug_internal_error" in known and a.get("outcome") == "SolveFailure" \
                            and str(b.get("outcome")).startswith("exc:Exception:internal error: system should solve") \
                            and {x: a[x] for x in a if x != "outcome"} == {x: b[x] for x in b if x != "outcome"}:
                        stats["known_region"] = stats.get("known_region", 0) + 1
                        continue
                    if a != b:
                        core.add_violation(ctx, "operation %d %r gives %r under the plain configuration and %r under %s (hash seed / "
                                                "unrelated activity / diagnostic settings changed the result)" % (k, c["ops"][k], a, b, name),
                                           {"case": c, "config": name, "op_index": k, "plain": a, "other": b})
                        break
            # (2) same state term and same call => same values (snapshot independent, restore replays, one state seeds several)
            if cls[ci] is None or len(cls[ci]) != len(c["ops"]):
                ctx.tie_broken.append("Coq evaluation of the state terms failed for %r" % (c["ops"],))
            else:
                for k, z in enumerate(cls[ci]):
                    if z >= 0 and z != k:
                        stats["replayed_calls"] += 1
                        a, b = base["ops"][z], base["ops"][k]
                        # (a failed call leaves whatever the object held: only its outcome is a function of state and call)
                        if (a["outcome"] != b["outcome"] or (a["outcome"] == "ok" and a["values"] != b["values"])) and \
                                "replay.first_call_fresh_randsz_list" in known and has_randsz(c) and (first_call_on(c, z) or replays_first_call(c, z, k)):
                            stats["known_region"] = stats.get("known_region", 0) + 1
                            stats.setdefault("known_region_replay_cases", []).append({"case": c, "calls": [z, k]})
                            continue
                        if a["outcome"] != b["outcome"] or (a["outcome"] == "ok" and a["values"] != b["values"]):
                            core.add_violation(ctx, "call %d %r starts from the same random state as call %d %r (model) but returns %r instead "
                                                    "of %r" % (k, c["ops"][k], z, c["ops"][z], (b["outcome"], b["values"]), (a["outcome"], a["values"])),
                                               {"case": c, "first": z, "second": k})
                            break
            # (3) draws from Python's global generator: one per default state, none inside a call
            exp = expected_global_draws(c)
            got = [rec["global_draws"] for rec in base["ops"]]
            if exp != got:
                k = next(i for i, (x, y) in enumerate(zip(exp, got)) if x != y)
                core.add_violation(ctx, "operation %d %r drew %d time(s) from Python's global generator, expected %d (every draw of a call must "
                                        "go through the object's RandState; only the default state is derived from the global generator)"
                                   % (k, c["ops"][k], got[k], exp[k]), {"case": c, "op_index": k})
    runs, cls = evaluate(cases, "c09")
    judge(cases, runs, cls)
    # the recorded findings: re-evaluated on every run, reported only while they still reproduce
    for f in core.known_for("C09"):
        kc = [f["case"]]
        kr, kcls = evaluate(kc, "c09_known")
        b0 = kr[0][0]
        rep = False
        if "ops" in b0:
            if f["sig"] == "diag.solve_fail_debug_internal_error":
                rep = any("ops" in r[0] and any(str(x.get("outcome")).startswith("exc:Exception:internal error") for x in r[0]["ops"]) for r in kr[1:])
            elif kcls[0] is not None:
                rep = any(z >= 0 and z != k2 and first_call_on(kc[0], z) and
                          (b0["ops"][z]["outcome"], b0["ops"][z]["values"]) != (b0["ops"][k2]["outcome"], b0["ops"][k2]["values"])
                          for k2, z in enumerate(kcls[0]))
        if rep:
            ctx.known.append("%s: %s" % (f["sig"], f["what"]))
    if ctx.tie_broken and not ctx.violations:
        for k in range(2):
            r2 = random.Random("C09-search-%d-%d" % (ctx.seed, k))
            more = [gen_case(r2) for _ in range(n)]
            runs2, cls2 = evaluate(more, "c09_s%d" % k)
            judge(more, runs2, cls2)
            if ctx.violations:
                break
    ctx.coverage.update({
        "evaluations": stats["evaluations"],
        "distinct_nontrivial": len({repr(c["classes"]) + repr(c["ops"]) for c in cases}),
        "rule": "seeded random class (the C01 / C03 / C04 generators: scalars, enums, sub-objects, fixed- and random-size lists) with "
                "2-3 instances; histories of randomize / randomize_with calls (3 descriptors), RandState.mkFromSeed, get_randstate, "
                "set_randstate, draws from a held RandState and from Python's global generator, built around 1-2 snapshot -> calls -> "
                "(unrelated operations) -> restore -> same calls patterns, half of them also seeding a second object from the same "
                "snapshot; every history is run in %d fresh processes: %s; each call in each process is one evaluation"
                % (len(CONFIGS), "; ".join(n_ for n_, _, _ in CONFIGS)),
        "samples": [{k: cases[0][k] for k in ("classes", "nobj", "inlines", "ops", "seed")}],
        "exhaustive": False,
        "replayed_calls_compared": stats["replayed_calls"],
        "known_region_cases": stats.get("known_region", 0),
        "known_region_replay_cases": stats.get("known_region_replay_cases", [])[:2],
        "outcomes": stats["outcomes"],
        "correspondence_mismatches": len(ctx.tie_broken),
    })
    ctx.assumptions += [
        "PARTIAL: theorems are about the heap model coq/Rand/Rnd.v for every generator and every solve that is a function of "
        "(descriptor, the object's generator state); that the real solve is such a function - CPython set / dict iteration order "
        "under PYTHONHASHSEED, memory layout, Boolector's own determinism, stray draws from the global random module - cannot be "
        "carried by a theorem and is what the multi-process runs examine",
        "the objects of one history are instances of one class and are not modified between calls other than by randomization, so "
        "the descriptor of a call is its inline block",
    ]
