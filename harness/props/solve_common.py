"""Shared runner of the single-object solver checks (C01, C02, C03's frame part)."""
import random

import core
import solvegen
from core import clist

HEADER = """From Coq Require Import ZArith List Bool.
From PV Require Import Common.Bits Rand.BV Rand.Expr Rand.Lower Rand.Typing Rand.World Rand.Soft Rand.Unroll Rand.Dyn Rand.Dist Rand.SolveCheck.
Import ListNotations.
Open Scope Z_scope.
"""


def report_busy(ctx, scenarios, obs):
    """Rand/Flags.v idle_after_every_op, observed: with no call in progress no field model is flagged as solved-for or holds
    a solver node - after every operation of every scenario (construction, assignment, list edits, calls that return,
    fail or raise)"""
    n = 0
    for sc, o in zip(scenarios, obs):
        for oi, res in enumerate(o.get("ops", []) if isinstance(o, dict) else []):
            if isinstance(res, dict) and res.get("busy"):
                n += 1
                if n <= 3:
                    core.add_violation(ctx, "after operation %r returned, something of the call is left in the object's model - fields still "
                                            "flagged as solved-for, solver nodes, or a foreach / dist expansion still installed in a block: %s"
                                       % (sc["ops"][oi], res["busy"][:6]), {"scenario": brief(sc, oi), "busy": res["busy"]})
    ctx.coverage["idle_flag_observations"] = ctx.coverage.get("idle_flag_observations", 0) + sum(
        len(o.get("ops", [])) for o in obs if isinstance(o, dict))
    return n


def evaluate(ctx, scenarios, tag, do_sat=True):
    """returns list of (scenario index, op index, code, res) for every randomize op; code None = no Coq verdict"""
    obs = core.run_impl_parallel(ctx, "solve_impl.py", scenarios)
    report_busy(ctx, scenarios, obs)
    items = []     # (si, oi, literal)
    crashed = []
    for si, (sc, o) in enumerate(zip(scenarios, obs)):
        if o.get("_crash") or "crash" in o:
            crashed.append((si, o))
            continue
        for oi, (op, res) in enumerate(zip(sc["ops"], o["ops"])):
            if op["op"] != "randomize":
                continue
            try:
                lits = solvegen.Lits(sc, sc["root_cls"], solvegen.track_state(sc, oi))
                lit = solvegen.case_literal(sc, oi, res, lits)
            except Exception as e:  # harness limitation: report as broken tie, visibly
                ctx.tie_broken.append("cannot express observation of %r in the model's language: %s" % (op, e))
                continue
            items.append((si, oi, lit, res))
    shard = 60
    files = []
    for k in range(0, len(items), shard):
        body = clist(["s_check2 %s %s %s" % (lit, "true" if do_sat else "false", solvegen.insts_literal(res)) for _, _, lit, res in items[k:k + shard]])
        files.append(("%s_%d" % (tag, k // shard), HEADER + "Definition codes : list Z := %s.\nEval vm_compute in codes.\n" % body))
    outs = core.coq_eval_many(ctx, files, timeout=900)
    results = []
    for k in range(0, len(items), shard):
        chunk = items[k:k + shard]
        zs = core.parse_z_list(outs["%s_%d" % (tag, k // shard)])
        if zs is None or len(zs) != len(chunk):
            zs = [None] * len(chunk)
        for (si, oi, lit, res), code in zip(chunk, zs):
            results.append((si, oi, code, res))
    return results, crashed


def brief(sc, oi):
    return {"classes": sc["classes"], "enums": sc.get("enums"), "ops_up_to_call": sc["ops"][:oi + 1]}


def run_generic(ctx, prop, bits, what, n_quick, n_thorough, softs=False, small=True, tree=False, hist=False, tag=None, ninst=1, soft_bias=False,
                free=False, rls=False, hooks=False, extra=None, olists=False, dists=False, ignore_terms=False):
    """bits: mask of s_check bits that are violations of this property; bit 1 (terms) is always the tie (A)"""
    rnd = random.Random("%s-%s-%d" % (prop, tag or "", ctx.seed)) if tag else random.Random("%s-%d" % (prop, ctx.seed))
    n = n_quick if ctx.quick() else n_thorough
    def gen(r):
        g = solvegen.Gen(r, small=small, tree=tree, hist=hist, ninst=ninst, soft_bias=soft_bias, free=free, rls=rls)
        g.hooks = hooks
        g.olists = olists
        g.dists = dists
        return g.scenario(ncalls=3, softs=softs)
    scenarios = [gen(rnd) for _ in range(n)]
    stats = {"evaluations": 0, "outcomes": {}, "nowt": 0}

    def judge(scs, results, crashed):
        for si, o in crashed:
            ctx.tie_broken.append("implementation worker crashed: %s" % str(o)[:500])
            core.add_violation(ctx, "library raised outside a randomize call (construction / set): %s" % str(o)[:300],
                               {"scenario": scs[si], "observed": str(o)[:2000]})
        for si, oi, code, res in results:
            stats["evaluations"] += 1
            stats["outcomes"][res["outcome"]] = stats["outcomes"].get(res["outcome"], 0) + 1
            if extra is not None:
                for msg in extra(scs[si], oi, res):
                    core.add_violation(ctx, msg, {"scenario": brief(scs[si], oi), "observed": {k: res[k] for k in ("outcome", "before", "values", "hooks")}})
            if code is None:
                ctx.tie_broken.append("Coq evaluation failed for scenario %d call %d" % (si, oi))
                continue
            if (code & 8) and res["outcome"].startswith("exc:") and not (bits & 8):
                # whatever the property: a call on a well-typed program of this family must end normally or with SolveFailure
                core.add_violation(ctx, "the library raised %s on a well-typed scenario of this property's family (no verdict on %s possible)"
                                   % (res["outcome"], prop),
                                   {"scenario": brief(scs[si], oi), "observed": {k: res[k] for k in ("outcome", "err", "before", "values")}, "code": code})
            elif code & bits:
                core.add_violation(ctx, "%s (check bits %d; outcome %s, values %s)" % (what, code & bits, res["outcome"], res["values"]),
                                   {"scenario": brief(scs[si], oi), "observed": {k: res[k] for k in ("outcome", "err", "before", "values")},
                                    "code": code, "model_terms_agree": not (code & 1)})
            elif code & 1 and not ignore_terms:
                ctx.tie_broken.append("model's lowering != recorded solver terms in scenario %r" % (brief(scs[si], oi),))
            elif code & 512 and not ignore_terms:
                ctx.tie_broken.append("statements of one rand set of the model (Rand/Randset.build) were handed to different solver "
                                      "instances in scenario %r" % (brief(scs[si], oi),))
    results, crashed = evaluate(ctx, scenarios, (tag or prop).lower(), do_sat=small)
    judge(scenarios, results, crashed)
    if ctx.tie_broken and not ctx.violations:
        ctx.log("correspondence broke; extended search for a failing input")
        for k in range(3):
            r2 = random.Random("%s-search-%d-%d" % (prop, ctx.seed, k))
            more = [gen(r2) for _ in range(n)]
            res2, cr2 = evaluate(ctx, more, "%s_s%d" % ((tag or prop).lower(), k), do_sat=small)
            judge(more, res2, cr2)
            if ctx.violations:
                break
    return scenarios, stats
