"""Scenario generation for the solver properties and conversion of scenarios / observations to Coq literals."""
import random

from core import cz, clist, cbool, copt, cpair

OPS_REL = ["Eq", "Ne", "Gt", "Ge", "Lt", "Le"]
OPS_ARITH = ["Add", "Sub", "Mul", "Div", "Mod", "And", "Or", "Xor", "Sll", "Srl"]
OPCOQ = {o: o for o in OPS_REL + OPS_ARITH}
MIRROR = {"Eq": "Eq", "Ne": "Ne", "Lt": "Gt", "Le": "Ge", "Gt": "Lt", "Ge": "Le"}
BTOR2COQ = {"Eq": "OEq", "Ne": "ONe", "Ult": "OUlt", "Ulte": "OUlte", "Ugt": "OUgt", "Ugte": "OUgte", "Slt": "OSlt",
            "Slte": "OSlte", "Sgt": "OSgt", "Sgte": "OSgte", "Add": "OAdd", "Sub": "OSub", "Mul": "OMul", "Udiv": "OUdiv",
            "Urem": "OUrem", "Sdiv": "OSdiv", "Srem": "OSrem", "And": "OAnd", "Or": "OOr", "Xor": "OXor", "Sll": "OSll",
            "Srl": "OSrl", "Implies": "OImplies"}


# --------------------------------------------------------------------------------------------- Coq literals
def all_fields(sc, cname):
    c = next(c for c in sc["classes"] if c["name"] == cname)
    base = all_fields(sc, c["base"]) if c.get("base") else []
    return base + c["fields"]


def all_blocks(sc, cname):
    """most-derived constraint blocks by name, in dir() order is not needed: sets are compared as multisets"""
    c = next(c for c in sc["classes"] if c["name"] == cname)
    base = all_blocks(sc, c["base"]) if c.get("base") else []
    own = c.get("blocks", [])
    names = {b["name"] for b in own}
    return [b for b in base if b["name"] not in names] + own


def obj_prefixes(sc, cname, prefix=()):
    """attribute path of every composite object below an object of class cname, in pre-order (= the object ids of Lits.world)"""
    out = [tuple(prefix)]
    for f in all_fields(sc, cname):
        if f["kind"] == "obj":
            out += obj_prefixes(sc, f["cls"], tuple(prefix) + (f["name"],))
        elif f["kind"] == "olist":
            # a list of objects: its elements are composites of their own (the list itself is not numbered)
            for i in range(f["n"]):
                out += obj_prefixes(sc, f["cls"], tuple(prefix) + (f["name"], i))
    return out


def class_at_path(sc, cname, path):
    """path elements: attribute names; an int is the index into the list of objects named just before it"""
    for n in path:
        if isinstance(n, int):
            continue
        cname = next(f for f in all_fields(sc, cname) if f["name"] == n)["cls"]
    return cname


def hook_actions(sc, cname, which):
    """the actions of the most-derived definition of the callback (None: no class of the hierarchy defines it)"""
    c = next(c for c in sc["classes"] if c["name"] == cname)
    if c.get(which) is not None:
        return c[which]
    return hook_actions(sc, c["base"], which) if c.get("base") else None


def apply_pre_hooks(sc, lits, raw_before, hooks):
    """the values the solve starts from: the values before the call with the assignments of the pre_randomize callbacks that
    ran (in the order they ran) applied. Returns (values, expected snapshot per hook entry or None)"""
    vals = list(raw_before)
    prefixes = obj_prefixes(sc, lits.root_cls)
    expect = []
    for oid, which, snap in hooks:
        if not (0 <= oid < len(prefixes)):
            expect.append(None)
            continue
        pre = prefixes[oid]
        idxs = [i for p, i in sorted(lits.ids.items(), key=lambda x: x[1]) if p[:len(pre)] == pre]
        if which != "pre_randomize":
            expect.append((which, idxs, None))
            continue
        expect.append((which, idxs, [vals[i] for i in idxs]))
        for a in hook_actions(sc, class_at_path(sc, lits.root_cls, pre), which) or []:
            if a[0] == "set":
                vals[lits.ids[pre + tuple(a[1])]] = a[2]
    return vals, expect


def leaves_of(sc, cname, prefix=()):
    """(path, decl) of every scalar / enum leaf below an object of class cname, in declaration order"""
    out = []
    for f in all_fields(sc, cname):
        p = prefix + (f["name"],)
        if f["kind"] in ("scalar", "enum"):
            out.append((p, f))
        elif f["kind"] == "obj":
            out += leaves_of(sc, f["cls"], p)
        elif f["kind"] == "olist":
            for i in range(f["n"]):
                out += leaves_of(sc, f["cls"], p + (i,))
    return out


class Lits(object):
    """conversion context for one root object: leaf path -> flat id, enum values, run-time flags"""

    def __init__(self, sc, root_cls, state=None):
        self.sc = sc
        self.root_cls = root_cls
        self.leaves = leaves_of(sc, root_cls)
        self.fields = [f for _, f in self.leaves]
        self.ids = {p: i for i, (p, _) in enumerate(self.leaves)}
        self.enums = sc.get("enums", {})
        self.state = state or {}          # {"rand_mode": {path: bool}, "cmode": {(objpath, block): bool}}
        self.prefix = ()

    def reflected(self, l, r):
        if any(isinstance(x, int) for x in list(l[1]) + list(r[1])):
            return False        # a field reached through a list element is a plain expression object, not a field facade
        fl, fr = self.fields[self.fid(l)], self.fields[self.fid(r)]
        fam = lambda f: "enum" if f["kind"] == "enum" else ("int" if f["sg"] else "bit")
        return fam(fl) == fam(fr) and not fl["rand"] and fr["rand"]

    def fid(self, e):
        assert e[0] == "f", e
        return self.ids[self.prefix + tuple(e[1])]

    def expr(self, e):
        k = e[0]
        if k == "lit":
            return "(ELit %s true 32)" % cz(e[1])
        if k == "u":
            return "(ELit %s false %s)" % (cz(e[1]), cz(e[2]))
        if k == "s":
            return "(ELit %s true %s)" % (cz(e[1]), cz(e[2]))
        if k == "enumlit":
            return "(ELit %s true 32)" % cz(self.enums[e[1]][e[2]])
        if k == "f":
            return "(EField %d%%nat)" % self.fid(e)
        if k == "bin":
            op, l, r = e[1], e[2], e[3]
            if op in MIRROR and l[0] == "f" and r[0] == "f" and self.reflected(l, r):
                # Python tries the reflected comparison first when the right operand's type is a subclass of the left
                # operand's type (rand_bit_t(bit_t), rand_int_t(int_t), rand_enum_t(enum_t)): `n < r` is recorded as `r > n`
                op, l, r = MIRROR[op], r, l
            elif op in MIRROR and l[0] == "lit" and r[0] != "lit":
                # a plain Python int on the left: int's comparison gives up and the DSL operand's reflected method records it
                op, l, r = MIRROR[op], r, l
            return "(EBin %s %s %s)" % (OPCOQ[op], self.expr(l), self.expr(r))
        if k == "not":
            return "(ENot %s)" % self.expr(e[1])
        if k == "itf":
            # field e[1] of the element a foreach over a list of objects stands at: the leaf of element i
            lp, iv = self.cur_foreach
            return "(elem_at %s %s 0)" % (self.olist_ids(lp, e[1]), iv)
        if k == "idxvar":
            return "(idx_lit %s)" % self.cur_foreach[1]
        if k == "dynref":
            return "(dyn_ref %s)" % self.dyn_block(e[1], e[2])
        if k == "dynidx":
            # root.<list>[root.<sel>].<block>() : the element is chosen by the selector's value at the time of the call
            return "(dyn_ref %s)" % self.dyn_block(list(e[1]) + [self.sel_value(e[2])], e[3])
        if k in ("inrl", "notinrl"):
            # a rangelist object of the root: its content at the time of the call, in the order the object holds it
            items = []
            for it in self.state.get("rl", {}).get(e[2], rl_initial(self.sc, self.root_cls, e[2])):
                items.append("(%s, None)" % self.expr(it[0]) if len(it) == 1 else "(%s, Some %s)" % (self.expr(it[0]), self.expr(it[1])))
            r = "(e_in %s %s)" % (self.expr(e[1]), clist(items))
            return r if k == "inrl" else "(ENot %s)" % r
        if k in ("in", "notin"):
            items = []
            for it in reversed(e[2]):          # rangelist stores its arguments last to first
                if len(it) == 1:
                    items.append("(%s, None)" % self.expr(it[0]))
                else:
                    items.append("(%s, Some %s)" % (self.expr(it[0]), self.expr(it[1])))
            r = "(e_in %s %s)" % (self.expr(e[1]), clist(items))
            return r if k == "in" else "(ENot %s)" % r
        if k == "part":
            return "(EPart %d%%nat %s %s)" % (self.fid(e[1]), cz(e[2]), cz(e[3]))
        if k == "bit":
            return "(EPart %d%%nat %s %s)" % (self.fid(e[1]), cz(e[2]), cz(e[2]))
        raise Exception("expr? " + repr(e))

    def stmts(self, l, prefix=None):
        l = [s for s in l if s[0] != "solve_order"]      # ordering declarations are not constraints
        if prefix is not None:
            old, self.prefix = self.prefix, tuple(prefix)
            try:
                return self.stmt_list(l)
            finally:
                self.prefix = old
        return self.stmt_list(l)

    def olist_ids(self, lpath, fpath):
        """leaf ids of field fpath of every element of the list of objects at lpath (relative to the current object)"""
        full = self.prefix + tuple(lpath)
        cname = self.root_cls
        f = None
        for n in full:
            if isinstance(n, int):
                continue
            f = next(x for x in all_fields(self.sc, cname) if x["name"] == n)
            cname = f["cls"]
        return clist(["%d%%nat" % self.ids[full + (i,) + tuple(fpath)] for i in range(f["n"])])

    def sel_value(self, selpath):
        return int(self.before_by_path[self.prefix + tuple(selpath)])

    def stmt_list(self, l):
        """a Coq expression of type list stmt; a dynamic-constraint reference used as a statement expands in place (Rand/Dyn.v),
        a foreach over a list of objects is expanded by Rand/Unroll.v"""
        if not any(s[0] in ("dyn", "dynidx", "foreach", "dist") for s in l):
            return clist([self.stmt(s) for s in l])
        parts, run, seen = [], [], set()
        for s in l:
            if s[0] == "dist":
                # the per-call rewrite of a dist constraint (Rand/Dist.v): membership in all entries + exclusion of zero weights
                if run:
                    parts.append(clist(run))
                    run = []
                ents = []
                for it, w in s[2]:
                    ent = "(%s, Some %s)" % (self.expr(["lit", it[0]]), self.expr(["lit", it[1]])) if isinstance(it, list) \
                        else "(%s, None)" % self.expr(["lit", it])
                    ents.append("(%s, %s)" % (ent, self.expr(w if isinstance(w, list) else ["lit", w])))
                parts.append("(dist_stmts %s %s)" % (self.expr(s[1]), clist(ents)))
                continue
            if s[0] == "foreach":
                if run:
                    parts.append(clist(run))
                    run = []
                depth = getattr(self, "fe_depth", 0)
                iv = "i%d" % depth
                old_cur, self.cur_foreach, self.fe_depth = getattr(self, "cur_foreach", None), (s[1], iv), depth + 1
                try:
                    first = next(p for p, _ in leaves_of(self.sc, class_at_path(self.sc, self.root_cls, self.prefix + tuple(s[1]))))
                    parts.append("(foreach_inst %s (fun %s _it%d : nat => %s))" % (self.olist_ids(s[1], first), iv, depth, self.stmt_list(s[2])))
                finally:
                    self.cur_foreach, self.fe_depth = old_cur, depth
                continue
            if s[0] == "dynidx":
                s = ["dyn", list(s[1]) + [self.sel_value(s[2])], s[3]]
            if s[0] == "dyn" and any(isinstance(x, int) for x in s[1]):
                # a reference through a list element (ExprIndexedDynRefModel) stays one Boolean term even as a statement of its own
                run.append("(SExpr (dyn_ref %s))" % self.dyn_block(s[1], s[2]))
                continue
            if s[0] == "dyn":
                if run:
                    parts.append(clist(run))
                    run = []
                # the block's statement objects reach a rand set once, however often the block is referenced as a statement
                key = (self.prefix + tuple(s[1]), s[2])
                if key in seen:
                    continue
                seen.add(key)
                parts.append("(dyn_stmt %s)" % self.dyn_block(s[1], s[2]))
            else:
                run.append(self.stmt(s))
        if run:
            parts.append(clist(run))
        if not parts:
            return "[]"
        return parts[0] if len(parts) == 1 else "(" + " ++ ".join(parts) + ")"

    def dyn_block(self, path, name):
        """the expressions of dynamic block `name` of the object at `path` (relative to the current object), over that object's leaves"""
        full = self.prefix + tuple(path)
        cname = class_at_path(self.sc, self.root_cls, full)
        b = next(b for b in all_blocks(self.sc, cname) if b["name"] == name and b.get("dynamic"))
        old, self.prefix = self.prefix, full
        try:
            out = []
            for st in b["stmts"]:
                assert st[0] == "expr", "dynamic blocks hold expression statements only"
                if st[1][0] == "dynref":
                    # a bare reference to another dynamic block as a statement of this one: that block's statements in place
                    out.append(("NESTED", self.dyn_block(st[1][1], st[1][2])))
                else:
                    out.append(self.expr(st[1]))
            if any(isinstance(x, tuple) for x in out):
                return "(" + " ++ ".join(x[1] if isinstance(x, tuple) else "[%s]" % x for x in out) + ")"
            return clist(out)
        finally:
            self.prefix = old

    def stmt(self, s):
        k = s[0]
        if k == "expr":
            return "(SExpr %s)" % self.expr(s[1])
        if k == "soft":
            return "(SSoft %s)" % self.expr(s[1])
        if k == "implies":
            return "(SImplies %s %s)" % (self.expr(s[1]), self.stmts(s[2]))
        if k == "unique":
            return "(SUnique %s)" % clist(["%d%%nat" % self.fid(x) for x in s[1]])
        if k == "if":
            def chain(c, body, elifs, els):
                if elifs:
                    c2, b2 = elifs[0]
                    f = "(Some [%s])" % chain(c2, b2, elifs[1:], els)
                elif els is not None:
                    f = "(Some %s)" % self.stmts(els)
                else:
                    f = "None"
                return "(SIf %s %s %s)" % (self.expr(c), self.stmts(body), f)
            return chain(s[1], s[2], s[3], s[4])
        raise Exception("stmt? " + repr(s))

    def fenv(self):
        return clist(["(mkF %s %s)" % ((cz(32), "true") if f["kind"] == "enum" else (cz(f["w"]), cbool(f["sg"])))
                      for f in self.fields])

    def enum_doms(self):
        return clist([copt(self.enums[f["enum"]] if f["kind"] == "enum" else None, lambda v: clist([cz(x) for x in v]))
                      for f in self.fields])

    def values(self, vals):
        """observed leaf values (enum leaves are member indices) -> integers"""
        out = []
        for f, v in zip(self.fields, vals):
            out.append(self.enums[f["enum"]][v] if f["kind"] == "enum" else v)
        return out

    # the object tree with its run-time flags
    def world(self, cname=None, prefix=(), decl_rand=True, counter=None):
        cname = cname or self.root_cls
        counter = counter if counter is not None else [0]
        oid = counter[0]
        counter[0] += 1
        kids = []
        for f in all_fields(self.sc, cname):
            p = prefix + (f["name"],)
            if f["kind"] in ("scalar", "enum"):
                mode = self.state.get("rand_mode", {}).get(p, bool(f.get("rand")))
                kids.append("(WLeaf %s %s %d%%nat)" % (cbool(bool(f.get("rand"))), cbool(mode), self.ids[p]))
            elif f["kind"] == "obj":
                kids.append(self.world(f["cls"], p, bool(f.get("rand")), counter))
            elif f["kind"] == "olist":
                # FieldArrayModel is a composite (no callbacks, no blocks of its own); an appended element takes the list's
                # declared-random attribute (field_array_model.py append)
                elems = [self.world(f["cls"], p + (i,), bool(f.get("rand")), counter) for i in range(f["n"])]
                self.n_olist = getattr(self, "n_olist", 0) + 1
                kids.append("(WObj %s %s %d%%nat [] %s)" % (cbool(bool(f.get("rand"))), cbool(bool(f.get("rand"))), 2000 + self.n_olist, clist(elems)))
        blocks = []
        for b in all_blocks(self.sc, cname):
            if b.get("dynamic"):
                continue
            on = self.state.get("cmode", {}).get((prefix, b["name"]), True)
            blocks.append("(%s, %s)" % (cbool(on), self.stmts(b["stmts"], prefix)))
        mode = self.state.get("rand_mode", {}).get(prefix, decl_rand) if prefix else decl_rand
        return "(WObj %s %s %d%%nat %s %s)" % (cbool(decl_rand), cbool(mode), oid, clist(blocks), clist(kids))


def free_world(lits, free):
    """a free-standing vsc.randomize(...) / vsc.randomize_with(...) over the leaves `free`: exactly the passed fields are random
    (randomizer.py do_randomize: set_used_rand(True, 0) on what is passed), every other field the constraints refer to is a
    constant of its current value, no class constraint block and no callback takes part"""
    passed = {tuple(p) for p in free}
    kids = ["(WLeaf %s %s %d%%nat)" % (cbool(p in passed), cbool(p in passed), i) for p, i in sorted(lits.ids.items(), key=lambda x: x[1])]
    return "(WObj true true 1999%%nat [] %s)" % clist(kids)


def term_lit(t):
    k = t[0]
    if k == "fvar":
        # -1: the variable of a field that does not belong to the object being randomized (never matches the model's terms)
        return "(BVar %d%%nat %s)" % (t[1] if t[1] >= 0 else 999999, cz(t[2]))
    if k == "fconst":
        return "(BConst %s %s)" % (cz(t[2]), cz(t[3]))
    if k == "const":
        return "(BConst %s %s)" % (cz(t[1]), cz(t[2]))
    if k == "var":
        return "(BVar %d%%nat %s)" % (1000 + t[1], cz(t[2]))
    if k == "op":
        return "(BOp2 %s %s %s)" % (BTOR2COQ[t[1]], term_lit(t[2]), term_lit(t[3]))
    if k == "not":
        return "(BNot %s)" % term_lit(t[1])
    if k == "sext":
        return "(BSext %s %s)" % (term_lit(t[1]), cz(t[2]))
    if k == "uext":
        return "(BUext %s %s)" % (term_lit(t[1]), cz(t[2]))
    if k == "slice":
        return "(BSlice %s %s %s)" % (term_lit(t[1]), cz(t[2]), cz(t[3]))
    if k == "cond":
        return "(BCond %s %s %s)" % (term_lit(t[1]), term_lit(t[2]), term_lit(t[3]))
    raise Exception("term? " + repr(t))


def hard_terms(log):
    """terms assumed before the first Sat() of every solver instance"""
    out = []
    seen_sat = False
    for ev in log:
        if ev[0] == "new":
            seen_sat = False
        elif ev[0] == "sat":
            seen_sat = True
        elif ev[0] == "assume" and not seen_sat:
            out.append(ev[1])
    return out


def inst_hard_terms(log):
    """per solver instance: the terms assumed before its first Sat()"""
    out = []
    cur = None
    seen_sat = False
    for ev in log:
        if ev[0] == "new":
            if cur is not None:
                out.append(cur)
            cur = []
            seen_sat = False
        elif ev[0] == "sat":
            seen_sat = True
        elif ev[0] == "assume" and not seen_sat and cur is not None:
            cur.append(ev[1])
    if cur is not None:
        out.append(cur)
    return out


def insts_literal(res):
    return clist([clist([term_lit(t) for t in inst]) for inst in inst_hard_terms(res["log"])])


# --------------------------------------------------------------------------------------------- generation
def type_range(w, sg):
    return (-(1 << (w - 1)), (1 << (w - 1)) - 1) if sg else (0, (1 << w) - 1)


class Gen(object):
    """random scenarios: a root class with scalar / enum fields and optional sub-objects (tree of classes)"""

    def __init__(self, rnd, small=True, tree=False, hist=False, ninst=1, soft_bias=False, free=False, rls=False):
        self.hooks = False        # pre_randomize callbacks that assign fields; classes deriving from a decorated base
        self.dists = False        # a dist constraint on a random scalar of the root (top-level statement of a class block)
        self.olists = False       # lists of objects (elements are composites with fields, blocks and callbacks of their own)
        self.free = free          # free-standing vsc.randomize(...) / vsc.randomize_with(...) over some leaves
        self.rls = rls            # rangelist objects of the root, edited between calls
        self.rl_names = []
        self.ninst = ninst
        self.soft_bias = soft_bias
        self.rnd = rnd
        self.small = small
        self.tree = tree          # allow sub-objects
        self.hist = hist          # rand_mode / constraint_mode toggles between calls
        self.enums = {}
        self.classes = []
        self.budget = 11 if small else 60
        self.nfield = 0
        self.wit = {}

    def scalar_fields(self, n):
        rnd = self.rnd
        fs = []
        for _ in range(n):
            i = self.nfield
            self.nfield += 1
            if rnd.random() < 0.15 and self.budget >= 2:
                vals = rnd.sample(range(-9, 20), rnd.randint(2, 4))
                self.enums["E%d" % i] = vals
                fs.append({"name": "f%d" % i, "kind": "enum", "enum": "E%d" % i, "rand": rnd.random() < 0.8})
                self.budget -= 2
                continue
            if self.small:
                w = rnd.choice([1, 2, 2, 3, 3, 4, 4, 5, 6])
            else:
                w = rnd.choice([1, 3, 4, 8, 8, 12, 16, 31, 32, 33, 48, 64])
            sg = rnd.random() < 0.4
            is_rand = rnd.random() < 0.72
            if is_rand:
                if w > self.budget:
                    w = max(1, self.budget)
                self.budget -= w
                if self.budget < 0:
                    is_rand = False
                    self.budget = 0
            lo, hi = type_range(w, sg)
            f = {"name": "f%d" % i, "kind": "scalar", "w": w, "sg": sg, "rand": is_rand}
            if not is_rand or rnd.random() < 0.3:
                f["init"] = rnd.randint(lo, hi)
            fs.append(f)
        return fs

    def gen_class(self, depth):
        rnd = self.rnd
        name = "K%d" % len(self.classes)
        c = {"name": name, "fields": [], "blocks": [], "pre_randomize": [], "post_randomize": []}
        self.classes.append(c)
        c["fields"] = self.scalar_fields(rnd.choice([1, 2, 2, 3, 3, 4, 5]) if depth == 0 and not self.tree
                                         else rnd.choice([1, 1, 2, 3]))
        if self.olists and depth == 0:
            # one or two lists of 2-3 objects of a small element class
            elem = {"name": "K%d" % len(self.classes), "fields": [], "blocks": [], "pre_randomize": [], "post_randomize": []}
            self.classes.append(elem)
            for _ in range(rnd.randint(1, 2)):
                w = rnd.choice([1, 2, 2])
                elem["fields"].append({"name": "f%d" % self.nfield, "kind": "scalar", "w": w, "sg": rnd.random() < 0.3, "rand": rnd.random() < 0.85})
                self.nfield += 1
            if rnd.random() < 0.4:
                # elements with two sub-objects of one class: paths of two steps below an element (it.p.lo, self.l[k].q.hi),
                # the position of p / q in the element differing from the position of the field in the pair
                pair = {"name": "K%d" % len(self.classes), "fields": [], "blocks": [], "pre_randomize": [], "post_randomize": []}
                self.classes.append(pair)
                for nm in ("hi", "lo"):
                    pair["fields"].append({"name": nm, "kind": "scalar", "w": 1, "sg": False, "rand": rnd.random() < 0.85})
                for nm in ("p", "q"):
                    elem["fields"].append({"name": nm, "kind": "obj", "cls": pair["name"], "rand": True})
            for _ in range(rnd.choice([1, 1, 2])):
                n = rnd.randint(2, 3)
                is_rand = rnd.random() < 0.8
                c["fields"].append({"name": "l%d" % self.nfield, "kind": "olist", "cls": elem["name"], "n": n, "rand": is_rand,
                                    "via_sz": n >= 1 and rnd.random() < 0.4})
                self.nfield += 1
                if is_rand:
                    self.budget -= n * sum(f["w"] for _, f in leaves_of({"classes": self.classes}, elem["name"]) if f["rand"])
        if self.tree and depth < 2:
            for k in range(rnd.choice([0, 1, 1, 2]) if depth == 0 else rnd.choice([0, 0, 1])):
                sub = self.gen_class(depth + 1)
                c["fields"].append({"name": "s%d" % self.nfield, "kind": "obj", "cls": sub["name"], "rand": rnd.random() < 0.7})
                self.nfield += 1
        return c

    def add_hooks(self):
        """pre_randomize assigns some of the object's own scalar fields (mostly the non-random ones); some classes are split
        into a decorated base without callbacks and a derived class that introduces them"""
        rnd = self.rnd
        for c in list(self.classes):
            own = [f for f in c["fields"] if f["kind"] == "scalar"]
            acts = []
            for f in own:
                if rnd.random() < (0.6 if not f["rand"] else 0.15):
                    lo, hi = type_range(f["w"], f["sg"])
                    acts.append(["set", [f["name"]], rnd.randint(lo, hi)])
            c["pre_randomize"] = acts
            ol = [f for f in c["fields"] if f["kind"] == "olist" and f.get("rand")]
            if ol and c is self.classes[0] and rnd.random() < 0.4:
                # post_randomize of the root appends a new object to a random list of objects (armed for the last call only):
                # the newcomer takes no part in the call that is just ending
                f = rnd.choice(ol)
                c["post_randomize"] = [["append_new", f["name"], f["cls"]]]
                self.arm_append = True
            if rnd.random() < 0.3 and len(c["fields"]) >= 2:
                k = rnd.randint(1, len(c["fields"]) - 1)
                base = {"name": c["name"] + "B", "fields": c["fields"][:k], "blocks": [], "pre_randomize": None, "post_randomize": None}
                c["fields"] = c["fields"][k:]
                c["base"] = base["name"]
                self.classes.insert(self.classes.index(c) + 1, base)     # (the list is reversed later: bases are defined first)

    def fill_blocks(self, softs):
        rnd = self.rnd
        sc = {"classes": self.classes, "enums": self.enums}
        all_rl = self.rl_names
        for c in self.classes:
            self.fs = [(list(p), f) for p, f in leaves_of(sc, c["name"])]
            if not self.fs:
                continue
            self.rl_names = all_rl if c is self.classes[0] else []       # rangelists belong to the root object
            nb = rnd.choice([1, 1, 2])
            c["blocks"] = [{"name": "c%d" % i, "stmts": [self.guided(lambda: self.stmt(2, softs), fallback=self.wit_fallback) for _ in range(rnd.randint(1, 3))]}
                           for i in range(nb)]
            for f in c["fields"]:
                if f["kind"] == "olist" and rnd.random() < 0.7:
                    c["blocks"][0]["stmts"].append(self.foreach_objs(sc, c, f))
            if self.dists and c is self.classes[0] and any(f["kind"] == "scalar" for f in c["fields"]):
                c["blocks"][0]["stmts"].insert(rnd.randint(0, len(c["blocks"][0]["stmts"])), self.dist_stmt(c))
        self.rl_names = all_rl

    # ---- expressions
    def lit_for(self, f):
        rnd = self.rnd
        if f["kind"] == "enum":
            return ["enumlit", f["enum"], rnd.randrange(len(self.enums[f["enum"]]))]
        lo, hi = type_range(f["w"], f["sg"])
        r = rnd.random()
        v = rnd.choice([lo, hi, 0, 1, rnd.randint(lo, hi), rnd.randint(lo, hi), hi + 1, lo - 1])
        if r < 0.75:
            return ["lit", v]
        if r < 0.9:
            w = rnd.choice([f["w"], f["w"] + 1, 8, 32])
            return ["u", abs(v) & ((1 << w) - 1), w]
        w = rnd.choice([f["w"], f["w"] + 2, 16])
        l2, h2 = type_range(w, True)
        return ["s", max(l2, min(h2, v)), w]

    def operand(self, depth, vsc_root=False):
        """vsc_root: the expression must be a vsc object at its root (Python evaluates int-only sub-expressions
        itself, and `5 < a` is reflected to `a > 5`), so plain literals are only generated as right operands"""
        rnd = self.rnd
        path, f = rnd.choice(self.fs)
        r = rnd.random()
        if depth <= 0 or r < 0.45:
            if r < 0.33 or depth <= 0 and r < 0.7 or vsc_root and not (0.33 <= r < 0.40):
                return ["f", path], f
            # (a bit / part select of a field reached through a list element is not supported by the library: expr.__getitem__
            # with a single index always builds an array subscript - not generated)
            if r < 0.40 and f["kind"] == "scalar" and f["w"] >= 2 and not any(isinstance(x, int) for x in path):
                hi = rnd.randrange(f["w"])
                lo = rnd.randint(0, hi)
                if rnd.random() < 0.25:
                    return ["bit", ["f", path], hi], f
                return ["part", ["f", path], hi, lo], f
            if vsc_root:
                return ["f", path], f
            return self.lit_for(f), f
        if r < 0.55:
            e, f2 = self.operand(depth - 1, True)
            return ["not", e], f2
        op = rnd.choice(["Add", "Add", "Sub", "Sub", "Mul", "And", "Or", "Xor", "Div", "Mod", "Sll", "Srl"])
        if not self.small and op in ("Mul", "Div", "Mod"):
            op = rnd.choice(["Add", "Sub", "Xor"])      # wide multipliers / dividers make the SAT problem slow, not more telling
        l, fl = self.operand(depth - 1, True)
        if op in ("Sll", "Srl"):
            r_ = ["lit", rnd.choice([0, 1, 1, 2, 3, 7, 40])]
        elif op in ("Div", "Mod"):
            r_ = rnd.choice([["lit", rnd.choice([1, 2, 3, -2, 0])], self.operand(depth - 1)[0]])
        else:
            r_ = self.operand(depth - 1)[0]
        return ["bin", op, l, r_], fl

    def relation(self, depth=2):
        rnd = self.rnd
        r = rnd.random()
        if r < 0.14:
            path, f = rnd.choice(self.fs)
            items = []
            for _ in range(rnd.randint(1, 4)):
                a = self.lit_for(f)
                if rnd.random() < 0.4 and a[0] == "lit":
                    items.append([a, ["lit", a[1] + rnd.randint(0, 5)]])
                else:
                    items.append([a])
            return [rnd.choice(["in", "in", "notin"]), ["f", path], items]
        if self.rl_names and r < 0.40:
            cand = [(p, f) for p, f in self.fs if f["kind"] == "scalar"]
            if cand:
                path, f = rnd.choice(cand)
                return [rnd.choice(["inrl", "inrl", "notinrl"]), ["f", path], rnd.choice(self.rl_names)]
        if 0.40 <= r < 0.50:
            # a constant expression on the LEFT of the comparison (a non-random field +- k, or a sized literal) against a random
            # field: bounds inference has separate code for this shape
            rands = [(p, f) for p, f in self.fs if f["kind"] == "scalar" and f["rand"]]
            consts = [(p, f) for p, f in self.fs if f["kind"] == "scalar" and not f["rand"]]
            if rands:
                pr, fr = rnd.choice(rands)
                lo, hi = type_range(fr["w"], fr["sg"])
                if consts and rnd.random() < 0.6:
                    pc, fc = rnd.choice(consts)
                    lhs = ["bin", rnd.choice(["Add", "Sub"]), ["f", pc], ["lit", rnd.randint(0, 3)]]
                else:
                    lhs = ["s", rnd.randint(lo, hi), fr["w"] + 1] if fr["sg"] else ["u", rnd.randint(lo, hi), fr["w"]]
                return ["bin", rnd.choice(["Ge", "Ge", "Gt", "Le", "Lt"]), lhs, ["f", pr]]
        l, fl = self.operand(depth, True)
        op = rnd.choice(OPS_REL)
        if rnd.random() < 0.5:
            rr = self.lit_for(fl)
        else:
            rr = self.operand(depth - 1)[0]
        return ["bin", op, l, rr]

    def condition(self, depth=2):
        rnd = self.rnd
        r = rnd.random()
        if depth > 0 and r < 0.22:
            return ["bin", rnd.choice(["And", "Or", "Or"]), self.condition(depth - 1), self.condition(depth - 1)]
        if depth > 0 and r < 0.30:
            return ["not", self.condition(depth - 1)]
        if r < 0.36 and depth < 2:
            # a bare field used as a condition / Boolean operand (true iff non-zero); never a statement of its own
            return ["f", rnd.choice(self.fs)[0]]
        return self.relation()

    def soft_stmt(self):
        """a soft constraint likely to conflict with its neighbours: field (== | < | > | in) constant"""
        rnd = self.rnd
        path, f = rnd.choice(self.fs)
        if rnd.random() < 0.75:
            return ["soft", ["bin", rnd.choice(["Eq", "Eq", "Eq", "Lt", "Gt", "Ne"]), ["f", path], self.lit_for(f)]]
        return ["soft", self.relation(1)]

    # ---- witness guidance (tree / object-list scenarios): every field declaration gets one value, the same in every instance
    # of its class; a generated top-level statement is mostly kept only if that assignment satisfies it (plain integer
    # reading - an approximation that only steers the generator towards satisfiable systems, it decides nothing)
    def wit_of(self, f):
        key = id(f)
        if key not in self.wit:
            if f["kind"] == "enum":
                self.wit[key] = self.rnd.choice(self.enums[f["enum"]])
            elif f.get("init") is not None and not f["rand"]:
                self.wit[key] = f["init"]
            elif not f["rand"]:
                self.wit[key] = 0
            elif self.hist and self.rnd.random() < 0.5:
                # the value the field starts with: switching its rand_mode off before the first call does not hurt
                self.wit[key] = f.get("init") or 0
            else:
                self.wit[key] = self.rnd.randint(*type_range(f["w"], f["sg"]))
        return self.wit[key]

    def wit_decl(self, e, elem_fs):
        src = self.fs if e[0] == "f" else (elem_fs or [])
        return next((f for p, f in src if list(p) == list(e[1])), None)

    def wit_ws(self, e, elem_fs):
        """(width, signed) as the expression models report them (Expr.width_of / spec_signed)"""
        k = e[0]
        if k in ("lit", "enumlit", "idxvar"):
            return 32, True
        if k == "u":
            return e[2], False
        if k == "s":
            return e[2], True
        if k in ("f", "itf"):
            f = self.wit_decl(e, elem_fs)
            if f is None:
                raise KeyError(e)
            return (32, True) if f["kind"] == "enum" else (f["w"], f["sg"])
        if k == "part":
            return e[2] - e[3] + 1, False
        if k == "bit":
            return 1, False
        if k == "not":
            return self.wit_ws(e[1], elem_fs)
        if k in ("in", "notin"):
            return 1, False
        if k == "bin":
            if e[1] in ("Lt", "Le", "Gt", "Ge", "Eq", "Ne"):
                return 1, False
            (wl, sl), (wr, sr) = self.wit_ws(e[2], elem_fs), self.wit_ws(e[3], elem_fs)
            return max(wl, wr), sl and sr
        raise KeyError(e)

    def wit_sem(self, e, ctx, psg, idx, elem_fs):
        """port of Rand/Expr.sem: (width, bit pattern) of e in a context of width ctx; ZeroDivisionError / KeyError = undefined"""
        wrap = lambda w, v: v & ((1 << w) - 1)
        to_s = lambda w, u: u - (1 << w) if u >= (1 << (w - 1)) else u
        conv = lambda sg, w, W, u: wrap(W, to_s(w, u) if sg else u)
        k = e[0]
        if k in ("lit", "enumlit", "idxvar", "u", "s"):
            v = e[1] if k in ("lit", "u", "s") else (self.enums[e[1]][e[2]] if k == "enumlit" else idx)
            w, sg = self.wit_ws(e, elem_fs)
            W = max(ctx, w)
            return W, (conv(psg, w, W, wrap(w, v)) if w < W else wrap(w, v))
        if k in ("f", "itf"):
            f = self.wit_decl(e, elem_fs)
            w, sg = self.wit_ws(e, elem_fs)
            return w, wrap(w, self.wit_of(f))
        if k in ("part", "bit"):
            hi, lo = (e[2], e[3]) if k == "part" else (e[2], e[2])
            w, u = self.wit_sem(e[1], -1, False, idx, elem_fs)
            return hi - lo + 1, (u >> lo) & ((1 << (hi - lo + 1)) - 1)
        if k == "not":
            w, sg = self.wit_ws(e[1], elem_fs)
            W = max(ctx, w)
            we, a = self.wit_sem(e[1], W, sg, idx, elem_fs)
            return W, (1 << W) - 1 - conv(sg, we, W, a)
        if k in ("in", "notin"):
            hit = False
            for it in e[2]:
                if len(it) == 1:
                    hit = hit or self.wit_sem(["bin", "Eq", e[1], it[0]], -1, False, idx, elem_fs)[1] != 0
                else:
                    hit = hit or (self.wit_sem(["bin", "Ge", e[1], it[0]], -1, False, idx, elem_fs)[1] != 0 and
                                  self.wit_sem(["bin", "Le", e[1], it[1]], -1, False, idx, elem_fs)[1] != 0)
            return 1, int(hit if k == "in" else not hit)
        if k == "bin":
            op = e[1]
            (wl_, sl), (wr_, sr) = self.wit_ws(e[2], elem_fs), self.wit_ws(e[3], elem_fs)
            W = max(ctx, wl_, wr_)
            sg = sl and sr
            wl, a = self.wit_sem(e[2], W, sg, idx, elem_fs)
            wr, b = self.wit_sem(e[3], W, sg, idx, elem_fs)
            a, b = conv(sg, wl, W, a), conv(sg, wr, W, b)
            if op in ("Lt", "Le", "Gt", "Ge", "Eq", "Ne"):
                x, y = (to_s(W, a), to_s(W, b)) if sg else (a, b)
                return 1, int({"Lt": x < y, "Le": x <= y, "Gt": x > y, "Ge": x >= y, "Eq": x == y, "Ne": x != y}[op])
            if op in ("Div", "Mod"):
                if b == 0:
                    raise ZeroDivisionError()
                if sg:
                    x, y = to_s(W, a), to_s(W, b)
                    q = abs(x) // abs(y) * (1 if (x >= 0) == (y >= 0) else -1)
                    return W, wrap(W, q if op == "Div" else x - y * q)
                return W, (a // b if op == "Div" else a % b)
            if op in ("Sll", "Srl"):
                return W, (0 if b >= W else (wrap(W, a << b) if op == "Sll" else a >> b))
            return W, {"Add": wrap(W, a + b), "Sub": wrap(W, a - b), "Mul": wrap(W, a * b), "And": a & b, "Or": a | b, "Xor": a ^ b}[op]
        raise KeyError(e)

    def wit_eval(self, e, idx=None, elem_fs=None):
        """truth value (0/1) of e as a condition under the witness; None = cannot tell"""
        try:
            return int(self.wit_sem(e, -1, False, idx, elem_fs)[1] != 0)
        except ZeroDivisionError:
            raise
        except Exception:
            return None

    def boolish(self, e):
        return e[0] in ("in", "notin") or (e[0] == "bin" and e[1] in ("Lt", "Le", "Gt", "Ge", "Eq", "Ne", "And", "Or")) or \
            (e[0] == "not" and self.boolish(e[1]))

    def wit_holds(self, st, idx=None, elem_fs=None):
        """does the witness satisfy the statement? (cannot tell: counted as holding; a division by zero: as not holding)"""
        try:
            return self.wit_holds_(st, idx, elem_fs)
        except ZeroDivisionError:
            return False

    def wit_holds_(self, st, idx=None, elem_fs=None):
        k = st[0]
        if k == "expr":
            v = self.wit_eval(st[1], idx, elem_fs)
            return True if v is None else bool(v)
        if k == "unique":
            try:
                vals = [self.wit_of(self.wit_decl(x, elem_fs)) for x in st[1]]
            except Exception:
                return True
            return len(set(vals)) == len(vals)
        if k == "implies":
            c = self.wit_eval(st[1], idx, elem_fs)
            return True if c is None or not c else all(self.wit_holds_(b, idx, elem_fs) for b in st[2])
        if k == "if":
            for cond, body in [[st[1], st[2]]] + list(st[3]):
                c = self.wit_eval(cond, idx, elem_fs)
                if c is None:
                    return True
                if c:
                    return all(self.wit_holds_(b, idx, elem_fs) for b in body)
            return all(self.wit_holds_(b, idx, elem_fs) for b in (st[4] or []))
        return True       # soft, solve_order, dist, ...

    def guided(self, mk, check=None, fallback=None):
        """mostly-satisfiable generation: retry until the witness satisfies the statement (8% are kept regardless)"""
        if not (self.tree or self.olists) or not getattr(self, "guide", True):
            return mk()
        st = mk()
        for _ in range(12):
            if (check or self.wit_holds)(st) or self.rnd.random() < 0.06:
                return st
            st = mk()
        if (check or self.wit_holds)(st) or fallback is None:
            return st
        return fallback()

    def wit_fallback(self):
        """a simple relation the witness satisfies: field (<= | >= | ==) its witness value"""
        cand = [(p, f) for p, f in self.fs if f["kind"] == "scalar"]
        if not cand:
            return ["expr", ["bin", "Eq", ["lit", 1], ["lit", 1]]]
        p, f = self.rnd.choice(cand)
        return ["expr", ["bin", self.rnd.choice(["Le", "Ge", "Eq"]), ["f", list(p)], ["lit", self.wit_of(f)]]]

    def stmt(self, depth=2, allow_soft=False):
        rnd = self.rnd
        r = rnd.random()
        if self.soft_bias and allow_soft and rnd.random() < 0.45:
            if depth > 0 and rnd.random() < 0.3:
                body = [self.soft_stmt() for _ in range(rnd.randint(1, 2))]
                if rnd.random() < 0.5:
                    els = [self.soft_stmt()] if rnd.random() < 0.5 else None
                    return ["if", self.relation(1), body, [], els]
                return ["implies", self.relation(1), body]
            return self.soft_stmt()
        if depth > 0 and r < 0.16:
            elifs = [[self.condition(1), self.stmt_list(depth - 1, 1, 2)] for _ in range(rnd.choice([0, 0, 1, 2, 3, 4]))]
            els = self.stmt_list(depth - 1, 1, 2) if rnd.random() < 0.5 else None
            return ["if", self.condition(1), self.stmt_list(depth - 1, 1, 2), elifs, els]
        if depth > 0 and r < 0.26:
            return ["implies", self.condition(1), self.stmt_list(depth - 1, 1, 2)]
        cand = [(p, f) for p, f in self.fs if f["kind"] == "scalar"]
        if r < 0.32 and len(cand) >= 2:
            k = rnd.randint(2, min(3, len(cand)))
            return ["unique", [["f", p] for p, f in rnd.sample(cand, k)]]
        if allow_soft and r < 0.42:
            return ["soft", self.relation(1)]
        return ["expr", self.condition()]

    def stmt_list(self, depth, lo, hi):
        return [self.stmt(depth, self.soft_bias) for _ in range(self.rnd.randint(lo, hi))]

    def scenario(self, ncalls=3, softs=False):
        rnd = self.rnd
        root = self.gen_class(0)
        sc = {"enums": self.enums, "classes": list(reversed(self.classes))}     # sub-object classes are defined first
        leaves = leaves_of(sc, root["name"])
        if not any(f["rand"] for _, f in leaves):
            leaves[0][1]["rand"] = True
        if self.hooks:
            self.add_hooks()
            sc["classes"] = list(reversed(self.classes))
        if self.rls:
            # rangelists live in the root object; their items are Python integers / pairs around the fields' values
            scal = [f for _, f in leaves if f["kind"] == "scalar"]
            for k in range(rnd.randint(1, 2)):
                f = rnd.choice(scal) if scal else {"w": 3, "sg": False}
                root.setdefault("rangelists", {})["rl%d" % k] = [self.rl_item(f) for _ in range(rnd.randint(1, 3))]
            self.rl_names = sorted(root["rangelists"])
            self.rl_field = scal
        self.fill_blocks(softs)
        names = ["o"] if self.ninst == 1 else ["o%d" % i for i in range(self.ninst)]
        ops = [{"op": "new", "var": names[0], "cls": root["name"]}]
        created = 1
        self.fs = [(list(p), f) for p, f in leaves]
        objpaths = [()] + [p for p in self.obj_paths(sc, root["name"])]
        for _ in range(ncalls * self.ninst):
            if created < self.ninst and rnd.random() < 0.5:
                ops.append({"op": "new", "var": names[created], "cls": root["name"]})     # instances created later, too
                created += 1
            v = rnd.choice(names[:created])
            if rnd.random() < 0.4:
                p, f = rnd.choice(leaves)
                if f["kind"] == "scalar":
                    lo, hi = type_range(f["w"], f["sg"])
                    ops.append({"op": "set", "var": v, "path": list(p), "value": rnd.randint(lo, hi)})
            if self.hist and rnd.random() < 0.5:
                p, f = rnd.choice(leaves)
                ops.append({"op": "rand_mode", "var": v, "path": list(p), "on": rnd.random() < 0.4})
            if self.hist and rnd.random() < 0.6:
                op_ = rnd.choice(objpaths)
                cls = self.class_at(sc, root["name"], op_)
                blocks = all_blocks(sc, cls)
                if blocks:
                    ops.append({"op": "cmode", "var": v, "path": list(op_), "block": rnd.choice(blocks)["name"],
                                "on": rnd.random() < 0.4})
            v2 = rnd.choice(names[:created])
            if self.rl_names and rnd.random() < 0.6:
                name = rnd.choice(self.rl_names)
                f = rnd.choice(self.rl_field) if self.rl_field else {"w": 3, "sg": False}
                r = rnd.random()
                if r < 0.5:
                    ops.append({"op": "rl_append", "var": v2, "rl": name, "items": [self.rl_item(f)]})
                elif r < 0.7:
                    ops.append({"op": "rl_extend", "var": v2, "rl": name, "items": [self.rl_item(f) for _ in range(rnd.randint(1, 2))]})
                else:
                    ops.append({"op": "rl_clear", "var": v2, "rl": name, "items": []})
                    if rnd.random() < 0.7:
                        ops.append({"op": "rl_extend", "var": v2, "rl": name, "items": [self.rl_item(f) for _ in range(rnd.randint(1, 2))]})
            inline = [self.guided(lambda: self.stmt(1, softs), fallback=self.wit_fallback) for _ in range(rnd.randint(1, 2))] if rnd.random() < (0.75 if self.free else 0.4) else None
            call = {"op": "randomize", "var": v2, "inline": inline}
            if self.free and rnd.random() < 0.5:
                cand = [list(p) for p, f in leaves]
                call["free"] = rnd.sample(cand, rnd.randint(1, min(3, len(cand))))
                sc_l = [(list(p), f) for p, f in leaves if f["kind"] == "scalar"]
                if len(sc_l) >= 2 and rnd.random() < 0.35:
                    # two passed fields related through an expression over one of them (a <= b + k): both are variables of the
                    # call whatever their declaration says - preferably the one inside the expression is NOT declared random
                    (pa, fa), (pb, fb) = rnd.sample(sc_l, 2)
                    if fa["rand"] is False and fb["rand"]:
                        (pa, fa), (pb, fb) = (pb, fb), (pa, fa)
                    rel = ["bin", rnd.choice(["Le", "Lt", "Ge", "Gt"]), ["f", pa], ["bin", rnd.choice(["Add", "Sub"]), ["f", pb], ["lit", rnd.randint(0, 2)]]]
                    call["inline"] = [["expr", rel]]
                    call["free"] = [pa, pb]
            ops.append(call)
        if getattr(self, "arm_append", False):
            last = max(i for i, o in enumerate(ops) if o["op"] == "randomize")
            if ops[last].get("free") is None:
                ops.insert(last, {"op": "arm_append", "var": ops[last]["var"]})
        sc["ops"] = ops
        sc["root_cls"] = root["name"]
        return sc

    def dist_stmt(self, c):
        """dist over a random scalar of the class: values and ranges inside and outside the type, zero weights, overlapping
        entries, a weight held in a non-random field"""
        rnd = self.rnd
        cand = [f for f in c["fields"] if f["kind"] == "scalar" and f["rand"]] or [f for f in c["fields"] if f["kind"] == "scalar"]
        f = rnd.choice(cand)
        lo, hi = type_range(f["w"], f["sg"])
        wfields = [x for x in c["fields"] if x["kind"] == "scalar" and not x["rand"] and not x["sg"]]
        ents = []
        for _ in range(rnd.randint(1, 4)):
            a = rnd.randint(lo, hi)
            it = [a, min(hi + 1, a + rnd.randint(0, 3))] if rnd.random() < 0.5 else a
            r = rnd.random()
            if r < 0.3:
                w = 0
            elif r < 0.4 and wfields:
                w = ["f", [rnd.choice(wfields)["name"]]]
            else:
                w = rnd.choice([1, 1, 2, 5, 10])
            ents.append([it, w])
        if all(e[1] == 0 for e in ents) and rnd.random() < 0.8:
            ents[0][1] = 3
        return ["dist", ["f", [f["name"]]], ents]

    def foreach_objs(self, sc, c, lf):
        """with vsc.foreach(self.l, idx=True, it=True): relations over the element's fields, the index and the container's fields"""
        rnd = self.rnd
        efs = [(p, f) for p, f in leaves_of(sc, lf["cls"]) if f["kind"] == "scalar"]      # also the fields of an element's sub-objects
        own = [(p, f) for p, f in self.fs if len(p) == 1 and f["kind"] == "scalar"]
        body = []

        def one():
            ep, ef = rnd.choice(efs)
            r = rnd.random()
            if r < 0.4:
                rhs = self.lit_for(ef)
            elif r < 0.6:
                rhs = ["idxvar"]
            elif r < 0.8 and own:
                rhs = ["f", list(rnd.choice(own)[0])]
            else:
                rhs = ["itf", list(rnd.choice(efs)[0])]
            return ["expr", ["bin", rnd.choice(["Le", "Ne", "Lt", "Ge", "Eq"]), ["itf", list(ep)], rhs]]
        for _ in range(rnd.randint(1, 3 if any(len(p) > 1 for p, _ in efs) else 2)):
            def fb():
                ep, ef = rnd.choice(efs)
                return ["expr", ["bin", rnd.choice(["Le", "Ge", "Eq"]), ["itf", list(ep)], ["lit", self.wit_of(ef)]]]
            body.append(self.guided(one, lambda st: all(self.wit_holds(st, i, efs) for i in range(lf["n"])), fallback=fb))
        return ["foreach", [lf["name"]], body]

    def rl_item(self, f):
        rnd = self.rnd
        lo, hi = type_range(f["w"], f["sg"])
        a = rnd.randint(lo, hi)
        if rnd.random() < 0.45:
            return [["lit", a], ["lit", a + rnd.randint(0, 3)]]
        return [["lit", a]]

    def obj_paths(self, sc, cname, prefix=()):
        out = []
        for f in all_fields(sc, cname):
            if f["kind"] == "obj":
                p = prefix + (f["name"],)
                out.append(p)
                out += self.obj_paths(sc, f["cls"], p)
            elif f["kind"] == "olist":
                for i in range(f["n"]):
                    p = prefix + (f["name"], i)
                    out.append(p)
                    out += self.obj_paths(sc, f["cls"], p)
        return out

    def class_at(self, sc, cname, path):
        return class_at_path(sc, cname, path)


def rl_initial(sc, root_cls, name):
    """content of a rangelist after construction: the constructor stores its arguments last to first"""
    c = next(c for c in sc["classes"] if c["name"] == root_cls)
    return list(reversed(c["rangelists"][name]))


def track_state(sc, upto):
    """rand_mode / constraint_mode flags and rangelist contents of the object of op number `upto`, as in force before it"""
    st = {"rand_mode": {}, "cmode": {}, "rl": {}}
    var = sc["ops"][upto]["var"]
    for op in sc["ops"][:upto]:
        if op.get("var") != var:
            continue
        if op["op"] == "rand_mode":
            st["rand_mode"][tuple(op["path"])] = bool(op["on"])
        elif op["op"] == "cmode":
            st["cmode"][(tuple(op.get("path", [])), op["block"])] = bool(op["on"])
        elif op["op"] in ("rl_append", "rl_extend", "rl_clear"):
            cur = st["rl"].setdefault(op["rl"], rl_initial(sc, sc["root_cls"], op["rl"]))
            if op["op"] == "rl_clear":
                del cur[:]
            else:
                cur.extend(op["items"])
    return st


def post_hard_batches(log):
    """per solver instance: the terms assumed between its first and its second Sat()"""
    out = []
    cur = None
    nsat = 0
    for ev in log:
        if ev[0] == "new":
            if cur is not None:
                out.append(cur)
            cur = []
            nsat = 0
        elif ev[0] == "sat":
            nsat += 1
        elif ev[0] == "assume" and nsat == 1 and cur is not None:
            cur.append(ev[1])
    if cur is not None:
        out.append(cur)
    return out


def used_ids(log, kind):
    out = set()

    def walk(t):
        if isinstance(t, list):
            if t and t[0] == kind:
                out.add(t[1])
            for x in t[1:]:
                walk(x)
    for ev in log:
        if ev[0] in ("assume", "assert"):
            walk(ev[1])
    return sorted(x for x in out if x >= 0)


def case_literal(sc, opi, res, lits):
    """Coq literal `mkSC ...` for the randomize op number opi of scenario sc with observation res"""
    op = sc["ops"][opi]
    # what pre_randomize assigns is what the solver must see (and what non-random fields must keep)
    before = lits.values(apply_pre_hooks(sc, lits, res["before"], res["hooks"])[0]) if hasattr(lits, "ids") else lits.values(res["before"])
    after = lits.values(res["values"])
    if hasattr(lits, "ids"):
        lits.before_by_path = {p: before[i] for p, i in lits.ids.items()}
    # 3 = ZeroDivisionError: a constant sub-expression divides by zero, which the specification leaves undefined
    outcome = 0 if res["outcome"] == "ok" else (1 if res["outcome"] == "SolveFailure" else
                                                (3 if res["outcome"] == "exc:ZeroDivisionError" or "Max size for array" in (res.get("err") or "") else 2))
    terms = clist([term_lit(t) for t in hard_terms(res["log"])])
    nl = lambda l: clist(["%d%%nat" % x for x in l])
    # (an object the scenario does not know - one created during the call - is reported as -1: it is no object of the model)
    pre = [h[0] if h[0] >= 0 else 999 for h in res["hooks"] if h[1] == "pre_randomize"]
    post = [h[0] if h[0] >= 0 else 999 for h in res["hooks"] if h[1] == "post_randomize"]
    batches = clist([clist([term_lit(t) for t in b]) for b in post_hard_batches(res["log"])])
    doms = clist([copt(res.get("domains", {}).get(str(i)), lambda d: clist([cpair(cz(a), cz(b)) for a, b in d]))
                  for i in range(len(lits.fields))])
    return "(mkSC %s %s [%s] %s %s %s %s %s %s %s %s %s %s %s)" % (
        lits.fenv(), lits.enum_doms(), free_world(lits, op["free"]) if op.get("free") is not None else lits.world(),
        lits.stmts(op.get("inline") or []),
        clist([cz(v) for v in before]), cz(outcome), clist([cz(v) for v in after]), terms,
        nl(used_ids(res["log"], "fvar")), nl(used_ids(res["log"], "fconst")), nl(pre), nl(post), batches, doms)


# --------------------------------------------------------------------------------------------- classifiers of known findings
def py_bound_out_of_type(sc, root_cls, stmts_with_prefix, values_by_path):
    """known finding bounds.python_int_semantics: a top-level relational statement compares with a constant (non-random)
    expression whose value as a Python integer is not representable in the comparison's own type (negative value in an
    unsigned comparison, wrap-around): bounds inference evaluates it in unbounded integers, the solver does not."""
    leaves = {p: f for p, f in leaves_of(sc, root_cls)}

    def ftype(e, prefix):
        f = leaves[prefix + tuple(e[1])]
        return (32, True) if f["kind"] == "enum" else (f["w"], f["sg"])

    def typ(e, prefix):
        k = e[0]
        if k == "lit" or k == "enumlit":
            return (32, True)
        if k == "u":
            return (e[2], False)
        if k == "s":
            return (e[2], True)
        if k == "f":
            return ftype(e, prefix)
        if k == "bin":
            (wl, sl), (wr, sr) = typ(e[2], prefix), typ(e[3], prefix)
            return (1, sl and sr) if e[1] in MIRROR else (max(wl, wr), sl and sr)
        if k == "not":
            return typ(e[1], prefix)
        if k in ("in", "notin"):
            return (1, False)
        if k == "part":
            return (e[2] - e[3] + 1, False)
        if k == "bit":
            return (1, False)
        raise Exception(k)

    def is_const(e, prefix):
        k = e[0]
        if k in ("lit", "u", "s", "enumlit"):
            return True
        if k == "f":
            return not leaves[prefix + tuple(e[1])].get("rand_now", leaves[prefix + tuple(e[1])]["rand"])
        if k == "bin":
            return is_const(e[2], prefix) and is_const(e[3], prefix)
        if k in ("not", "part", "bit"):
            return is_const(e[1], prefix)
        return False

    def pv(e, prefix):
        k = e[0]
        if k in ("lit", "u", "s"):
            return e[1]
        if k == "enumlit":
            return sc["enums"][e[1]][e[2]]
        if k == "f":
            return values_by_path[prefix + tuple(e[1])]
        if k == "not":
            w, _ = typ(e[1], prefix)
            return ~pv(e[1], prefix) & ((1 << w) - 1)
        if k == "part":
            return (pv(e[1], prefix) >> e[3]) & ((1 << (e[2] - e[3] + 1)) - 1)
        if k == "bit":
            return (pv(e[1], prefix) >> e[2]) & 1
        a, b = pv(e[2], prefix), pv(e[3], prefix)
        op = e[1]
        if op in ("Div", "Mod"):
            if b == 0:
                raise ZeroDivisionError()
            q = abs(a) // abs(b)
            q = q if (a < 0) == (b < 0) else -q
            return q if op == "Div" else a - b * q
        return {"Add": a + b, "Sub": a - b, "Mul": a * b, "And": a & b, "Or": a | b, "Xor": a ^ b,
                "Sll": a << b if 0 <= b < 4096 else 0, "Srl": a >> b if 0 <= b < 4096 else 0}.get(op, 0)

    def repr_ok(v, W, sg):
        lo, hi = (-(1 << (W - 1)), (1 << (W - 1)) - 1) if sg else (0, (1 << W) - 1)
        return lo <= v <= hi

    def narrow_not(e, W, prefix):
        """~X inside a constant expression with X a compound expression narrower than the comparison: the solver builds X at the
        context width and inverts there, bounds inference inverts at X's own width (ExprUnaryModel.val)"""
        k = e[0]
        if k == "not":
            x = e[1]
            if x[0] in ("bin", "not") and typ(x, prefix)[0] < W:
                return True
            return narrow_not(x, W, prefix)
        if k == "bin":
            return narrow_not(e[2], W, prefix) or narrow_not(e[3], W, prefix)
        return False

    def mv(e, ctx, psg, prefix):
        """the solver's value of a constant expression: (width, bit pattern) by the rules of Rand/Expr.sem (context-width
        propagation, signed iff both operands signed, logical right shift, wrap-around)"""
        wrap = lambda w, v: v & ((1 << w) - 1)
        to_s = lambda w, u: u - (1 << w) if u >= (1 << (w - 1)) else u
        conv = lambda sg, w, W, u: wrap(W, to_s(w, u) if sg else u)
        k = e[0]
        if k in ("lit", "enumlit", "u", "s"):
            w, sg = typ(e, prefix)
            W = max(ctx, w)
            return W, (conv(psg, w, W, wrap(w, pv(e, prefix))) if w < W else wrap(w, pv(e, prefix)))
        if k == "f":
            w, sg = typ(e, prefix)
            return w, wrap(w, pv(e, prefix))
        if k in ("part", "bit"):
            hi, lo = (e[2], e[3]) if k == "part" else (e[2], e[2])
            w, u = mv(e[1], -1, False, prefix)
            return hi - lo + 1, (u >> lo) & ((1 << (hi - lo + 1)) - 1)
        if k == "not":
            w, sg = typ(e[1], prefix)
            W = max(ctx, w)
            we, a = mv(e[1], W, sg, prefix)
            return W, (1 << W) - 1 - conv(sg, we, W, a)
        op = e[1]
        (wl_, sl), (wr_, sr) = typ(e[2], prefix), typ(e[3], prefix)
        W = max(ctx, wl_, wr_)
        sg = sl and sr
        wl, a = mv(e[2], W, sg, prefix)
        wr, b = mv(e[3], W, sg, prefix)
        a, b = conv(sg, wl, W, a), conv(sg, wr, W, b)
        if op in MIRROR:
            x, y = (to_s(W, a), to_s(W, b)) if sg else (a, b)
            return 1, int({"Lt": x < y, "Le": x <= y, "Gt": x > y, "Ge": x >= y, "Eq": x == y, "Ne": x != y}[op])
        if op in ("Div", "Mod"):
            if b == 0:
                raise ZeroDivisionError()
            if sg:
                x, y = to_s(W, a), to_s(W, b)
                q = abs(x) // abs(y) * (1 if (x >= 0) == (y >= 0) else -1)
                return W, wrap(W, q if op == "Div" else x - y * q)
            return W, (a // b if op == "Div" else a % b)
        if op in ("Sll", "Srl"):
            return W, (0 if b >= W else (wrap(W, a << b) if op == "Sll" else a >> b))
        return W, {"Add": wrap(W, a + b), "Sub": wrap(W, a - b), "Mul": wrap(W, a * b), "And": a & b, "Or": a | b, "Xor": a ^ b}[op]

    def mismatch(c, o, prefix):
        """constant side c compared with non-constant side o: does conversion to the comparison type change an integer value?"""
        (wc, sc_), (wo, so) = typ(c, prefix), typ(o, prefix)
        W, sg = max(wc, wo), sc_ and so
        if narrow_not(c, W, prefix):
            return True
        if not repr_ok(pv(c, prefix), W, sg):
            return True
        # some intermediate result differs (a logical right shift of a negative value, a product that wraps ...): the value the
        # solver compares with is not the Python integer bounds inference computed
        try:
            w2, pat = mv(c, W, sg, prefix)
            u = pat & ((1 << W) - 1) if w2 >= W else ((pat - (1 << w2) if sg and pat >= (1 << (w2 - 1)) else pat) & ((1 << W) - 1))
            val = u - (1 << W) if sg and u >= (1 << (W - 1)) else u
            if val != pv(c, prefix):
                return True
        except ZeroDivisionError:
            raise
        except Exception:  # noqa
            pass
        return False

    for s, prefix in stmts_with_prefix:
        if s[0] != "expr":
            continue
        e = s[1]
        pairs = []
        if e[0] == "bin" and e[1] in MIRROR:
            pairs = [(e[2], e[3]), (e[3], e[2])]
        elif e[0] in ("in", "notin"):
            for it in e[2]:
                for x in it:
                    pairs.append((x, e[1]))
        for c, o in pairs:
            try:
                if is_const(c, prefix) and not is_const(o, prefix) and mismatch(c, o, prefix):
                    return True
            except ZeroDivisionError:
                pass
    return False


def active_statements(sc, root_cls, state, inline, prefix=(), cname=None, out=None):
    """(statement, object path) of every enabled top-level statement (class blocks of the whole tree, then inline)"""
    top = out is None
    out = [] if out is None else out
    cname = cname or root_cls
    for f in all_fields(sc, cname):
        if f["kind"] == "obj":
            active_statements(sc, root_cls, state, None, prefix + (f["name"],), f["cls"], out)
    for b in all_blocks(sc, cname):
        if not b.get("dynamic") and state.get("cmode", {}).get((prefix, b["name"]), True):
            out.extend((s, prefix) for s in b["stmts"])
    if top and inline:
        out.extend((s, ()) for s in inline)
    return out
