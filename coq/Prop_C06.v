(* C06 — inline and dynamic constraints bind to exactly one call and to the right object.
   Property theorems only (definitions: Rand/Dyn.v, in which the correspondence check writes its cases).
   Which object a reference denotes is fixed by the path it is written through; the check compares, per call, the terms
   the solver received with  class statements ++ this call's inline set  with every reference expanded to the block of
   THAT object over THAT object's fields - the theorems say what these expansions mean. *)
From Coq Require Import ZArith List Bool Lia.
From PV Require Import Common.Bits Rand.BV Rand.Expr Rand.Lower Rand.Typing Rand.LowerProofs Rand.Unroll Rand.UnrollProofs
                       Rand.Dyn Rand.DynProofs.
Import ListNotations.
Open Scope Z_scope.

(* a reference inside an expression is a Boolean term: true iff every statement of the referenced block is true *)
Theorem C06_reference_term : forall G rho es,
  truth G rho (dyn_ref es) = Some true <-> forall e, In e es -> truth G rho e = Some true.
Proof. exact dyn_ref_truth_total. Qed.
Print Assumptions C06_reference_term.

(* ... a 1-bit unsigned term in every context, so | & ~ compose references as Boolean operators (closed under nesting) *)
Theorem C06_reference_is_bit : forall G rho es, (forall e, In e es -> defined G rho e) ->
  bit_every G rho (dyn_ref es) (forallb (fun e => match truth G rho e with Some true => true | _ => false end) es).
Proof. exact dyn_ref_bit. Qed.
Print Assumptions C06_reference_is_bit.
Theorem C06_boolean_composition : forall G rho a b A B, bit G rho a A -> bit G rho b B ->
  truth G rho (EBin Or a b) = Some (A || B) /\ truth G rho (EBin And a b) = Some (A && B) /\
  truth G rho (ENot a) = Some (negb A) /\
  bit G rho (EBin Or a b) (A || B) /\ bit G rho (EBin And a b) (A && B) /\ bit G rho (ENot a) (negb A).
Proof.
  intros G rho a b A B Ha Hb.
  split; [exact (dyn_or G rho a b A B Ha Hb)|]. split; [exact (dyn_and G rho a b A B Ha Hb)|].
  split; [exact (dyn_not G rho a A Ha)|]. split; [exact (dyn_or_bit G rho a b A B Ha Hb)|].
  split; [exact (dyn_and_bit G rho a b A B Ha Hb) | exact (dyn_not_bit G rho a A Ha)].
Qed.
Print Assumptions C06_boolean_composition.

(* a reference used as a statement of its own (inline expansion) means the same as the Boolean term *)
Theorem C06_reference_statement : forall G rho es,
  holds_all G rho (dyn_stmt es) = Some true <-> truth G rho (dyn_ref es) = Some true.
Proof. exact dyn_stmt_ref_total. Qed.
Print Assumptions C06_reference_statement.

(* the term built for a reference evaluates to that conjunction (the C01 lowering theorem applies to references) *)
Theorem C06_reference_lowered : forall G B rho es ctx,
  fields_ok G B rho ->
  (forall e, In e es -> wt G (-1) false e = true /\ built_width G (-1) e = 1) ->
  (forall e, In e es -> defined G rho e) ->
  bv_eval rho (lower_e G B ctx (dyn_ref es)) =
  Some (1, if forallb (fun e => match truth G rho e with Some true => true | _ => false end) es then 1 else 0).
Proof. exact dyn_ref_lowered. Qed.
Print Assumptions C06_reference_lowered.

(* the with-block of randomize_with: whatever lies on the scope stack, the block handed to the solve consists of exactly
   the body's statements (nested with-blocks summarised as one statement each), and the stack is as before afterwards *)
Theorem C06_inline_block_exact : forall body st st',
  fst (with_block body st) = st /\
  snd (with_block body st) = map (ev_stmt (S (fold_right (fun x a => Nat.max (ev_depth x) a) 0%nat body))) body /\
  snd (with_block body st) = snd (with_block body st').
Proof.
  intros body st st'. split; [exact (with_block_restores body st)|].
  split; [exact (with_block_block body st) | exact (with_block_independent body st st')].
Qed.
Print Assumptions C06_inline_block_exact.

(* any number of calls leaves no trace on the stack; a call enforces exactly the class statements and its own inline set *)
Theorem C06_one_call_only : forall bodies st cls inl s,
  fold_left (fun s b => fst (with_block b s)) bodies st = st /\
  (In s (enforced cls inl) <-> In s cls \/ In s inl).
Proof. intros bodies st cls inl s. split; [exact (calls_leave_no_trace bodies st) | exact (enforced_exact cls inl s)]. Qed.
Print Assumptions C06_one_call_only.

(* non-vacuity *)
Example C06_example :
  let G := [mkF 8 false; mkF 8 false] in
  let rho := fun id : nat => match id with 0%nat => 5 | _ => 250 end in
  let d1 := [EBin Lt (EField 0) (ELit 10 true 32)] in
  let d2 := [EBin Gt (EField 0) (ELit 200 true 32); EBin Gt (EField 1) (ELit 200 true 32)] in
  truth G rho (dyn_ref d1) = Some true /\ truth G rho (dyn_ref d2) = Some false /\
  truth G rho (EBin Or (dyn_ref d1) (dyn_ref d2)) = Some true /\ truth G rho (EBin And (dyn_ref d1) (dyn_ref d2)) = Some false /\
  truth G rho (EBin And (dyn_ref d1) (ENot (dyn_ref d2))) = Some true /\
  holds_all G rho (dyn_stmt d2) = Some false /\
  with_block [EvStmt (SExpr (EField 0)); EvWith [EvStmt (SExpr (EField 1))]] [[SExpr (EField 1)]] =
    ([[SExpr (EField 1)]], [SExpr (EField 0); as_stmt [SExpr (EField 1)]]).
Proof. vm_compute. repeat split; reflexivity. Qed.
