(* C10 — coverpoint bins count exactly the samples whose value they contain.
   Property theorems only. *)
From Coq Require Import ZArith List Bool.
From PV Require Import Cov.Rangelist Cov.RangelistProofs Cov.Partition Cov.PartitionProofs Cov.Coverpoint Cov.CoverpointProofs.
Import ListNotations.
Open Scope Z_scope.

(* normalisation keeps the listed values and orders them (ranges pairwise disjoint, any order, adjacency allowed) *)
Theorem C10_compact_ok : forall rl,
  pairwise_disjoint rl = true -> forallb wf_range rl = true ->
  sorted_disjoint (compact rl) = true /\ forall v, contains (compact rl) v = contains rl v.
Proof. exact compact_ok_lemma. Qed.
Print Assumptions C10_compact_ok.

(* trimming by the ignore/illegal set removes exactly the excluded values *)
Theorem C10_intersect_ok : forall work other res,
  forallb wf_range other = true -> intersect work other = Some res ->
  forall v, contains res v = contains work v && negb (contains other v).
Proof. exact intersect_ok_lemma. Qed.
Print Assumptions C10_intersect_ok.

(* partitioning: the bins, read in order, enumerate the value list in order; n-1 bins of q and the rest last *)
Theorem C10_mk_collection_partition : forall rl n,
  forallb wf_range rl = true -> 1 <= n -> n < count rl ->
  exists bins, mk_collection rl n = Some bins /\
    (forall k, 0 <= k -> nth_val (concat bins) k = nth_val rl k) /\
    map count bins = repeat (count rl / n) (Z.to_nat (n - 1)) ++ [count rl - (n - 1) * (count rl / n)] /\
    forallb (forallb wf_range) bins = true.
Proof. exact mk_collection_partition_lemma. Qed.
Print Assumptions C10_mk_collection_partition.

Theorem C10_mk_collection_per_value : forall rl n,
  forallb wf_range rl = true -> count rl <= n ->
  exists bins, mk_collection rl n = Some bins /\
    (forall k, 0 <= k -> nth_val (concat bins) k = nth_val rl k) /\
    Forall (fun c => c = 1) (map count bins).
Proof. exact mk_collection_per_value_lemma. Qed.
Print Assumptions C10_mk_collection_per_value.

(* trimming keeps the value list ascending (so "consecutive bins" are consecutive in value order), and the
   model's fuel never runs out: the None result of intersect is unreachable for well-formed exclusions *)
Theorem C10_intersect_sorted : forall work other res,
  sorted_disjoint work = true -> forallb wf_range other = true ->
  intersect work other = Some res -> sorted_disjoint res = true.
Proof. exact intersect_sorted. Qed.
Print Assumptions C10_intersect_sorted.
Theorem C10_intersect_total : forall work other,
  sorted_disjoint work = true -> forallb wf_range other = true -> intersect work other <> None.
Proof. exact intersect_total. Qed.
Print Assumptions C10_intersect_total.

(* every sequence of samples: bin i counts the samples taken while iff held whose value is in bin i's set *)
Theorem C10_sample_counts : forall bins samples i,
  (i < length bins)%nat -> nth i (run_hits bins samples) 0 = count_in (nth i bins []) samples.
Proof. exact sample_counts_lemma. Qed.
Print Assumptions C10_sample_counts.

(* a value outside every bin, or a sample taken while iff is false, changes nothing *)
Theorem C10_outside_changes_nothing : forall bins hits s,
  length hits = length bins ->
  (snd s = false \/ forallb (fun b => negb (contains b (fst s))) bins = true) -> bump bins hits s = hits.
Proof. exact bump_outside. Qed.
Print Assumptions C10_outside_changes_nothing.

(* explicit bin = listed values minus the ignore/illegal values; no bin when nothing is left *)
Theorem C10_explicit_bin : forall ex rl bins,
  pairwise_disjoint rl = true -> forallb wf_range rl = true -> forallb wf_range ex = true ->
  build_binspec ex (BBin rl) = Some bins ->
  (forall v, existsb (fun b => contains b v) bins = contains rl v && negb (contains ex v)) /\
  (length bins <= 1)%nat.
Proof. exact bin_set_lemma. Qed.
Print Assumptions C10_explicit_bin.

(* bin array: the bins in order enumerate the ascending list of listed-and-not-excluded values;
   one value per bin without a count (or when the count is not smaller than the number of values),
   else n-1 bins of q = |values| / n and the remainder in the last *)
Theorem C10_bin_array : forall ex n rl bins,
  pairwise_disjoint rl = true -> forallb wf_range rl = true -> forallb wf_range ex = true ->
  build_binspec ex (BArray n rl) = Some bins ->
  exists vals,
    sorted_disjoint vals = true /\
    (forall v, contains vals v = contains rl v && negb (contains ex v)) /\
    (forall k, 0 <= k -> nth_val (concat bins) k = nth_val vals k) /\
    match n with
    | None => Forall (fun c => c = 1) (map count bins)
    | Some k =>
      if k <? count vals
      then map count bins = repeat (count vals / k) (Z.to_nat (k - 1)) ++ [count vals - (k - 1) * (count vals / k)]
      else Forall (fun c => c = 1) (map count bins)
    end.
Proof. exact array_set_lemma. Qed.
Print Assumptions C10_bin_array.

(* auto-bins: the type's range minus the excluded values, split by auto_bin_max in the same way *)
Theorem C10_auto_bins : forall c sg w m bins,
  cp_kind c = KAutoInt sg w m -> 1 <= w -> forallb wf_range (exclude_of c) = true ->
  build_regular c = Some bins ->
  exists vals,
    sorted_disjoint vals = true /\
    (forall v, contains vals v = in_range (type_range sg w) v && negb (contains (exclude_of c) v)) /\
    (forall k, 0 <= k -> nth_val (concat bins) k = nth_val vals k) /\
    (if m <? count vals
     then map count bins = repeat (count vals / m) (Z.to_nat (m - 1)) ++ [count vals - (m - 1) * (count vals / m)]
     else Forall (fun c => c = 1) (map count bins)).
Proof. exact auto_set_lemma. Qed.
Print Assumptions C10_auto_bins.

(* non-vacuity: the repaired defect's input (bin_array([2],[0,3],[10,20]) with ignore (0,3),(12,13)) *)
Example C10_example :
  build_binspec (compact [(0, 3); (12, 13)]) (BArray (Some 2) [(0, 3); (10, 20)]) = Some [[(10, 11); (14, 15)]; [(16, 20)]].
Proof. vm_compute. reflexivity. Qed.
