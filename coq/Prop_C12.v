(* C12 — instance and type coverage aggregate consistently and stay within 0..100.
   Property theorems only. *)
From Coq Require Import ZArith List Bool QArith Lia.
From PV Require Import Cov.Rangelist Cov.Partition Cov.Coverpoint Cov.Cross Cov.Covergroup Cov.CovergroupProofs.
Import ListNotations.
Open Scope Z_scope.

(* each instance accumulates only its own samples: sampling instance k touches instance k and its type only *)
Theorem C12_inst_isolated : forall r k deltas ins,
  nth_error (insts r) k = Some ins ->
  (forall j, j <> k -> nth_error (insts (step r (Sample k deltas))) j = nth_error (insts r) j) /\
  (forall t, t <> in_type ins -> nth_error (types (step r (Sample k deltas))) t = nth_error (types r) t).
Proof. exact sample_isolated. Qed.
Print Assumptions C12_inst_isolated.

(* for every interleaving of constructions and samples, the type data is the bin-wise sum of its instances *)
Theorem C12_type_is_sum : forall ops ti t j b,
  nth_error (types (run ops)) ti = Some t ->
  nth b (nth j (ty_hits t) []) 0 = sum_over (run ops) ti j b.
Proof. exact type_is_sum. Qed.
Print Assumptions C12_type_is_sum.

(* instances of one class share a type exactly when they have the same shape *)
Theorem C12_shape_separates : forall ops k1 k2 i1 i2,
  nth_error (insts (run ops)) k1 = Some i1 -> nth_error (insts (run ops)) k2 = Some i2 ->
  (in_type i1 = in_type i2 <-> (in_name i1 = in_name i2 /\ in_shape i1 = in_shape i2)).
Proof. exact same_type_iff_same_shape. Qed.
Print Assumptions C12_shape_separates.

Theorem C12_registry_wf : forall ops, reg_wf (run ops).
Proof. exact run_wf. Qed.
Print Assumptions C12_registry_wf.

(* coverage of a coverpoint / cross: share of bins at their at_least threshold, 0..100, monotone, 100 iff all covered *)
Theorem C12_item_cov_range : forall it hits, hits <> [] -> (0 <= item_cov it hits /\ item_cov it hits <= 100)%Q.
Proof. exact item_cov_range. Qed.
Print Assumptions C12_item_cov_range.
Theorem C12_item_cov_mono : forall it a b, a <> [] -> le_hits a b -> (item_cov it a <= item_cov it b)%Q.
Proof. exact item_cov_mono. Qed.
Print Assumptions C12_item_cov_mono.
Theorem C12_item_cov_full : forall it hits, hits <> [] ->
  ((item_cov it hits == 100)%Q <-> Forall (fun h => it_at_least it <= h) hits).
Proof. exact item_cov_full. Qed.
Print Assumptions C12_item_cov_full.
(* samples only ever increase counters *)
Theorem C12_hits_mono : forall hits idxs, le_hits hits (incr_all hits idxs).
Proof. exact incr_all_mono. Qed.
Print Assumptions C12_hits_mono.

(* covergroup coverage: weighted average, 0..100, monotone, 100 exactly when every weighted item is fully covered *)
Theorem C12_cg_cov_range : forall items hits, items_ok items hits -> (0 <= cg_cov items hits /\ cg_cov items hits <= 100)%Q.
Proof. exact cg_cov_range. Qed.
Print Assumptions C12_cg_cov_range.
Theorem C12_cg_cov_mono : forall items a b,
  items_ok items a -> Forall2 le_hits a b -> (cg_cov items a <= cg_cov items b)%Q.
Proof. exact cg_cov_mono. Qed.
Print Assumptions C12_cg_cov_mono.
Theorem C12_cg_cov_full : forall items hits, items_ok items hits ->
  ((cg_cov items hits == 100)%Q <->
   Forall2 (fun it h => 0 < it_weight it -> Forall (fun x => it_at_least it <= x) h) items hits).
Proof. exact cg_cov_full. Qed.
Print Assumptions C12_cg_cov_full.

(* non-vacuity: at_least = 2 with weight 3, a second item with weight 1 *)
Definition ex_items := [mkItem 2 3; mkItem 1 1].
Definition ex_hits : list (list Z) := [[1; 1]; [1; 0]].
Example C12_example : (cg_cov ex_items ex_hits == 25 # 2)%Q /\ items_ok ex_items ex_hits.
Proof.
  split; [vm_compute; reflexivity|].
  unfold items_ok, ex_items, ex_hits. cbn. repeat split; try lia; repeat constructor; cbn; try lia; discriminate.
Qed.
