(* Specification-level vocabulary for fixed-width integers. *)
From Coq Require Import ZArith Bool.
Open Scope Z_scope.

Definition wrapU (w x : Z) : Z := x mod 2 ^ w.                      (* reduce modulo 2^w *)
Definition toS (w u : Z) : Z := if u <? 2 ^ (w - 1) then u else u - 2 ^ w.   (* two's complement reading *)
Definition interp (sg : bool) (w u : Z) : Z := if sg then toS w u else u.
Definition in_type (sg : bool) (w x : Z) : bool :=
  if sg then (- 2 ^ (w - 1) <=? x) && (x <? 2 ^ (w - 1)) else (0 <=? x) && (x <? 2 ^ w).
