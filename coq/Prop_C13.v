(* C13 — coverage reports and saved databases equal the in-memory coverage.  Property theorems only.
   PyUCIS (database, report builder, text formatter, XML) is modelled, not verified. *)
From Coq Require Import ZArith List Bool String QArith.
From PV Require Import Cov.Covergroup Cov.Save Cov.SaveProofs.
Import ListNotations.
Open Scope Z_scope.

(* the saved tree holds every type, instance, coverpoint, cross and bin (regular, ignore, illegal) with the
   names and hit counts in memory, in the same order, and nothing else *)
Theorem C13_save_complete : forall m r, save m = Some r -> flat_rep r = flat_mem m.
Proof. exact save_complete. Qed.
Print Assumptions C13_save_complete.

Theorem C13_save_shape : forall m r, save m = Some r ->
  List.length r = List.length m /\
  Forall2 (fun t rt => List.length (rt_insts rt) = List.length (t_insts t) /\
                       rc_name (rt_cg rt) = g_name (t_cg t) /\ rc_weight (rt_cg rt) = g_weight (t_cg t)) m r.
Proof. exact save_shape. Qed.
Print Assumptions C13_save_shape.

(* instances keep distinct names in the database *)
Theorem C13_inst_names_distinct : forall m r,
  save m = Some r -> NoDup (flat_map (fun rt => map rc_name (rt_insts rt)) r).
Proof. exact save_inst_names_nodup. Qed.
Print Assumptions C13_inst_names_distinct.

(* percentages: a coverpoint's / cross's figure in the report is the in-memory figure ... *)
Theorem C13_item_pct_agrees : forall it,
  (bins_cov (i_at_least it) (i_bins it) == item_cov (mkItem (i_at_least it) (i_weight it)) (map snd (i_bins it)))%Q.
Proof. exact bins_cov_item_cov. Qed.
Print Assumptions C13_item_pct_agrees.

(* ... and so is a covergroup's, provided no weight is negative and crosses keep the default weight *)
Theorem C13_cg_pct_agrees_partial : forall name w g,
  Forall (fun it => 0 <= i_weight it) (g_items g) ->
  Forall (fun it => i_is_cross it = true -> i_weight it = 1) (g_items g) ->
  (rc_cov (save_cg name w g) == mem_cg_cov g)%Q.
Proof. exact report_cov_agrees. Qed.
Print Assumptions C13_cg_pct_agrees_partial.

(* the full statement (any cross weight) is false of the faithful model: known finding report.cross_weight *)
Theorem C13_cg_pct_cross_weight_refuted :
  exists g, Forall (fun it => 0 <= i_weight it) (g_items g) /\
            ~ (rc_cov (save_cg "cg"%string 1 g) == mem_cg_cov g)%Q.
Proof. exact report_cov_cross_weight_refuted. Qed.
Print Assumptions C13_cg_pct_cross_weight_refuted.
