(* C16 — a failed or aborted call does not poison later calls.
   Property theorems only (definitions: Rand/Stacks.v, a transcription of the API entry points of rand_obj.py /
   methods.py / constraints.py as far as they touch the shared construction state; user code is a list of items with
   probe points, any probe may raise, any call may end with SolveFailure).  The correspondence check runs the same
   items in the real library, compares what every probe sees and how every call ends with `run_history`, and checks
   directly that nothing is left on the objects (solver variables, temporary rewrites) and that a scripted
   continuation behaves as in a pristine twin process. *)
From Coq Require Import ZArith List Bool Arith.
From PV Require Import Rand.Stacks Rand.StacksProofs.
Import ListNotations.

(* user code, whatever its with-block nesting and wherever it raises, leaves the five stacks as deep as it found them;
   so does the construction of an object, whether __init__ or a constraint body raises or not *)
Theorem C16_user_code_balanced : forall fuel l init blocks r,
  view (r_g (run_items fuel l r)) = view (r_g r) /\ view (r_g (construct fuel init blocks r)) = view (r_g r).
Proof. intros fuel l init blocks r. split; [exact (items_restore fuel l r) | exact (construct_restore fuel init blocks r)]. Qed.
Print Assumptions C16_user_code_balanced.

(* every API call - construction, randomize, randomize_with block, free-standing randomize_with - started in ANY state,
   with ANY fault point, satisfiable or not, returns the stacks to the depths it found *)
Theorem C16_call_restores : forall a g fault, let '(g', tr, raised) := run_api a g fault in view g' = view g.
Proof. exact api_restores. Qed.
Print Assumptions C16_call_restores.

(* after ANY history of calls with ANY fault points the shared state is idle again: unconditionally for the five stacks,
   and for the expression list provided __init__ code and callbacks write no bare constraint expression *)
Theorem C16_history_depths : forall l, view (fst (run_history l idle)) = view idle.
Proof. exact history_depths. Qed.
Print Assumptions C16_history_depths.
Theorem C16_history_idle : forall l,
  forallb (fun c => quiet_api (fst c)) l = true -> fst (run_history l idle) = idle.
Proof. exact history_idle. Qed.
Print Assumptions C16_history_idle.
(* the hypothesis is needed: an expression written in __init__ stays on expr_l (no scope drains it) *)
Theorem C16_history_idle_refuted_without_hypothesis :
  fst (run_history [(ANew [IStmt] [], None)] idle) <> idle.
Proof. vm_compute. discriminate. Qed.
Print Assumptions C16_history_idle_refuted_without_hypothesis.

(* what user code sees: inside a with-block the inline scope, the source-info mode and expression mode are one deeper;
   after a raise no further user item runs (the __exit__ of the enclosing with-blocks does) *)
Theorem C16_with_body_sees : forall body pre post unsat g fault tag,
  hd_error (snd (fst (run_api (AWith (IProbe tag :: body) pre post unsat) g fault))) =
  Some (tag, (S (g_scope g), S (g_srcinfo g), g_foreach g, S (g_emode g), g_raw g)).
Proof. exact with_body_sees. Qed.
Print Assumptions C16_with_body_sees.
Theorem C16_fault_stops_user_code : forall fuel l r, r_raised r = true -> run_items fuel l r = r.
Proof. exact fault_stops_user_code. Qed.
Print Assumptions C16_fault_stops_user_code.

(* non-vacuity: construction failing in a sub-object's constraint body, a with-block failing inside a nested block (its
   callbacks still run: __exit__ calls do_randomize), an unsatisfiable randomize, a free-standing block failing *)
Example C16_example :
  run_history
    [(ANew [IProbe 1; INew [IProbe 5] [[IProbe 6]]; IProbe 2] [[IStmt; IProbe 3]; [IBlock [IProbe 4]]], Some 6);
     (AWith [IStmt; IProbe 1; IBlock [IStmt; IProbe 2; IBlock [IProbe 3]]; IProbe 4] [IProbe 10] [IProbe 11] false, Some 3);
     (ARandomize [IProbe 10] [IProbe 11] true, None);
     (AFree [IStmt; IProbe 1; IBlock [IStmt; IProbe 2; IBlock [IProbe 3]]; IProbe 4] false, Some 2)] idle =
  (idle,
   [([(1, (0, 1, 0, 0, 0)); (5, (0, 2, 0, 0, 0)); (6, (1, 2, 0, 1, 0))], true);
    ([(1, (1, 1, 0, 1, 0)); (2, (2, 1, 0, 1, 0)); (3, (3, 1, 0, 1, 0)); (10, (0, 0, 0, 0, 0)); (11, (0, 0, 0, 0, 0))], true);
    ([(10, (0, 0, 0, 0, 0))], true);
    ([(1, (1, 0, 0, 1, 0)); (2, (2, 0, 0, 1, 0))], true)])%nat.
Proof. vm_compute. reflexivity. Qed.

(* what a failed or aborted call leaves in the field models: nothing.  After a call that ends with SolveFailure, with an
   exception while it is being prepared, or with an exception from the user's post_randomize, no field model is flagged as
   solved-for and none holds a node of the dead solver instance (Rand/Flags.v) - whatever operations came before *)
From PV Require Rand.Flags Rand.FlagsProofs.
Theorem C16_failed_call_leaves_no_flag_or_solver_node : forall l subtree r setfields e,
  Rand.Flags.busy (Rand.Flags.run [] (l ++ [Rand.Flags.OCall subtree r setfields e])) = false.
Proof. intros l subtree r setfields e. exact (Rand.FlagsProofs.never_busy_between_calls (l ++ [Rand.Flags.OCall subtree r setfields e])). Qed.
Print Assumptions C16_failed_call_leaves_no_flag_or_solver_node.
