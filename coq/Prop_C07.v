(* C07 — enforced blocks = the enabled blocks of this very instance (constraint_mode). *)
From Coq Require Import ZArith List Bool.
From PV Require Import Rand.Expr Rand.World Rand.WorldProofs.
Import ListNotations.

(* the statements enforced in a call are those of the blocks that are switched on, of the composites that are
   random in the call *)
Theorem C07_enforced_spec : forall n, active_stmts true 0 n = spec_stmts true true n.
Proof. exact active_stmts_spec. Qed.
Print Assumptions C07_enforced_spec.

(* toggling a block of one object leaves every tree that does not contain that object untouched (another instance,
   an instance created later, an element held elsewhere) ... *)
Theorem C07_toggle_local : forall oid b on r l n,
  ~ In oid (all_oids n) -> active_stmts r l (toggle oid b on n) = active_stmts r l n.
Proof. exact toggle_other. Qed.
Print Assumptions C07_toggle_local.
(* ... and changes neither which fields are random nor which callbacks run *)
Theorem C07_toggle_flags : forall oid b on r l n, leaf_flags r l (toggle oid b on n) = leaf_flags r l n.
Proof. exact toggle_flags. Qed.
Print Assumptions C07_toggle_flags.
(* any sequence of toggles: only the last one counts; switching back restores the original object *)
Theorem C07_toggle_last_wins : forall oid b on1 on2 n, toggle oid b on2 (toggle oid b on1 n) = toggle oid b on2 n.
Proof. exact toggle_twice. Qed.
Print Assumptions C07_toggle_last_wins.
Theorem C07_toggle_restore : forall oid b n blocks d m kids,
  n = WObj d m oid blocks kids -> ~ In oid (flat_map all_oids kids) ->
  forall on0 st, nth_error blocks b = Some (on0, st) -> toggle oid b on0 n = n.
Proof. exact toggle_same. Qed.
Print Assumptions C07_toggle_restore.
