(* Model of impl/enum_info.py (EnumInfo) for IntEnum types and of type_enum.get_val/set_val: the members are
   numbered 0..n-1 in declaration order, vals is the list of their integer values. *)
From Coq Require Import ZArith List Bool.
Import ListNotations.
Open Scope Z_scope.

(* e2v_m : member -> value *)
Definition e2v (vals : list Z) (k : nat) : option Z := nth_error vals k.
(* v2e_m : value -> member ; built by successive dictionary assignments, so a later member with the same value wins *)
Fixpoint v2e_from (vals : list Z) (i : nat) (v : Z) (acc : option nat) : option nat :=
  match vals with
  | [] => acc
  | x :: t => v2e_from t (S i) v (if x =? v then Some i else acc)
  end.
Definition v2e (vals : list Z) (v : Z) : option nat := v2e_from vals 0 v None.
(* type_enum.set_val(e) stores e2v(e); get_val returns v2e(stored) *)
Definition enum_set (vals : list Z) (k : nat) : option Z := e2v vals k.
Definition enum_get (vals : list Z) (stored : Z) : option nat := v2e vals stored.
