(* C18 — field values stay within their declared type on every access path.
   Property theorems only, about the accessor functions REGENERATED from /repo's source on every run
   (PVgen.Access_gen) — compiled at check time by harness/props/c18.py. *)
From Coq Require Import ZArith Bool.
From PV Require Import Common.Bits.
From PVgen Require Import Access_gen AccessProofs.
Open Scope Z_scope.

(* assignments reduce modulo 2^w and re-interpret as two's complement; reads return the stored value, inside the type *)
Theorem C18_store_load : forall w sg v, 1 <= w ->
  tb_get_val (tb_set_val w sg v) = interp sg w (wrapU w v) /\ in_type sg w (tb_set_val w sg v) = true.
Proof. exact store_load. Qed.
Print Assumptions C18_store_load.

(* the attribute-style accessors are the same functions *)
Theorem C18_val_property_same : forall w sg v cur,
  tb_val_setter w sg v = tb_set_val w sg v /\ tb_val_getter cur = tb_get_val cur.
Proof. intros w sg v cur. split; [exact (val_setter_same w sg v) | exact (val_getter_same cur)]. Qed.
Print Assumptions C18_val_property_same.

(* list paths: append / index assignment store, index read / iteration load: same value as the scalar path *)
Theorem C18_list_paths : forall w sg v, 1 <= w ->
  lt_getitem w sg (lt_mask w) (lt_append w sg (lt_mask w) v) = interp sg w (wrapU w v) /\
  lt_iter_next w sg (lt_mask w) (lt_append w sg (lt_mask w) v) = interp sg w (wrapU w v) /\
  lt_getitem w sg (lt_mask w) (lt_setitem w sg (lt_mask w) v) = interp sg w (wrapU w v).
Proof. exact list_store_load. Qed.
Print Assumptions C18_list_paths.
Theorem C18_paths_agree : forall w sg v, 1 <= w ->
  tb_get_val (tb_set_val w sg v) = lt_getitem w sg (lt_mask w) (lt_append w sg (lt_mask w) v).
Proof. exact paths_agree. Qed.
Print Assumptions C18_paths_agree.
(* the value STORED by a list write is itself the declared-type reading, inside the type
   (membership tests, sums and printing read the stored value directly) *)
Theorem C18_list_stored : forall w sg v, 1 <= w ->
  lt_append w sg (lt_mask w) v = interp sg w (wrapU w v) /\
  lt_setitem w sg (lt_mask w) v = interp sg w (wrapU w v) /\
  in_type sg w (lt_append w sg (lt_mask w) v) = true /\
  in_type sg w (lt_setitem w sg (lt_mask w) v) = true.
Proof. exact list_stored. Qed.
Print Assumptions C18_list_stored.
(* reading back an element stored in its declared-type reading (possibly negative) returns it unchanged *)
Theorem C18_list_read_stored : forall w sg x, 1 <= w -> in_type sg w x = true ->
  lt_getitem w sg (lt_mask w) x = x /\ lt_iter_next w sg (lt_mask w) x = x.
Proof. exact list_read_stored. Qed.
Print Assumptions C18_list_read_stored.

(* a value already inside the type is stored unchanged *)
Theorem C18_in_range_unchanged : forall sg w x, 1 <= w -> in_type sg w x = true -> interp sg w (wrapU w x) = x.
Proof. exact interp_wrap_id. Qed.
Print Assumptions C18_in_range_unchanged.

(* read-back of a solver assignment *)
Theorem C18_readback : forall w sg u, 1 <= w -> 0 <= u < 2 ^ w ->
  fsm_post_randomize w sg (fsm_mask w) u = interp sg w u /\
  in_type sg w (fsm_post_randomize w sg (fsm_mask w) u) = true.
Proof. exact readback. Qed.
Print Assumptions C18_readback.

(* part-select reads return the selected bits *)
Theorem C18_partsel_read : forall cur hi lo, 0 <= lo <= hi ->
  tb_getitem_slice cur hi lo = (cur / 2 ^ lo) mod 2 ^ (hi - lo + 1).
Proof. exact partsel_read. Qed.
Print Assumptions C18_partsel_read.
Theorem C18_partsel_read_bit : forall cur k, 0 <= k -> tb_getitem_bit cur k = Z.b2z (Z.testbit cur k).
Proof. exact partsel_read_bit. Qed.
Print Assumptions C18_partsel_read_bit.

(* part-select writes change only the selected bits and keep the value inside the type *)
Theorem C18_partsel_write : forall w sg cur hi lo x, 1 <= w -> 0 <= lo <= hi -> hi < w ->
  in_type sg w (tb_setitem_slice w sg cur hi lo x) = true /\
  forall i, 0 <= i < w ->
    Z.testbit (tb_setitem_slice w sg cur hi lo x) i =
      if (lo <=? i) && (i <=? hi) then Z.testbit x (i - lo) else Z.testbit cur i.
Proof. exact partsel_write. Qed.
Print Assumptions C18_partsel_write.
Theorem C18_partsel_write_bit : forall w sg cur k x, 1 <= w -> 0 <= k < w ->
  in_type sg w (tb_setitem_bit w sg cur k x) = true /\
  forall i, 0 <= i < w ->
    Z.testbit (tb_setitem_bit w sg cur k x) i = if i =? k then Z.testbit x 0 else Z.testbit cur i.
Proof. exact partsel_write_bit. Qed.
Print Assumptions C18_partsel_write_bit.

(* non-vacuity *)
Example C18_example : tb_set_val 8 true 200 = -56 /\ tb_setitem_slice 8 false 165 3 0 15 = 175.
Proof. split; vm_compute; reflexivity. Qed.
