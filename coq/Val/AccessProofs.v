From Coq Require Import ZArith Bool Lia ZifyBool.
From PV Require Import Common.Bits.
From PVgen Require Import Access_gen.
Open Scope Z_scope.

(* ---------- arithmetic helpers ---------- *)

Lemma pow2_pos n : 0 <= n -> 0 < 2 ^ n.
Proof. intros. apply Z.pow_pos_nonneg; lia. Qed.

Lemma pow2_split w : 1 <= w -> 2 ^ w = 2 * 2 ^ (w - 1).
Proof.
  intros. replace w with (Z.succ (w - 1)) at 1 by lia. apply Z.pow_succ_r. lia.
Qed.

Lemma mask_ones w : Z.shiftl 1 w - 1 = Z.ones w.
Proof. rewrite Z.shiftl_1_l, Z.ones_equiv. apply Z.sub_1_r. Qed.

Lemma land_mask v w : 0 <= w -> Z.land v (Z.shiftl 1 w - 1) = v mod 2 ^ w.
Proof. intros. rewrite mask_ones. apply Z.land_ones. assumption. Qed.

Lemma wrap_bound w v : 0 <= w -> 0 <= v mod 2 ^ w < 2 ^ w.
Proof. intros. apply Z.mod_pos_bound. apply pow2_pos. assumption. Qed.

(* the sign bit of an unsigned w-bit value *)
Lemma topbit w v : 1 <= w -> 0 <= v < 2 ^ w -> Z.testbit v (w - 1) = negb (v <? 2 ^ (w - 1)).
Proof.
  intros Hw Hv. pose proof (pow2_split w Hw) as Hs. pose proof (pow2_pos (w - 1) ltac:(lia)) as Hp.
  destruct (Z.ltb_spec v (2 ^ (w - 1))) as [Hlt|Hge]; simpl.
  - rewrite <- (Z.mod_small v (2 ^ (w - 1))) by lia.
    apply Z.mod_pow2_bits_high. lia.
  - apply Z.testbit_true; [lia|].
    replace (v / 2 ^ (w - 1)) with 1; [reflexivity|].
    apply Z.div_unique with (r := v - 2 ^ (w - 1)); lia.
Qed.

Lemma signtest w v : 1 <= w -> 0 <= v < 2 ^ w ->
  negb (Z.land v (Z.shiftl 1 (w - 1)) =? 0) = negb (v <? 2 ^ (w - 1)).
Proof.
  intros Hw Hv. rewrite <- (topbit w v Hw Hv). rewrite Z.shiftl_1_l.
  destruct (Z.testbit v (w - 1)) eqn:Hb.
  - destruct (Z.eqb_spec (Z.land v (2 ^ (w - 1))) 0) as [H0|]; [|reflexivity].
    exfalso. assert (Ht : Z.testbit (Z.land v (2 ^ (w - 1))) (w - 1) = true).
    { rewrite Z.land_spec, Hb, Z.pow2_bits_eqb, Z.eqb_refl by lia. reflexivity. }
    rewrite H0, Z.bits_0 in Ht. discriminate.
  - replace (Z.land v (2 ^ (w - 1))) with 0; [reflexivity|].
    symmetry. apply Z.bits_inj'. intros n Hn. rewrite Z.land_spec, Z.bits_0, Z.pow2_bits_eqb by lia.
    destruct (Z.eqb_spec (w - 1) n) as [<-|]; [rewrite Hb; reflexivity|apply andb_false_r].
Qed.

(* the "negate the complement" form of sign extension used by the list and solver read-back paths *)
Lemma neg_form w v : 0 <= w -> 0 <= v < 2 ^ w ->
  - (Z.land (Z.lnot v) (Z.shiftl 1 w - 1) + 1) = v - 2 ^ w.
Proof.
  intros Hw Hv. rewrite land_mask by assumption.
  replace (Z.lnot v mod 2 ^ w) with (2 ^ w - 1 - v); [lia|].
  apply Z.mod_unique with (q := -1); [left; lia|].
  pose proof (Z.add_lnot_diag v). lia.
Qed.

(* ---------- interp / wrapU facts ---------- *)

Lemma interp_in_type_u sg w u : 1 <= w -> 0 <= u < 2 ^ w -> in_type sg w (interp sg w u) = true.
Proof.
  intros Hw Hu. pose proof (pow2_split w Hw) as Hs.
  unfold in_type, interp, toS. destruct sg.
  - destruct (Z.ltb_spec u (2 ^ (w - 1))); lia.
  - lia.
Qed.

Lemma interp_in_type sg w x : 1 <= w -> in_type sg w (interp sg w (wrapU w x)) = true.
Proof.
  intros Hw. apply interp_in_type_u; [assumption|]. unfold wrapU. apply wrap_bound. lia.
Qed.

Lemma interp_wrap_id sg w x : 1 <= w -> in_type sg w x = true -> interp sg w (wrapU w x) = x.
Proof.
  intros Hw Hin. pose proof (pow2_split w Hw) as Hs. pose proof (pow2_pos (w - 1) ltac:(lia)) as Hp.
  unfold in_type in Hin. unfold interp, toS, wrapU. destruct sg.
  - destruct (Z.ltb_spec x 0) as [Hneg|Hnn].
    + assert (Hm : x mod 2 ^ w = x + 2 ^ w).
      { symmetry. apply Z.mod_unique with (q := -1); [left; lia|lia]. }
      rewrite Hm. destruct (Z.ltb_spec (x + 2 ^ w) (2 ^ (w - 1))); lia.
    + rewrite Z.mod_small by lia. destruct (Z.ltb_spec x (2 ^ (w - 1))); lia.
  - apply Z.mod_small. lia.
Qed.

Lemma interp_wrap_bits sg w x i : 1 <= w -> 0 <= i < w -> Z.testbit (interp sg w (wrapU w x)) i = Z.testbit x i.
Proof.
  intros Hw Hi. pose proof (pow2_pos w ltac:(lia)) as Hp.
  unfold interp, toS, wrapU. destruct sg; [destruct (Z.ltb_spec (x mod 2 ^ w) (2 ^ (w - 1)))|].
  - apply Z.mod_pow2_bits_low. lia.
  - rewrite <- (Z.mod_pow2_bits_low (x mod 2 ^ w - 2 ^ w) w i) by lia.
    replace ((x mod 2 ^ w - 2 ^ w) mod 2 ^ w) with (x mod 2 ^ w).
    + apply Z.mod_pow2_bits_low. lia.
    + apply Z.mod_unique with (q := -1); [left; apply wrap_bound; lia|lia].
  - apply Z.mod_pow2_bits_low. lia.
Qed.

(* ---------- scalar store / load ---------- *)

Lemma set_val_spec w sg v : 1 <= w -> tb_set_val w sg v = interp sg w (wrapU w v).
Proof.
  intros Hw. unfold tb_set_val, interp, toS, wrapU. cbv zeta.
  rewrite land_mask by lia. rewrite signtest by (try apply wrap_bound; lia).
  rewrite Z.shiftl_1_l. destruct sg; simpl; [|reflexivity].
  destruct (v mod 2 ^ w <? 2 ^ (w - 1)); reflexivity.
Qed.

(* assignment reduces modulo 2^w and re-interprets as two's complement; the stored value is what every read returns *)
Lemma store_load w sg v : 1 <= w ->
  tb_get_val (tb_set_val w sg v) = interp sg w (wrapU w v) /\ in_type sg w (tb_set_val w sg v) = true.
Proof.
  intros Hw. unfold tb_get_val. rewrite set_val_spec by assumption. split; [reflexivity|].
  apply interp_in_type. assumption.
Qed.

Lemma val_setter_same w sg v : tb_val_setter w sg v = tb_set_val w sg v.
Proof. reflexivity. Qed.

Lemma val_getter_same cur : tb_val_getter cur = tb_get_val cur.
Proof. reflexivity. Qed.

(* ---------- lists ---------- *)

Lemma getitem_spec w sg u : 1 <= w -> 0 <= u < 2 ^ w -> lt_getitem w sg (lt_mask w) u = interp sg w u.
Proof.
  intros Hw Hu. unfold lt_getitem, lt_mask, interp, toS. cbv zeta.
  rewrite signtest by assumption. rewrite neg_form by lia.
  destruct sg; [|reflexivity]. destruct (u <? 2 ^ (w - 1)); reflexivity.
Qed.

Lemma iter_next_same w sg m cur : lt_iter_next w sg m cur = lt_getitem w sg m cur.
Proof. reflexivity. Qed.

(* the sign test is the top bit, for every integer (negative ones included) *)
Lemma signtest_bit w v : 1 <= w -> negb (Z.land v (Z.shiftl 1 (w - 1)) =? 0) = Z.testbit v (w - 1).
Proof.
  intros Hw. rewrite Z.shiftl_1_l.
  destruct (Z.testbit v (w - 1)) eqn:Hb.
  - destruct (Z.eqb_spec (Z.land v (2 ^ (w - 1))) 0) as [H0|]; [|reflexivity].
    exfalso. assert (Ht : Z.testbit (Z.land v (2 ^ (w - 1))) (w - 1) = true).
    { rewrite Z.land_spec, Hb, Z.pow2_bits_eqb, Z.eqb_refl by lia. reflexivity. }
    rewrite H0, Z.bits_0 in Ht. discriminate.
  - replace (Z.land v (2 ^ (w - 1))) with 0; [reflexivity|].
    symmetry. apply Z.bits_inj'. intros n Hn. rewrite Z.land_spec, Z.bits_0, Z.pow2_bits_eqb by lia.
    destruct (Z.eqb_spec (w - 1) n) as [<-|]; [rewrite Hb; reflexivity|apply andb_false_r].
Qed.

(* reading an element that is already stored in its declared-type reading (possibly negative) returns it unchanged *)
Lemma getitem_stored w sg x : 1 <= w -> in_type sg w x = true -> lt_getitem w sg (lt_mask w) x = x.
Proof.
  intros Hw Hin. pose proof (pow2_split w Hw) as Hs. pose proof (pow2_pos (w - 1) ltac:(lia)) as Hp.
  unfold lt_getitem, lt_mask. cbv zeta. destruct sg; [|reflexivity].
  unfold in_type in Hin. rewrite signtest_bit by assumption.
  destruct (Z.ltb_spec x 0) as [Hneg|Hnn].
  - assert (Hm : x mod 2 ^ w = x + 2 ^ w).
    { symmetry. apply Z.mod_unique with (q := -1); [left; lia|lia]. }
    assert (Hb : Z.testbit x (w - 1) = true).
    { rewrite <- (Z.mod_pow2_bits_low x w (w - 1)) by lia. rewrite Hm.
      rewrite topbit by lia. destruct (Z.ltb_spec (x + 2 ^ w) (2 ^ (w - 1))); [lia|reflexivity]. }
    rewrite Hb. rewrite land_mask by lia.
    pose proof (Z.add_lnot_diag x). rewrite Z.mod_small by lia. lia.
  - rewrite topbit by lia. destruct (Z.ltb_spec x (2 ^ (w - 1))); [reflexivity|lia].
Qed.

Lemma list_read_stored w sg x : 1 <= w -> in_type sg w x = true ->
  lt_getitem w sg (lt_mask w) x = x /\ lt_iter_next w sg (lt_mask w) x = x.
Proof.
  intros Hw Hin. change (lt_iter_next w sg (lt_mask w) x) with (lt_getitem w sg (lt_mask w) x).
  split; exact (getitem_stored w sg x Hw Hin).
Qed.

(* a list write stores the declared-type reading itself (same conversion as the scalar store) *)
Lemma append_same w sg v : lt_append w sg (lt_mask w) v = tb_set_val w sg v.
Proof. reflexivity. Qed.

Lemma setitem_same w sg m v : lt_setitem w sg m v = lt_append w sg m v.
Proof. reflexivity. Qed.

Lemma list_stored w sg v : 1 <= w ->
  lt_append w sg (lt_mask w) v = interp sg w (wrapU w v) /\
  lt_setitem w sg (lt_mask w) v = interp sg w (wrapU w v) /\
  in_type sg w (lt_append w sg (lt_mask w) v) = true /\
  in_type sg w (lt_setitem w sg (lt_mask w) v) = true.
Proof.
  intros Hw. change (lt_setitem w sg (lt_mask w) v) with (tb_set_val w sg v).
  change (lt_append w sg (lt_mask w) v) with (tb_set_val w sg v). rewrite set_val_spec by assumption.
  pose proof (interp_in_type sg w v Hw). repeat split; assumption.
Qed.

(* lists store the declared-type reading; every read path (index read / iteration) returns it unchanged *)
Lemma list_store_load w sg v : 1 <= w ->
  lt_getitem w sg (lt_mask w) (lt_append w sg (lt_mask w) v) = interp sg w (wrapU w v) /\
  lt_iter_next w sg (lt_mask w) (lt_append w sg (lt_mask w) v) = interp sg w (wrapU w v) /\
  lt_getitem w sg (lt_mask w) (lt_setitem w sg (lt_mask w) v) = interp sg w (wrapU w v).
Proof.
  intros Hw. destruct (list_stored w sg v Hw) as (Ha & _).
  change (lt_iter_next w sg (lt_mask w)) with (lt_getitem w sg (lt_mask w)).
  change (lt_setitem w sg (lt_mask w) v) with (lt_append w sg (lt_mask w) v). rewrite Ha.
  assert (H : lt_getitem w sg (lt_mask w) (interp sg w (wrapU w v)) = interp sg w (wrapU w v)).
  { apply getitem_stored; [assumption|]. apply interp_in_type. assumption. }
  repeat split; exact H.
Qed.

Lemma paths_agree w sg v : 1 <= w ->
  tb_get_val (tb_set_val w sg v) = lt_getitem w sg (lt_mask w) (lt_append w sg (lt_mask w) v).
Proof.
  intros Hw. destruct (store_load w sg v Hw) as [-> _].
  destruct (list_store_load w sg v Hw) as [-> _]. reflexivity.
Qed.

(* ---------- solver read-back ---------- *)

(* read-back of a solver assignment u (unsigned, below 2^w) *)
Lemma readback w sg u : 1 <= w -> 0 <= u < 2 ^ w ->
  fsm_post_randomize w sg (fsm_mask w) u = interp sg w u /\
  in_type sg w (fsm_post_randomize w sg (fsm_mask w) u) = true.
Proof.
  intros Hw Hu.
  assert (H : fsm_post_randomize w sg (fsm_mask w) u = interp sg w u).
  { unfold fsm_post_randomize, fsm_set_val, fsm_mask, interp, toS. cbv zeta.
    rewrite signtest by assumption. rewrite neg_form by lia.
    destruct sg; simpl; [|reflexivity]. destruct (u <? 2 ^ (w - 1)); reflexivity. }
  rewrite H. split; [reflexivity|]. apply interp_in_type_u; assumption.
Qed.

(* ---------- part-select reads ---------- *)

(* part-select reads return the selected bits (cur may be negative: a signed field) *)
Lemma partsel_read_bits cur hi lo i : 0 <= lo <= hi -> 0 <= i ->
  Z.testbit (tb_getitem_slice cur hi lo) i = if i <=? hi - lo then Z.testbit cur (i + lo) else false.
Proof.
  intros Hr Hi. unfold tb_getitem_slice. rewrite mask_ones.
  rewrite Z.shiftr_spec, Z.land_spec, Z.shiftl_spec by lia.
  replace (i + lo - lo) with i by lia. rewrite Z.testbit_ones_nonneg by lia.
  destruct (Z.leb_spec i (hi - lo)), (Z.ltb_spec i (hi - lo + 1)); lia.
Qed.

Lemma partsel_read cur hi lo : 0 <= lo <= hi -> tb_getitem_slice cur hi lo = (cur / 2 ^ lo) mod 2 ^ (hi - lo + 1).
Proof.
  intros Hr. apply Z.bits_inj'. intros i Hi. rewrite partsel_read_bits by assumption.
  destruct (Z.leb_spec i (hi - lo)).
  - rewrite Z.mod_pow2_bits_low by lia. rewrite Z.div_pow2_bits by lia. reflexivity.
  - rewrite Z.mod_pow2_bits_high by lia. reflexivity.
Qed.

Lemma partsel_read_bit cur k : 0 <= k -> tb_getitem_bit cur k = Z.b2z (Z.testbit cur k).
Proof.
  intros Hk. unfold tb_getitem_bit. rewrite Z.shiftl_1_l. apply Z.bits_inj'. intros i Hi.
  rewrite Z.shiftr_spec, Z.land_spec, Z.pow2_bits_eqb by lia.
  destruct (Z.eqb_spec k (i + k)) as [He|Hne].
  - assert (i = 0) by lia. subst i. rewrite andb_true_r. simpl.
    destruct (Z.testbit cur k); reflexivity.
  - rewrite andb_false_r. destruct (Z.testbit cur k); simpl.
    + symmetry. change 1 with (2 ^ 0). rewrite Z.pow2_bits_eqb by lia. apply Z.eqb_neq. lia.
    + symmetry. apply Z.bits_0.
Qed.

(* ---------- part-select writes ---------- *)

(* part-select writes change only the selected bits and keep the value inside the type *)
Lemma partsel_write w sg cur hi lo x : 1 <= w -> 0 <= lo <= hi -> hi < w ->
  in_type sg w (tb_setitem_slice w sg cur hi lo x) = true /\
  forall i, 0 <= i < w ->
    Z.testbit (tb_setitem_slice w sg cur hi lo x) i =
      if (lo <=? i) && (i <=? hi) then Z.testbit x (i - lo) else Z.testbit cur i.
Proof.
  intros Hw Hr Hh. unfold tb_setitem_slice. cbv zeta. rewrite set_val_spec by assumption. split.
  - apply interp_in_type. assumption.
  - intros i Hi. rewrite interp_wrap_bits by assumption. rewrite mask_ones.
    rewrite Z.lor_spec, !Z.land_spec, Z.lnot_spec, !Z.shiftl_spec, Z.testbit_ones by lia.
    destruct (Z.leb_spec lo i), (Z.leb_spec i hi), (Z.leb_spec 0 (i - lo)),
      (Z.ltb_spec (i - lo) (hi - lo + 1)); try lia; simpl;
      destruct (Z.testbit cur i), (Z.testbit x (i - lo)); reflexivity.
Qed.

Lemma testbit_one j : Z.testbit 1 j = (j =? 0).
Proof. change 1 with (2 ^ 0) at 1. rewrite Z.pow2_bits_eqb by lia. apply Z.eqb_sym. Qed.

Lemma partsel_write_bit w sg cur k x : 1 <= w -> 0 <= k < w ->
  in_type sg w (tb_setitem_bit w sg cur k x) = true /\
  forall i, 0 <= i < w ->
    Z.testbit (tb_setitem_bit w sg cur k x) i = if i =? k then Z.testbit x 0 else Z.testbit cur i.
Proof.
  intros Hw Hk. unfold tb_setitem_bit. cbv zeta. rewrite set_val_spec by assumption. split.
  - apply interp_in_type. assumption.
  - intros i Hi. rewrite interp_wrap_bits by assumption. rewrite Z.shiftl_1_l.
    rewrite Z.lor_spec, Z.land_spec, Z.lnot_spec, Z.shiftl_spec, Z.land_spec, Z.pow2_bits_eqb,
      testbit_one by lia.
    destruct (Z.eqb_spec i k) as [->|Hne].
    + rewrite Z.eqb_refl, Z.sub_diag. simpl.
      rewrite andb_false_r, andb_true_r. reflexivity.
    + destruct (Z.eqb_spec k i); [lia|]. destruct (Z.eqb_spec (i - k) 0); [lia|]. simpl.
      rewrite andb_true_r, andb_false_r. apply orb_false_r.
Qed.
