(* Enumeration of the C18 inputs (same order as harness/impl/c18_impl.py), the prediction of the generated
   accessor functions (A) and the specification (B).  Compiled at check time against the regenerated
   Access_gen.v (logical path PVgen).  No proofs. *)
From Coq Require Import ZArith List Bool.
From PV Require Import Common.Bits.
From PVgen Require Import Access_gen.
Import ListNotations.
Open Scope Z_scope.

Definition zseq (lo hi : Z) : list Z := map (fun k => lo + Z.of_nat k) (seq 0 (Z.to_nat (hi - lo + 1))).
(* every step-th element, starting with the first *)
Fixpoint every_from (step k : nat) (l : list Z) : list Z :=
  match l with
  | [] => []
  | x :: t => match k with O => x :: every_from step (step - 1) t | S k' => every_from step k' t end
  end.
Definition every (step : nat) (l : list Z) : list Z := every_from step 0 l.
Definition XS : list Z := [0; 1; 2; 3; 5; -1; -2].
Definition type_lo (sg : bool) (w : Z) := if sg then - 2 ^ (w - 1) else 0.
Definition type_hi (sg : bool) (w : Z) := if sg then 2 ^ (w - 1) - 1 else 2 ^ w - 1.
Definition slices (w : Z) : list (Z * Z) :=
  flat_map (fun hi => map (fun lo => (hi, lo)) (zseq 0 hi)) (zseq 0 (w - 1)).

(* ---- (A): what the code says now, as translated ---- *)
Definition a_set (w : Z) (sg : bool) (v : Z) : list Z :=
  let m := lt_mask w in
  [ tb_get_val (tb_set_val w sg v); tb_val_getter (tb_set_val w sg v); tb_get_val (tb_val_setter w sg v);
    tb_get_val (tb_set_val w sg v); tb_get_val (tb_set_val w sg v);
    lt_getitem w sg m (lt_append w sg m v); lt_iter_next w sg m (lt_append w sg m v);
    lt_getitem w sg m (lt_setitem w sg m v); lt_getitem w sg m (lt_append w sg m v); lt_getitem w sg m (lt_append w sg m v) ].
Definition a_read (w : Z) (cur : Z) : list Z :=
  map (fun p => tb_getitem_slice cur (fst p) (snd p)) (slices w) ++ map (fun k => tb_getitem_bit cur k) (zseq 0 (w - 1)).
Definition a_write (w : Z) (sg : bool) (cur : Z) : list Z :=
  flat_map (fun p => let n := fst p - snd p + 1 in
              map (fun x => tb_setitem_slice w sg cur (fst p) (snd p) x) (XS ++ [2 ^ n - 1; 2 ^ n])) (slices w) ++
  flat_map (fun k => map (fun x => tb_setitem_bit w sg cur k x) XS) (zseq 0 (w - 1)).

(* ---- (B): the property, written with arithmetic and single bits only ---- *)
Definition from_bits (w : Z) (bit : Z -> bool) : Z :=
  fold_right (fun i a => a + (if bit i then 2 ^ i else 0)) 0 (zseq 0 (w - 1)).
Definition b_set (w : Z) (sg : bool) (v : Z) : list Z := repeat (interp sg w (wrapU w v)) 10.
Definition b_read (w : Z) (cur : Z) : list Z :=
  map (fun p => (cur / 2 ^ snd p) mod 2 ^ (fst p - snd p + 1)) (slices w) ++
  map (fun k => (cur / 2 ^ k) mod 2) (zseq 0 (w - 1)).
Definition b_write (w : Z) (sg : bool) (cur : Z) : list Z :=
  flat_map (fun p => let n := fst p - snd p + 1 in
              map (fun x => interp sg w (from_bits w (fun i => if (snd p <=? i) && (i <=? fst p)
                                                                then Z.testbit x (i - snd p) else Z.testbit cur i)))
                  (XS ++ [2 ^ n - 1; 2 ^ n])) (slices w) ++
  flat_map (fun k => map (fun x => interp sg w (from_bits w (fun i => if i =? k then Z.testbit x 0 else Z.testbit cur i))) XS)
           (zseq 0 (w - 1)).

Definition zl_eqb (a b : list Z) : bool :=
  Nat.eqb (length a) (length b) && forallb (fun p => fst p =? snd p) (combine a b).
Definition code (a_ok b_ok : bool) : Z := (if a_ok then 0 else 1) + (if b_ok then 0 else 2).

(* per (w, sg, step): three codes, for the set / read / write observations *)
Definition c18_check (w : Z) (sg : bool) (step : nat) (o_set o_read o_write : list Z) : list Z :=
  let vals := zseq (- 2 ^ (w + 1)) (2 ^ (w + 1)) in
  let curs := every step (zseq (type_lo sg w) (type_hi sg w)) in
  [ code (zl_eqb (flat_map (a_set w sg) vals) o_set) (zl_eqb (flat_map (b_set w sg) vals) o_set);
    code (zl_eqb (flat_map (a_read w) curs) o_read) (zl_eqb (flat_map (b_read w) curs) o_read);
    code (zl_eqb (flat_map (a_write w sg) curs) o_write) (zl_eqb (flat_map (b_write w sg) curs) o_write) ].

(* first index where two lists differ (for the replay file) *)
Fixpoint first_diff (i : Z) (a b : list Z) : Z :=
  match a, b with
  | x :: s, y :: t => if x =? y then first_diff (i + 1) s t else i
  | [], [] => -1
  | _, _ => i
  end.
Definition c18_diffs (w : Z) (sg : bool) (step : nat) (o_set o_read o_write : list Z) : list Z :=
  let vals := zseq (- 2 ^ (w + 1)) (2 ^ (w + 1)) in
  let curs := every step (zseq (type_lo sg w) (type_hi sg w)) in
  [ first_diff 0 (flat_map (b_set w sg) vals) o_set; first_diff 0 (flat_map (b_read w) curs) o_read;
    first_diff 0 (flat_map (b_write w sg) curs) o_write;
    first_diff 0 (flat_map (a_set w sg) vals) o_set; first_diff 0 (flat_map (a_read w) curs) o_read;
    first_diff 0 (flat_map (a_write w sg) curs) o_write ].
