From Coq Require Import ZArith List Bool Lia.
From PV Require Import Val.Enum.
Import ListNotations.
Open Scope Z_scope.

(* v2e_from scans left to right; the last matching position wins, otherwise the accumulator is kept. *)
Lemma v2e_from_notin vals i v acc : ~ In v vals -> v2e_from vals i v acc = acc.
Proof.
  revert i acc. induction vals as [|x t IH]; intros i acc Hn; simpl; auto.
  rewrite IH by (intro; apply Hn; right; assumption).
  destruct (Z.eqb_spec x v) as [->|]; auto. exfalso. apply Hn. left. reflexivity.
Qed.

Lemma v2e_from_nodup vals i k v acc :
  NoDup vals -> nth_error vals k = Some v -> v2e_from vals i v acc = Some (i + k)%nat.
Proof.
  revert i k acc. induction vals as [|x t IH]; intros i k acc Hnd Hk.
  - destruct k; discriminate.
  - inversion Hnd as [|? ? Hnotin Hnd']; subst. destruct k as [|k]; simpl in *.
    + injection Hk as ->. rewrite Z.eqb_refl. rewrite v2e_from_notin by assumption.
      f_equal. lia.
    + assert (Hin : In v t) by (eapply nth_error_In; eassumption).
      destruct (Z.eqb_spec x v) as [->|]; [contradiction|].
      rewrite (IH (S i) k acc Hnd' Hk). f_equal. lia.
Qed.

Lemma v2e_from_some vals i v acc k :
  v2e_from vals i v acc = Some k ->
  acc = Some k \/ ((i <= k)%nat /\ nth_error vals (k - i) = Some v).
Proof.
  revert i acc. induction vals as [|x t IH]; intros i acc H; simpl in *.
  - left; assumption.
  - apply IH in H. destruct H as [H|[Hle Hn]].
    + destruct (Z.eqb_spec x v) as [->|].
      * injection H as <-. right. split; [lia|]. rewrite Nat.sub_diag. reflexivity.
      * left; assumption.
    + right. split; [lia|]. replace (k - i)%nat with (S (k - S i)) by lia. simpl. assumption.
Qed.

(* an enum field returns the enumerator it was given (IntEnum values are distinct) and always stores a declared value *)
Lemma enum_roundtrip vals k v : NoDup vals -> enum_set vals k = Some v -> enum_get vals v = Some k.
Proof.
  unfold enum_set, enum_get, e2v, v2e. intros Hnd Hk.
  rewrite (v2e_from_nodup vals 0 k v None Hnd Hk). reflexivity.
Qed.

Lemma enum_stored_declared vals k v : enum_set vals k = Some v -> In v vals.
Proof.
  unfold enum_set, e2v. intros H. eapply nth_error_In; eassumption.
Qed.

Lemma enum_get_declared vals v k : enum_get vals v = Some k -> nth_error vals k = Some v.
Proof.
  unfold enum_get, v2e. intros H. apply v2e_from_some in H. destruct H as [H|[_ H]].
  - discriminate.
  - rewrite Nat.sub_0_r in H. assumption.
Qed.
