(* C08 — constraints reach through the object hierarchy to exactly the fields they name. *)
From Coq Require Import ZArith List Bool.
From PV Require Import Rand.Expr Rand.World Rand.WorldProofs.
Import ListNotations.

(* a sub-object's own blocks are enforced exactly when it is random in the call (and every ancestor is) *)
Theorem C08_subobject_blocks_iff_random : forall n, active_stmts true 0 n = spec_stmts true true n.
Proof. exact active_stmts_spec. Qed.
Print Assumptions C08_subobject_blocks_iff_random.
Theorem C08_nothing_below_nonrandom : forall n level,
  (forall id b, In (id, b) (leaf_flags false level n) -> b = false) /\
  active_stmts false level n = [] /\ callbacks false level n = [].
Proof. exact nothing_below_nonrandom. Qed.
Print Assumptions C08_nothing_below_nonrandom.
(* every leaf of the tree is flagged exactly once, under its own identity: structurally identical sub-objects do not
   share fields *)
Theorem C08_leaves_distinct_flags : forall r l n, map fst (leaf_flags r l n) = all_leaves n.
Proof. exact leaf_flags_ids. Qed.
Print Assumptions C08_leaves_distinct_flags.
Theorem C08_used_rand_spec : forall n, leaf_flags true 0 n = spec_flags true true n.
Proof. exact used_rand_spec. Qed.
Print Assumptions C08_used_rand_spec.
