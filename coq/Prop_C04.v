(* C04 — list constraints hold on exactly the list the user sees.
   Property theorems only.  The list forms (foreach / sum / unique / membership) are the definitions of Rand/Unroll.v in
   which the correspondence check writes its cases; each theorem says what the expansion means over exactly the
   elements `ids` the list exposes.  The flat statements that result are covered by the C01 / C02 theorems
   (lowering correct, solver outcome decided by satisfiability). *)
From Coq Require Import ZArith List Bool Lia.
From PV Require Import Common.Bits Rand.Expr Rand.Unroll Rand.UnrollProofs.
Import ListNotations.
Open Scope Z_scope.

(* foreach: the expansion holds iff the body holds for every index and element of the list - no index is skipped,
   none beyond the list is constrained *)
Theorem C04_foreach : forall G rho ids body,
  holds_all G rho (foreach_inst ids body) = Some true <->
  (forall i id, nth_error ids i = Some id -> holds_all G rho (body i id) = Some true).
Proof. exact foreach_inst_holds. Qed.
Print Assumptions C04_foreach.

(* a condition on the index alone is decided during the expansion exactly as the comparison of integers *)
Theorem C04_index_condition : forall c i v,
  idx_cond c i v = true <->
  match c with IGt => v < Z.of_nat i | ILt => Z.of_nat i < v | IGe => v <= Z.of_nat i | ILe => Z.of_nat i <= v
             | IEq => Z.of_nat i = v | INe => Z.of_nat i <> v end.
Proof. exact idx_cond_spec. Qed.
Print Assumptions C04_index_condition.

(* sum: the term built for l.sum evaluates to the integer sum of the exposed elements (each read by the element type),
   at the width  w + bits(n-1)  or the context's ... *)
Theorem C04_sum : forall G rho w sg ids ctx psg, 0 < w -> typed G w sg ids ->
  let W := Z.max ctx (sum_width w (List.length ids)) in
  sem G rho ctx psg (sum_expr w sg ids) = Some (W, wrapU W (zsum (map (elem_val sg w rho) ids))).
Proof. exact sum_expr_sem. Qed.
Print Assumptions C04_sum.

(* ... and that width is enough: the sum itself cannot overflow *)
Theorem C04_sum_no_overflow : forall w sg rho ids W', 0 < w -> sum_width w (List.length ids) <= W' ->
  interp sg W' (wrapU W' (zsum (map (elem_val sg w rho) ids))) = zsum (map (elem_val sg w rho) ids).
Proof. exact sum_no_overflow. Qed.
Print Assumptions C04_sum_no_overflow.

(* membership in a list: true iff the value equals some exposed element; nothing is a member of an empty list *)
Theorem C04_membership : forall G rho e ids,
  (forall c p, sem G rho c p e <> None) ->
  (forall id, In id ids -> 1 <= Z.max (width_of G e) (fw G id)) ->
  (truth G rho (in_list e ids) = Some true <->
   exists id, In id ids /\ truth G rho (EBin Eq e (EField id)) = Some true).
Proof. exact in_list_truth_gen. Qed.
Print Assumptions C04_membership.
Theorem C04_membership_empty : forall G rho e, truth G rho (in_list e []) = Some false.
Proof. exact in_list_empty_strong. Qed.
Print Assumptions C04_membership_empty.

(* unique over lists and scalars: all collected elements pairwise different; for one element type: no duplicates *)
Theorem C04_unique : forall G rho ids,
  holds G rho (SUnique ids) = Some true <->
  (forall i j a b, (i < j)%nat -> nth_error ids i = Some a -> nth_error ids j = Some b ->
                   truth G rho (EBin Ne (EField a) (EField b)) = Some true).
Proof. exact unique_holds. Qed.
Print Assumptions C04_unique.
Theorem C04_unique_nodup : forall G rho w sg ids, 0 < w -> typed G w sg ids ->
  (holds G rho (SUnique ids) = Some true <-> NoDup (map (fun id => wrapU w (rho id)) ids)).
Proof. exact unique_same_type. Qed.
Print Assumptions C04_unique_nodup.

(* random-size lists: the list is expanded to its largest admissible size and element i counts only if i lies below
   the size being solved; sum, product, membership and uniqueness built that way are those of the first `size`
   elements - the list the call exposes *)
Theorem C04_random_size : forall k xs x,
  guarded_sum k xs = zsum (firstn k xs) /\
  guarded_prod k xs = zprod (firstn k xs) /\
  (guarded_mem k 0 x xs = true <-> In x (firstn k xs)) /\
  (guarded_unique k 0 xs = true <-> NoDup (firstn k xs)).
Proof.
  intros k xs x. split; [exact (guarded_sum_firstn k xs)|]. split; [exact (guarded_prod_firstn k xs)|].
  split; [exact (guarded_mem_firstn k x xs) | exact (guarded_unique_firstn k xs)].
Qed.
Print Assumptions C04_random_size.

(* non-vacuity: a 3-element unsigned 3-bit list [7;7;6] and a scalar 4 *)
Example C04_example :
  let G := [mkF 3 false; mkF 3 false; mkF 3 false; mkF 4 false] in
  let ids := [0; 1; 2]%nat in
  let rho := fun id : nat => match id with 0%nat => 7 | 1%nat => 7 | 2%nat => 6 | _ => 4 end in
  sem G rho (-1) false (sum_expr 3 false ids) = Some (5, 20) /\
  truth G rho (in_list (EField 3) ids) = Some false /\ truth G rho (in_list (EField 2) ids) = Some true /\
  holds G rho (SUnique ids) = Some false /\ holds G rho (SUnique [1; 2; 3]%nat) = Some true /\
  holds_all G rho (foreach_inst ids (fun i it => [SExpr (EBin Ge (EField it) (idx_lit i))])) = Some true /\
  holds_all G rho (foreach_inst ids (fun i it =>
      idx_if (idx_cond IGt i 0) [SExpr (EBin Lt (EField it) (elem_at ids i (-1)))] [])) = Some false /\
  guarded_sum 2 [7; 7; 6] = 14 /\ guarded_unique 2 0 [7; 6; 7] = true /\ guarded_unique 3 0 [7; 6; 7] = false.
Proof. vm_compute. repeat split; reflexivity. Qed.

(* product: the 64-bit product of exactly the exposed elements (the code's product of no elements is 0), whatever the
   context width; unique_vec: the vectors are pairwise different as tuples of element values *)
From PV Require Import Rand.UnrollProofs2.
Theorem C04_product : forall G rho w sg ids ctx psg, 0 < w -> w <= 64 -> typed G w sg ids ->
  let W := Z.max ctx 64 in
  sem G rho ctx psg (product_expr sg ids) =
    Some (W, wrapU W (match ids with [] => 0 | _ => zprod (map (elem_val sg w rho) ids) end)).
Proof. exact product_expr_sem. Qed.
Print Assumptions C04_product.
Theorem C04_unique_vec : forall G rho w sg (vs : list (list nat)), 0 < w -> (2 <= List.length vs)%nat ->
  (forall v, In v vs -> typed G w sg v) ->
  (exists n, (1 <= n)%nat /\ forall v, In v vs -> List.length v = n) ->
  (holds_all G rho (unique_vec_of vs) = Some true <->
   forall i j a b, (i < j)%nat -> nth_error vs i = Some a -> nth_error vs j = Some b ->
     map (fun id => wrapU w (rho id)) a <> map (fun id => wrapU w (rho id)) b).
Proof. exact unique_vec_holds. Qed.
Print Assumptions C04_unique_vec.
