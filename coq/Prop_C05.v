(* C05 — soft constraints are never fatal, are honoured maximally, and later ones win.  Property theorems only.
   The satisfiability test `sat` is a parameter; the only premise is that it is monotone in the set of terms. *)
From Coq Require Import ZArith List Bool.
From PV Require Import Common.Bits Rand.BV Rand.Expr Rand.Lower Rand.Typing Rand.Soft Rand.SoftProofs.
Import ListNotations.
Open Scope Z_scope.

Section C05.
  Variable T : Type.
  Variable sat : list T -> bool.
  Hypothesis sat_mono : forall a b, incl a b -> sat b = true -> sat a = true.

  (* never fatal *)
  Theorem C05_soft_never_fatal : forall hard softs, sat hard = true -> sat (accepted T sat hard softs ++ hard) = true.
  Proof. exact (soft_never_fatal T sat sat_mono). Qed.
  (* honoured maximally *)
  Theorem C05_soft_maximal : forall hard softs s,
    sat hard = true -> In s softs -> ~ In s (accepted T sat hard softs) -> sat (s :: accepted T sat hard softs ++ hard) = false.
  Proof. exact (soft_maximal T sat sat_mono). Qed.
  (* all kept when they can all be honoured together *)
  Theorem C05_all_at_once : forall hard softs, sat (softs ++ hard) = true -> accepted T sat hard softs = softs.
  Proof. exact (all_at_once_same T sat). Qed.
  (* higher priority wins: a rejected soft constraint conflicts already with the hard constraints and what was accepted
     among the constraints of higher priority; and those decisions do not depend on lower-priority constraints *)
  Theorem C05_priority_wins : forall hard pre s post,
    ~ In s (accepted T sat hard (pre ++ s :: post)) -> sat (s :: accepted T sat hard pre ++ hard) = false.
  Proof. exact (soft_priority_wins T sat sat_mono). Qed.
  Theorem C05_prefix_independent : forall hard pre post,
    exists l, accepted T sat hard (pre ++ post) = accepted T sat hard pre ++ l /\ incl l post.
  Proof. exact (accepted_prefix T sat sat_mono). Qed.
End C05.
Print Assumptions C05_soft_maximal.
Print Assumptions C05_priority_wins.

(* priorities: strictly increasing in visit order (later in a block, inline after class blocks), the same in every call *)
Theorem C05_priorities_increasing : forall n i j, (i < j < n)%nat -> nth i (priorities n) 0 < nth j (priorities n) 0.
Proof. exact priorities_increasing. Qed.
Print Assumptions C05_priorities_increasing.
(* a soft constraint nested under if / else / implies carries exactly the enclosing conditions *)
Theorem C05_guards_if : forall c t f,
  soft_items [SIf c t f] =
  map (fun it => mkSoft (c :: so_guards it) (so_expr it)) (soft_items t) ++
  match f with Some fl => map (fun it => mkSoft (ENot c :: so_guards it) (so_expr it)) (soft_items fl) | None => [] end.
Proof. exact soft_items_if. Qed.
Print Assumptions C05_guards_if.
Theorem C05_guards_implies : forall c b,
  soft_items [SImplies c b] = map (fun it => mkSoft (c :: so_guards it) (so_expr it)) (soft_items b).
Proof. exact soft_items_implies. Qed.
Print Assumptions C05_guards_implies.
(* ... and its term is true exactly when the guards do not all hold or its expression does *)
Theorem C05_soft_term_meaning : forall G B rho it b,
  fields_ok G B rho -> wt_soft G it = true -> soft_holds G rho it = Some b -> bv_true rho (lower_soft G B it) = Some b.
Proof. exact lower_soft_correct. Qed.
Print Assumptions C05_soft_term_meaning.
(* soft constraints contribute no hard term *)
Theorem C05_soft_not_hard : forall G B e, lower_s G B false (SSoft e) = None.
Proof. exact LowerProofs.lower_soft_none. Qed.
Print Assumptions C05_soft_not_hard.
