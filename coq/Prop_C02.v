(* C02 — SolveFailure is raised exactly when the hard constraints are unsatisfiable.  Property theorems only.
   The solver enters as a parameter `sat` with the premises that it is sound and complete for the terms it is given. *)
From Coq Require Import ZArith List Bool.
From PV Require Import Common.Bits Rand.BV Rand.Expr Rand.Lower Rand.Typing Rand.LowerProofs Rand.Solve Rand.SolveProofs Rand.Randset Rand.RandsetProofs.
Import ListNotations.
Open Scope Z_scope.

(* a satisfiable system never fails: if some assignment of the random fields (non-random fields at their current
   values, values in type, enum fields on declared values) makes every hard statement true, the call does not end in
   SolveFailure *)
Theorem C02_never_fails_when_satisfiable :
  forall (sat : list bvterm -> option (nat -> Z)),
  (forall ts, sat ts = None -> forall s, exists t, In t ts /\ bv_true s t <> Some true) ->
  forall G B enums rho stmts rho',
    fields_ok G B rho -> length enums = length B ->
    (forall s, In s stmts -> wt_s G s = true) ->
    candidate G B enums rho rho' ->
    (forall s, In s stmts -> holds G rho' s = Some true) ->
    enums_wf G enums ->
    solve sat G B enums rho stmts <> SolveFailure.
Proof. intros sat Hc. exact (solve_never_fails_when_sat sat Hc). Qed.
Print Assumptions C02_never_fails_when_satisfiable.

(* an unsatisfiable system never returns values: whatever a call returns is a candidate assignment that violates no
   well-formed hard statement whose meaning is defined *)
Theorem C02_returned_values_are_a_solution :
  forall (sat : list bvterm -> option (nat -> Z)),
  (forall ts s, sat ts = Some s -> forall t, In t ts -> bv_true s t = Some true) ->
  forall G B enums rho stmts rho',
    fields_ok G B rho -> length enums = length B -> enums_wf G enums ->
    solve sat G B enums rho stmts = Ok rho' ->
    candidate G B enums rho rho' /\ (forall s, In s stmts -> wt_s G s = true -> holds G rho' s <> Some false).
Proof. intros sat Hs. exact (solve_ok_is_solution sat Hs). Qed.
Print Assumptions C02_returned_values_are_a_solution.

(* a soft constraint never contributes a hard term *)
Theorem C02_soft_contributes_no_hard_term : forall G B e, lower_s G B false (SSoft e) = None.
Proof. exact lower_soft_none. Qed.
Print Assumptions C02_soft_contributes_no_hard_term.

(* The statements of a call are not solved together but rand set by rand set (Rand/Randset.v: RandInfoBuilder's grouping, one
   solver instance per set, SolveFailure at the first set that has no solution).  That changes nothing about when a call
   fails: (1) if one rand set has no solution, the whole system has none (every statement of a set is a statement of the
   call); (2) if every rand set has a solution, the values assembled from them solve the whole system - because a statement's
   fields all lie in its own set and no field lies in two sets.  `holds e k` is any meaning of statement k under assignment e
   that depends only on the fields the statement refers to. *)
Theorem C02_failing_rand_set_means_unsatisfiable :
  forall (V : Type) (holds : (nat -> V) -> nat -> bool) stmts r,
    In r (build stmts) -> (forall e, exists k, In k (rs_stmts r) /\ holds e k = false) ->
    forall e, exists k, (k < length stmts)%nat /\ holds e k = false.
Proof. exact unsat_set_unsat_system. Qed.
Print Assumptions C02_failing_rand_set_means_unsatisfiable.
Theorem C02_rand_set_solutions_compose :
  forall (V : Type) (holds : (nat -> V) -> nat -> bool) stmts (envs : list (nat -> V)) dflt,
    (forall k refs e1 e2, nth_error stmts k = Some refs -> (forall f, In f refs -> e1 f = e2 f) -> holds e1 k = holds e2 k) ->
    length envs = length (build stmts) ->
    (forall i r e k, nth_error (build stmts) i = Some r -> nth_error envs i = Some e -> In k (rs_stmts r) -> holds e k = true) ->
    forall k, (k < length stmts)%nat -> holds (assemble (build stmts) envs dflt) k = true.
Proof. exact compositional_sound. Qed.
Print Assumptions C02_rand_set_solutions_compose.
(* every statement is in exactly one rand set, together with all the fields it refers to; rand sets share no field *)
Theorem C02_every_statement_in_one_rand_set :
  forall stmts k, (k < length stmts)%nat -> exists i r, nth_error (build stmts) i = Some r /\ In k (rs_stmts r).
Proof. exact build_covers. Qed.
Print Assumptions C02_every_statement_in_one_rand_set.
Theorem C02_rand_set_holds_its_statements_fields :
  forall stmts r k refs f, In r (build stmts) -> In k (rs_stmts r) -> nth_error stmts k = Some refs -> In f refs -> In f (rs_fields r).
Proof. exact build_closed. Qed.
Print Assumptions C02_rand_set_holds_its_statements_fields.
Theorem C02_rand_sets_share_no_field :
  forall stmts i j r1 r2 f, nth_error (build stmts) i = Some r1 -> nth_error (build stmts) j = Some r2 ->
    In f (rs_fields r1) -> In f (rs_fields r2) -> i = j.
Proof. exact build_disjoint. Qed.
Print Assumptions C02_rand_sets_share_no_field.
Example C02_rand_set_example :
  map rs_stmts (build [[0;1];[2];[1;2];[];[5]]%nat) = [[1;0;2];[3];[4]]%nat.
Proof. vm_compute. reflexivity. Qed.
