(* C02 — SolveFailure is raised exactly when the hard constraints are unsatisfiable.  Property theorems only.
   The solver enters as a parameter `sat` with the premises that it is sound and complete for the terms it is given. *)
From Coq Require Import ZArith List Bool.
From PV Require Import Common.Bits Rand.BV Rand.Expr Rand.Lower Rand.Typing Rand.LowerProofs Rand.Solve Rand.SolveProofs.
Import ListNotations.
Open Scope Z_scope.

(* a satisfiable system never fails: if some assignment of the random fields (non-random fields at their current
   values, values in type, enum fields on declared values) makes every hard statement true, the call does not end in
   SolveFailure *)
Theorem C02_never_fails_when_satisfiable :
  forall (sat : list bvterm -> option (nat -> Z)),
  (forall ts, sat ts = None -> forall s, exists t, In t ts /\ bv_true s t <> Some true) ->
  forall G B enums rho stmts rho',
    fields_ok G B rho -> length enums = length B ->
    (forall s, In s stmts -> wt_s G s = true) ->
    candidate G B enums rho rho' ->
    (forall s, In s stmts -> holds G rho' s = Some true) ->
    enums_wf G enums ->
    solve sat G B enums rho stmts <> SolveFailure.
Proof. intros sat Hc. exact (solve_never_fails_when_sat sat Hc). Qed.
Print Assumptions C02_never_fails_when_satisfiable.

(* an unsatisfiable system never returns values: whatever a call returns is a candidate assignment that violates no
   well-formed hard statement whose meaning is defined *)
Theorem C02_returned_values_are_a_solution :
  forall (sat : list bvterm -> option (nat -> Z)),
  (forall ts s, sat ts = Some s -> forall t, In t ts -> bv_true s t = Some true) ->
  forall G B enums rho stmts rho',
    fields_ok G B rho -> length enums = length B -> enums_wf G enums ->
    solve sat G B enums rho stmts = Ok rho' ->
    candidate G B enums rho rho' /\ (forall s, In s stmts -> wt_s G s = true -> holds G rho' s <> Some false).
Proof. intros sat Hs. exact (solve_ok_is_solution sat Hs). Qed.
Print Assumptions C02_returned_values_are_a_solution.

(* a soft constraint never contributes a hard term *)
Theorem C02_soft_contributes_no_hard_term : forall G B e, lower_s G B false (SSoft e) = None.
Proof. exact lower_soft_none. Qed.
Print Assumptions C02_soft_contributes_no_hard_term.
