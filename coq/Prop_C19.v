(* C19 — wildcard bins match exactly the values that agree with the pattern.
   Property theorems only; every proof is `exact <lemma>` and is followed by Print Assumptions. *)
From Coq Require Import ZArith List Bool String Lia.
From PV Require Import Cov.Rangelist Cov.Partition Cov.Wildcard Cov.WildcardProofs.
Import ListNotations.
Open Scope Z_scope.

(* a single wildcard bin given as (value, mask) pairs is hit by v iff v agrees with one of the pairs
   on every bit set in its mask *)
Theorem C19_single_hit : forall value mask v, spec_hit (value, mask) v = true <-> agrees value mask v.
Proof. exact spec_hit_agrees. Qed.
Print Assumptions C19_single_hit.

(* a pattern string is parsed to the (value, mask) pair that tests exactly its non-wildcard bits *)
Theorem C19_string_hit : forall s b ds v,
  str2digits s = Some (b, ds) ->
  exists value mask, str2bin s = Some (value, mask) /\
    (spec_hit (value, mask) v = true <->
     forall i x, 0 <= i -> pat_bit b (rev ds) i = Some x -> Z.testbit v i = x).
Proof. exact str2bin_hit. Qed.
Print Assumptions C19_string_hit.

(* the value list behind a wildcard bin array holds exactly the values that agree with one of the
   (value, mask) pairs within the width of that pair's mask ... *)
Theorem C19_array_exact : forall specs x,
  contains (wild_ranges specs) x = true <-> exists s, In s specs /\ spec_matches s x.
Proof. exact wild_ranges_spec. Qed.
Print Assumptions C19_array_exact.

(* ... as ascending maximal runs, so the bins built from it are in ascending order of value *)
Theorem C19_array_ascending : forall specs, sorted_gapped (wild_ranges specs) = true.
Proof. exact wild_ranges_gapped. Qed.
Print Assumptions C19_array_ascending.

(* one matching value = one member of matchvals: strictly ascending, no duplicates *)
Theorem C19_matchvals : forall m v x,
  In x (matchvals m v) <-> (0 <= x < 2 ^ psize m /\ agrees v (Zpos m) x).
Proof. exact matchvals_spec. Qed.
Print Assumptions C19_matchvals.

(* without a count: one bin per matching value, in the order of the (ascending) value list *)
Theorem C19_array_one_bin_per_value : forall specs,
  exists bins, wild_array_bins specs None = Some bins /\
    (forall k, 0 <= k -> nth_val (List.concat bins) k = nth_val (wild_ranges specs) k) /\
    Forall (fun c => c = 1) (map count bins).
Proof. exact wild_array_bins_per_value. Qed.
Print Assumptions C19_array_one_bin_per_value.

(* with a count n smaller than the number of matching values: the bins, read in order, enumerate the
   value list in order, n-1 bins of q = |values| / n values and a last bin with the rest *)
Theorem C19_array_partition : forall specs n,
  1 <= n -> n < count (wild_ranges specs) ->
  exists bins, wild_array_bins specs (Some n) = Some bins /\
    (forall k, 0 <= k -> nth_val (List.concat bins) k = nth_val (wild_ranges specs) k) /\
    map count bins = repeat (count (wild_ranges specs) / n) (Z.to_nat (n - 1)) ++
                     [count (wild_ranges specs) - (n - 1) * (count (wild_ranges specs) / n)] /\
    forallb (forallb wf_range) bins = true.
Proof. exact wild_array_bins_count. Qed.
Print Assumptions C19_array_partition.

(* non-vacuity and the known finding: the leading wildcard digit of "0bx1" is lost (3 matches the
   written pattern but the array built by the code, as modelled, only has the value 1) *)
Example C19_example_array : wild_array_bins [(4, 4)] (Some 2) = Some [[(4, 5)]; [(6, 7)]].
Proof. vm_compute. reflexivity. Qed.
Theorem C19_array_top_wild_refuted :
  exists s b ds value mask x,
    str2digits s = Some (b, ds) /\ str2bin s = Some (value, mask) /\
    (forall i y, 0 <= i < 2 -> pat_bit b (rev ds) i = Some y -> Z.testbit x i = y) /\ 0 <= x < 2 ^ 2 /\
    contains (wild_ranges [(value, mask)]) x = false.
Proof.
  exists "0bx1"%string, 1, [Wild; Dig 1], 1, 1, 3. repeat split; try reflexivity; try lia.
  intros i y Hi. assert (i = 0 \/ i = 1) as [-> | ->] by lia; cbn; intros H; inversion H; reflexivity.
Qed.
Print Assumptions C19_array_top_wild_refuted.
