(* More theorems about the list-constraint expansions of Unroll.v (C04): the product of a list and unique over vectors.
   Depends on Bits, Expr, Unroll and the helper lemmas of UnrollProofs.v (acc_ok, bit_ok, or_step, typed, the up_ arithmetic lemmas).

   Both statements were first evaluated on concrete instances (vm_compute): unsigned and signed 3-bit fields with
   negative readings, context widths -1, 64 and 70, either enclosing signedness; two and three vectors of length 1
   and 2, equal and different.  All instances agreed with the statements below, so they are proved as given. *)
From Coq Require Import ZArith List Bool Lia.
From PV Require Import Common.Bits Rand.BV Rand.Expr Rand.Unroll Rand.UnrollProofs.
Import ListNotations.
Open Scope Z_scope.

(* ------------------------------------------------------------------ *)
(* A. product                                                          *)
(* ------------------------------------------------------------------ *)
Lemma up2_wrapU_mul W a b : wrapU W (wrapU W a * wrapU W b) = wrapU W (a * b).
Proof. unfold wrapU. symmetry. apply Zmult_mod. Qed.

(* a 64-bit literal whose pattern and signed reading are the value itself (0 and 1 are) has that value in every
   context, whatever the enclosing signedness *)
Lemma acc_lit64 G rho sg v : wrapU 64 v = v -> toS 64 v = v -> acc_ok G rho 64 sg (ELit v sg 64) v.
Proof.
  intros Hu Hs. split; [reflexivity|]. split; [reflexivity|].
  intros c p. cbn [sem]. rewrite Hu. f_equal. f_equal.
  destruct (64 <? Z.max c 64) eqn:E.
  - unfold conv, interp. destruct p.
    + rewrite Hs. reflexivity.
    + reflexivity.
  - apply Z.ltb_ge in E. replace (Z.max c 64) with 64 by lia. symmetry. exact Hu.
Qed.

Lemma mul_step G rho w sg W0 acc A id :
  1 <= w -> w <= W0 -> fw G id = w -> fsg G id = sg ->
  acc_ok G rho W0 sg acc A ->
  acc_ok G rho W0 sg (EBin Mul acc (EField id)) (A * elem_val sg w rho id).
Proof.
  intros Hw HW0 Hfw Hfsg (Hwa & Hsa & Hsem). split; [|split].
  - cbn [width_of is_rel]. rewrite Hwa, Hfw. apply Z.max_l. lia.
  - cbn [spec_signed is_rel]. rewrite Hsa, Hfsg. apply andb_diag.
  - intros c p. cbn [sem width_of spec_signed]. rewrite Hwa, Hsa, Hfw, Hfsg, andb_diag.
    replace (Z.max c (Z.max W0 w)) with (Z.max c W0) by lia.
    set (W := Z.max c W0). assert (HW : 1 <= W) by (unfold W; lia).
    rewrite Hsem. replace (Z.max W W0) with W by (unfold W; lia).
    cbn [is_rel arith_eval]. f_equal. f_equal.
    rewrite up_conv_same by (try apply up_wrapU_range; lia).
    unfold conv. fold (elem_val sg w rho id). apply up2_wrapU_mul.
Qed.

Lemma prod_fold G rho w sg W0 : 1 <= w -> w <= W0 ->
  forall ids acc A, typed G w sg ids -> acc_ok G rho W0 sg acc A ->
    acc_ok G rho W0 sg (fold_left (fun a id => EBin Mul a (EField id)) ids acc)
           (A * zprod (map (elem_val sg w rho) ids)).
Proof.
  intros Hw HW0. induction ids as [|x t IH]; intros acc A Hty Hacc.
  - simpl. rewrite Z.mul_1_r. exact Hacc.
  - apply typed_cons in Hty. destruct Hty as [[Hfw Hfsg] Hty].
    cbn [fold_left map]. rewrite zprod_cons, Z.mul_assoc.
    apply IH; [exact Hty|]. apply mul_step; assumption.
Qed.

Theorem product_expr_sem :
  forall G rho w sg ids ctx psg, 0 < w -> w <= 64 -> typed G w sg ids ->
    let W := Z.max ctx 64 in
    sem G rho ctx psg (product_expr sg ids) =
      Some (W, wrapU W (match ids with [] => 0 | _ => zprod (map (elem_val sg w rho) ids) end)).
Proof.
  intros G rho w sg ids ctx psg Hw Hw64 Hty W.
  destruct ids as [|x t].
  - unfold product_expr. cbn [fold_left].
    destruct (acc_lit64 G rho sg 0 eq_refl eq_refl) as (_ & _ & Hsem). rewrite Hsem. reflexivity.
  - assert (Hok : acc_ok G rho 64 sg (product_expr sg (x :: t))
                         (1 * zprod (map (elem_val sg w rho) (x :: t)))).
    { unfold product_expr. apply prod_fold; [lia|exact Hw64|exact Hty|].
      apply acc_lit64; reflexivity. }
    destruct Hok as (_ & _ & Hsem). rewrite Hsem, Z.mul_1_l. reflexivity.
Qed.
Print Assumptions product_expr_sem.

(* width and signedness the product reports *)
Lemma product_expr_width G w sg ids : 0 < w -> w <= 64 -> typed G w sg ids ->
  width_of G (product_expr sg ids) = 64 /\ spec_signed G (product_expr sg ids) = sg.
Proof.
  intros Hw Hw64 Hty. destruct ids as [|x t].
  - split; reflexivity.
  - assert (Hok : acc_ok G (fun _ => 0) 64 sg (product_expr sg (x :: t))
                         (1 * zprod (map (elem_val sg w (fun _ => 0)) (x :: t)))).
    { unfold product_expr. apply prod_fold; [lia|exact Hw64|exact Hty|].
      apply acc_lit64; reflexivity. }
    destruct Hok as (H1 & H2 & _). split; assumption.
Qed.

(* ------------------------------------------------------------------ *)
(* B. unique over vectors                                              *)
(* ------------------------------------------------------------------ *)
Lemma and_step G rho acc d A B :
  bit_ok G rho acc A -> bit_ok G rho d B -> bit_ok G rho (EBin And acc d) (A && B).
Proof.
  intros (Hwa & Hsa & Hsema) (Hwd & Hsd & Hsemd). split; [|split].
  - cbn [width_of is_rel]. rewrite Hwa, Hwd. reflexivity.
  - cbn [spec_signed is_rel]. rewrite Hsa. reflexivity.
  - intros c p Hc. cbn [sem]. rewrite Hwa, Hwd, Hsa, Hsd.
    replace (Z.max c (Z.max 1 1)) with 1 by lia.
    rewrite Hsema, Hsemd by lia.
    destruct A; destruct B; vm_compute; reflexivity.
Qed.

Lemma ne_ok G rho w sg a b : 1 <= w ->
  fw G a = w -> fsg G a = sg -> fw G b = w -> fsg G b = sg ->
  bit_ok G rho (EBin Ne (EField a) (EField b)) (negb (wrapU w (rho a) =? wrapU w (rho b))).
Proof.
  intros Hw Hwa Hsa Hwb Hsb. split; [reflexivity|]. split; [reflexivity|].
  intros c p Hc. cbn [sem width_of spec_signed is_rel].
  rewrite Hwa, Hsa, Hwb, Hsb, andb_diag.
  replace (Z.max c (Z.max w w)) with w by lia.
  pose proof (up_wrapU_range w (rho a) ltac:(lia)) as Ha.
  pose proof (up_wrapU_range w (rho b) ltac:(lia)) as Hb.
  rewrite !up_conv_same by assumption.
  destruct sg; cbn [rel_eval].
  - rewrite up_toS_eqb by assumption. destruct (wrapU w (rho a) =? wrapU w (rho b)); reflexivity.
  - destruct (wrapU w (rho a) =? wrapU w (rho b)); reflexivity.
Qed.

(* "the vectors differ at some position", on the patterns of the elements *)
Definition pdiff (w : Z) (rho : nat -> Z) (p : nat * nat) : bool :=
  negb (wrapU w (rho (fst p)) =? wrapU w (rho (snd p))).
Definition vdiff (w : Z) (rho : nat -> Z) (a b : list nat) : bool := existsb (pdiff w rho) (combine a b).
Fixpoint pairs_sem (w : Z) (rho : nat -> Z) (vs : list (list nat)) : list bool :=
  match vs with
  | [] => []
  | v :: t => map (vdiff w rho v) t ++ pairs_sem w rho t
  end.

Definition ptyped (G : fenv) (w : Z) (sg : bool) (l : list (nat * nat)) : Prop :=
  forall p, In p l -> (fw G (fst p) = w /\ fsg G (fst p) = sg) /\ (fw G (snd p) = w /\ fsg G (snd p) = sg).

Lemma ptyped_combine G w sg a b : typed G w sg a -> typed G w sg b -> ptyped G w sg (combine a b).
Proof.
  intros Ha Hb [x y] Hin. cbn [fst snd]. split.
  - apply Ha. eapply in_combine_l. exact Hin.
  - apply Hb. eapply in_combine_r. exact Hin.
Qed.

Lemma vdiff_spec w rho : forall a b, List.length a = List.length b ->
  (vdiff w rho a b = true <-> map (fun id => wrapU w (rho id)) a <> map (fun id => wrapU w (rho id)) b).
Proof.
  induction a as [|x a IH]; intros [|y b] Hlen; try discriminate Hlen.
  - unfold vdiff. simpl. split; [discriminate|]. intros H. exfalso. apply H. reflexivity.
  - injection Hlen as Hlen. specialize (IH b Hlen).
    unfold vdiff in *. cbn [combine existsb map]. unfold pdiff at 1. cbn [fst snd].
    rewrite orb_true_iff, negb_true_iff, Z.eqb_neq, IH. split.
    + intros [H|H] Heq; injection Heq as H1 H2; [exact (H H1)|exact (H H2)].
    + intros H. destruct (Z.eq_dec (wrapU w (rho x)) (wrapU w (rho y))) as [E|E].
      * right. intros Heq. apply H. rewrite E, Heq. reflexivity.
      * left. exact E.
Qed.

Lemma pairs_sem_spec w rho : forall vs,
  (forall b, In b (pairs_sem w rho vs) -> b = true) <->
  (forall i j a b, (i < j)%nat -> nth_error vs i = Some a -> nth_error vs j = Some b -> vdiff w rho a b = true).
Proof.
  induction vs as [|v t IH].
  - split.
    + intros _ i j a b _ Hi _. destruct i; discriminate Hi.
    + intros _ b [].
  - cbn [pairs_sem]. split.
    + intros H i j a b Hij Hi Hj. destruct j as [|j]; [lia|]. cbn [nth_error] in Hj.
      destruct i as [|i]; cbn [nth_error] in Hi.
      * injection Hi as <-. apply H. apply in_or_app. left. apply in_map.
        eapply nth_error_In. exact Hj.
      * apply (proj1 IH) with (i := i) (j := j); [|lia|exact Hi|exact Hj].
        intros b' Hb'. apply H. apply in_or_app. right. exact Hb'.
    + intros H b Hb. apply in_app_or in Hb. destruct Hb as [Hb|Hb].
      * apply in_map_iff in Hb. destruct Hb as (u & <- & Hu).
        apply In_nth_error in Hu. destruct Hu as [k Hk].
        apply (H 0%nat (S k)); [lia|reflexivity|exact Hk].
      * revert b Hb. apply (proj2 IH). intros i j a b Hij Hi Hj.
        apply (H (S i) (S j)); [lia|exact Hi|exact Hj].
Qed.

Section UniqueVec.
  Variables (G : fenv) (rho : nat -> Z) (w : Z) (sg : bool) (n : nat).
  Hypothesis Hw : 1 <= w.
  Hypothesis Hn : (1 <= n)%nat.

  Definition good (vs : list (list nat)) : Prop :=
    forall v, In v vs -> typed G w sg v /\ List.length v = n.

  Lemma good_cons v t : good (v :: t) -> (typed G w sg v /\ List.length v = n) /\ good t.
  Proof.
    intros H. split.
    - apply H. left. reflexivity.
    - intros u Hu. apply H. right. exact Hu.
  Qed.

  Lemma or_fold : forall t acc A, ptyped G w sg t -> bit_ok G rho acc A ->
    bit_ok G rho (fold_left (fun acc p => EBin Or (EBin Ne (EField (fst p)) (EField (snd p))) acc) t acc)
           (A || existsb (pdiff w rho) t).
  Proof.
    induction t as [|p t IH]; intros acc A Hpt Hacc.
    - cbn [fold_left existsb]. rewrite orb_false_r. exact Hacc.
    - cbn [fold_left existsb].
      replace (A || (pdiff w rho p || existsb (pdiff w rho) t))
        with ((pdiff w rho p || A) || existsb (pdiff w rho) t)
        by (destruct A; destruct (pdiff w rho p); destruct (existsb (pdiff w rho) t); reflexivity).
      apply IH.
      + intros q Hq. apply Hpt. right. exact Hq.
      + apply or_step; [|exact Hacc].
        destruct (Hpt p (or_introl eq_refl)) as [[H1 H2] [H3 H4]].
        unfold pdiff. apply (ne_ok G rho w sg); assumption.
  Qed.

  Lemma vec_ne_ok a b : typed G w sg a -> typed G w sg b -> combine a b <> [] ->
    exists e, vec_ne a b = Some e /\ bit_ok G rho e (vdiff w rho a b).
  Proof.
    intros Ha Hb Hne. pose proof (ptyped_combine G w sg a b Ha Hb) as Hpt.
    unfold vec_ne, vdiff. destruct (combine a b) as [|[x y] t].
    - exfalso. apply Hne. reflexivity.
    - eexists. split; [reflexivity|]. cbn [existsb]. apply or_fold.
      + intros q Hq. apply Hpt. right. exact Hq.
      + destruct (Hpt (x, y) (or_introl eq_refl)) as [[H1 H2] [H3 H4]]. cbn [fst snd] in *.
        unfold pdiff. cbn [fst snd]. apply (ne_ok G rho w sg); assumption.
  Qed.

  Lemma combine_nonempty (a b : list nat) : List.length a = n -> List.length b = n -> combine a b <> [].
  Proof.
    intros Ha Hb. destruct a as [|x a]; [simpl in Ha; lia|]. destruct b as [|y b]; [simpl in Hb; lia|].
    discriminate.
  Qed.

  Lemma row_ok v : typed G w sg v -> List.length v = n -> forall t, good t ->
    exists es, map (vec_ne v) t = map Some es /\ Forall2 (bit_ok G rho) es (map (vdiff w rho v) t).
  Proof.
    intros Hv Hlv. induction t as [|u t IH]; intros Hg.
    - exists []. split; [reflexivity|constructor].
    - apply good_cons in Hg. destruct Hg as [[Hu Hlu] Hg].
      destruct (IH Hg) as (es & Hes & HF).
      destruct (vec_ne_ok v u Hv Hu (combine_nonempty v u Hlv Hlu)) as (e & He & Hbe).
      exists (e :: es). split.
      + cbn [map]. rewrite He, Hes. reflexivity.
      + cbn [map]. constructor; assumption.
  Qed.

  Lemma pairs_ok : forall vs, good vs ->
    exists es, vec_pairs vs = map Some es /\ Forall2 (bit_ok G rho) es (pairs_sem w rho vs).
  Proof.
    induction vs as [|v t IH]; intros Hg.
    - exists []. split; [reflexivity|constructor].
    - apply good_cons in Hg. destruct Hg as [[Hv Hlv] Hg].
      destruct (IH Hg) as (es2 & Hes2 & HF2).
      destruct (row_ok v Hv Hlv t Hg) as (es1 & Hes1 & HF1).
      exists (es1 ++ es2). split.
      + cbn [vec_pairs]. rewrite Hes1, Hes2, map_app. reflexivity.
      + cbn [pairs_sem]. apply Forall2_app; assumption.
  Qed.

  Lemma and_fold : forall es bs, Forall2 (bit_ok G rho) es bs -> forall e0 b0, bit_ok G rho e0 b0 ->
    exists e,
      fold_left (fun acc o => match acc, o with Some a, Some e => Some (EBin And a e) | _, _ => None end)
                (map Some es) (Some e0) = Some e /\
      bit_ok G rho e (fold_left andb bs b0).
  Proof.
    induction 1 as [|e b es bs Hb HF IH]; intros e0 b0 H0.
    - exists e0. split; [reflexivity|exact H0].
    - cbn [map fold_left]. apply IH. apply and_step; assumption.
  Qed.

  Lemma fold_andb_true : forall bs b0,
    fold_left andb bs b0 = true <-> b0 = true /\ forall b, In b bs -> b = true.
  Proof.
    induction bs as [|x bs IH]; intros b0.
    - cbn [fold_left]. split.
      + intros H. split; [exact H|intros b []].
      + intros [H _]. exact H.
    - cbn [fold_left]. rewrite IH, andb_true_iff. split.
      + intros [[H0 Hx] Hbs]. split; [exact H0|]. intros b [<-|Hb]; [exact Hx|apply Hbs; exact Hb].
      + intros [H0 H]. split; [split; [exact H0|apply H; left; reflexivity]|].
        intros b Hb. apply H. right. exact Hb.
  Qed.

  Lemma uvec_sem vs : good vs ->
    (holds_all G rho (unique_vec_of vs) = Some true <-> forall b, In b (pairs_sem w rho vs) -> b = true).
  Proof.
    intros Hg. destruct (pairs_ok vs Hg) as (es & Hes & HF).
    unfold unique_vec_of. rewrite Hes.
    remember (pairs_sem w rho vs) as bs eqn:Hbs. clear Hbs Hes.
    destruct HF as [|e0 b0 es' bs' H0 HF'].
    - cbn [map]. split; [intros _ b []|reflexivity].
    - cbn [map]. destruct (and_fold es' bs' HF' e0 b0 H0) as (e & He & Hbe).
      rewrite He.
      change (holds_all G rho [SExpr e]) with (opt_and (truth G rho e) (Some true)).
      rewrite (bit_ok_truth _ _ _ _ Hbe). cbn [opt_and]. rewrite andb_true_r.
      assert (Hin : (forall b, In b (b0 :: bs') -> b = true) <-> b0 = true /\ forall b, In b bs' -> b = true).
      { split.
        - intros H. split; [apply H; left; reflexivity|]. intros b Hb. apply H. right. exact Hb.
        - intros [Hb0 H] b [<-|Hb]; [exact Hb0|apply H; exact Hb]. }
      rewrite Hin, <- fold_andb_true. split.
      + intros H. injection H as H. exact H.
      + intros H. rewrite H. reflexivity.
  Qed.

End UniqueVec.

Theorem unique_vec_holds :
  forall G rho w sg (vs : list (list nat)), 0 < w -> (2 <= List.length vs)%nat ->
    (forall v, In v vs -> typed G w sg v) ->
    (exists n, (1 <= n)%nat /\ forall v, In v vs -> List.length v = n) ->
    (holds_all G rho (unique_vec_of vs) = Some true <->
     forall i j a b, (i < j)%nat -> nth_error vs i = Some a -> nth_error vs j = Some b ->
       map (fun id => wrapU w (rho id)) a <> map (fun id => wrapU w (rho id)) b).
Proof.
  intros G rho w sg vs Hw _ Hty (n & Hn & Hlen).
  assert (Hw1 : 1 <= w) by lia.
  assert (Hg : good G w sg n vs) by (intros v Hv; split; [apply Hty|apply Hlen]; exact Hv).
  pose proof (uvec_sem G rho w sg n Hw1 Hn vs Hg) as H1.
  pose proof (pairs_sem_spec w rho vs) as H2.
  rewrite H1, H2. clear H1 H2.
  assert (Hl : forall i j a b, nth_error vs i = Some a -> nth_error vs j = Some b -> List.length a = List.length b).
  { intros i j a b Hi Hj.
    rewrite (Hlen a (nth_error_In _ _ Hi)), (Hlen b (nth_error_In _ _ Hj)). reflexivity. }
  split; intros H i j a b Hij Hi Hj.
  - apply (proj1 (vdiff_spec w rho a b (Hl i j a b Hi Hj))). apply (H i j); assumption.
  - apply (proj2 (vdiff_spec w rho a b (Hl i j a b Hi Hj))). apply (H i j); assumption.
Qed.
Print Assumptions unique_vec_holds.

(* ------------------------------------------------------------------ *)
(* C. non-vacuity                                                      *)
(* ------------------------------------------------------------------ *)
Module Unroll2Examples.
  Definition G : fenv := [mkF 3 false; mkF 3 false; mkF 3 false; mkF 3 false].
  Definition ids : list nat := [0; 1; 2]%nat.
  Definition rho : nat -> Z := fun id => match id with 0%nat => 2 | 1%nat => 3 | 2%nat => 5 | _ => 3 end.

  Example typed_example : typed G 3 false ids.
  Proof. intros id [<-|[<-|[<-|[]]]]; split; reflexivity. Qed.

  (* 2 * 3 * 5 = 30 at 64 bits (and at 70 bits in a wider context); the empty list gives 0 *)
  Example product_example :
    sem G rho (-1) false (product_expr false ids) = Some (64, 30) /\
    sem G rho 70 true (product_expr false ids) = Some (70, 30) /\
    sem G rho (-1) false (product_expr false []) = Some (64, 0).
  Proof. vm_compute. repeat split. Qed.

  (* signed elements: -3 * 3 = -9 read at 64 bits, sign-extended to 70 bits in a wider context; a single element
     -3 is sign-extended too *)
  Definition Gs : fenv := [mkF 3 true; mkF 3 true; mkF 3 true].
  Definition rhos : nat -> Z := fun id => match id with 0%nat => -3 | 1%nat => 3 | _ => -1 end.
  Example signed_product_example :
    sem Gs rhos (-1) false (product_expr true [0; 1]%nat) = Some (64, 2 ^ 64 - 9) /\
    sem Gs rhos 70 true (product_expr true [0; 1]%nat) = Some (70, 2 ^ 70 - 9) /\
    sem Gs rhos 70 false (product_expr true [0]%nat) = Some (70, 2 ^ 70 - 3) /\
    sem Gs rhos 70 false (product_expr true ids) = Some (70, 9) /\
    map (elem_val true 3 rhos) ids = [-3; 3; -1].
  Proof. vm_compute. repeat split. Qed.

  (* the theorem applied to the example *)
  Example product_theorem_applied :
    sem G rho (-1) false (product_expr false ids) = Some (64, wrapU 64 (zprod (map (elem_val false 3 rho) ids))).
  Proof. apply (product_expr_sem G rho 3 false ids (-1) false); [lia|lia|exact typed_example]. Qed.

  (* (2,3) and (2,5) differ in the second position: holds; (3,2) and (3,2) (fields 1,0 and 3,0) are equal: does not;
     three vectors of which the first and the last are equal: does not *)
  Example unique_vec_example :
    holds_all G rho (unique_vec_of [[0; 1]; [0; 2]]%nat) = Some true /\
    holds_all G rho (unique_vec_of [[1; 0]; [3; 0]]%nat) = Some false /\
    holds_all G rho (unique_vec_of [[0; 1]; [0; 2]; [0; 3]]%nat) = Some false /\
    holds_all G rho (unique_vec_of [[0]; [1]; [2]]%nat) = Some true.
  Proof. vm_compute. repeat split. Qed.

  Example unique_vec_theorem_applied :
    holds_all G rho (unique_vec_of [[0; 1]; [0; 2]]%nat) = Some true <->
    forall i j a b, (i < j)%nat -> nth_error [[0; 1]; [0; 2]]%nat i = Some a -> nth_error [[0; 1]; [0; 2]]%nat j = Some b ->
      map (fun id => wrapU 3 (rho id)) a <> map (fun id => wrapU 3 (rho id)) b.
  Proof.
    apply (unique_vec_holds G rho 3 false); [lia|simpl; lia| |].
    - intros v [<-|[<-|[]]] id Hid; simpl in Hid;
        repeat (destruct Hid as [<-|Hid]; [split; reflexivity|]); destruct Hid.
    - exists 2%nat. split; [lia|]. intros v [<-|[<-|[]]]; reflexivity.
  Qed.
End Unroll2Examples.
