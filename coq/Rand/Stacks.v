(* The library's shared construction state around user code (C16).  Executable definitions only.

   impl/ctor.py: expr_l (expressions of the statement being written), constraint_scope_stack, srcinfo_mode_s,
   foreach_arr_s; impl/expr_mode.py: _expr_mode, _raw_mode.  User code runs inside the library at: the class's
   __init__, its constraint bodies (construction), the body of a randomize_with block, pre_randomize / post_randomize.
   Any of it may raise; a call may also end with SolveFailure.

   The programs below transcribe the API entry points (rand_obj.py: the __init__ wrapper, build_field_model,
   __enter__ / __exit__, randomize; methods.py: randomize_with; constraints.py: the with-blocks) as far as they touch that
   state; the user's code is a list of items with probe points.  The correspondence check runs the same items in the
   real library, records the state at every probe and after every call, injects an exception at a chosen probe, and
   compares with `trace` below. *)
From Coq Require Import ZArith List Bool Arith.
Import ListNotations.

Record gstate := mkG {
  g_scope : nat;        (* constraint_scope_stack *)
  g_srcinfo : nat;      (* srcinfo_mode_s *)
  g_foreach : nat;      (* foreach_arr_s *)
  g_emode : nat;        (* _expr_mode *)
  g_raw : nat;          (* _raw_mode *)
  g_exprs : bool        (* expr_l not empty (how many expressions a statement leaves is not modelled) *)
}.
Definition idle : gstate := mkG 0 0 0 0 0 false.

Definition push_scope (s : gstate) := mkG (S (g_scope s)) (g_srcinfo s) (g_foreach s) (g_emode s) (g_raw s) (g_exprs s).
(* pop_constraint_scope / push_constraint_stmt drain expr_l into the scope *)
Definition pop_scope (s : gstate) := mkG (pred (g_scope s)) (g_srcinfo s) (g_foreach s) (g_emode s) (g_raw s) false.
Definition drain (s : gstate) := mkG (g_scope s) (g_srcinfo s) (g_foreach s) (g_emode s) (g_raw s) false.
Definition dirty (s : gstate) := mkG (g_scope s) (g_srcinfo s) (g_foreach s) (g_emode s) (g_raw s) true.
Definition push_src (s : gstate) := mkG (g_scope s) (S (g_srcinfo s)) (g_foreach s) (g_emode s) (g_raw s) (g_exprs s).
Definition pop_src (s : gstate) := mkG (g_scope s) (pred (g_srcinfo s)) (g_foreach s) (g_emode s) (g_raw s) (g_exprs s).
Definition enter_em (s : gstate) := mkG (g_scope s) (g_srcinfo s) (g_foreach s) (S (g_emode s)) (g_raw s) (g_exprs s).
Definition leave_em (s : gstate) := mkG (g_scope s) (g_srcinfo s) (g_foreach s) (pred (g_emode s)) (g_raw s) (g_exprs s).

(* user code *)
Inductive item :=
| IProbe (tag : nat)               (* the harness records the state here and may raise here *)
| IStmt                            (* an expression statement *)
| IBlock (body : list item)        (* with vsc.if_then / else_if / else_then / implies / foreach (...): body *)
| INew (init : list item) (blocks : list (list item)).   (* constructing another randobj (in __init__: a sub-object) *)

(* what is observed at one probe: its tag and the depths (expr_l excluded) *)
Definition obs := (nat * (nat * nat * nat * nat * nat))%type.
Definition view (s : gstate) := (g_scope s, g_srcinfo s, g_foreach s, g_emode s, g_raw s).

(* running state: the library state, the trace so far, and the probe that is to raise (None: none / already raised) *)
Record rs := mkR { r_g : gstate; r_tr : list obs; r_fault : option nat; r_raised : bool }.
Definition upd (r : rs) (g : gstate) : rs := mkR g (r_tr r) (r_fault r) (r_raised r).

(* user items; `fuel` bounds the nesting depth.  After a raise nothing of the user's code runs any more, but the
   __exit__ of every enclosing with-block does *)
Fixpoint run_items (fuel : nat) (l : list item) (r : rs) : rs :=
  match fuel with
  | O => r
  | S k =>
    match l with
    | [] => r
    | x :: t =>
      if r_raised r then r
      else
        let r1 :=
          match x with
          | IProbe tag =>
            let r' := mkR (r_g r) (r_tr r ++ [(tag, view (r_g r))]) (r_fault r) (r_raised r) in
            match r_fault r with
            | Some f => if Nat.eqb f tag then mkR (r_g r') (r_tr r') None true else r'
            | None => r'
            end
          | IStmt => upd r (dirty (r_g r))
          | IBlock body =>
            (* __init__: push_constraint_stmt (drains expr_l) ; __enter__: push scope ; body ; __exit__: pop scope - always *)
            let r2 := run_items k body (upd r (push_scope (drain (r_g r)))) in
            upd r2 (pop_scope (r_g r2))
          | INew init blocks => construct k init blocks r
          end in
        run_items k t r1
    end
  end
(* rand_obj.py: the __init__ wrapper of the decorated class, then build_field_model *)
with construct (fuel : nat) (init : list item) (blocks : list (list item)) (r : rs) : rs :=
  match fuel with
  | O => r
  | S k =>
    let r1 := run_items k init (upd r (push_src (r_g r))) in        (* push_srcinfo_mode ; the user's __init__ *)
    if r_raised r1 then upd r1 (pop_src (r_g r1))                     (* except: pop_srcinfo_mode ; raise *)
    else
      (* build_field_model: with expr_mode(): for every constraint block: clear_exprs, push scope, body, pop scope, clear *)
      let r2 := upd r1 (enter_em (r_g r1)) in
      let r3 := fold_left (fun acc body =>
                   if r_raised acc then acc
                   else let a1 := run_items k body (upd acc (push_scope (drain (r_g acc)))) in
                        upd a1 (drain (pop_scope (r_g a1))))            (* normal and except path both pop and clear *)
                 blocks r2 in
      upd r3 (pop_src (leave_em (r_g r3)))                             (* expr_mode.__exit__ ; finally: pop_srcinfo_mode *)
  end.

(* enough fuel: the number of items, nested ones included *)
Fixpoint item_size (x : item) : nat :=
  match x with
  | IProbe _ | IStmt => 1
  | IBlock b => S ((fix go (l : list item) : nat := match l with [] => 0 | y :: t => item_size y + go t end) b)
  | INew i bs =>
    S (S ((fix go (l : list item) : nat := match l with [] => 0 | y :: t => item_size y + go t end) i
          + (fix gob (ls : list (list item)) : nat :=
               match ls with
               | [] => 0
               | b :: t => S ((fix go (l : list item) : nat := match l with [] => 0 | y :: u => item_size y + go u end) b) + gob t
               end) bs))
  end.
Definition items_size (l : list item) : nat := fold_right (fun x a => item_size x + a) 0 l.
Definition fuel_for (ls : list (list item)) : nat := S (S (fold_right (fun b a => S (items_size b) + a) 0 ls)).

(* ---- the API calls ---- *)
Inductive api :=
| ANew (init : list item) (blocks : list (list item))                       (* obj = Cls(...) *)
| ARandomize (pre post : list item) (unsat : bool)                         (* obj.randomize() *)
| AWith (body pre post : list item) (unsat : bool)                         (* with obj.randomize_with() as it: body *)
| AFree (body : list item) (unsat : bool).                                 (* with vsc.randomize_with(fields): body *)

(* do_randomize: pre_randomize callbacks, the solve (SolveFailure if unsat), post_randomize callbacks; the shared state is
   not touched; a callback that raises ends the call *)
Definition solve (fuel : nat) (pre post : list item) (unsat : bool) (r : rs) : rs :=
  let r1 := run_items fuel pre r in
  if r_raised r1 then r1
  else if unsat then mkR (r_g r1) (r_tr r1) (r_fault r1) true
  else run_items fuel post r1.

(* one call, started with the exception flag down; returns the state afterwards, what the probes saw, and whether it raised *)
Definition run_api (a : api) (g : gstate) (fault : option nat) : gstate * list obs * bool :=
  let r0 := mkR g [] fault false in
  let r :=
    match a with
    | ANew init blocks => construct (fuel_for (init :: blocks)) init blocks r0
    | ARandomize pre post unsat => solve (fuel_for [pre; post]) pre post unsat r0
    | AWith body pre post unsat =>
      (* __enter__: enter_expr_mode, push_srcinfo_mode, push scope ; body ; __exit__ (always): pop scope, leave_expr_mode,
         pop_srcinfo_mode, then do_randomize - also when the body raised *)
      let f := fuel_for [body; pre; post] in
      let r1 := run_items f body (upd r0 (push_scope (push_src (enter_em (r_g r0))))) in
      let body_raised := r_raised r1 in
      let r2 := mkR (pop_src (leave_em (pop_scope (r_g r1)))) (r_tr r1) (r_fault r1) false in
      let r3 := solve f pre post unsat r2 in
      mkR (r_g r3) (r_tr r3) (r_fault r3) (r_raised r3 || body_raised)
    | AFree body unsat =>
      let f := fuel_for [body] in
      let r1 := run_items f body (upd r0 (push_scope (enter_em (r_g r0)))) in
      let body_raised := r_raised r1 in
      let r2 := mkR (leave_em (pop_scope (r_g r1))) (r_tr r1) (r_fault r1) false in
      let r3 := solve f [] [] unsat r2 in
      mkR (r_g r3) (r_tr r3) (r_fault r3) (r_raised r3 || body_raised)
    end in
  (r_g r, r_tr r, r_raised r).

(* a history of calls, each with its own fault point *)
Fixpoint run_history (l : list (api * option nat)) (g : gstate) : gstate * list (list obs * bool) :=
  match l with
  | [] => (g, [])
  | (a, f) :: t =>
    let '(g1, tr, raised) := run_api a g f in
    let '(g2, rest) := run_history t g1 in
    (g2, (tr, raised) :: rest)
  end.

(* the part of the state user code cannot soil by leaving expressions behind *)
Definition same_depths (a b : gstate) : Prop := view a = view b.
