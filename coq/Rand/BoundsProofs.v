(* Proofs about bounds inference for one field against constants (Rand/Bounds.v): the normalised item list of an `in`
   is ascending and denotes the same set; no step of the inference (max, min, in) removes a value that satisfies the
   constraint; hence every value of the type that satisfies all the constraints lies in the inferred domain
   (infer_sound, infer_fix_sound).  For max and in the inferred domain is exact (infer_max_in_exact).

   The invariant carried along the fold is NOT sorted_dom: propagate_min may leave an inverted first range even when a
   value of the domain satisfies the bound (Example propagate_min_sorted_original_false), and propagate_max leaves one
   when no value does.  What every step preserves unconditionally is the weaker sep_dom (every upper end is below the
   lower end of every later range; ranges may be empty), and sep_dom is all that the soundness of min and of the
   intersection needs.  sorted_dom d  <->  sep_dom d /\ every range of d has lo <= hi  (sorted_dom_iff). *)
From Coq Require Import ZArith List Bool Lia Arith ZifyBool.
From PV Require Import Common.Bits Rand.BV Rand.Swizzle Rand.SwizzleProofs Rand.Bounds.
Import ListNotations.
Open Scope Z_scope.

(* ---------- separation: the invariant ---------- *)
Fixpoint sep_dom (d : dom) : Prop :=
  match d with
  | [] => True
  | a :: t => (forall b, In b t -> snd a < fst b) /\ sep_dom t
  end.

Lemma sep_dom_single x : sep_dom [x].
Proof. cbn. split; auto. intros b []. Qed.

Lemma sep_dom_app l1 l2 :
  sep_dom (l1 ++ l2) <-> sep_dom l1 /\ sep_dom l2 /\ (forall a b, In a l1 -> In b l2 -> snd a < fst b).
Proof.
  induction l1 as [|x t IH]; cbn [app sep_dom].
  - split.
    + intros H. split; [exact I|]. split; [exact H|]. intros a b [].
    + tauto.
  - rewrite IH. split.
    + intros (H1 & H2 & H3 & H4). split; [split|split]; auto.
      * intros b Hb. apply H1. apply in_or_app; auto.
      * intros a b [<-|Ha] Hb; [apply H1; apply in_or_app; auto | apply H4; auto].
    + intros ((H1 & H2) & H3 & H4). split; [|split; [|split]]; auto.
      * intros b Hb. apply in_app_or in Hb. destruct Hb; [apply H1; auto | apply H4; [left|]; auto].
      * intros a b Ha Hb. apply H4; [right|]; auto.
Qed.

Lemma sep_dom_tail a t : sep_dom (a :: t) -> sep_dom t.
Proof. intros H. apply H. Qed.

Lemma sep_dom_skipn n d : sep_dom d -> sep_dom (skipn n d).
Proof. intros H. rewrite <- (firstn_skipn n d) in H. apply sep_dom_app in H. tauto. Qed.

Lemma sep_dom_firstn n d : sep_dom d -> sep_dom (firstn n d).
Proof. intros H. rewrite <- (firstn_skipn n d) in H. apply sep_dom_app in H. tauto. Qed.

Lemma sep_dom_replace_last l x x' rest : sep_dom (l ++ x :: rest) -> fst x' = fst x -> sep_dom (l ++ [x']).
Proof.
  intros H E. apply sep_dom_app in H. destruct H as (S1 & S2 & S3). apply sep_dom_app.
  split; auto. split; [apply sep_dom_single|].
  intros a b Ha [<-|[]]. rewrite E. apply S3; auto. left; auto.
Qed.

Lemma sep_dom_nth_lt d j k a b :
  sep_dom d -> nth_error d j = Some a -> nth_error d k = Some b -> (j < k)%nat -> snd a < fst b.
Proof.
  revert j k. induction d as [|r t IH]; intros j k H Hj Hk Hjk.
  - destruct j; discriminate.
  - destruct H as [Hh Ht]. destruct k; [lia|]. cbn in Hk. destruct j; cbn in Hj.
    + injection Hj as ->. apply Hh. eapply nth_error_In; eauto.
    + apply (IH j k); auto. lia.
Qed.

Lemma sep_dom_tail_gt a t v : sep_dom (a :: t) -> dom_in t v = true -> snd a < v.
Proof.
  intros [H _] Hv. apply dom_in_iff in Hv. destruct Hv as (r & Hr & Hin). specialize (H r Hr). lia.
Qed.

Lemma sorted_dom_cons a t :
  sorted_dom (a :: t) = (fst a <=? snd a) && match t with [] => true | b :: _ => snd a <? fst b end && sorted_dom t.
Proof. reflexivity. Qed.

Lemma sorted_dom_iff d : sorted_dom d = true <-> sep_dom d /\ (forall r, In r d -> fst r <= snd r).
Proof.
  induction d as [|a t IH].
  - cbn. split; auto. intros _. split; auto. intros r [].
  - split.
    + intros H. pose proof (sorted_dom_tail _ _ H) as Ht. apply IH in Ht. destruct Ht as [St Wt]. split.
      * cbn [sep_dom]. split; auto. intros b Hb. apply (sorted_dom_head_lt a t b H Hb).
      * intros r [<-|Hr]; auto. rewrite sorted_dom_cons in H.
        apply andb_true_iff in H. destruct H as [H _]. apply andb_true_iff in H. destruct H as [H _]. lia.
    + intros [[Hh St] W]. rewrite sorted_dom_cons.
      assert (H : sorted_dom t = true) by (apply IH; split; auto; intros; apply W; right; auto).
      assert (fst a <= snd a) by (apply W; left; auto).
      rewrite H. destruct t as [|b t'].
      * lia.
      * assert (snd a < fst b) by (apply Hh; left; auto). lia.
Qed.

Lemma sorted_dom_sep d : sorted_dom d = true -> sep_dom d.
Proof. intros H. apply sorted_dom_iff in H. apply H. Qed.

Lemma in_skipn_in {A} n (d : list A) x : In x (skipn n d) -> In x d.
Proof. intros H. rewrite <- (firstn_skipn n d). apply in_or_app. auto. Qed.

Lemma in_firstn_in {A} n (d : list A) x : In x (firstn n d) -> In x d.
Proof. intros H. rewrite <- (firstn_skipn n d). apply in_or_app. auto. Qed.

(* ---------- dom_in ---------- *)
Lemma dom_in_ext a b v : (forall r, In r a <-> In r b) -> dom_in a v = dom_in b v.
Proof.
  intros H. apply eq_true_iff_eq. rewrite !dom_in_iff.
  split; intros (r & Hr & Hv); exists r; split; auto; apply H; auto.
Qed.

Lemma dom_in_app a b v : dom_in (a ++ b) v = dom_in a v || dom_in b v.
Proof. apply existsb_app. Qed.

Lemma dom_in_rev a v : dom_in (rev a) v = dom_in a v.
Proof. apply dom_in_ext. intros r. symmetry. apply in_rev. Qed.

(* ---------- 1. the item list of an `in` ---------- *)
Fixpoint lo_sorted (l : dom) : Prop :=
  match l with [] => True | a :: t => (forall r, In r t -> fst a <= fst r) /\ lo_sorted t end.

Lemma insert_item_in r l x : In x (insert_item r l) <-> x = r \/ In x l.
Proof.
  induction l as [|y t IH]; cbn [insert_item].
  - cbn. intuition (subst; auto).
  - destruct (fst r <? fst y).
    + cbn. intuition (subst; auto).
    + cbn [In]. rewrite IH. intuition (subst; auto).
Qed.

Lemma insert_item_sorted r l : lo_sorted l -> lo_sorted (insert_item r l).
Proof.
  induction l as [|y t IH]; cbn [insert_item]; intros H.
  - cbn. split; auto. intros ? [].
  - destruct (fst r <? fst y) eqn:E.
    + cbn [lo_sorted]. split; auto. intros q [<-|Hq]; [lia|]. destruct H as [H _]. specialize (H q Hq). lia.
    + destruct H as [H1 H2]. cbn [lo_sorted]. split; auto.
      intros q Hq. apply insert_item_in in Hq. destruct Hq as [->|Hq]; [lia | auto].
Qed.

Lemma sort_acc_in l : forall acc x,
  In x (fold_left (fun acc r => insert_item r acc) l acc) <-> In x l \/ In x acc.
Proof.
  induction l as [|r t IH]; intros acc x; cbn [fold_left].
  - cbn. tauto.
  - rewrite IH, insert_item_in. cbn [In]. intuition (subst; auto).
Qed.

Lemma sort_items_in l x : In x (sort_items l) <-> In x l.
Proof. unfold sort_items. rewrite sort_acc_in. cbn. tauto. Qed.

Lemma sort_acc_sorted l : forall acc,
  lo_sorted acc -> lo_sorted (fold_left (fun acc r => insert_item r acc) l acc).
Proof. induction l as [|r t IH]; intros acc H; cbn [fold_left]; auto. apply IH. apply insert_item_sorted; auto. Qed.

Lemma sort_items_sorted l : lo_sorted (sort_items l).
Proof. apply sort_acc_sorted. exact I. Qed.

(* the last merged range starts at or below every remaining one *)
Definition head_ok (acc l : dom) : Prop :=
  match acc with last :: _ => forall r, In r l -> fst last <= fst r | [] => True end.

Lemma merge_items_in v : forall l acc, lo_sorted l -> head_ok acc l ->
  dom_in (merge_items acc l) v = dom_in acc v || dom_in l v.
Proof.
  induction l as [|r t IH]; intros acc Hs Hh; cbn [merge_items].
  - rewrite dom_in_rev. cbn. now rewrite orb_false_r.
  - destruct Hs as [Hr Hs]. destruct acc as [|last before].
    + rewrite IH; auto. rewrite !dom_in_cons. cbn. destruct (in_rng r v), (dom_in t v); reflexivity.
    + assert (L : fst last <= fst r) by (apply Hh; left; auto).
      destruct (fst r <=? snd last + 1) eqn:E.
      * rewrite IH; auto.
        -- rewrite !dom_in_cons. unfold in_rng; cbn [fst snd].
           destruct (dom_in before v), (dom_in t v); rewrite ?orb_true_r, ?orb_false_r; cbn; try reflexivity; lia.
        -- cbn. intros r' Hr'. apply Hh. right; auto.
      * rewrite IH; auto. rewrite !dom_in_cons.
        destruct (in_rng r v), (in_rng last v), (dom_in before v), (dom_in t v); reflexivity.
Qed.

Lemma merge_items_sep : forall l acc, sep_dom (rev acc) -> lo_sorted l -> head_ok acc l -> sep_dom (merge_items acc l).
Proof.
  induction l as [|r t IH]; intros acc Sa Hs Hh; cbn [merge_items]; auto.
  destruct Hs as [Hr Hs]. destruct acc as [|last before].
  - apply IH; auto. apply sep_dom_single.
  - assert (L : fst last <= fst r) by (apply Hh; left; auto).
    cbn [rev] in Sa. destruct (fst r <=? snd last + 1) eqn:E.
    + apply IH; [|exact Hs|].
      * cbn [rev]. apply (sep_dom_replace_last (rev before) last _ []); auto.
      * cbn. intros r' Hr'. apply Hh. right; auto.
    + apply IH; [|exact Hs|].
      * cbn [rev]. apply sep_dom_app. split; auto. split; [apply sep_dom_single|].
        apply sep_dom_app in Sa. destruct Sa as (S1 & S2 & S3).
        intros a b Ha [<-|[]]. apply in_app_or in Ha. destruct Ha as [Ha|[<-|[]]]; [|lia].
        specialize (S3 a last Ha (or_introl eq_refl)). lia.
      * cbn. exact Hr.
Qed.

Lemma merge_items_wf : forall l acc,
  (forall r, In r acc -> fst r <= snd r) -> (forall r, In r l -> fst r <= snd r) ->
  forall x, In x (merge_items acc l) -> fst x <= snd x.
Proof.
  induction l as [|r t IH]; intros acc Wa Wl x; cbn [merge_items].
  - intros Hx. apply in_rev in Hx. auto.
  - assert (Wt : forall q, In q t -> fst q <= snd q) by (intros; apply Wl; right; auto).
    assert (Wr : fst r <= snd r) by (apply Wl; left; auto).
    destruct acc as [|last before].
    + apply IH; auto. intros q [<-|[]]; auto.
    + assert (fst last <= snd last) by (apply Wa; left; auto).
      destruct (fst r <=? snd last + 1).
      * apply IH; auto. intros q [<-|Hq]; [cbn [fst snd]; lia | apply Wa; right; auto].
      * apply IH; auto. intros q [<-|Hq]; auto.
Qed.

(* separated whatever the items are *)
Lemma norm_items_sep items : sep_dom (norm_items items).
Proof. unfold norm_items. apply merge_items_sep; [exact I | apply sort_items_sorted | exact I]. Qed.

Theorem norm_items_sorted items :
  (forall r, In r items -> fst r <= snd r) -> sorted_dom (norm_items items) = true.
Proof.
  intros W. apply sorted_dom_iff. split; [apply norm_items_sep|].
  unfold norm_items. apply merge_items_wf.
  - intros r [].
  - intros r Hr. apply W. apply sort_items_in; auto.
Qed.

(* the hypothesis lo <= hi is not needed here *)
Theorem norm_items_in items v : dom_in (norm_items items) v = dom_in items v.
Proof.
  unfold norm_items. rewrite merge_items_in; [|apply sort_items_sorted | exact I].
  cbn. apply dom_in_ext. intros r. apply sort_items_in.
Qed.

(* an ill-formed item makes the normalised list unsorted: the hypothesis of norm_items_sorted is needed *)
Example norm_items_sorted_needs_wf : sorted_dom (norm_items [(5, 3)]) = false.
Proof. vm_compute. reflexivity. Qed.

(* ---------- 2. one step ---------- *)
Lemma nth_error_decomp {A} (d : list A) i x : nth_error d i = Some x -> d = firstn i d ++ x :: skipn (S i) d.
Proof.
  revert i. induction d as [|a t IH]; intros i H.
  - destruct i; discriminate.
  - destruct i; cbn in H.
    + injection H as ->. reflexivity.
    + cbn [firstn skipn app]. f_equal. apply IH; auto.
Qed.

Lemma firstn_S_nth {A} (d : list A) i x : nth_error d i = Some x -> firstn (S i) d = firstn i d ++ [x].
Proof.
  revert i. induction d as [|a t IH]; intros i H.
  - destruct i; discriminate.
  - destruct i; cbn in H.
    + injection H as ->. reflexivity.
    + cbn [firstn app]. f_equal. apply IH; auto.
Qed.

(* max *)
Lemma last_le_spec d m i best :
  last_le d m i best = best \/
  exists j r, nth_error d j = Some r /\ fst r <= m /\ last_le d m i best = (i + j)%nat.
Proof.
  revert i best. induction d as [|r0 t IH]; intros i best; cbn [last_le]; auto.
  destruct (IH (S i) (if fst r0 <=? m then i else best)) as [E|(j & r & Hj & Hr & E)].
  - rewrite E. destruct (fst r0 <=? m) eqn:F; auto.
    right. exists 0%nat, r0. split; [reflexivity|]. split; [lia|]. lia.
  - right. exists (S j), r. split; [exact Hj|]. split; [lia|]. rewrite E. lia.
Qed.

Lemma propagate_max_eq r0 t m :
  exists i x, nth_error (r0 :: t) i = Some x /\ (i = 0%nat \/ fst x <= m) /\
    propagate_max (r0 :: t) m = firstn i (r0 :: t) ++ [(fst x, Z.min (snd x) m)].
Proof.
  unfold propagate_max. cbv beta iota zeta. set (d := r0 :: t).
  assert (H : exists i x, nth_error d i = Some x /\ (i = 0%nat \/ fst x <= m) /\ last_le d m 0 0 = i).
  { destruct (last_le_spec d m 0 0) as [E|(j & r & Hj & Hr & E)].
    - exists 0%nat, r0. split; [reflexivity|]. split; auto.
    - exists j, r. split; auto. }
  destruct H as (i & x & Hi & Hc & E). exists i, x. split; auto. split; auto.
  rewrite E, (firstn_S_nth d i x Hi), rev_app_distr. cbn [rev app]. rewrite rev_involutive. reflexivity.
Qed.

Lemma propagate_max_sep d m : sep_dom d -> sep_dom (propagate_max d m).
Proof.
  intros H. destruct d as [|r0 t]; [exact I|].
  destruct (propagate_max_eq r0 t m) as (i & x & Hi & _ & ->).
  rewrite (nth_error_decomp _ _ _ Hi) in H.
  apply (sep_dom_replace_last _ x _ _ H). reflexivity.
Qed.

Lemma propagate_max_wf d m v :
  (forall r, In r d -> fst r <= snd r) -> sep_dom d -> dom_in d v = true -> v <= m ->
  forall r, In r (propagate_max d m) -> fst r <= snd r.
Proof.
  intros W S Hv Hm. destruct d as [|r0 t]; [intros r []|].
  destruct (propagate_max_eq r0 t m) as (i & x & Hi & Hc & ->).
  intros r Hr. apply in_app_or in Hr. destruct Hr as [Hr|[<-|[]]].
  - apply W. eapply in_firstn_in; eauto.
  - cbn [fst snd]. assert (fst x <= snd x) by (apply W; eapply nth_error_In; eauto).
    assert (fst x <= m); [|lia]. destruct Hc as [->|Hc]; auto.
    cbn in Hi. injection Hi as <-. apply dom_in_iff in Hv. destruct Hv as (q & [<-|Hq] & Hin); [lia|].
    destruct S as [S _]. specialize (S q Hq). assert (fst r0 <= snd r0) by (apply W; left; auto). lia.
Qed.

Lemma propagate_max_sorted d max_v v :
  sorted_dom d = true -> dom_in d v = true -> v <= max_v -> sorted_dom (propagate_max d max_v) = true.
Proof.
  intros H Hv Hm. apply sorted_dom_iff in H. destruct H as [S W]. apply sorted_dom_iff. split.
  - apply propagate_max_sep; auto.
  - apply (propagate_max_wf d max_v v); auto.
Qed.

(* min *)
Lemma propagate_min_sep d m : sep_dom d -> sep_dom (propagate_min d m).
Proof.
  intros H. unfold propagate_min. destruct (last_lt_idx d m 0 None) as [[|i]|]; auto.
  - destruct d as [|r t]; auto.
  - apply sep_dom_skipn; auto.
Qed.

Lemma propagate_min_sound_sep d min_v v :
  sep_dom d -> dom_in d v = true -> min_v <= v -> dom_in (propagate_min d min_v) v = true.
Proof.
  intros Hs H Hv. unfold propagate_min.
  destruct (last_lt_idx_spec d min_v 0 None) as [E|(k & rk & Hk & Hrk & E)]; rewrite E; auto.
  cbn [Nat.add]. apply dom_in_iff in H. destruct H as (r & Hr & Hin). apply dom_in_iff.
  destruct k as [|k].
  - destruct d as [|r0 t]; [destruct Hr|]. destruct Hr as [<-|Hr].
    + exists (Z.max (fst r0) min_v, snd r0). split; [left; auto|]. cbn [fst snd]. lia.
    + exists r. split; [right; auto | lia].
  - apply In_nth_error in Hr. destruct Hr as (j & Hj).
    destruct (le_lt_dec (S k) j) as [L|L].
    + exists r. split; [|lia]. apply (in_skipn_nth d j); auto.
    + pose proof (sep_dom_nth_lt d j (S k) r rk Hs Hj Hk L). lia.
Qed.

Lemma last_lt_idx_ge d m i best j r :
  nth_error d j = Some r -> fst r < m -> exists n, last_lt_idx d m i best = Some n /\ (i + j <= n)%nat.
Proof.
  revert i best j. induction d as [|r0 t IH]; intros i best j H Hr.
  - destruct j; discriminate.
  - cbn [last_lt_idx]. destruct j; cbn in H.
    + injection H as ->. replace (fst r <? m) with true by lia.
      destruct (last_lt_idx_spec t m (S i) (Some i)) as [E|(j & r' & _ & _ & E)]; rewrite E; eexists; split; eauto; lia.
    + destruct (IH (S i) (if fst r0 <? m then Some i else best) j H Hr) as (n & E & L). exists n. split; auto. lia.
Qed.

(* min_v does not fall between the first range and the second (the case in which the as-coded propagator cuts the first
   range to nothing although a later range has a value at or above min_v) *)
Definition no_head_gap (d : dom) (m : Z) : Prop := forall r0 r1 t, d = r0 :: r1 :: t -> ~ (snd r0 < m <= fst r1).

Lemma propagate_min_wf d m v :
  (forall r, In r d -> fst r <= snd r) -> dom_in d v = true -> m <= v -> no_head_gap d m ->
  forall r, In r (propagate_min d m) -> fst r <= snd r.
Proof.
  intros W Hv Hm G. unfold propagate_min.
  destruct (last_lt_idx d m 0 None) as [[|i]|] eqn:E; auto.
  - destruct d as [|r0 t]; [intros r []|]. intros r [<-|Hr]; [|apply W; right; auto].
    cbn [fst snd]. assert (fst r0 <= snd r0) by (apply W; left; auto).
    destruct t as [|r1 t'].
    + apply dom_in_iff in Hv. destruct Hv as (q & [<-|[]] & Hq). lia.
    + destruct (Z_lt_le_dec (snd r0) m) as [L|L]; [|lia]. exfalso.
      assert (F : fst r1 < m) by (specialize (G r0 r1 t' eq_refl); lia).
      destruct (last_lt_idx_ge (r0 :: r1 :: t') m 0 None 1 r1 eq_refl F) as (n & En & Ln).
      rewrite E in En. injection En as <-. lia.
  - intros r Hr. apply W. eapply in_skipn_in; eauto.
Qed.

(* CORRECTED: the statement without no_head_gap is false, see propagate_min_sorted_original_false *)
Lemma propagate_min_sorted d min_v v :
  sorted_dom d = true -> dom_in d v = true -> min_v <= v -> no_head_gap d min_v ->
  sorted_dom (propagate_min d min_v) = true.
Proof.
  intros H Hv Hm G. apply sorted_dom_iff in H. destruct H as [S W]. apply sorted_dom_iff. split.
  - apply propagate_min_sep; auto.
  - apply (propagate_min_wf d min_v v); auto.
Qed.

Example propagate_min_sorted_original_false :
  ~ (forall d min_v v, sorted_dom d = true -> dom_in d v = true -> min_v <= v ->
       sorted_dom (propagate_min d min_v) = true).
Proof.
  intros H. specialize (H [(0, 1); (5, 6)] 3 5 eq_refl eq_refl ltac:(lia)). vm_compute in H. discriminate.
Qed.

(* intersection *)
Lemma isect_in f : forall a b x, In x (isect f a b) ->
  exists ra rb, In ra a /\ In rb b /\
    fst x = Z.max (fst ra) (fst rb) /\ snd x = Z.min (snd ra) (snd rb) /\ fst x <= snd x.
Proof.
  induction f as [|f IH]; intros a b x Hx; [destruct Hx|].
  destruct a as [|ra ta]; [destruct Hx|]. destruct b as [|rb tb]; [destruct Hx|].
  cbn [isect] in Hx.
  assert (R : In x (if snd ra <? snd rb then isect f ta (rb :: tb) else isect f (ra :: ta) tb) ->
              exists p q, In p (ra :: ta) /\ In q (rb :: tb) /\
                fst x = Z.max (fst p) (fst q) /\ snd x = Z.min (snd p) (snd q) /\ fst x <= snd x).
  { destruct (snd ra <? snd rb); intros H; apply IH in H; destruct H as (p & q & Hp & Hq & H); exists p, q.
    - split; [right; auto|]. split; auto.
    - split; auto. split; [right; auto|]. auto. }
  destruct (Z.max (fst ra) (fst rb) <=? Z.min (snd ra) (snd rb)) eqn:C; auto.
  destruct Hx as [<-|Hx]; auto.
  exists ra, rb. cbn [fst snd]. split; [left; auto|]. split; [left; auto|]. lia.
Qed.

Lemma isect_sep f : forall a b, sep_dom a -> sep_dom b -> sep_dom (isect f a b).
Proof.
  induction f as [|f IH]; intros a b Sa Sb; [exact I|].
  destruct a as [|ra ta]; [exact I|]. destruct b as [|rb tb]; [exact I|].
  cbn [isect].
  set (rest := if snd ra <? snd rb then isect f ta (rb :: tb) else isect f (ra :: ta) tb).
  assert (Sr : sep_dom rest).
  { unfold rest. destruct (snd ra <? snd rb); apply IH; auto; [apply Sa | apply Sb]. }
  destruct (Z.max (fst ra) (fst rb) <=? Z.min (snd ra) (snd rb)) eqn:C; auto.
  cbn [sep_dom]. split; auto. intros x Hx. cbn [snd]. unfold rest in Hx.
  destruct (snd ra <? snd rb) eqn:D; apply isect_in in Hx; destruct Hx as (p & q & Hp & Hq & Hf & _).
  - pose proof (proj1 Sa p Hp). lia.
  - pose proof (proj1 Sb q Hq). lia.
Qed.

Lemma isect_wf f a b x : In x (isect f a b) -> fst x <= snd x.
Proof. intros H. apply isect_in in H. destruct H as (p & q & _ & _ & _ & _ & H). exact H. Qed.

(* the result of the intersection is sorted even when the inputs have empty ranges *)
Lemma isect_sorted f a b : sep_dom a -> sep_dom b -> sorted_dom (isect f a b) = true.
Proof.
  intros Sa Sb. apply sorted_dom_iff. split; [apply isect_sep; auto|]. intros r. apply isect_wf.
Qed.

Lemma intersect_dom_sorted a b : sorted_dom a = true -> sorted_dom b = true -> sorted_dom (intersect_dom a b) = true.
Proof. intros Sa Sb. apply isect_sorted; apply sorted_dom_sep; auto. Qed.

Lemma isect_sound_sep v f : forall a b,
  (length a + length b <= f)%nat -> sep_dom a -> sep_dom b ->
  dom_in a v = true -> dom_in b v = true -> dom_in (isect f a b) v = true.
Proof.
  induction f as [|f IH]; intros a b Hf Sa Sb Ha Hb.
  - destruct a; [discriminate|]. cbn in Hf. lia.
  - destruct a as [|ra ta]; [discriminate|]. destruct b as [|rb tb]; [discriminate|].
    cbn [isect]. cbn [length] in Hf.
    pose proof (sep_dom_tail _ _ Sa) as Sta. pose proof (sep_dom_tail _ _ Sb) as Stb.
    assert (Rest : (in_rng ra v && in_rng rb v = false) ->
                   dom_in (if snd ra <? snd rb then isect f ta (rb :: tb) else isect f (ra :: ta) tb) v = true).
    { intros N. rewrite dom_in_cons in Ha, Hb.
      destruct (dom_in ta v) eqn:Da; destruct (dom_in tb v) eqn:Db.
      - destruct (snd ra <? snd rb).
        + apply IH; auto. cbn [length]. lia. rewrite dom_in_cons, Db. apply orb_true_r.
        + apply IH; auto. cbn [length]. lia. rewrite dom_in_cons, Da. apply orb_true_r.
      - pose proof (sep_dom_tail_gt ra ta v Sa Da) as G. rewrite orb_false_r in Hb.
        destruct (snd ra <? snd rb) eqn:C.
        + apply IH; auto. cbn [length]. lia. rewrite dom_in_cons, Hb. reflexivity.
        + exfalso. unfold in_rng in *. lia.
      - pose proof (sep_dom_tail_gt rb tb v Sb Db) as G. rewrite orb_false_r in Ha.
        destruct (snd ra <? snd rb) eqn:C.
        + exfalso. unfold in_rng in *. lia.
        + apply IH; auto. cbn [length]. lia. rewrite dom_in_cons, Ha. reflexivity.
      - rewrite orb_false_r in Ha, Hb. rewrite Ha, Hb in N. discriminate. }
    destruct (in_rng ra v && in_rng rb v) eqn:Both.
    + replace (Z.max (fst ra) (fst rb) <=? Z.min (snd ra) (snd rb)) with true by (unfold in_rng in *; lia).
      rewrite dom_in_cons. apply orb_true_iff. left. unfold in_rng in *. cbn [fst snd]. lia.
    + specialize (Rest eq_refl). destruct (Z.max (fst ra) (fst rb) <=? Z.min (snd ra) (snd rb)); auto.
      rewrite dom_in_cons, Rest. apply orb_true_r.
Qed.

Lemma intersect_dom_sound_sep a b v :
  sep_dom a -> sep_dom b -> dom_in a v = true -> dom_in b v = true -> dom_in (intersect_dom a b) v = true.
Proof. intros. unfold intersect_dom. apply isect_sound_sep; auto. Qed.

(* values of the intersection are in both, whatever the inputs *)
Lemma intersect_dom_complete a b v :
  dom_in (intersect_dom a b) v = true -> dom_in a v = true /\ dom_in b v = true.
Proof.
  intros H. apply dom_in_iff in H. destruct H as (x & Hx & Hv). apply isect_in in Hx.
  destruct Hx as (p & q & Hp & Hq & Hf & Hs & _).
  split; apply dom_in_iff; [exists p | exists q]; split; auto; lia.
Qed.

(* the step *)
Definition wf_con (k : vcon) : Prop :=
  match k with CIn items => forall r, In r items -> fst r <= snd r | _ => True end.

Lemma apply1_sep d k : sep_dom d -> sep_dom (apply1 d k).
Proof.
  intros H. destruct k as [m|m|items]; cbn [apply1].
  - apply propagate_max_sep; auto.
  - apply propagate_min_sep; auto.
  - apply isect_sep; auto. apply norm_items_sep.
Qed.

Lemma apply1_in d k v : sep_dom d -> dom_in d v = true -> sat1 v k = true -> dom_in (apply1 d k) v = true.
Proof.
  intros S Hv Hk. destruct k as [m|m|items]; cbn [apply1 sat1] in *.
  - apply propagate_max_sound; auto. lia.
  - apply propagate_min_sound_sep; auto. lia.
  - apply intersect_dom_sound_sep; auto. apply norm_items_sep. rewrite norm_items_in. exact Hk.
Qed.

(* CORRECTED: with sorted_dom in place of sep_dom in the conclusion the statement is false
   (apply1_sound_original_false); the hypothesis is weakened to sep_dom accordingly (sorted_dom_sep), so that the
   statement can be iterated.  wf_con k is kept as asked although the proof does not use it. *)
Theorem apply1_sound d k v :
  sep_dom d -> dom_in d v = true -> sat1 v k = true -> wf_con k ->
  sep_dom (apply1 d k) /\ dom_in (apply1 d k) v = true.
Proof. intros S Hv Hk _. split; [apply apply1_sep | apply apply1_in]; auto. Qed.

Example apply1_sound_original_false :
  ~ (forall d k v, sorted_dom d = true -> dom_in d v = true -> sat1 v k = true -> wf_con k ->
       sorted_dom (apply1 d k) = true /\ dom_in (apply1 d k) v = true).
Proof.
  intros H. destruct (H [(0, 1); (5, 6)] (CMin 3) 5 eq_refl eq_refl eq_refl I) as [H1 _].
  vm_compute in H1. discriminate.
Qed.

(* when sorted_dom itself is preserved *)
Definition no_min_gap (d : dom) (k : vcon) : Prop := match k with CMin m => no_head_gap d m | _ => True end.

Theorem apply1_sorted d k v :
  sorted_dom d = true -> dom_in d v = true -> sat1 v k = true -> no_min_gap d k ->
  sorted_dom (apply1 d k) = true.
Proof.
  intros S Hv Hk G. destruct k as [m|m|items]; cbn [apply1 sat1 no_min_gap] in *.
  - apply (propagate_max_sorted d m v); auto. lia.
  - apply (propagate_min_sorted d m v); auto. lia.
  - apply isect_sorted; [apply sorted_dom_sep; auto | apply norm_items_sep].
Qed.

(* ---------- 3. the fold ---------- *)
Lemma infer_cons ty k ks : infer ty (k :: ks) = infer (apply1 ty k) ks.
Proof. reflexivity. Qed.

Lemma infer_sep ks : forall ty, sep_dom ty -> sep_dom (infer ty ks).
Proof. induction ks as [|k ks IH]; intros ty H; auto. rewrite infer_cons. apply IH. apply apply1_sep; auto. Qed.

Theorem infer_sound_strong ks : forall ty v,
  sep_dom ty -> dom_in ty v = true -> forallb (sat1 v) ks = true ->
  sep_dom (infer ty ks) /\ dom_in (infer ty ks) v = true.
Proof.
  induction ks as [|k ks IH]; intros ty v S Hv Hk; [split; auto|].
  cbn [forallb] in Hk. apply andb_true_iff in Hk. destruct Hk as [H1 H2].
  rewrite infer_cons. apply IH; auto. apply apply1_sep; auto. apply apply1_in; auto.
Qed.

Theorem infer_sound ty ks v :
  sorted_dom ty = true -> dom_in ty v = true -> Forall wf_con ks -> forallb (sat1 v) ks = true ->
  dom_in (infer ty ks) v = true.
Proof. intros S Hv _ Hk. apply infer_sound_strong; auto. apply sorted_dom_sep; auto. Qed.

Theorem type_dom_sorted sg w : 1 <= w -> sorted_dom (type_dom sg w) = true.
Proof.
  intros Hw. destruct (pow2_half w Hw) as [P2 P0]. unfold type_dom. destruct sg; cbn [sorted_dom fst snd]; lia.
Qed.

Corollary infer_type_sound sg w ks v :
  1 <= w -> dom_in (type_dom sg w) v = true -> Forall wf_con ks -> forallb (sat1 v) ks = true ->
  dom_in (infer (type_dom sg w) ks) v = true.
Proof. intros Hw. apply infer_sound. apply type_dom_sorted; auto. Qed.

(* the library's order: the `in` constraints first, then the comparisons round after round *)
Lemma forallb_filter {A} (p q : A -> bool) l : forallb p l = true -> forallb p (filter q l) = true.
Proof.
  induction l as [|a t IH]; cbn [forallb filter]; auto. intros H. apply andb_true_iff in H. destruct H as [H1 H2].
  destruct (q a); cbn [forallb]; auto. rewrite H1. cbn. auto.
Qed.

Lemma iter_infer_sound n cmps v : forall d,
  sep_dom d -> dom_in d v = true -> forallb (sat1 v) cmps = true ->
  sep_dom (Nat.iter n (fun d => infer d cmps) d) /\ dom_in (Nat.iter n (fun d => infer d cmps) d) v = true.
Proof.
  induction n as [|n IH]; intros d S Hv Hk; [split; auto|].
  cbn [Nat.iter nat_rect]. destruct (IH d S Hv Hk) as [S' Hv'].
  apply infer_sound_strong; auto.
Qed.

Theorem infer_fix_sound_strong ty ks v :
  sep_dom ty -> dom_in ty v = true -> forallb (sat1 v) ks = true ->
  sep_dom (infer_fix ty ks) /\ dom_in (infer_fix ty ks) v = true.
Proof.
  intros S Hv Hk. unfold infer_fix. cbv zeta.
  destruct (infer_sound_strong (filter is_in ks) ty v S Hv (forallb_filter _ _ _ Hk)) as [S0 H0].
  apply iter_infer_sound; auto. apply forallb_filter; auto.
Qed.

Theorem infer_fix_sound ty ks v :
  sorted_dom ty = true -> dom_in ty v = true -> Forall wf_con ks -> forallb (sat1 v) ks = true ->
  dom_in (infer_fix ty ks) v = true.
Proof. intros S Hv _ Hk. apply infer_fix_sound_strong; auto. apply sorted_dom_sep; auto. Qed.

Corollary infer_fix_type_sound sg w ks v :
  1 <= w -> dom_in (type_dom sg w) v = true -> Forall wf_con ks -> forallb (sat1 v) ks = true ->
  dom_in (infer_fix (type_dom sg w) ks) v = true.
Proof. intros Hw. apply infer_fix_sound. apply type_dom_sorted; auto. Qed.

(* ---------- 4. no constraint ---------- *)
Theorem infer_no_constraint ty : infer ty [] = ty.
Proof. reflexivity. Qed.

(* ---------- 5. max and in are exact ---------- *)
Definition max_in_con (k : vcon) : Prop := match k with CMin _ => False | _ => True end.

Lemma propagate_max_complete d m v :
  sep_dom d -> dom_in (propagate_max d m) v = true -> dom_in d v = true /\ v <= m.
Proof.
  intros S H. destruct d as [|r0 t]; [discriminate|].
  destruct (propagate_max_eq r0 t m) as (i & x & Hi & Hc & E). rewrite E in H. clear E.
  pose proof (nth_error_In _ _ Hi) as Hx.
  rewrite dom_in_app in H. apply orb_true_iff in H. destruct H as [H|H].
  - apply dom_in_iff in H. destruct H as (r & Hr & Hv).
    destruct Hc as [->|Hc]; [destruct Hr|].
    rewrite (nth_error_decomp _ _ _ Hi) in S. apply sep_dom_app in S. destruct S as (_ & _ & S3).
    specialize (S3 r x Hr (or_introl eq_refl)).
    split; [|lia]. apply dom_in_iff. exists r. split; [|lia]. eapply in_firstn_in; eauto.
  - cbn in H. rewrite orb_false_r in H. split; [|lia]. apply dom_in_iff. exists x. split; auto. lia.
Qed.

Lemma apply1_exact d k v :
  sep_dom d -> max_in_con k -> dom_in (apply1 d k) v = true -> dom_in d v = true /\ sat1 v k = true.
Proof.
  intros S Hk H. destruct k as [m|m|items]; cbn [apply1 sat1 max_in_con] in *.
  - apply propagate_max_complete in H; auto. split; [tauto | lia].
  - destruct Hk.
  - apply intersect_dom_complete in H. rewrite norm_items_in in H. exact H.
Qed.

Theorem infer_max_in_exact_strong ks : forall ty v,
  sep_dom ty -> Forall max_in_con ks -> dom_in (infer ty ks) v = true ->
  forallb (sat1 v) ks = true /\ dom_in ty v = true.
Proof.
  induction ks as [|k ks IH]; intros ty v S Hk H; [split; auto|].
  inversion Hk as [|? ? K1 K2]; subst. rewrite infer_cons in H.
  destruct (IH _ _ (apply1_sep ty k S) K2 H) as [F1 F2].
  destruct (apply1_exact ty k v S K1 F2) as [G1 G2].
  split; auto. cbn [forallb]. rewrite G2, F1. reflexivity.
Qed.

(* neither well-formed items nor sortedness of the result are needed *)
Theorem infer_max_in_exact ty ks v :
  sorted_dom ty = true -> Forall max_in_con ks -> dom_in (infer ty ks) v = true ->
  forallb (sat1 v) ks = true /\ dom_in ty v = true.
Proof. intros S. apply infer_max_in_exact_strong. apply sorted_dom_sep; auto. Qed.

Corollary infer_max_in_iff ty ks v :
  sorted_dom ty = true -> Forall max_in_con ks ->
  (dom_in (infer ty ks) v = true <-> dom_in ty v = true /\ forallb (sat1 v) ks = true).
Proof.
  intros S K. split.
  - intros H. apply (infer_max_in_exact ty ks v) in H; tauto.
  - intros [H1 H2]. apply infer_sound_strong; auto. apply sorted_dom_sep; auto.
Qed.

(* min is not exact: the range that becomes the first one is not cut *)
Example infer_min_not_exact :
  infer [(0, 1); (3, 6)] [CMin 5] = [(3, 6)] /\ dom_in (infer [(0, 1); (3, 6)] [CMin 5]) 3 = true /\ sat1 3 (CMin 5) = false.
Proof. vm_compute. auto. Qed.

(* the same for the library's order *)
Lemma infer_fix_no_constraint ty : infer_fix ty [] = ty.
Proof.
  unfold infer_fix. cbn [filter infer fold_left length]. generalize (S (S (length ty + 0))). intros n.
  induction n as [|n IH]; cbn [Nat.iter nat_rect]; auto.
Qed.

Lemma forallb_unfilter {A} (p q : A -> bool) l :
  forallb p (filter q l) = true -> forallb p (filter (fun x => negb (q x)) l) = true -> forallb p l = true.
Proof.
  induction l as [|a t IH]; cbn [forallb filter]; auto.
  destruct (q a); cbn [negb forallb]; intros H1 H2.
  - apply andb_true_iff in H1. destruct H1 as [H1 H1']. rewrite H1. cbn. auto.
  - apply andb_true_iff in H2. destruct H2 as [H2 H2']. rewrite H2. cbn. auto.
Qed.

Lemma Forall_filter_sub {A} (P : A -> Prop) (q : A -> bool) l : Forall P l -> Forall P (filter q l).
Proof. rewrite !Forall_forall. intros H x Hx. apply filter_In in Hx. apply H. tauto. Qed.

Lemma iter_infer_sep n cmps : forall d, sep_dom d -> sep_dom (Nat.iter n (fun d => infer d cmps) d).
Proof. induction n as [|n IH]; intros d S; cbn [Nat.iter nat_rect]; auto. apply infer_sep. apply IH; auto. Qed.

Lemma iter_infer_back n cmps v : forall d,
  sep_dom d -> Forall max_in_con cmps -> dom_in (Nat.iter n (fun d => infer d cmps) d) v = true -> dom_in d v = true.
Proof.
  induction n as [|n IH]; intros d S K H; cbn [Nat.iter nat_rect] in H; auto.
  apply infer_max_in_exact_strong in H; auto; [|apply iter_infer_sep; auto]. apply IH; tauto.
Qed.

Theorem infer_fix_max_in_exact ty ks v :
  sorted_dom ty = true -> Forall max_in_con ks -> dom_in (infer_fix ty ks) v = true ->
  forallb (sat1 v) ks = true /\ dom_in ty v = true.
Proof.
  intros S K H. apply sorted_dom_sep in S. unfold infer_fix in H. cbv zeta in H.
  set (d0 := infer ty (filter is_in ks)) in *. set (cmps := filter (fun k => negb (is_in k)) ks) in *.
  assert (S0 : sep_dom d0) by (apply infer_sep; auto).
  assert (Kc : Forall max_in_con cmps) by (apply Forall_filter_sub; auto).
  cbn [Nat.iter nat_rect] in H.
  apply infer_max_in_exact_strong in H; auto; [|apply infer_sep; apply iter_infer_sep; auto].
  destruct H as [F1 H]. apply infer_max_in_exact_strong in H; auto; [|apply iter_infer_sep; auto].
  destruct H as [_ H]. apply iter_infer_back in H; auto.
  apply infer_max_in_exact_strong in H; auto; [|apply Forall_filter_sub; auto].
  destruct H as [F2 H]. split; auto. apply (forallb_unfilter _ is_in); auto.
Qed.

(* ---------- 6. examples ---------- *)
Definition ks_ex : list vcon := [CMax 12; CMin 2; CIn [(9, 10); (1, 3); (4, 4); (14, 15)]].

Example infer_ex : infer (type_dom false 4) ks_ex = [(2, 4); (9, 10)].
Proof. vm_compute. reflexivity. Qed.

Example infer_fix_ex : infer_fix (type_dom false 4) ks_ex = [(2, 4); (9, 10)].
Proof. vm_compute. reflexivity. Qed.

Example bounds_check_ok : bounds_check false 4 ks_ex [(2, 4); (9, 10)] = 0.
Proof. vm_compute. reflexivity. Qed.

(* a recorded domain that misses 9: the tie and the property both fail *)
Example bounds_check_missing : bounds_check false 4 ks_ex [(2, 4); (10, 10)] = 3.
Proof. vm_compute. reflexivity. Qed.

(* the inverted range: no value *)
Example infer_inverted : infer (type_dom true 4) [CMax (-9)] = [(-8, -9)].
Proof. vm_compute. reflexivity. Qed.

(* why the rounds matter: one pass keeps (31,31), the second round cuts it to nothing *)
Example infer_one_pass : infer (type_dom false 6) [CIn [(31, 31); (8, 8)]; CMin 51] = [(31, 31)].
Proof. vm_compute. reflexivity. Qed.

Example infer_fix_rounds : infer_fix (type_dom false 6) [CIn [(31, 31); (8, 8)]; CMin 51] = [(51, 31)].
Proof. vm_compute. reflexivity. Qed.

Print Assumptions norm_items_sorted.
Print Assumptions norm_items_in.
Print Assumptions propagate_max_sorted.
Print Assumptions propagate_min_sorted.
Print Assumptions intersect_dom_sorted.
Print Assumptions apply1_sound.
Print Assumptions apply1_sorted.
Print Assumptions infer_sound_strong.
Print Assumptions infer_sound.
Print Assumptions type_dom_sorted.
Print Assumptions infer_type_sound.
Print Assumptions infer_fix_sound_strong.
Print Assumptions infer_fix_sound.
Print Assumptions infer_fix_type_sound.
Print Assumptions infer_no_constraint.
Print Assumptions infer_max_in_exact.
Print Assumptions infer_max_in_iff.
Print Assumptions infer_fix_max_in_exact.
Print Assumptions infer_fix_no_constraint.
