(* Dynamic and inline constraints (C06).  Executable definitions only.

   - a dynamic constraint block is kept apart from the always-on blocks (rand_obj.py build_field_model,
     add_dynamic_constraint) and contributes only where it is referenced;
   - a reference used as a statement on its own is an inline expansion of the block's statements
     (rand_info_builder.py visit_constraint_expr / visit_constraint_dynref);
   - a reference used inside an expression is a Boolean term: ExprDynRefModel.build = block.build = the conjunction of the
     block's statements, each built without context (constraint_scope_model.py build, expr_dynref_model.py build);
     | & ~ then act on 1-bit terms;
   - the with-block of randomize_with pushes a fresh scope, the body's statements are recorded into it, __exit__ pops it
     and hands exactly that block to this one solve (rand_obj.py __enter__/__exit__, impl/ctor.py scope stack).

   The blocks the harness writes are lists of expression statements (relational, 1 bit). *)
From Coq Require Import ZArith List Bool.
From PV Require Import Common.Bits Rand.Expr.
Import ListNotations.
Open Scope Z_scope.

(* the block as a Boolean term *)
Definition dyn_ref (es : list expr) : expr :=
  EReset (match es with
          | [] => ELit 1 false 1                       (* an empty block defaults to true *)
          | e :: t => fold_left (fun acc x => EBin And acc (EReset x)) t (EReset e)
          end).
(* the reference as a statement of its own *)
Definition dyn_stmt (es : list expr) : list stmt := map SExpr es.

(* ---- the scope stack of impl/ctor.py, as far as a with-block uses it ---- *)
Inductive ev :=
| EvStmt (s : stmt)                    (* push_constraint_stmt: recorded into the innermost scope *)
| EvWith (body : list ev).             (* a nested with-block that keeps its own statements: push scope, body, pop scope;
                                          the popped block is handed on as ONE statement of the enclosing scope *)
Definition stack := list (list stmt).  (* innermost first; each scope's statements in order *)
Definition record (s : stmt) (st : stack) : stack :=
  match st with [] => [] | top :: rest => (top ++ [s]) :: rest end.
(* a nested block is summarised as an implication with a true condition = the conjunction of its statements *)
Definition as_stmt (block : list stmt) : stmt := SImplies (ELit 1 false 1) block.
Fixpoint run_ev (fuel : nat) (e : ev) (st : stack) : stack :=
  match fuel with
  | O => st
  | S k =>
    match e with
    | EvStmt s => record s st
    | EvWith body =>
      match fold_left (fun acc x => run_ev k x acc) body ([] :: st) with
      | top :: rest => record (as_stmt top) rest
      | [] => []
      end
    end
  end.
Fixpoint ev_depth (e : ev) : nat :=
  match e with EvStmt _ => 1%nat | EvWith b => S (fold_right (fun x a => Nat.max (ev_depth x) a) 0%nat b) end.
(* what the body denotes, independent of any stack *)
Fixpoint ev_stmt (fuel : nat) (e : ev) : stmt :=
  match fuel with
  | O => SExpr (ELit 1 false 1)
  | S k => match e with
           | EvStmt s => s
           | EvWith body => as_stmt (map (ev_stmt k) body)
           end
  end.
(* randomize_with: push a fresh inline scope, run the body, pop; returns (stack afterwards, the block for this solve) *)
Definition with_block (body : list ev) (st : stack) : stack * list stmt :=
  let d := S (fold_right (fun x a => Nat.max (ev_depth x) a) 0%nat body) in
  match fold_left (fun acc x => run_ev d x acc) body ([] :: st) with
  | top :: rest => (rest, top)
  | [] => ([], [])
  end.
(* the statements one call enforces *)
Definition enforced (class_stmts inline : list stmt) : list stmt := class_stmts ++ inline.
