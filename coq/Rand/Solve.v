(* The hard phase of Randomizer.randomize, abstracted over the solver: the terms handed to the solver, the
   read-back of a solver model into field values (FieldScalarModel.post_randomize), and the outcome.
   Executable definitions only (the solver itself enters the theorems as a hypothesis-carrying parameter). *)
From Coq Require Import ZArith List Bool.
From PV Require Import Common.Bits Rand.BV Rand.Expr Rand.Lower Rand.Typing.
Import ListNotations.
Open Scope Z_scope.

(* the hard terms of a call: every hard statement lowered (soft statements give none), plus the domain term of
   every random enum field *)
Definition hard_terms (G : fenv) (B : list fbuild) (stmts : list stmt) : list bvterm :=
  flat_map (fun s => match lower_s G B false s with Some t => [t] | None => [] end) stmts.
Definition enum_terms (G : fenv) (B : list fbuild) (enums : list (option (list Z))) : list bvterm :=
  flat_map (fun p : nat * (fbuild * option (list Z)) =>
              match snd (snd p) with
              | Some vals => if fb_rand (fst (snd p))
                             then match enum_domain G (fst p) vals with Some t => [t] | None => [] end
                             else []
              | None => []
              end)
           (combine (seq 0 (length B)) (combine B enums)).

(* post_randomize: a random field takes the two's-complement reading of its variable; others keep their value *)
Definition readback (G : fenv) (B : list fbuild) (rho sigma : nat -> Z) : nat -> Z :=
  fun id => match nth_error B id with
            | Some b => if fb_rand b then interp (fsg G id) (fw G id) (wrapU (fw G id) (sigma id)) else rho id
            | None => rho id
            end.

Inductive outcome := Ok (rho' : nat -> Z) | SolveFailure.
(* sat : the solver, returning a model of all terms or None *)
Definition solve (sat : list bvterm -> option (nat -> Z))
                 (G : fenv) (B : list fbuild) (enums : list (option (list Z))) (rho : nat -> Z) (stmts : list stmt) : outcome :=
  match sat (hard_terms G B stmts ++ enum_terms G B enums) with
  | Some sigma => Ok (readback G B rho sigma)
  | None => SolveFailure
  end.

(* candidate results: agree with rho on the non-random fields, values in their types, enum fields on declared values *)
Definition candidate (G : fenv) (B : list fbuild) (enums : list (option (list Z))) (rho rho' : nat -> Z) : Prop :=
  forall id d b, nth_error G id = Some d -> nth_error B id = Some b ->
    in_type (f_sg d) (f_w d) (rho' id) = true /\
    (fb_rand b = false -> rho' id = rho id) /\
    (fb_rand b = true -> forall vals, nth_error enums id = Some (Some vals) -> In (rho' id) vals).
