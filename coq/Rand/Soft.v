(* Model of the soft-constraint machinery: RandInfoBuilder.visit_constraint_soft (priorities by visit order, guards of
   nested soft constraints collected from the enclosing if / else / implies), the terms built for them
   (ConstraintSoftModel.build(soft=True), ConstraintImpliesModel around nested ones) and the soft phase of
   Randomizer.randomize (all at once, else greedily by descending priority).  Executable definitions only. *)
From Coq Require Import ZArith List Bool.
From PV Require Import Common.Bits Rand.BV Rand.Expr Rand.Lower.
Import ListNotations.
Open Scope Z_scope.

(* a soft constraint with the conditions under which it applies (outermost first; an else branch contributes ~cond) *)
Record softitem := mkSoft { so_guards : list expr; so_expr : expr }.

(* visit order: statements in order; if: condition, then-branch, else-branch *)
Fixpoint soft_items_s (guards : list expr) (s : stmt) : list softitem :=
  let all := fix all (g : list expr) (l : list stmt) : list softitem :=
               match l with [] => [] | x :: t => soft_items_s g x ++ all g t end in
  match s with
  | SExpr _ => []
  | SUnique _ => []
  | SSoft e => [mkSoft guards e]
  | SIf c t f =>
    all (guards ++ [c]) t ++ match f with Some fl => all (guards ++ [ENot c]) fl | None => [] end
  | SImplies c b => all (guards ++ [c]) b
  end.
Definition soft_items (stmts : list stmt) : list softitem := flat_map (soft_items_s []) stmts.

(* the k-th visited of n soft constraints gets priority n + 2k (it is bumped by the running counter in both passes);
   the solve sorts by descending priority: last visited first *)
Definition priorities (n : nat) : list Z := map (fun k => Z.of_nat n + 2 * Z.of_nat k) (seq 0 n).
Definition by_priority {A} (l : list A) : list A := rev l.

(* the guard expression: cond0 & cond1 & ... (ExprBinModel And chain) *)
Definition guard_expr (gs : list expr) : option expr :=
  match gs with
  | [] => None
  | g :: t => Some (fold_left (fun acc x => EBin And acc x) t g)
  end.
(* the term assumed for a soft item *)
Definition lower_soft (G : fenv) (B : list fbuild) (it : softitem) : bvterm :=
  match guard_expr (so_guards it) with
  | None => lower_e G B (-1) (so_expr it)
  | Some g => BOp2 OImplies (lower_cond G B g) (lower_e G B (-1) (so_expr it))
  end.

(* meaning: the soft constraint is honoured iff its guards do not all hold, or its expression is true *)
Definition soft_holds (G : fenv) (rho : nat -> Z) (it : softitem) : option bool :=
  let fix guards_true (l : list expr) : option bool :=
      match l with
      | [] => Some true
      | g :: t => match truth G rho g with
                  | Some true => guards_true t
                  | Some false => Some false
                  | None => None
                  end
      end in
  match guards_true (so_guards it) with
  | Some true => truth G rho (so_expr it)
  | Some false => Some true
  | None => None
  end.

(* ---- the soft phase, over an abstract satisfiability test ---- *)
Section SoftPhase.
  Variable T : Type.                       (* terms *)
  Variable sat : list T -> bool.           (* is this set of terms satisfiable? *)
  (* greedy pass in the given order (already sorted by descending priority) *)
  Fixpoint greedy (hard : list T) (acc : list T) (softs : list T) : list T :=
    match softs with
    | [] => acc
    | s :: t => if sat (s :: acc ++ hard) then greedy hard (acc ++ [s]) t else greedy hard acc t
    end.
  Definition accepted (hard softs : list T) : list T :=
    if sat (softs ++ hard) then softs else greedy hard [] softs.
End SoftPhase.
