(* dist constraints (C15): the per-call rewrite of  dist(e, [weight(entry, w) ...])  done by
   visitors/dist_constraint_builder.py visit_constraint_dist:  e in [all entries]  plus, for every entry,
   (w == 0) -> not (e in entry).  Executable definitions only.
   An entry is a value (lo, None) or a range (lo, Some hi); its weight is an expression (a constant or a non-random field). *)
From Coq Require Import ZArith List Bool.
From PV Require Import Common.Bits Rand.Expr.
Import ListNotations.
Open Scope Z_scope.

Definition dentry := ((expr * option expr) * expr)%type.      (* entry, weight *)

Definition dist_stmts (e : expr) (ws : list dentry) : list stmt :=
  SExpr (e_in e (map fst ws))
  :: map (fun w => SImplies (EBin Eq (snd w) (ELit 0 false 8)) [SExpr (ENot (in_item e (fst w)))]) ws.

(* the integer reading the property speaks about: value v lies in an entry *)
Definition entry_holds (G : fenv) (rho : nat -> Z) (e : expr) (it : expr * option expr) : option bool :=
  truth G rho (in_item e it).
