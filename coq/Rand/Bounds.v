(* Bounds inference for one random field against constants (C14): the fragment of visitors/variable_bound_visitor.py in
   which every top-level statement relates the field to an integer constant (f < c, f <= c, f > c, f >= c) or confines
   it to a list of constant values and ranges (f in rangelist(...)).  Executable definitions only.

   The field starts with the range of its type (variable_bound_scalar_model.py); `<` and `<=` register a max propagator,
   `>` and `>=` a min propagator (variable_bound_max/min_propagator.py, modelled by Swizzle.propagate_max / propagate_min),
   `in` intersects the domain with the sorted, merged list of its items (variable_bound_in_propagator.py). *)
From Coq Require Import ZArith List Bool.
From PV Require Import Common.Bits Rand.BV Rand.Swizzle.
Import ListNotations.
Open Scope Z_scope.

Inductive vcon :=
| CMax (m : Z)            (* f <= m    (f < c  is  CMax (c - 1)) *)
| CMin (m : Z)            (* f >= m    (f > c  is  CMin (c + 1)) *)
| CIn (items : dom).      (* f in [items]; a single value v is the range (v, v) *)

(* VariableBoundInPropagator: items sorted by their lower end, then overlapping or adjacent ones merged *)
Fixpoint insert_item (r : Z * Z) (l : dom) : dom :=
  match l with
  | [] => [r]
  | x :: t => if fst r <? fst x then r :: l else x :: insert_item r t     (* stable: list.sort(key = lower end) *)
  end.
Definition sort_items (l : dom) : dom := fold_left (fun acc r => insert_item r acc) l [].
Fixpoint merge_items (acc : dom) (l : dom) : dom :=       (* acc: merged so far, last one first *)
  match l with
  | [] => rev acc
  | r :: t =>
    match acc with
    | last :: before =>
      if fst r <=? snd last + 1
      then merge_items ((fst last, Z.max (snd last) (snd r)) :: before) t
      else merge_items (r :: acc) t
    | [] => merge_items [r] t
    end
  end.
Definition norm_items (items : dom) : dom := merge_items [] (sort_items items).

Definition apply1 (d : dom) (k : vcon) : dom :=
  match k with
  | CMax m => propagate_max d m
  | CMin m => propagate_min d m
  | CIn items => intersect_dom d (norm_items items)
  end.
Definition infer (ty : dom) (ks : list vcon) : dom := fold_left apply1 ks ty.

(* the order in which the library applies them: an `in` is applied when its statement is visited; the comparisons are
   collected and then applied round after round until nothing changes (VariableBoundVisitor.process; a round after the
   domain is stable changes nothing, so a fixed number of rounds that is large enough gives the same result) *)
Definition is_in (k : vcon) : bool := match k with CIn _ => true | _ => false end.
Definition infer_fix (ty : dom) (ks : list vcon) : dom :=
  let d0 := infer ty (filter is_in ks) in
  let cmps := filter (fun k => negb (is_in k)) ks in
  Nat.iter (S (S (length d0 + length cmps))) (fun d => infer d cmps) d0.

(* the meaning of one constraint for a value *)
Definition sat1 (v : Z) (k : vcon) : bool :=
  match k with CMax m => v <=? m | CMin m => m <=? v | CIn items => dom_in items v end.

Definition type_dom (sg : bool) (w : Z) : dom :=
  if sg then [(- 2 ^ (w - 1), 2 ^ (w - 1) - 1)] else [(0, 2 ^ w - 1)].

Fixpoint zrange (lo : Z) (n : nat) : list Z := match n with O => [] | S k => lo :: zrange (lo + 1) k end.
(* the correspondence check: over every value of the type,
   bit 1: the recorded domain and the model's differ as sets (the tie);
   bit 2: a value satisfying every constraint lies outside the recorded domain (the property) *)
Definition bounds_check (sg : bool) (w : Z) (ks : list vcon) (recorded : dom) : Z :=
  let ty := type_dom sg w in
  let vals := zrange (fst (hd (0, 0) ty)) (Z.to_nat (2 ^ w)) in
  let m := infer_fix ty ks in
  (if forallb (fun v => Bool.eqb (dom_in recorded v) (dom_in m v)) vals then 0 else 1)
  + (if forallb (fun v => negb (forallb (sat1 v) ks) || dom_in recorded v) vals then 0 else 2).
