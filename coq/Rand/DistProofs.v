(* Theorems about the dist rewrite of Dist.v (C15):  dist(e, [weight(entry, w) ...])  becomes
   e in [all entries]  plus, for every entry,  (w == 0) -> ~(e in entry).
   The rewritten statements hold iff the value lies in some listed entry and in no entry whose weight is zero. *)
From Coq Require Import ZArith List Bool Lia Arith.
From PV Require Import Common.Bits Rand.Expr Rand.Unroll Rand.UnrollProofs Rand.Dyn Rand.DynProofs Rand.Dist.
Import ListNotations. Open Scope Z_scope.

(* ------------------------------------------------------------------ *)
(* 1. an entry test is a bit                                           *)
(* ------------------------------------------------------------------ *)
(* a comparison of two terms that have a meaning in every context is a 1-bit unsigned term with the same value in
   every context of at most 1 bit (eq_item_ok of UnrollProofs, for any relational operator and any right operand) *)
Lemma rel_bit G rho o l r :
  is_rel o = true -> defined G rho l -> defined G rho r ->
  1 <= Z.max (width_of G l) (width_of G r) ->
  exists B, bit G rho (EBin o l r) B.
Proof.
  intros Ho Hl Hr Hm.
  assert (H0 : exists B : bool, sem G rho (-1) false (EBin o l r) = Some (1, if B then 1 else 0)).
  { cbn [sem]. rewrite Ho.
    destruct (sem G rho (Z.max (-1) (Z.max (width_of G l) (width_of G r)))
                  (spec_signed G l && spec_signed G r) l) as [[wl a]|] eqn:El.
    - destruct (sem G rho (Z.max (-1) (Z.max (width_of G l) (width_of G r)))
                    (spec_signed G l && spec_signed G r) r) as [[wr b]|] eqn:Er.
      + eexists. reflexivity.
      + exfalso. exact (Hr _ _ Er).
    - exfalso. exact (Hl _ _ El). }
  destruct H0 as [B HB]. exists B. split; [|split].
  - cbn [width_of]. rewrite Ho. reflexivity.
  - cbn [spec_signed]. rewrite Ho. reflexivity.
  - intros c p Hc. rewrite <- HB. apply sem_bin_ctx. lia.
Qed.

(* the side conditions on one entry: its expressions have a meaning in every context and every comparison of the
   entry test is at least 1 bit wide *)
Definition item_ok (G : fenv) (rho : nat -> Z) (e : expr) (it : expr * option expr) : Prop :=
  match it with
  | (v, None) => defined G rho v /\ 1 <= Z.max (width_of G e) (width_of G v)
  | (lo, Some hi) => defined G rho lo /\ defined G rho hi /\
                     1 <= Z.max (width_of G e) (width_of G lo) /\ 1 <= Z.max (width_of G e) (width_of G hi)
  end.

Lemma in_item_bit G rho e it :
  (forall c p, sem G rho c p e <> None) -> item_ok G rho e it ->
  exists B, bit G rho (in_item e it) B.
Proof.
  intros He Hit. destruct it as [lo [hi|]]; cbn [in_item item_ok] in *.
  - destruct Hit as (Hlo & Hhi & Hwlo & Hwhi).
    destruct (rel_bit G rho Ge e lo eq_refl He Hlo Hwlo) as [B1 H1].
    destruct (rel_bit G rho Le e hi eq_refl He Hhi Hwhi) as [B2 H2].
    exists (B1 && B2). apply and_step; assumption.
  - destruct Hit as (Hv & Hw). apply rel_bit; [reflexivity|exact He|exact Hv|exact Hw].
Qed.

(* ------------------------------------------------------------------ *)
(* 2. membership in a list of entries that are bits                    *)
(* ------------------------------------------------------------------ *)
Lemma or_chain_bits G rho e : forall t acc A,
  (forall it, In it t -> exists B, bit G rho (in_item e it) B) ->
  bit G rho acc A ->
  exists B, bit G rho (fold_left (fun a x => EBin Or a (in_item e x)) t acc) B /\
            (B = true <-> A = true \/ exists it, In it t /\ truth G rho (in_item e it) = Some true).
Proof.
  induction t as [|x t IH]; intros acc A Hbits Hacc.
  - exists A. split; [exact Hacc|]. split.
    + intros H. left. exact H.
    + intros [H|(it & [] & _)]. exact H.
  - destruct (Hbits x (or_introl eq_refl)) as [Bx Hx].
    pose proof (bit_truth _ _ _ _ Hx) as Htx.
    destruct (IH (EBin Or acc (in_item e x)) (A || Bx)
                 (fun it Hit => Hbits it (or_intror Hit)) (or_step _ _ _ _ _ _ Hacc Hx)) as (B & HB & Hiff).
    exists B. split; [exact HB|]. rewrite Hiff. rewrite orb_true_iff. split.
    + intros [[HA|HBx]|(it & Hit & Ht)].
      * left. exact HA.
      * right. exists x. split; [left; reflexivity|]. rewrite Htx, HBx. reflexivity.
      * right. exists it. split; [right; exact Hit|exact Ht].
    + intros [HA|(it & [Hit|Hit] & Ht)].
      * left. left. exact HA.
      * subst it. left. right. rewrite Htx in Ht. inversion Ht. reflexivity.
      * right. exists it. split; assumption.
Qed.

Lemma e_in_empty G rho e : truth G rho (e_in e []) = Some false.
Proof. reflexivity. Qed.

(* e in [items] is defined, and true exactly when some entry test is *)
Lemma e_in_bits G rho e items :
  (forall it, In it items -> exists B, bit G rho (in_item e it) B) ->
  exists B, truth G rho (e_in e items) = Some B /\
            (B = true <-> exists it, In it items /\ truth G rho (in_item e it) = Some true).
Proof.
  intros Hbits. destruct items as [|x t].
  - exists false. split; [apply e_in_empty|]. split.
    + discriminate.
    + intros (it & [] & _).
  - destruct (Hbits x (or_introl eq_refl)) as [Bx Hx].
    pose proof (bit_truth _ _ _ _ Hx) as Htx.
    destruct (or_chain_bits G rho e t _ Bx (fun it Hit => Hbits it (or_intror Hit)) Hx) as (B & HB & Hiff).
    exists B. split.
    + unfold e_in. apply bit_ok_reset. exact HB.
    + rewrite Hiff. split.
      * intros [HBx|(it & Hit & Ht)].
        -- exists x. split; [left; reflexivity|]. rewrite Htx, HBx. reflexivity.
        -- exists it. split; [right; exact Hit|exact Ht].
      * intros (it & [Hit|Hit] & Ht).
        -- subst it. left. rewrite Htx in Ht. inversion Ht. reflexivity.
        -- right. exists it. split; assumption.
Qed.

Theorem e_in_truth : forall G rho e items,
  (forall it, In it items -> exists B, bit G rho (in_item e it) B) ->
  (truth G rho (e_in e items) = Some true <->
   exists it, In it items /\ truth G rho (in_item e it) = Some true).
Proof.
  intros G rho e items Hbits. destruct (e_in_bits G rho e items Hbits) as (B & HB & Hiff).
  rewrite HB, <- Hiff. split.
  - intros H. inversion H. reflexivity.
  - intros ->. reflexivity.
Qed.
Print Assumptions e_in_truth.

(* ------------------------------------------------------------------ *)
(* 3. the dist rewrite                                                 *)
(* ------------------------------------------------------------------ *)
(* every entry test is a bit, every weight test has a truth value *)
Definition dist_ok (G : fenv) (rho : nat -> Z) (e : expr) (ws : list dentry) : Prop :=
  (forall w, In w ws -> exists B, bit G rho (in_item e (fst w)) B) /\
  (forall w, In w ws -> exists b, truth G rho (EBin Eq (snd w) (ELit 0 false 8)) = Some b).

(* the sufficient condition in terms of definedness and widths *)
Lemma dist_ok_intro G rho e ws :
  (forall c p, sem G rho c p e <> None) ->
  (forall w, In w ws -> item_ok G rho e (fst w)) ->
  (forall w, In w ws -> exists b, truth G rho (EBin Eq (snd w) (ELit 0 false 8)) = Some b) ->
  dist_ok G rho e ws.
Proof.
  intros He Hit Hw. split; [|exact Hw].
  intros w Hin. apply in_item_bit; [exact He|apply Hit; exact Hin].
Qed.

(* a weight with a meaning in every context has a defined zero test *)
Lemma weight_test_defined G rho w :
  (forall c p, sem G rho c p w <> None) ->
  exists b, truth G rho (EBin Eq w (ELit 0 false 8)) = Some b.
Proof.
  intros Hw.
  destruct (rel_bit G rho Eq w (ELit 0 false 8) eq_refl Hw) as [B HB].
  - intros c p. cbn [sem]. discriminate.
  - cbn [width_of]. lia.
  - exists B. apply bit_truth. exact HB.
Qed.

Lemma holds_all_map_true G rho (A : Type) (f : A -> stmt) (l : list A) :
  holds_all G rho (map f l) = Some true <-> (forall x, In x l -> holds G rho (f x) = Some true).
Proof.
  induction l as [|x t IH].
  - simpl. split; [intros _ x []|reflexivity].
  - cbn [map]. rewrite holds_all_cons, opt_and_true, IH. split.
    + intros [Hx Ht] y [<-|Hy]; [exact Hx|apply Ht; exact Hy].
    + intros H. split; [apply H; left; reflexivity|]. intros y Hy. apply H. right. exact Hy.
Qed.

(* one guard statement: (w == 0) -> ~(e in entry) *)
Lemma dist_guard_holds G rho c b B b0 :
  bit G rho b B -> truth G rho c = Some b0 ->
  (holds G rho (SImplies c [SExpr (ENot b)]) = Some true <->
   (truth G rho c = Some true -> truth G rho b = Some false)).
Proof.
  intros Hb Hc. rewrite holds_implies_all, Hc. rewrite (bit_truth _ _ _ _ Hb).
  destruct b0.
  - cbn [holds_all fold_right holds]. rewrite (dyn_not _ _ _ _ Hb).
    destruct B; cbn [negb opt_and andb]; split; intros H; try reflexivity; try discriminate H.
    + discriminate (H eq_refl).
  - split; intros H; [intros H'; discriminate H'|reflexivity].
Qed.

Theorem dist_confines : forall G rho e ws, dist_ok G rho e ws ->
  (holds_all G rho (dist_stmts e ws) = Some true <->
     (exists w, In w ws /\ truth G rho (in_item e (fst w)) = Some true) /\
     (forall w, In w ws -> truth G rho (EBin Eq (snd w) (ELit 0 false 8)) = Some true ->
                truth G rho (in_item e (fst w)) = Some false)).
Proof.
  intros G rho e ws [Hbits Hwts]. unfold dist_stmts.
  rewrite holds_all_cons, opt_and_true, holds_all_map_true. cbn [holds].
  rewrite e_in_truth.
  2:{ intros it Hit. apply in_map_iff in Hit. destruct Hit as (w & <- & Hw). apply Hbits. exact Hw. }
  assert (H1 : (exists it, In it (map fst ws) /\ truth G rho (in_item e it) = Some true) <->
               (exists w, In w ws /\ truth G rho (in_item e (fst w)) = Some true)).
  { split.
    - intros (it & Hit & Ht). apply in_map_iff in Hit. destruct Hit as (w & <- & Hw). exists w. split; assumption.
    - intros (w & Hw & Ht). exists (fst w). split; [apply in_map; exact Hw|exact Ht]. }
  rewrite H1.
  assert (H2 : (forall w, In w ws ->
                  holds G rho (SImplies (EBin Eq (snd w) (ELit 0 false 8)) [SExpr (ENot (in_item e (fst w)))]) = Some true) <->
               (forall w, In w ws -> truth G rho (EBin Eq (snd w) (ELit 0 false 8)) = Some true ->
                  truth G rho (in_item e (fst w)) = Some false)).
  { split; intros H w Hw; destruct (Hbits w Hw) as [B HB]; destruct (Hwts w Hw) as [b0 Hb0];
      apply (dist_guard_holds G rho _ _ B b0 HB Hb0); apply H; exact Hw. }
  rewrite H2. tauto.
Qed.
Print Assumptions dist_confines.

(* the entry the value lies in has a non-zero weight *)
Corollary dist_nonzero_support : forall G rho e ws, dist_ok G rho e ws ->
  holds_all G rho (dist_stmts e ws) = Some true ->
  exists w, In w ws /\ truth G rho (in_item e (fst w)) = Some true /\
            truth G rho (EBin Eq (snd w) (ELit 0 false 8)) = Some false.
Proof.
  intros G rho e ws Hok H. pose proof Hok as [_ Hwts].
  apply (dist_confines G rho e ws Hok) in H. destruct H as [(w & Hw & Ht) Hz].
  exists w. split; [exact Hw|]. split; [exact Ht|].
  destruct (Hwts w Hw) as [[|] Hb]; [|exact Hb].
  specialize (Hz w Hw Hb). rewrite Ht in Hz. discriminate Hz.
Qed.
Print Assumptions dist_nonzero_support.

(* a value outside every entry, or inside an entry of weight zero, does not satisfy the rewritten dist *)
Corollary dist_unlisted_unsat : forall G rho e ws, dist_ok G rho e ws ->
  (forall w, In w ws -> truth G rho (in_item e (fst w)) <> Some true) ->
  holds_all G rho (dist_stmts e ws) <> Some true.
Proof.
  intros G rho e ws Hok Hno H. apply (dist_confines G rho e ws Hok) in H.
  destruct H as [(w & Hw & Ht) _]. exact (Hno w Hw Ht).
Qed.
Print Assumptions dist_unlisted_unsat.

Corollary dist_zero_weight_unsat : forall G rho e ws w, dist_ok G rho e ws ->
  In w ws -> truth G rho (EBin Eq (snd w) (ELit 0 false 8)) = Some true ->
  truth G rho (in_item e (fst w)) = Some true ->
  holds_all G rho (dist_stmts e ws) <> Some true.
Proof.
  intros G rho e ws w Hok Hw Hz Ht H. apply (dist_confines G rho e ws Hok) in H.
  destruct H as [_ H]. specialize (H w Hw Hz). rewrite Ht in H. discriminate H.
Qed.
Print Assumptions dist_zero_weight_unsat.

Corollary dist_all_zero_unsat : forall G rho e ws, dist_ok G rho e ws ->
  (forall w, In w ws -> truth G rho (EBin Eq (snd w) (ELit 0 false 8)) = Some true) ->
  holds_all G rho (dist_stmts e ws) <> Some true.
Proof.
  intros G rho e ws Hok Hall H.
  destruct (dist_nonzero_support G rho e ws Hok H) as (w & Hw & _ & Hnz).
  rewrite (Hall w Hw) in Hnz. discriminate Hnz.
Qed.
Print Assumptions dist_all_zero_unsat.

(* no entries: nothing to be a member of; unconditional (e is not even looked at) *)
Theorem dist_empty : forall G rho e, holds_all G rho (dist_stmts e []) = Some false.
Proof. intros. reflexivity. Qed.
Print Assumptions dist_empty.

(* ------------------------------------------------------------------ *)
(* 4. non-vacuity                                                      *)
(* ------------------------------------------------------------------ *)
Module DistExamples.
  Definition G : fenv := [mkF 8 false; mkF 4 false].
  Definition ws : list dentry :=
    [((ELit 1 true 32, None), ELit 10 true 32);
     ((ELit 2 true 32, Some (ELit 9 true 32)), EField 1);
     ((ELit 20 true 32, None), ELit 0 true 32)].
  Definition rho (x wt : Z) : nat -> Z := fun id => match id with 0%nat => x | _ => wt end.

  Example dist_example :
    holds_all G (rho 1 3) (dist_stmts (EField 0) ws) = Some true /\
    holds_all G (rho 5 3) (dist_stmts (EField 0) ws) = Some true /\
    holds_all G (rho 20 3) (dist_stmts (EField 0) ws) = Some false /\      (* weight zero *)
    holds_all G (rho 5 0) (dist_stmts (EField 0) ws) = Some false /\       (* weight field = 0 *)
    holds_all G (rho 7 0) (dist_stmts (EField 0) ws) = Some false /\
    holds_all G (rho 1 0) (dist_stmts (EField 0) ws) = Some true /\
    holds_all G (rho 100 3) (dist_stmts (EField 0) ws) = Some false.       (* unlisted *)
  Proof. vm_compute. repeat split. Qed.

  (* the hypotheses of the theorems hold of the example, for every valuation *)
  Lemma lit_defined G0 rho0 v sg w : defined G0 rho0 (ELit v sg w).
  Proof. intros c p. cbn [sem]. discriminate. Qed.

  Example dist_ok_example : forall r, dist_ok G r (EField 0) ws.
  Proof.
    intros r. apply dist_ok_intro.
    - apply sem_field_total.
    - intros w [<-|[<-|[<-|[]]]]; cbn [fst item_ok]; repeat split;
        try apply lit_defined; cbn [width_of]; try lia; vm_compute; discriminate.
    - intros w [<-|[<-|[<-|[]]]]; cbn [snd]; apply weight_test_defined;
        try apply lit_defined; apply sem_field_total.
  Qed.

  (* the theorem applied: with the weight field at 0 no value of 2..9 satisfies the dist *)
  Example dist_theorem_applied : forall x,
    truth G (rho x 0) (in_item (EField 0) (ELit 2 true 32, Some (ELit 9 true 32))) = Some true ->
    holds_all G (rho x 0) (dist_stmts (EField 0) ws) <> Some true.
  Proof.
    intros x Hx.
    apply (dist_zero_weight_unsat G (rho x 0) (EField 0) ws
             ((ELit 2 true 32, Some (ELit 9 true 32)), EField 1) (dist_ok_example _)).
    - right. left. reflexivity.
    - reflexivity.
    - exact Hx.
  Qed.

  (* dist_ok cannot be dropped: a weight without a meaning (1 / 0) makes the rewritten dist undefined while the
     integer reading on the right is satisfied *)
  Example dist_confines_needs_ok :
    ~ (forall G rho e ws,
         holds_all G rho (dist_stmts e ws) = Some true <->
         (exists w, In w ws /\ truth G rho (in_item e (fst w)) = Some true) /\
         (forall w, In w ws -> truth G rho (EBin Eq (snd w) (ELit 0 false 8)) = Some true ->
                    truth G rho (in_item e (fst w)) = Some false)).
  Proof.
    intros H.
    specialize (H G (rho 1 3) (EField 0)
                  [((ELit 1 true 32, None), EBin Div (ELit 1 true 32) (ELit 0 true 32))]).
    destruct H as [_ H]. assert (Hf : None = Some true); [|discriminate Hf].
    apply H. split.
    - eexists. split; [left; reflexivity|]. vm_compute. reflexivity.
    - intros w [<-|[]] Hz. vm_compute in Hz. discriminate Hz.
  Qed.
End DistExamples.
