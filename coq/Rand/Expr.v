(* Constraint expressions and statements of the DSL (what the user wrote), their types, and their
   meaning over integers (the specification S of C01/C02).  Executable definitions only.

   Meaning: every operator converts both operands to the operation type (W, sg) — W = max of the
   context width and the operands' widths, sg = both operands signed — computes over integers and wraps
   to W ("context-width propagation and signed-iff-both-signed extension").  Relational results are
   1-bit unsigned; ~ inverts after extension; a literal is its own-width pattern extended like any operand. *)
From Coq Require Import ZArith List Bool.
From PV Require Import Common.Bits.
Import ListNotations.
Open Scope Z_scope.

Inductive binop := Eq | Ne | Gt | Ge | Lt | Le | Add | Sub | Div | Mul | Mod | And | Or | Sll | Srl | Xor.
Definition is_rel (o : binop) : bool :=
  match o with Eq | Ne | Gt | Ge | Lt | Le => true | _ => false end.
Definition sign_sensitive (o : binop) : bool :=
  match o with Gt | Ge | Lt | Le | Div | Mod => true | _ => false end.

Inductive expr :=
| ELit (v : Z) (sg : bool) (w : Z)        (* python int = (32, signed); vsc.unsigned/signed(v, w) *)
| EField (id : nat)
| EBin (o : binop) (l r : expr)
| ENot (e : expr)                          (* ~e *)
| EReset (e : expr)                        (* e built with no context: the expansion of `in` / inside *)
| EPart (id : nat) (hi lo : Z).            (* field[hi:lo] *)

Record fdecl := mkF { f_w : Z; f_sg : bool }.
Definition fenv := list fdecl.
Definition fw (G : fenv) (id : nat) : Z := match nth_error G id with Some d => f_w d | None => 1 end.
Definition fsg (G : fenv) (id : nat) : bool := match nth_error G id with Some d => f_sg d | None => false end.

(* width() and is_signed() as the expression models report them *)
Fixpoint width_of (G : fenv) (e : expr) : Z :=
  match e with
  | ELit _ _ w => w
  | EField id => fw G id
  | EBin o l r => if is_rel o then 1 else Z.max (width_of G l) (width_of G r)
  | ENot e => width_of G e
  | EReset _ => 1
  | EPart _ hi lo => hi - lo + 1
  end.
Fixpoint signed_of (G : fenv) (e : expr) : bool :=
  match e with
  | ELit _ sg _ => sg
  | EField id => fsg G id
  | EBin _ l r => signed_of G l && signed_of G r
  | ENot e => signed_of G e
  | EReset _ => false
  | EPart _ _ _ => false
  end.
(* the specification's signedness: as above, but a relational result is unsigned *)
Fixpoint spec_signed (G : fenv) (e : expr) : bool :=
  match e with
  | ELit _ sg _ => sg
  | EField id => fsg G id
  | EBin o l r => if is_rel o then false else spec_signed G l && spec_signed G r
  | ENot e => spec_signed G e
  | EReset _ => false
  | EPart _ _ _ => false
  end.

(* extend a pattern u of width w to width W, sign-extending iff sg *)
Definition conv (sg : bool) (w W u : Z) : Z := wrapU W (interp sg w u).

Definition rel_eval (o : binop) (a b : Z) : bool :=
  match o with
  | Eq => a =? b | Ne => negb (a =? b) | Gt => b <? a | Ge => b <=? a | Lt => a <? b | Le => a <=? b
  | _ => false
  end.

(* integer meaning of an arithmetic operator at (W, sg) on converted patterns a, b ; None = undefined *)
Definition arith_eval (o : binop) (W : Z) (sg : bool) (a b : Z) : option Z :=
  match o with
  | Add => Some (wrapU W (a + b))
  | Sub => Some (wrapU W (a - b))
  | Mul => Some (wrapU W (a * b))
  | Div => if b =? 0 then None
           else Some (if sg then wrapU W (Z.quot (toS W a) (toS W b)) else a / b)
  | Mod => if b =? 0 then None
           else Some (if sg then wrapU W (Z.rem (toS W a) (toS W b)) else a mod b)
  | And => Some (Z.land a b)
  | Or => Some (Z.lor a b)
  | Xor => Some (Z.lxor a b)
  | Sll => Some (if W <=? b then 0 else wrapU W (a * 2 ^ b))
  | Srl => Some (if W <=? b then 0 else a / 2 ^ b)
  | _ => None
  end.

(* sem G rho ctx psg e = Some (width of the pattern, pattern) ; psg = the enclosing operation's signedness
   (only a literal needs it, to be extended like any other operand) *)
Fixpoint sem (G : fenv) (rho : nat -> Z) (ctx : Z) (psg : bool) (e : expr) : option (Z * Z) :=
  match e with
  | ELit v sg w =>
    let W := Z.max ctx w in
    Some (W, if w <? W then conv psg w W (wrapU w v) else wrapU w v)
  | EField id => Some (fw G id, wrapU (fw G id) (rho id))
  | EBin o l r =>
    let W := Z.max ctx (Z.max (width_of G l) (width_of G r)) in
    let sg := spec_signed G l && spec_signed G r in
    match sem G rho W sg l, sem G rho W sg r with
    | Some (wl, a), Some (wr, b) =>
      let a' := conv sg wl W a in
      let b' := conv sg wr W b in
      if is_rel o then
        Some (1, if (if sg then rel_eval o (toS W a') (toS W b') else rel_eval o a' b') then 1 else 0)
      else match arith_eval o W sg a' b' with Some v => Some (W, v) | None => None end
    | _, _ => None
    end
  | ENot e =>
    let W := Z.max ctx (width_of G e) in
    match sem G rho W (spec_signed G e) e with
    | Some (we, a) => Some (W, 2 ^ W - 1 - conv (spec_signed G e) we W a)
    | None => None
    end
  | EReset e =>
    match sem G rho (-1) false e with
    | Some (w, v) => Some (1, if v =? 0 then 0 else 1)
    | None => None
    end
  | EPart id hi lo =>
    if (0 <=? lo) && (lo <=? hi) && (hi <? fw G id)
    then Some (hi - lo + 1, (wrapU (fw G id) (rho id) / 2 ^ lo) mod 2 ^ (hi - lo + 1))
    else None
  end.

(* truth of an expression used as a condition or statement *)
Definition truth (G : fenv) (rho : nat -> Z) (e : expr) : option bool :=
  match sem G rho (-1) false e with Some (_, v) => Some (negb (v =? 0)) | None => None end.

(* ---- statements ---- *)
Inductive stmt :=
| SExpr (e : expr)
| SIf (c : expr) (t : list stmt) (f : option (list stmt))    (* else_if = an SIf alone in f *)
| SImplies (c : expr) (b : list stmt)
| SUnique (ids : list nat)                                    (* scalar fields *)
| SSoft (e : expr).

Definition opt_and (a b : option bool) : option bool :=
  match a, b with Some x, Some y => Some (x && y) | _, _ => None end.

(* hard meaning: a soft constraint contributes nothing *)
Fixpoint holds (G : fenv) (rho : nat -> Z) (s : stmt) : option bool :=
  let all := fix all (l : list stmt) : option bool :=
               match l with [] => Some true | x :: t => opt_and (holds G rho x) (all t) end in
  match s with
  | SExpr e => truth G rho e
  | SIf c t f =>
    match truth G rho c with
    | Some true => all t
    | Some false => match f with Some fl => all fl | None => Some true end
    | None => None
    end
  | SImplies c b =>
    match truth G rho c with
    | Some true => all b
    | Some false => Some true
    | None => None
    end
  | SUnique ids =>
    let fix pairs (l : list nat) : option bool :=
        match l with
        | [] => Some true
        | x :: t => opt_and (fold_right (fun y a => opt_and (truth G rho (EBin Ne (EField x) (EField y))) a) (Some true) t)
                            (pairs t)
        end in
    pairs ids
  | SSoft _ => Some true
  end.
Definition holds_all (G : fenv) (rho : nat -> Z) (l : list stmt) : option bool :=
  fold_right (fun s a => opt_and (holds G rho s) a) (Some true) l.

(* the expansion of `e in [items]` that ExprInModel.build performs: Or of (e == x) / ((e >= lo) & (e <= hi)),
   empty = false; built without context *)
Definition in_item (e : expr) (it : expr * option expr) : expr :=
  match it with
  | (x, None) => EBin Eq e x
  | (lo, Some hi) => EBin And (EBin Ge e lo) (EBin Le e hi)
  end.
Definition e_in (e : expr) (items : list (expr * option expr)) : expr :=
  EReset (match items with
          | [] => ELit 0 false 1          (* nothing to be a member of (repaired code) *)
          | it :: t => fold_left (fun acc x => EBin Or acc (in_item e x)) t (in_item e it)
          end).
