(* Proofs about the swizzle model (Rand/Swizzle.v): the slices partition the low d bits, imposing all slices of a pattern is
   agreement on the low d_width bits, those bits determine a value of the range, and the range-trimming primitives never
   remove a value that satisfies the bound. *)
From Coq Require Import ZArith List Bool Lia ZifyBool.
From PV Require Import Common.Bits Rand.BV Rand.Swizzle.
Import ListNotations.
Open Scope Z_scope.

(* ---------- intervals ---------- *)
Lemma in_zseq n i : In i (zseq n) <-> 0 <= i < n.
Proof.
  unfold zseq. rewrite in_map_iff. split.
  - intros (k & <- & Hk). apply in_seq in Hk. lia.
  - intros H. exists (Z.to_nat i). split; [lia|]. apply in_seq. lia.
Qed.

Lemma intervals_small d p : d <= 6 -> (In p (intervals d) <-> exists i, 0 <= i < d /\ p = (i, i)).
Proof.
  intros Hd. unfold intervals. replace (6 <? d) with false by lia. rewrite in_map_iff. split.
  - intros (i & <- & Hi). apply in_zseq in Hi. eauto.
  - intros (i & Hi & ->). exists i. split; auto. apply in_zseq; auto.
Qed.

Lemma intervals_big d : 6 < d ->
  intervals d = [(d / 6 - 1, 0); (2 * (d / 6) - 1, d / 6); (3 * (d / 6) - 1, 2 * (d / 6)); (4 * (d / 6) - 1, 3 * (d / 6));
                 (5 * (d / 6) - 1, 4 * (d / 6)); (d - 1, 5 * (d / 6))].
Proof.
  intros Hd. unfold intervals. replace (6 <? d) with true by lia.
  change (zseq 6) with [0; 1; 2; 3; 4; 5]. cbn [map].
  change (0 =? 5) with false. change (1 =? 5) with false. change (2 =? 5) with false.
  change (3 =? 5) with false. change (4 =? 5) with false. change (5 =? 5) with true. cbv iota.
  generalize (d / 6). intros iw.
  repeat (f_equal; try lia).
Qed.

Lemma div6_facts d : 6 < d -> 1 <= d / 6 /\ 6 * (d / 6) <= d < 6 * (d / 6) + 6.
Proof.
  intros Hd. pose proof (Z.div_mod d 6 ltac:(lia)). pose proof (Z.mod_pos_bound d 6 ltac:(lia)). lia.
Qed.

Lemma intervals_bounds d p : 0 <= d -> In p (intervals d) -> 0 <= snd p <= fst p /\ fst p < d.
Proof.
  intros Hd Hp. destruct (Z_le_gt_dec d 6) as [Hs|Hb].
  - apply intervals_small in Hp; auto. destruct Hp as (i & Hi & ->). cbn [fst snd]. lia.
  - rewrite intervals_big in Hp by lia. pose proof (div6_facts d ltac:(lia)) as F. revert Hp F. generalize (d / 6). intros iw Hp F.
    destruct Hp as [<-|[<-|[<-|[<-|[<-|[<-|[]]]]]]]; cbn [fst snd]; lia.
Qed.

Lemma intervals_cover d i : 0 <= i < d -> exists p, In p (intervals d) /\ snd p <= i <= fst p.
Proof.
  intros Hi. destruct (Z_le_gt_dec d 6) as [Hs|Hb].
  - exists (i, i). split; [|cbn [fst snd]; lia]. apply intervals_small; eauto.
  - rewrite intervals_big by lia. pose proof (div6_facts d ltac:(lia)) as F. revert F. generalize (d / 6). intros iw F.
    assert (C : i < iw \/ iw <= i < 2 * iw \/ 2 * iw <= i < 3 * iw \/ 3 * iw <= i < 4 * iw \/ 4 * iw <= i < 5 * iw \/ 5 * iw <= i)
      by lia.
    destruct C as [C|[C|[C|[C|[C|C]]]]].
    + exists (iw - 1, 0). split; [cbn [In]; tauto | cbn [fst snd]; lia].
    + exists (2 * iw - 1, iw). split; [cbn [In]; tauto | cbn [fst snd]; lia].
    + exists (3 * iw - 1, 2 * iw). split; [cbn [In]; tauto | cbn [fst snd]; lia].
    + exists (4 * iw - 1, 3 * iw). split; [cbn [In]; tauto | cbn [fst snd]; lia].
    + exists (5 * iw - 1, 4 * iw). split; [cbn [In]; tauto | cbn [fst snd]; lia].
    + exists (d - 1, 5 * iw). split; [cbn [In]; tauto | cbn [fst snd]; lia].
Qed.

Lemma intervals_disjoint d p q i :
  0 <= d -> In p (intervals d) -> In q (intervals d) -> snd p <= i <= fst p -> snd q <= i <= fst q -> p = q.
Proof.
  intros Hd Hp Hq Ip Iq. destruct (Z_le_gt_dec d 6) as [Hs|Hb].
  - apply intervals_small in Hp; auto. apply intervals_small in Hq; auto.
    destruct Hp as (a & Ha & ->). destruct Hq as (b & Hb & ->). cbn [fst snd] in *. f_equal; lia.
  - rewrite intervals_big in Hp, Hq by lia. pose proof (div6_facts d ltac:(lia)) as F. revert Hp Hq F. generalize (d / 6). intros iw Hp Hq F.
    destruct Hp as [<-|[<-|[<-|[<-|[<-|[<-|[]]]]]]]; destruct Hq as [<-|[<-|[<-|[<-|[<-|[<-|[]]]]]]];
      cbn [fst snd] in *; try reflexivity; exfalso; lia.
Qed.

(* ---------- slices vs low bits ---------- *)
Lemma mod_pow2_eq_bits n a b : 0 <= n ->
  (a mod 2 ^ n = b mod 2 ^ n <-> forall i, 0 <= i < n -> Z.testbit a i = Z.testbit b i).
Proof.
  intros Hn. split.
  - intros H i Hi. rewrite <- (Z.mod_pow2_bits_low a n i), <- (Z.mod_pow2_bits_low b n i) by lia. now rewrite H.
  - intros H. apply Z.bits_inj'. intros k Hk. destruct (Z_lt_le_dec k n).
    + rewrite !Z.mod_pow2_bits_low by lia. apply H; lia.
    + rewrite !Z.mod_pow2_bits_high by lia. reflexivity.
Qed.

Lemma slice_eq_bits x y hi lo : 0 <= lo <= hi ->
  (slice_val x hi lo = slice_val y hi lo <-> forall i, lo <= i <= hi -> Z.testbit x i = Z.testbit y i).
Proof.
  intros H. unfold slice_val. rewrite mod_pow2_eq_bits by lia. split.
  - intros A i Hi. specialize (A (i - lo)). rewrite !Z.div_pow2_bits in A by lia.
    replace (i - lo + lo) with i in A by lia. apply A; lia.
  - intros A i Hi. rewrite !Z.div_pow2_bits by lia. apply A; lia.
Qed.

Lemma slices_lowbits d x pat : 0 <= d ->
  (forall p, In p (intervals d) -> slice_val x (fst p) (snd p) = slice_val pat (fst p) (snd p)) <-> x mod 2 ^ d = pat mod 2 ^ d.
Proof.
  intros Hd. rewrite mod_pow2_eq_bits by lia. split.
  - intros A i Hi. destruct (intervals_cover d i Hi) as (p & Hp & Hr).
    pose proof (intervals_bounds d p Hd Hp) as B. specialize (A p Hp).
    rewrite slice_eq_bits in A by lia. apply A; lia.
  - intros A p Hp. pose proof (intervals_bounds d p Hd Hp) as B. apply slice_eq_bits; [lia|].
    intros i Hi. apply A. lia.
Qed.

Lemma mod_mod_pow2_le x w d : 0 <= d <= w -> (x mod 2 ^ w) mod 2 ^ d = x mod 2 ^ d.
Proof.
  intros H. apply mod_pow2_eq_bits; [lia|]. intros i Hi. apply Z.mod_pow2_bits_low. lia.
Qed.

(* ---------- the pinned width determines the value ---------- *)
Lemma window_inj M a v1 v2 : 0 < M -> a <= v1 < a + M -> a <= v2 < a + M -> v1 mod M = v2 mod M -> v1 = v2.
Proof.
  intros HM H1 H2 E. pose proof (Z.div_mod v1 M ltac:(lia)) as D1. pose proof (Z.div_mod v2 M ltac:(lia)) as D2.
  rewrite E in D1. remember (v1 / M) as q1. remember (v2 / M) as q2. remember (v2 mod M) as r.
  assert (K : q1 - q2 = 0) by nia. assert (q1 = q2) by lia. subst q1. lia.
Qed.

Lemma bitlen_nonneg m : 0 <= bitlen m.
Proof. unfold bitlen. destruct (m <=? 0); [lia|]. pose proof (Z.log2_nonneg m). lia. Qed.

Lemma bitlen_spec m : 0 <= m -> m < 2 ^ bitlen m.
Proof.
  intros Hm. unfold bitlen. destruct (m <=? 0) eqn:E.
  - assert (m = 0) by lia. subst. change (2 ^ 0) with 1. lia.
  - pose proof (Z.log2_spec m ltac:(lia)) as S. replace (Z.log2 m + 1) with (Z.succ (Z.log2 m)) by lia. lia.
Qed.

Lemma bitlen_le m k : 0 <= k -> m < 2 ^ k -> bitlen m <= k.
Proof.
  intros Hk H. unfold bitlen. destruct (m <=? 0) eqn:E; [lia|]. apply Z.log2_lt_pow2 in H; lia.
Qed.

Lemma pow2_half w : 1 <= w -> 2 ^ w = 2 * 2 ^ (w - 1) /\ 0 < 2 ^ (w - 1).
Proof.
  intros H. split.
  - replace w with (Z.succ (w - 1)) at 1 by lia. apply Z.pow_succ_r. lia.
  - apply Z.pow_pos_nonneg; lia.
Qed.

Lemma d_width_window sg w lo hi :
  1 <= w -> in_type sg w lo = true -> in_type sg w hi = true -> lo <= hi ->
  0 <= d_width lo hi w <= w /\ exists a, a <= lo /\ hi < a + 2 ^ d_width lo hi w.
Proof.
  intros Hw Tlo Thi Hle. destruct (pow2_half w Hw) as [P2 P0].
  unfold d_width. set (m := Z.max (Z.abs lo) (Z.abs hi)).
  pose proof (bitlen_nonneg m) as Bn. pose proof (bitlen_spec m ltac:(lia)) as Bs.
  assert (Tm : m < 2 ^ w) by (unfold in_type in *; destruct sg; lia).
  pose proof (bitlen_le m w ltac:(lia) Tm) as Bw.
  destruct (lo <? 0) eqn:Elo; cbn [andb].
  - assert (sg = true) by (destruct sg; auto; unfold in_type in *; lia). subst sg. unfold in_type in *.
    destruct (bitlen m <? w) eqn:Ed.
    + split; [lia|]. exists (- 2 ^ bitlen m).
      replace (2 ^ (bitlen m + 1)) with (2 * 2 ^ bitlen m) by (symmetry; apply Z.pow_succ_r; lia). lia.
    + assert (bitlen m = w) by lia. split; [lia|]. exists (- 2 ^ (w - 1)). replace (bitlen m) with w by lia. lia.
  - split; [lia|]. exists 0. lia.
Qed.

Lemma lowbits_injective sg w lo hi v1 v2 :
  1 <= w -> in_type sg w lo = true -> in_type sg w hi = true -> lo <= v1 <= hi -> lo <= v2 <= hi ->
  v1 mod 2 ^ d_width lo hi w = v2 mod 2 ^ d_width lo hi w -> v1 = v2.
Proof.
  intros Hw Tlo Thi H1 H2 E.
  destruct (d_width_window sg w lo hi Hw Tlo Thi ltac:(lia)) as [HD (a & A1 & A2)].
  assert (0 < 2 ^ d_width lo hi w) by (apply Z.pow_pos_nonneg; lia).
  apply (window_inj (2 ^ d_width lo hi w) a); auto; lia.
Qed.

Lemma d_width_le sg w lo hi : 1 <= w -> in_type sg w lo = true -> in_type sg w hi = true -> lo <= hi -> 0 <= d_width lo hi w <= w.
Proof. intros Hw Tlo Thi H. apply (d_width_window sg w lo hi Hw Tlo Thi H). Qed.
