(* Proofs about the swizzle model (Rand/Swizzle.v): the slices partition the low d bits, imposing all slices of a pattern is
   agreement on the low d_width bits, those bits determine a value of the range, and the range-trimming primitives never
   remove a value that satisfies the bound. *)
From Coq Require Import ZArith List Bool Lia ZifyBool.
From PV Require Import Common.Bits Rand.BV Rand.Swizzle.
Import ListNotations.
Open Scope Z_scope.

(* ---------- intervals ---------- *)
Lemma in_zseq n i : In i (zseq n) <-> 0 <= i < n.
Proof.
  unfold zseq. rewrite in_map_iff. split.
  - intros (k & <- & Hk). apply in_seq in Hk. lia.
  - intros H. exists (Z.to_nat i). split; [lia|]. apply in_seq. lia.
Qed.

Lemma intervals_small d p : d <= 6 -> (In p (intervals d) <-> exists i, 0 <= i < d /\ p = (i, i)).
Proof.
  intros Hd. unfold intervals. replace (6 <? d) with false by lia. rewrite in_map_iff. split.
  - intros (i & <- & Hi). apply in_zseq in Hi. eauto.
  - intros (i & Hi & ->). exists i. split; auto. apply in_zseq; auto.
Qed.

Lemma intervals_big d : 6 < d ->
  intervals d = [(d / 6 - 1, 0); (2 * (d / 6) - 1, d / 6); (3 * (d / 6) - 1, 2 * (d / 6)); (4 * (d / 6) - 1, 3 * (d / 6));
                 (5 * (d / 6) - 1, 4 * (d / 6)); (d - 1, 5 * (d / 6))].
Proof.
  intros Hd. unfold intervals. replace (6 <? d) with true by lia.
  change (zseq 6) with [0; 1; 2; 3; 4; 5]. cbn [map].
  change (0 =? 5) with false. change (1 =? 5) with false. change (2 =? 5) with false.
  change (3 =? 5) with false. change (4 =? 5) with false. change (5 =? 5) with true. cbv iota.
  generalize (d / 6). intros iw.
  repeat (f_equal; try lia).
Qed.

Lemma div6_facts d : 6 < d -> 1 <= d / 6 /\ 6 * (d / 6) <= d < 6 * (d / 6) + 6.
Proof.
  intros Hd. pose proof (Z.div_mod d 6 ltac:(lia)). pose proof (Z.mod_pos_bound d 6 ltac:(lia)). lia.
Qed.

Lemma intervals_bounds d p : 0 <= d -> In p (intervals d) -> 0 <= snd p <= fst p /\ fst p < d.
Proof.
  intros Hd Hp. destruct (Z_le_gt_dec d 6) as [Hs|Hb].
  - apply intervals_small in Hp; auto. destruct Hp as (i & Hi & ->). cbn [fst snd]. lia.
  - rewrite intervals_big in Hp by lia. pose proof (div6_facts d ltac:(lia)) as F. revert Hp F. generalize (d / 6). intros iw Hp F.
    destruct Hp as [<-|[<-|[<-|[<-|[<-|[<-|[]]]]]]]; cbn [fst snd]; lia.
Qed.

Lemma intervals_cover d i : 0 <= i < d -> exists p, In p (intervals d) /\ snd p <= i <= fst p.
Proof.
  intros Hi. destruct (Z_le_gt_dec d 6) as [Hs|Hb].
  - exists (i, i). split; [|cbn [fst snd]; lia]. apply intervals_small; eauto.
  - rewrite intervals_big by lia. pose proof (div6_facts d ltac:(lia)) as F. revert F. generalize (d / 6). intros iw F.
    assert (C : i < iw \/ iw <= i < 2 * iw \/ 2 * iw <= i < 3 * iw \/ 3 * iw <= i < 4 * iw \/ 4 * iw <= i < 5 * iw \/ 5 * iw <= i)
      by lia.
    destruct C as [C|[C|[C|[C|[C|C]]]]].
    + exists (iw - 1, 0). split; [cbn [In]; tauto | cbn [fst snd]; lia].
    + exists (2 * iw - 1, iw). split; [cbn [In]; tauto | cbn [fst snd]; lia].
    + exists (3 * iw - 1, 2 * iw). split; [cbn [In]; tauto | cbn [fst snd]; lia].
    + exists (4 * iw - 1, 3 * iw). split; [cbn [In]; tauto | cbn [fst snd]; lia].
    + exists (5 * iw - 1, 4 * iw). split; [cbn [In]; tauto | cbn [fst snd]; lia].
    + exists (d - 1, 5 * iw). split; [cbn [In]; tauto | cbn [fst snd]; lia].
Qed.

Lemma intervals_disjoint d p q i :
  0 <= d -> In p (intervals d) -> In q (intervals d) -> snd p <= i <= fst p -> snd q <= i <= fst q -> p = q.
Proof.
  intros Hd Hp Hq Ip Iq. destruct (Z_le_gt_dec d 6) as [Hs|Hb].
  - apply intervals_small in Hp; auto. apply intervals_small in Hq; auto.
    destruct Hp as (a & Ha & ->). destruct Hq as (b & Hb & ->). cbn [fst snd] in *. f_equal; lia.
  - rewrite intervals_big in Hp, Hq by lia. pose proof (div6_facts d ltac:(lia)) as F. revert Hp Hq F. generalize (d / 6). intros iw Hp Hq F.
    destruct Hp as [<-|[<-|[<-|[<-|[<-|[<-|[]]]]]]]; destruct Hq as [<-|[<-|[<-|[<-|[<-|[<-|[]]]]]]];
      cbn [fst snd] in *; try reflexivity; exfalso; lia.
Qed.

(* ---------- slices vs low bits ---------- *)
Lemma mod_pow2_eq_bits n a b : 0 <= n ->
  (a mod 2 ^ n = b mod 2 ^ n <-> forall i, 0 <= i < n -> Z.testbit a i = Z.testbit b i).
Proof.
  intros Hn. split.
  - intros H i Hi. rewrite <- (Z.mod_pow2_bits_low a n i), <- (Z.mod_pow2_bits_low b n i) by lia. now rewrite H.
  - intros H. apply Z.bits_inj'. intros k Hk. destruct (Z_lt_le_dec k n).
    + rewrite !Z.mod_pow2_bits_low by lia. apply H; lia.
    + rewrite !Z.mod_pow2_bits_high by lia. reflexivity.
Qed.

Lemma slice_eq_bits x y hi lo : 0 <= lo <= hi ->
  (slice_val x hi lo = slice_val y hi lo <-> forall i, lo <= i <= hi -> Z.testbit x i = Z.testbit y i).
Proof.
  intros H. unfold slice_val. rewrite mod_pow2_eq_bits by lia. split.
  - intros A i Hi. specialize (A (i - lo)). rewrite !Z.div_pow2_bits in A by lia.
    replace (i - lo + lo) with i in A by lia. apply A; lia.
  - intros A i Hi. rewrite !Z.div_pow2_bits by lia. apply A; lia.
Qed.

Lemma slices_lowbits d x pat : 0 <= d ->
  (forall p, In p (intervals d) -> slice_val x (fst p) (snd p) = slice_val pat (fst p) (snd p)) <-> x mod 2 ^ d = pat mod 2 ^ d.
Proof.
  intros Hd. rewrite mod_pow2_eq_bits by lia. split.
  - intros A i Hi. destruct (intervals_cover d i Hi) as (p & Hp & Hr).
    pose proof (intervals_bounds d p Hd Hp) as B. specialize (A p Hp).
    rewrite slice_eq_bits in A by lia. apply A; lia.
  - intros A p Hp. pose proof (intervals_bounds d p Hd Hp) as B. apply slice_eq_bits; [lia|].
    intros i Hi. apply A. lia.
Qed.

Lemma mod_mod_pow2_le x w d : 0 <= d <= w -> (x mod 2 ^ w) mod 2 ^ d = x mod 2 ^ d.
Proof.
  intros H. apply mod_pow2_eq_bits; [lia|]. intros i Hi. apply Z.mod_pow2_bits_low. lia.
Qed.

(* ---------- the pinned width determines the value ---------- *)
Lemma window_inj M a v1 v2 : 0 < M -> a <= v1 < a + M -> a <= v2 < a + M -> v1 mod M = v2 mod M -> v1 = v2.
Proof.
  intros HM H1 H2 E. pose proof (Z.div_mod v1 M ltac:(lia)) as D1. pose proof (Z.div_mod v2 M ltac:(lia)) as D2.
  rewrite E in D1. remember (v1 / M) as q1. remember (v2 / M) as q2. remember (v2 mod M) as r.
  assert (K : q1 - q2 = 0) by nia. assert (q1 = q2) by lia. subst q1. lia.
Qed.

Lemma bitlen_nonneg m : 0 <= bitlen m.
Proof. unfold bitlen. destruct (m <=? 0); [lia|]. pose proof (Z.log2_nonneg m). lia. Qed.

Lemma bitlen_spec m : 0 <= m -> m < 2 ^ bitlen m.
Proof.
  intros Hm. unfold bitlen. destruct (m <=? 0) eqn:E.
  - assert (m = 0) by lia. subst. change (2 ^ 0) with 1. lia.
  - pose proof (Z.log2_spec m ltac:(lia)) as S. replace (Z.log2 m + 1) with (Z.succ (Z.log2 m)) by lia. lia.
Qed.

Lemma bitlen_le m k : 0 <= k -> m < 2 ^ k -> bitlen m <= k.
Proof.
  intros Hk H. unfold bitlen. destruct (m <=? 0) eqn:E; [lia|]. apply Z.log2_lt_pow2 in H; lia.
Qed.

Lemma pow2_half w : 1 <= w -> 2 ^ w = 2 * 2 ^ (w - 1) /\ 0 < 2 ^ (w - 1).
Proof.
  intros H. split.
  - replace w with (Z.succ (w - 1)) at 1 by lia. apply Z.pow_succ_r. lia.
  - apply Z.pow_pos_nonneg; lia.
Qed.

Lemma d_width_window sg w lo hi :
  1 <= w -> in_type sg w lo = true -> in_type sg w hi = true -> lo <= hi ->
  0 <= d_width lo hi w <= w /\ exists a, a <= lo /\ hi < a + 2 ^ d_width lo hi w.
Proof.
  intros Hw Tlo Thi Hle. destruct (pow2_half w Hw) as [P2 P0].
  unfold d_width. set (m := Z.max (Z.abs lo) (Z.abs hi)).
  pose proof (bitlen_nonneg m) as Bn. pose proof (bitlen_spec m ltac:(lia)) as Bs.
  assert (Tm : m < 2 ^ w) by (unfold in_type in *; destruct sg; lia).
  pose proof (bitlen_le m w ltac:(lia) Tm) as Bw.
  destruct (lo <? 0) eqn:Elo; cbn [andb].
  - assert (sg = true) by (destruct sg; auto; unfold in_type in *; lia). subst sg. unfold in_type in *.
    destruct (bitlen m <? w) eqn:Ed.
    + split; [lia|]. exists (- 2 ^ bitlen m).
      replace (2 ^ (bitlen m + 1)) with (2 * 2 ^ bitlen m) by (symmetry; apply Z.pow_succ_r; lia). lia.
    + assert (bitlen m = w) by lia. split; [lia|]. exists (- 2 ^ (w - 1)). replace (bitlen m) with w by lia. lia.
  - split; [lia|]. exists 0. lia.
Qed.

Lemma lowbits_injective sg w lo hi v1 v2 :
  1 <= w -> in_type sg w lo = true -> in_type sg w hi = true -> lo <= v1 <= hi -> lo <= v2 <= hi ->
  v1 mod 2 ^ d_width lo hi w = v2 mod 2 ^ d_width lo hi w -> v1 = v2.
Proof.
  intros Hw Tlo Thi H1 H2 E.
  destruct (d_width_window sg w lo hi Hw Tlo Thi ltac:(lia)) as [HD (a & A1 & A2)].
  assert (0 < 2 ^ d_width lo hi w) by (apply Z.pow_pos_nonneg; lia).
  apply (window_inj (2 ^ d_width lo hi w) a); auto; lia.
Qed.

Lemma d_width_le sg w lo hi : 1 <= w -> in_type sg w lo = true -> in_type sg w hi = true -> lo <= hi -> 0 <= d_width lo hi w <= w.
Proof. intros Hw Tlo Thi H. apply (d_width_window sg w lo hi Hw Tlo Thi H). Qed.

(* ---------- the swizzle terms ---------- *)
Lemma swizzle_term_true s id w pat h l : 1 <= w -> 0 <= l <= h -> h < w ->
  (bv_true s (BOp2 OEq (BSlice (BVar id w) h l) (BConst (slice_val pat h l) (h - l + 1))) = Some true
   <-> slice_val (wrapU w (s id)) h l = slice_val pat h l).
Proof.
  intros Hw Hl Hh. unfold bv_true. cbn [bv_eval].
  replace (1 <=? w) with true by lia. replace ((0 <=? l) && (l <=? h) && (h <? w)) with true by lia.
  replace (1 <=? h - l + 1) with true by lia. rewrite Z.eqb_refl. cbn [op2_eval].
  assert (R : wrapU (h - l + 1) (slice_val pat h l) = slice_val pat h l).
  { unfold wrapU, slice_val. apply Z.mod_mod. apply Z.pow_nonzero; lia. }
  rewrite R. fold (slice_val (wrapU w (s id)) h l).
  destruct (Z.eqb_spec (slice_val (wrapU w (s id)) h l) (slice_val pat h l)) as [E|E]; cbn.
  - split; auto.
  - split; [discriminate | contradiction].
Qed.

Lemma swizzle_terms_true s id sg w lo hi pat :
  1 <= w -> in_type sg w lo = true -> in_type sg w hi = true -> lo <= hi ->
  ((forall t, In t (swizzle_terms id w lo hi pat) -> bv_true s t = Some true) <->
   wrapU w (s id) mod 2 ^ d_width lo hi w = pat mod 2 ^ d_width lo hi w).
Proof.
  intros Hw Tlo Thi Hle. pose proof (d_width_le sg w lo hi Hw Tlo Thi Hle) as HD.
  rewrite <- slices_lowbits by lia. unfold swizzle_terms. split.
  - intros A p Hp. pose proof (intervals_bounds _ p (proj1 HD) Hp) as B.
    apply (swizzle_term_true s id w pat); try lia. apply A.
    apply in_map_iff. exists p. split; auto.
  - intros A t Ht. apply in_map_iff in Ht. destruct Ht as (p & <- & Hp).
    pose proof (intervals_bounds _ p (proj1 HD) Hp) as B.
    apply swizzle_term_true; try lia. apply A; auto.
Qed.

Lemma swizzle_self_consistent s id sg w lo hi v :
  1 <= w -> in_type sg w lo = true -> in_type sg w hi = true -> lo <= v <= hi -> wrapU w (s id) = wrapU w v ->
  forall t, In t (swizzle_terms id w lo hi v) -> bv_true s t = Some true.
Proof.
  intros Hw Tlo Thi Hv E. pose proof (d_width_le sg w lo hi Hw Tlo Thi ltac:(lia)) as HD.
  apply (swizzle_terms_true s id sg w lo hi v); auto; [lia|].
  rewrite E. unfold wrapU. apply mod_mod_pow2_le. lia.
Qed.

Lemma swizzle_pins_value s id sg w lo hi v x :
  1 <= w -> in_type sg w lo = true -> in_type sg w hi = true -> lo <= v <= hi -> lo <= x <= hi ->
  wrapU w (s id) = wrapU w x ->
  (forall t, In t (swizzle_terms id w lo hi v) -> bv_true s t = Some true) -> x = v.
Proof.
  intros Hw Tlo Thi Hv Hx E A. pose proof (d_width_le sg w lo hi Hw Tlo Thi ltac:(lia)) as HD.
  apply (swizzle_terms_true s id sg w lo hi v) in A; auto; [|lia].
  rewrite E in A. unfold wrapU in A. rewrite mod_mod_pow2_le in A by lia.
  apply (lowbits_injective sg w lo hi); auto.
Qed.

(* ---------- range trimming ---------- *)
Definition in_rng (r : Z * Z) (v : Z) : bool := (fst r <=? v) && (v <=? snd r).

Lemma dom_in_iff d v : dom_in d v = true <-> exists r, In r d /\ fst r <= v <= snd r.
Proof.
  unfold dom_in. rewrite existsb_exists. split; intros (r & Hr & H); exists r; split; auto; lia.
Qed.

Lemma in_firstn_nth {A} (d : list A) j n r : nth_error d j = Some r -> (j < n)%nat -> In r (firstn n d).
Proof.
  revert j n. induction d as [|a t IH]; intros j n H Hn.
  - destruct j; discriminate.
  - destruct n; [lia|]. destruct j; cbn in *.
    + left. congruence.
    + right. apply (IH j); auto. lia.
Qed.

Lemma in_skipn_nth {A} (d : list A) j n r : nth_error d j = Some r -> (n <= j)%nat -> In r (skipn n d).
Proof.
  revert j n. induction d as [|a t IH]; intros j n H Hn.
  - destruct j; discriminate.
  - destruct n; [cbn [skipn]; eapply nth_error_In; eauto|]. destruct j; [lia|]. cbn in *. apply (IH j); auto. lia.
Qed.

(* max *)
Lemma last_le_cases d m i best : last_le d m i best = best \/ (i <= last_le d m i best)%nat.
Proof.
  revert i best. induction d as [|r t IH]; intros i best; cbn [last_le]; auto.
  destruct (IH (S i) (if fst r <=? m then i else best)) as [E|E]; rewrite ?E.
  - destruct (fst r <=? m); auto.
  - right. lia.
Qed.

Lemma last_le_ge d m i best j r :
  nth_error d j = Some r -> fst r <= m -> (i + j <= last_le d m i best)%nat.
Proof.
  revert i best j. induction d as [|r0 t IH]; intros i best j H Hr.
  - destruct j; discriminate.
  - cbn [last_le]. destruct j; cbn in H.
    + injection H as ->. replace (fst r <=? m) with true by lia.
      destruct (last_le_cases t m (S i) i) as [E|E]; lia.
    + specialize (IH (S i) (if fst r0 <=? m then i else best) j H Hr). lia.
Qed.

Lemma propagate_max_sound d max_v v : dom_in d v = true -> v <= max_v -> dom_in (propagate_max d max_v) v = true.
Proof.
  intros H Hv. apply dom_in_iff in H. destruct H as (r & Hr & Hin).
  apply In_nth_error in Hr. destruct Hr as (j & Hj).
  pose proof (last_le_ge d max_v 0 0 j r Hj ltac:(lia)) as Hk.
  unfold propagate_max. destruct d as [|r0 t] eqn:Ed; [destruct j; discriminate|]. rewrite <- Ed in *.
  cbv zeta. set (k := last_le d max_v 0 0) in *.
  assert (Hk' : In r (firstn (S k) d)) by (apply (in_firstn_nth d j); auto; lia).
  destruct (rev (firstn (S k) d)) as [|rl before] eqn:Er.
  - apply (f_equal (@rev _)) in Er. rewrite rev_involutive in Er. rewrite Er in Hk'. destruct Hk'.
  - apply (f_equal (@rev _)) in Er. rewrite rev_involutive in Er. cbn [rev] in *. rewrite Er in Hk'.
    apply dom_in_iff. apply in_app_or in Hk'. destruct Hk' as [Hb|[<-|[]]].
    + exists r. split; auto. apply in_or_app. auto.
    + exists (fst rl, Z.min (snd rl) max_v). split; [apply in_or_app; right; left; auto|]. cbn [fst snd]. lia.
Qed.

(* min and intersection need ascending, disjoint, non-empty ranges *)
Fixpoint sorted_dom (d : dom) : bool :=
  match d with
  | [] => true
  | a :: t => (fst a <=? snd a) && match t with [] => true | b :: _ => snd a <? fst b end && sorted_dom t
  end.

Lemma sorted_dom_tail a t : sorted_dom (a :: t) = true -> sorted_dom t = true.
Proof. cbn [sorted_dom]. intros H. apply andb_true_iff in H. apply H. Qed.

Lemma sorted_dom_head_lt a t r : sorted_dom (a :: t) = true -> In r t -> snd a < fst r.
Proof.
  revert a. induction t as [|b t IH]; intros a H Hr; [destruct Hr|].
  pose proof (sorted_dom_tail _ _ H) as Ht.
  assert (snd a < fst b /\ fst b <= snd b).
  { cbn [sorted_dom] in H. lia. }
  destruct Hr as [<-|Hr]; [lia|]. specialize (IH b Ht Hr). lia.
Qed.

Lemma sorted_dom_nth_lt d j k a b :
  sorted_dom d = true -> nth_error d j = Some a -> nth_error d k = Some b -> (j < k)%nat -> snd a < fst b.
Proof.
  revert j k. induction d as [|r t IH]; intros j k H Hj Hk Hjk.
  - destruct j; discriminate.
  - destruct k; [lia|]. cbn in Hk. destruct j; cbn in Hj.
    + injection Hj as ->. apply (sorted_dom_head_lt a t); auto. eapply nth_error_In; eauto.
    + apply (IH j k); auto. eapply sorted_dom_tail; eauto. lia.
Qed.

Lemma last_lt_idx_spec d m i best :
  last_lt_idx d m i best = best \/
  exists j r, nth_error d j = Some r /\ fst r < m /\ last_lt_idx d m i best = Some (i + j)%nat.
Proof.
  revert i best. induction d as [|r0 t IH]; intros i best; cbn [last_lt_idx]; auto.
  destruct (IH (S i) (if fst r0 <? m then Some i else best)) as [E|(j & r & Hj & Hr & E)].
  - rewrite E. destruct (fst r0 <? m) eqn:F; auto.
    right. exists 0%nat, r0. split; [reflexivity|]. split; [lia|]. f_equal. lia.
  - right. exists (S j), r. split; [exact Hj|]. split; [lia|]. rewrite E. f_equal. lia.
Qed.

Lemma propagate_min_sound d min_v v :
  sorted_dom d = true -> dom_in d v = true -> min_v <= v -> dom_in (propagate_min d min_v) v = true.
Proof.
  intros Hs H Hv. unfold propagate_min.
  destruct (last_lt_idx_spec d min_v 0 None) as [E|(k & rk & Hk & Hrk & E)]; rewrite E; auto.
  cbn [Nat.add]. apply dom_in_iff in H. destruct H as (r & Hr & Hin). apply dom_in_iff.
  destruct k as [|k].
  - destruct d as [|r0 t]; [destruct Hr|]. destruct Hr as [<-|Hr].
    + exists (Z.max (fst r0) min_v, snd r0). split; [left; auto|]. cbn [fst snd]. lia.
    + exists r. split; [right; auto | lia].
  - apply In_nth_error in Hr. destruct Hr as (j & Hj).
    destruct (le_lt_dec (S k) j) as [L|L].
    + exists r. split; [|lia]. apply (in_skipn_nth d j); auto.
    + pose proof (sorted_dom_nth_lt d j (S k) r rk Hs Hj Hk L). lia.
Qed.

Lemma dom_in_cons r t v : dom_in (r :: t) v = in_rng r v || dom_in t v.
Proof. reflexivity. Qed.

Lemma sorted_dom_tail_gt a t v : sorted_dom (a :: t) = true -> dom_in t v = true -> snd a < v.
Proof.
  intros H Hv. apply dom_in_iff in Hv. destruct Hv as (r & Hr & Hin).
  pose proof (sorted_dom_head_lt a t r H Hr). lia.
Qed.

Lemma isect_sound v f : forall a b,
  (length a + length b <= f)%nat -> sorted_dom a = true -> sorted_dom b = true ->
  dom_in a v = true -> dom_in b v = true -> dom_in (isect f a b) v = true.
Proof.
  induction f as [|f IH]; intros a b Hf Sa Sb Ha Hb.
  - destruct a; [discriminate|]. cbn in Hf. lia.
  - destruct a as [|ra ta]; [discriminate|]. destruct b as [|rb tb]; [discriminate|].
    cbn [isect]. cbn [length] in Hf.
    pose proof (sorted_dom_tail _ _ Sa) as Sta. pose proof (sorted_dom_tail _ _ Sb) as Stb.
    assert (Rest : (in_rng ra v && in_rng rb v = false) ->
                   dom_in (if snd ra <? snd rb then isect f ta (rb :: tb) else isect f (ra :: ta) tb) v = true).
    { intros N. rewrite dom_in_cons in Ha, Hb.
      destruct (dom_in ta v) eqn:Da; destruct (dom_in tb v) eqn:Db.
      - destruct (snd ra <? snd rb).
        + apply IH; auto. cbn [length]. lia. rewrite dom_in_cons, Db. apply orb_true_r.
        + apply IH; auto. cbn [length]. lia. rewrite dom_in_cons, Da. apply orb_true_r.
      - pose proof (sorted_dom_tail_gt ra ta v Sa Da) as G. rewrite orb_false_r in Hb.
        destruct (snd ra <? snd rb) eqn:C.
        + apply IH; auto. cbn [length]. lia. rewrite dom_in_cons, Hb. reflexivity.
        + exfalso. unfold in_rng in *. lia.
      - pose proof (sorted_dom_tail_gt rb tb v Sb Db) as G. rewrite orb_false_r in Ha.
        destruct (snd ra <? snd rb) eqn:C.
        + exfalso. unfold in_rng in *. lia.
        + apply IH; auto. cbn [length]. lia. rewrite dom_in_cons, Ha. reflexivity.
      - rewrite orb_false_r in Ha, Hb. rewrite Ha, Hb in N. discriminate. }
    destruct (in_rng ra v && in_rng rb v) eqn:Both.
    + replace (Z.max (fst ra) (fst rb) <=? Z.min (snd ra) (snd rb)) with true by (unfold in_rng in *; lia).
      rewrite dom_in_cons. apply orb_true_iff. left. unfold in_rng in *. cbn [fst snd]. lia.
    + specialize (Rest eq_refl). destruct (Z.max (fst ra) (fst rb) <=? Z.min (snd ra) (snd rb)); auto.
      rewrite dom_in_cons, Rest. apply orb_true_r.
Qed.

Lemma intersect_dom_sound a b v :
  sorted_dom a = true -> sorted_dom b = true ->
  dom_in a v = true -> dom_in b v = true -> dom_in (intersect_dom a b) v = true.
Proof. intros. unfold intersect_dom. apply isect_sound; auto. Qed.
