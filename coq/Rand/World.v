(* Model of the object tree of a randomize call: which fields are random in the call
   (FieldScalarModel / FieldCompositeModel.set_used_rand), which constraint blocks are enforced
   (RandInfoBuilder.visit_composite_field / visit_constraint_block: blocks of composites that are random in the
   call and whose constraint_mode is on) and which objects get pre/post_randomize callbacks
   (FieldCompositeModel.pre_randomize / post_randomize).  Executable definitions only. *)
From Coq Require Import ZArith List Bool.
From PV Require Import Rand.Expr.
Import ListNotations.
Open Scope Z_scope.

Inductive wnode :=
| WLeaf (decl_rand rand_mode : bool) (id : nat)                    (* scalar / enum field, flat id *)
| WObj (decl_rand rand_mode : bool) (oid : nat)                    (* composite: object or list element *)
       (blocks : list (bool * list stmt))                          (* (constraint_mode, statements over flat ids) *)
       (kids : list wnode).

(* set_used_rand(is_rand, level): is_rand and ((declared and rand_mode) or level == 0) *)
Definition used (is_rand : bool) (level : nat) (decl mode : bool) : bool :=
  is_rand && ((decl && mode) || Nat.eqb level 0).

(* (leaf id, random in this call) for every leaf *)
Fixpoint leaf_flags (is_rand : bool) (level : nat) (n : wnode) : list (nat * bool) :=
  match n with
  | WLeaf d m id => [(id, used is_rand level d m)]
  | WObj d m _ _ kids =>
    let u := used is_rand level d m in
    (fix go (l : list wnode) : list (nat * bool) :=
       match l with [] => [] | k :: t => leaf_flags u (S level) k ++ go t end) kids
  end.
(* statements of the enforced blocks *)
Fixpoint active_stmts (is_rand : bool) (level : nat) (n : wnode) : list stmt :=
  match n with
  | WLeaf _ _ _ => []
  | WObj d m _ blocks kids =>
    let u := used is_rand level d m in
    (fix go (l : list wnode) : list stmt :=
       match l with [] => [] | k :: t => active_stmts u (S level) k ++ go t end) kids ++
    (if u then flat_map (fun b : bool * list stmt => if fst b then snd b else []) blocks else [])
  end.
(* objects that receive pre_randomize / post_randomize, in call order *)
Fixpoint callbacks (is_rand : bool) (level : nat) (n : wnode) : list nat :=
  match n with
  | WLeaf _ _ _ => []
  | WObj d m oid _ kids =>
    let u := used is_rand level d m in
    (if u then [oid] else []) ++
    (fix go (l : list wnode) : list nat :=
       match l with [] => [] | k :: t => callbacks u (S level) k ++ go t end) kids
  end.

(* specification: a node is random in a call on root r iff it is the root, or it is declared random with
   rand_mode on and so is every ancestor below the root *)
Fixpoint spec_flags (anc_ok : bool) (is_root : bool) (n : wnode) : list (nat * bool) :=
  match n with
  | WLeaf d m id => [(id, is_root || (anc_ok && d && m))]
  | WObj d m _ _ kids =>
    let ok := is_root || (anc_ok && d && m) in
    (fix go (l : list wnode) : list (nat * bool) :=
       match l with [] => [] | k :: t => spec_flags ok false k ++ go t end) kids
  end.

Definition flag_of (fl : list (nat * bool)) (id : nat) : bool :=
  match find (fun p => Nat.eqb (fst p) id) fl with Some p => snd p | None => false end.

(* ---- specification side for composites ---- *)
(* (oid, random in the call) for every composite, pre-order *)
Fixpoint spec_objs (anc_ok : bool) (is_root : bool) (n : wnode) : list (nat * bool) :=
  match n with
  | WLeaf _ _ _ => []
  | WObj d m oid _ kids =>
    let ok := is_root || (anc_ok && d && m) in
    (oid, ok) ::
    (fix go (l : list wnode) : list (nat * bool) :=
       match l with [] => [] | k :: t => spec_objs ok false k ++ go t end) kids
  end.
(* statements of the enabled blocks of the composites that are random in the call (children first, as visited) *)
Fixpoint spec_stmts (anc_ok : bool) (is_root : bool) (n : wnode) : list stmt :=
  match n with
  | WLeaf _ _ _ => []
  | WObj d m _ blocks kids =>
    let ok := is_root || (anc_ok && d && m) in
    (fix go (l : list wnode) : list stmt :=
       match l with [] => [] | k :: t => spec_stmts ok false k ++ go t end) kids ++
    (if ok then flat_map (fun b : bool * list stmt => if fst b then snd b else []) blocks else [])
  end.
Fixpoint all_oids (n : wnode) : list nat :=
  match n with
  | WLeaf _ _ _ => []
  | WObj _ _ oid _ kids =>
    oid :: (fix go (l : list wnode) : list nat := match l with [] => [] | k :: t => all_oids k ++ go t end) kids
  end.
Fixpoint all_leaves (n : wnode) : list nat :=
  match n with
  | WLeaf _ _ id => [id]
  | WObj _ _ _ _ kids =>
    (fix go (l : list wnode) : list nat := match l with [] => [] | k :: t => all_leaves k ++ go t end) kids
  end.
(* toggling constraint_mode of block number b of the composite oid *)
Fixpoint set_nth {A} (l : list A) (k : nat) (f : A -> A) : list A :=
  match l, k with
  | [], _ => []
  | x :: t, O => f x :: t
  | x :: t, S k' => x :: set_nth t k' f
  end.
Fixpoint toggle (oid b : nat) (on : bool) (n : wnode) : wnode :=
  match n with
  | WLeaf d m id => WLeaf d m id
  | WObj d m o blocks kids =>
    WObj d m o (if Nat.eqb o oid then set_nth blocks b (fun p => (on, snd p)) else blocks)
         ((fix go (l : list wnode) : list wnode := match l with [] => [] | k :: t => toggle oid b on k :: go t end) kids)
  end.
