(* Life cycle of the per-field "solved-for" flag (FieldModel.is_used_rand) and of the solver node a field model holds
   (FieldScalarModel.var) across API operations (C03, C16).  Executable definitions only.

   randomizer.py do_randomize: set_used_rand(True, 0) on every root handed to the call (field_scalar_model.py /
   field_composite_model.py / field_array_model.py set_used_rand: the flag is computed for the whole subtree);
   preparation (pre_randomize, bounds, array expansion, rand sets) - an exception here clears the roots' subtrees and
   re-raises; Randomizer.randomize builds a node for every field of every rand set (also fields outside the roots that the
   constraints only refer to: they become constants); whatever way the solve ends, the `finally` block drops the node and the
   flag of every rand-set field; after post_randomize (or when the solve raised) the roots' subtrees are cleared again.
   FieldArrayModel.add_field: an element created later takes the list's flag over; new field models start cleared.

   Six of the repairs recorded in known_findings.json (deb7805, f4e34e6, 5f88c8e, 50a2826, 6468f5d, 4834080) were about
   exactly this life cycle; the state machine below is what the repaired code implements, and `busy` is what the workers
   read from the real field models after every operation of every scenario. *)
From Coq Require Import List Bool Arith.
Import ListNotations.

Record fstate := mkFS { used : bool; var : bool }.
Definition fresh : fstate := mkFS false false.
Definition fields := list fstate.                       (* field model number -> state; composites are numbered too *)

Fixpoint upd (s : fields) (i : nat) (f : fstate -> fstate) : fields :=
  match s, i with
  | [], _ => []
  | x :: t, O => f x :: t
  | x :: t, S k => x :: upd t k f
  end.
Definition upd_all (s : fields) (ids : list nat) (f : fstate -> fstate) : fields :=
  fold_left (fun acc i => upd acc i f) ids s.
Definition get (s : fields) (i : nat) : fstate := nth i s fresh.

Inductive ending :=
| Returns                 (* solved, post_randomize ran *)
| SolveFails              (* SolveFailure (or any exception) out of Randomizer.randomize *)
| PrepRaises              (* an exception before the solve: pre_randomize, constant evaluation, array expansion *)
| PostRaises.             (* the user's post_randomize raised *)

Inductive op :=
| ONew (n : nat)                                                  (* n new field models *)
| OAppend (lst : nat)                                             (* list.append: one new element model *)
| OCall (subtree : list nat) (rand_in : nat -> bool)              (* the models below the roots; which of them the rule
                                                                     "declared random, rand_mode on, ancestors too" marks *)
        (setfields : list nat) (e : ending)                       (* the fields of the call's rand sets *)
| OOther.                                                         (* assignments, rand_mode, constraint_mode, clear ... *)

Definition mark (s : fields) (subtree : list nat) (rand_in : nat -> bool) : fields :=
  fold_left (fun acc i => upd acc i (fun x => mkFS (rand_in i) (var x))) subtree s.
Definition clear_flags (s : fields) (ids : list nat) : fields := upd_all s ids (fun x => mkFS false (var x)).
Definition build_nodes (s : fields) (ids : list nat) : fields := upd_all s ids (fun x => mkFS (used x) true).
Definition drop_nodes_and_flags (s : fields) (ids : list nat) : fields := upd_all s ids (fun _ => fresh).

Definition step (s : fields) (o : op) : fields :=
  match o with
  | ONew n => s ++ repeat fresh n
  | OAppend lst => s ++ [mkFS (used (get s lst)) false]
  | OCall subtree rand_in setfields e =>
    let s1 := mark s subtree rand_in in
    match e with
    | PrepRaises => clear_flags s1 subtree
    | _ =>
      let s2 := build_nodes s1 setfields in                       (* Randomizer.randomize *)
      let s3 := drop_nodes_and_flags s2 setfields in              (* finally *)
      clear_flags s3 subtree                                      (* after post_randomize / when the solve raised *)
    end
  | OOther => s
  end.
Definition run (s : fields) (l : list op) : fields := fold_left step l s.

(* what the workers look for after every operation *)
Definition busy (s : fields) : bool := existsb (fun x => used x || var x) s.

(* while a call is in progress (after `mark`), a field outside the roots' subtrees is never flagged *)
Definition in_progress (s : fields) (subtree : list nat) (rand_in : nat -> bool) : fields := mark s subtree rand_in.
