(* Model of solve_order handling: RandInfoBuilder.visit_constraint_solve_order / ExpandSolveOrderVisitor (dependency map:
   after-field -> set of before-fields), the toposort levels of the fields of a rand set (rand_order_l) and the ordered
   swizzle of SolveGroupSwizzlerPartsel.swizzle (groups are randomised one after the other).  Executable definitions only. *)
From Coq Require Import ZArith List Bool.
Import ListNotations.

Definition deps := list (nat * list nat).          (* after-field, the fields that must be solved before it *)

Definition mem (x : nat) (l : list nat) : bool := existsb (Nat.eqb x) l.
Fixpoint add_dep (d : deps) (a b : nat) : deps :=
  match d with
  | [] => [(a, [b])]
  | (k, v) :: t => if Nat.eqb k a then (k, if mem b v then v else v ++ [b]) :: t else (k, v) :: add_dep t a b
  end.
(* solve_order(before_l, after_l): every after-field depends on every before-field *)
Definition add_order (d : deps) (before after : list nat) : deps :=
  fold_left (fun acc b => fold_left (fun acc2 a => add_dep acc2 a b) after acc) before d.

Definition deps_of (d : deps) (x : nat) : list nat :=
  match find (fun p => Nat.eqb (fst p) x) d with Some p => snd p | None => [] end.
(* all items mentioned: keys and values (toposort adds the values as items without dependencies) *)
Definition items (d : deps) : list nat :=
  nodup Nat.eq_dec (flat_map (fun p => fst p :: snd p) d).

(* toposort levels: repeatedly take the items all of whose dependencies are already placed; None = cyclic *)
Fixpoint levels (fuel : nat) (d : deps) (todo placed : list nat) : option (list (list nat)) :=
  match todo with
  | [] => Some []
  | _ =>
    match fuel with
    | O => None
    | S f =>
      let ready := filter (fun x => forallb (fun y => mem y placed || negb (mem y (items d))) (deps_of d x)) todo in
      match ready with
      | [] => None
      | _ =>
        match levels f d (filter (fun x => negb (mem x ready)) todo) (placed ++ ready) with
        | Some r => Some (ready :: r)
        | None => None
        end
      end
    end
  end.
(* rand_order_l of a rand set with fields `fields` (in rand-set order): every level restricted to the rand set's fields,
   in rand-set order, empty levels dropped; only the after-fields that belong to the rand set contribute dependencies *)
Definition rand_order (d : deps) (fields : list nat) : option (list (list nat)) :=
  let rs_deps := filter (fun p => mem (fst p) fields) d in
  match rs_deps with
  | [] => None                       (* no ordering affects this rand set *)
  | _ =>
    match levels (S (length (items rs_deps))) rs_deps (items rs_deps) [] with
    | Some ls => Some (filter (fun g => negb (match g with [] => true | _ => false end))
                              (map (fun lv => filter (fun f => mem f lv) fields) ls))
    | None => None
    end
  end.

Fixpoint group_index (gs : list (list nat)) (x : nat) (i : nat) : option nat :=
  match gs with
  | [] => None
  | g :: t => if mem x g then Some i else group_index t x (S i)
  end.
