(* Proofs over the solve_order model (Rand/Order.v): the dependency map records what was declared, the toposort levels
   partition the items and respect the dependencies, and the ordered groups of a rand set respect the declared order. *)
From Coq Require Import ZArith List Bool Lia Arith.
From PV Require Import Rand.Order.
Import ListNotations.

(* ---------- mem ---------- *)
Lemma mem_In x l : mem x l = true <-> In x l.
Proof.
  unfold mem. rewrite existsb_exists. split.
  - intros [y [H1 H2]]. apply Nat.eqb_eq in H2. subst; auto.
  - intros H. exists x. split; auto. apply Nat.eqb_refl.
Qed.

Lemma mem_false x l : mem x l = false <-> ~ In x l.
Proof. rewrite <- mem_In. destruct (mem x l); split; congruence. Qed.

(* ---------- dependency map ---------- *)
Lemma deps_of_nil x : deps_of [] x = [].
Proof. reflexivity. Qed.

Lemma deps_of_cons k v t x : deps_of ((k, v) :: t) x = if Nat.eqb k x then v else deps_of t x.
Proof. unfold deps_of; simpl. destruct (Nat.eqb k x); reflexivity. Qed.

Lemma add_dep_in d a b : In b (deps_of (add_dep d a b) a).
Proof.
  induction d as [|[k v] t IH]; cbn [add_dep].
  - rewrite deps_of_cons, Nat.eqb_refl. simpl; auto.
  - destruct (Nat.eqb k a) eqn:E; rewrite deps_of_cons, E; auto.
    destruct (mem b v) eqn:M.
    + apply mem_In; auto.
    + apply in_or_app; right; simpl; auto.
Qed.

Lemma add_dep_keeps d a b x y : In y (deps_of d x) -> In y (deps_of (add_dep d a b) x).
Proof.
  induction d as [|[k v] t IH]; cbn [add_dep].
  - rewrite deps_of_nil. intros [].
  - rewrite deps_of_cons. destruct (Nat.eqb k a) eqn:E; rewrite deps_of_cons; destruct (Nat.eqb k x) eqn:F; auto.
    intros H. destruct (mem b v); auto. apply in_or_app; auto.
Qed.

Lemma add_after_keeps after b : forall d x y,
  In y (deps_of d x) -> In y (deps_of (fold_left (fun acc2 a => add_dep acc2 a b) after d) x).
Proof.
  induction after as [|a0 t IH]; simpl; intros d x y H; auto.
  apply IH. apply add_dep_keeps; auto.
Qed.

Lemma add_after_in after b : forall d a,
  In a after -> In b (deps_of (fold_left (fun acc2 a => add_dep acc2 a b) after d) a).
Proof.
  induction after as [|a0 t IH]; simpl; intros d a H; [destruct H|].
  destruct H as [->|H].
  - apply add_after_keeps. apply add_dep_in.
  - apply IH; auto.
Qed.

Lemma add_order_keeps before after : forall d x y,
  In y (deps_of d x) -> In y (deps_of (add_order d before after) x).
Proof.
  unfold add_order. induction before as [|b0 t IH]; simpl; intros d x y H; auto.
  apply IH. apply add_after_keeps; auto.
Qed.

Lemma add_order_in d before after a b : In a after -> In b before -> In b (deps_of (add_order d before after) a).
Proof.
  unfold add_order. revert d. induction before as [|b0 t IH]; simpl; intros d Ha Hb; [destruct Hb|].
  destruct Hb as [->|Hb].
  - apply (add_order_keeps t after). apply add_after_in; auto.
  - apply IH; auto.
Qed.

Lemma deps_of_items d x y : In y (deps_of d x) -> In y (items d).
Proof.
  unfold deps_of, items. intros H. apply nodup_In. apply in_flat_map.
  destruct (find (fun p => Nat.eqb (fst p) x) d) as [p|] eqn:F; [|destruct H].
  apply find_some in F. destruct F as [F _]. exists p. split; auto. simpl; auto.
Qed.

(* ---------- NoDup of an append ---------- *)
Lemma NoDup_app_iff' (l1 l2 : list nat) :
  NoDup (l1 ++ l2) <-> NoDup l1 /\ NoDup l2 /\ (forall x, In x l1 -> ~ In x l2).
Proof.
  induction l1 as [|a t IH]; simpl.
  - split; [intros H; repeat split; auto; constructor | intros [_ [H _]]; auto].
  - split.
    + intros H. inversion H as [|? ? Hn Hd]; subst. apply IH in Hd. destruct Hd as [H1 [H2 H3]].
      repeat split; auto.
      * constructor; auto. intro; apply Hn; apply in_or_app; auto.
      * intros x [->|Hx]; [intro; apply Hn; apply in_or_app; auto | apply H3; auto].
    + intros [H1 [H2 H3]]. inversion H1 as [|? ? Hn Hd]; subst. constructor.
      * intro Hi. apply in_app_or in Hi. destruct Hi as [Hi|Hi]; [auto | apply (H3 a); auto].
      * apply IH. repeat split; auto.
Qed.

(* ---------- levels ---------- *)
Definition ready (d : deps) (todo placed : list nat) : list nat :=
  filter (fun x => forallb (fun y => mem y placed || negb (mem y (items d))) (deps_of d x)) todo.

Lemma levels_eq f d todo placed :
  todo <> [] ->
  levels (S f) d todo placed =
  match ready d todo placed with
  | [] => None
  | _ => match levels f d (filter (fun x => negb (mem x (ready d todo placed))) todo) (placed ++ ready d todo placed) with
         | Some r => Some (ready d todo placed :: r)
         | None => None
         end
  end.
Proof. destruct todo; [congruence|]. reflexivity. Qed.

Lemma levels_inv fuel d todo placed ls :
  levels fuel d todo placed = Some ls ->
  (todo = [] /\ ls = []) \/
  exists f r, fuel = S f /\
    levels f d (filter (fun x => negb (mem x (ready d todo placed))) todo) (placed ++ ready d todo placed) = Some r /\
    ls = ready d todo placed :: r.
Proof.
  intros H. destruct todo as [|t0 todo'].
  - left. destruct fuel; simpl in H; inversion H; auto.
  - right. destruct fuel as [|f]; [simpl in H; discriminate|].
    rewrite levels_eq in H by congruence.
    destruct (ready d (t0 :: todo') placed) eqn:R; [discriminate|]. rewrite <- R in *.
    destruct (levels f d _ _) as [r|] eqn:L; [|discriminate].
    inversion H; subst. exists f, r. auto.
Qed.

Lemma ready_sub d todo placed x : In x (ready d todo placed) -> In x todo.
Proof. unfold ready. rewrite filter_In. tauto. Qed.

Lemma ready_deps d todo placed x y : In x (ready d todo placed) -> In y (deps_of d x) -> In y placed.
Proof.
  unfold ready. rewrite filter_In. intros [_ H] Hy. rewrite forallb_forall in H. specialize (H y Hy).
  apply deps_of_items in Hy. apply mem_In in Hy. rewrite Hy in H. simpl in H. rewrite orb_false_r in H.
  apply mem_In; auto.
Qed.

Lemma levels_sub fuel d : forall todo placed ls x,
  levels fuel d todo placed = Some ls -> In x (concat ls) -> In x todo.
Proof.
  induction fuel as [|f IH]; intros todo placed ls x H Hx; apply levels_inv in H;
    destruct H as [[-> ->]|[f' [r [E [L ->]]]]]; try (simpl in Hx; tauto); try discriminate.
  inversion E; subst f'. simpl in Hx. apply in_app_or in Hx. destruct Hx as [Hx|Hx].
  - eapply ready_sub; eauto.
  - apply (IH _ _ _ _ L) in Hx. apply filter_In in Hx. tauto.
Qed.

Lemma levels_sup fuel d : forall todo placed ls x,
  levels fuel d todo placed = Some ls -> In x todo -> In x (concat ls).
Proof.
  induction fuel as [|f IH]; intros todo placed ls x H Hx; apply levels_inv in H;
    destruct H as [[-> ->]|[f' [r [E [L ->]]]]]; try (simpl in Hx; tauto); try discriminate.
  inversion E; subst f'. simpl. apply in_or_app.
  destruct (mem x (ready d todo placed)) eqn:M.
  - left. apply mem_In; auto.
  - right. apply (IH _ _ _ _ L). apply filter_In. rewrite M. auto.
Qed.

Lemma levels_nodup fuel d : forall todo placed ls,
  NoDup todo -> levels fuel d todo placed = Some ls -> NoDup (concat ls).
Proof.
  induction fuel as [|f IH]; intros todo placed ls ND H; pose proof H as H0; apply levels_inv in H;
    destruct H as [[-> ->]|[f' [r [E [L ->]]]]]; try (simpl; constructor); try discriminate.
  inversion E; subst f'. simpl. apply NoDup_app_iff'. repeat split.
  - unfold ready. apply NoDup_filter; auto.
  - apply (IH _ _ _ (NoDup_filter _ ND) L).
  - intros x Hx Hc. apply (levels_sub _ _ _ _ _ _ L) in Hc. apply filter_In in Hc. destruct Hc as [_ Hc].
    apply mem_In in Hx. rewrite Hx in Hc. discriminate.
Qed.

Lemma levels_partition fuel d todo placed ls :
  NoDup todo -> levels fuel d todo placed = Some ls ->
  NoDup (concat ls) /\ (forall x, In x (concat ls) <-> In x todo).
Proof.
  intros ND H. split.
  - eapply levels_nodup; eauto.
  - intros x. split; [eapply levels_sub | eapply levels_sup]; eauto.
Qed.

(* ---------- group_index ---------- *)
Lemma gi_cons g t x i : group_index (g :: t) x i = if mem x g then Some i else group_index t x (S i).
Proof. reflexivity. Qed.

Lemma gi_ge ls x : forall k i, group_index ls x k = Some i -> k <= i.
Proof.
  induction ls as [|g t IH]; intros k i H; [discriminate|].
  rewrite gi_cons in H. destruct (mem x g).
  - inversion H; lia.
  - apply IH in H. lia.
Qed.

Lemma gi_In ls x : forall k i, group_index ls x k = Some i -> In x (concat ls).
Proof.
  induction ls as [|g t IH]; intros k i H; [discriminate|].
  rewrite gi_cons in H. simpl. apply in_or_app. destruct (mem x g) eqn:M.
  - left. apply mem_In; auto.
  - right. eapply IH; eauto.
Qed.

Lemma gi_some ls x : forall k, In x (concat ls) -> exists i, group_index ls x k = Some i.
Proof.
  induction ls as [|g t IH]; intros k H; [destruct H|].
  rewrite gi_cons. simpl in H. destruct (mem x g) eqn:M; [eauto|].
  apply in_app_or in H. destruct H as [H|H].
  - apply mem_In in H. congruence.
  - apply IH; auto.
Qed.

Lemma gi_succ ls x : forall k, group_index ls x (S k) = option_map S (group_index ls x k).
Proof.
  induction ls as [|g t IH]; intros k; [reflexivity|].
  rewrite !gi_cons. destruct (mem x g); [reflexivity|]. apply IH.
Qed.

Lemma levels_respect_gen d x y : forall fuel todo placed ls k i j,
  (forall z, In z todo -> ~ In z placed) ->
  levels fuel d todo placed = Some ls ->
  In y (deps_of d x) -> group_index ls x k = Some i -> group_index ls y k = Some j -> j < i.
Proof.
  induction fuel as [|f IH]; intros todo placed ls k i j Dj H Hy Hi Hj; pose proof H as H0; apply levels_inv in H;
    destruct H as [[-> ->]|[f' [r [E [L ->]]]]]; try discriminate.
  inversion E; subst f'. rewrite gi_cons in Hi, Hj.
  destruct (mem x (ready d todo placed)) eqn:Mx.
  - exfalso. apply mem_In in Mx. pose proof (ready_deps _ _ _ _ _ Mx Hy) as Hp.
    assert (Ht : In y todo).
    { apply (levels_sub _ _ _ _ _ _ H0). apply (gi_In _ _ k j). rewrite gi_cons. exact Hj. }
    apply (Dj _ Ht Hp).
  - destruct (mem y (ready d todo placed)) eqn:My.
    + inversion Hj; subst. apply gi_ge in Hi. lia.
    + apply (IH _ _ _ (S k) i j) in L; auto.
      intros z Hz Hp. apply filter_In in Hz. destruct Hz as [Hz Hn].
      apply in_app_or in Hp. destruct Hp as [Hp|Hp].
      * apply (Dj _ Hz Hp).
      * apply mem_In in Hp. rewrite Hp in Hn. discriminate.
Qed.

Lemma levels_respect fuel d todo placed ls x y i j :
  NoDup todo -> (forall z, In z todo -> ~ In z placed) ->
  levels fuel d todo placed = Some ls ->
  In y (deps_of d x) -> group_index ls x 0 = Some i -> group_index ls y 0 = Some j -> j < i.
Proof. intros _ Dj H Hy Hi Hj. eapply levels_respect_gen; eauto. Qed.

(* ---------- rand_order ---------- *)
Definition restrict (fields : list nat) (ls : list (list nat)) : list (list nat) :=
  filter (fun g => negb (match g with [] => true | _ => false end))
         (map (fun lv => filter (fun f => mem f lv) fields) ls).

Lemma rand_order_inv d fields gs :
  rand_order d fields = Some gs ->
  exists ls, levels (S (length (items (filter (fun p => mem (fst p) fields) d))))
                    (filter (fun p => mem (fst p) fields) d)
                    (items (filter (fun p => mem (fst p) fields) d)) [] = Some ls /\
             gs = restrict fields ls.
Proof.
  intros H. unfold rand_order in H. cbv zeta in H.
  remember (filter (fun p => mem (fst p) fields) d) as rs eqn:E. clear E.
  destruct rs as [|p l]; [discriminate|].
  destruct (levels _ _ _ _) as [ls|] eqn:L; [|discriminate].
  inversion H; subst. exists ls. split; auto.
Qed.

Lemma restrict_cons fields lv r :
  restrict fields (lv :: r) =
  match filter (fun f => mem f lv) fields with
  | [] => restrict fields r
  | g => g :: restrict fields r
  end.
Proof. unfold restrict; simpl. destruct (filter (fun f => mem f lv) fields); reflexivity. Qed.

Lemma restrict_In fields ls x : In x (concat (restrict fields ls)) -> In x fields /\ In x (concat ls).
Proof.
  induction ls as [|lv r IH]; [intros []|].
  rewrite restrict_cons. simpl (concat (lv :: r)).
  destruct (filter (fun f => mem f lv) fields) as [|n l] eqn:G.
  - intros H. apply IH in H. split; [tauto|]. apply in_or_app; tauto.
  - rewrite <- G. simpl. intros H. apply in_app_or in H. destruct H as [H|H].
    + apply filter_In in H. destruct H as [H1 H2]. apply mem_In in H2. split; auto. apply in_or_app; auto.
    + apply IH in H. split; [tauto|]. apply in_or_app; tauto.
Qed.

Lemma restrict_nodup fields ls : NoDup fields -> NoDup (concat ls) -> NoDup (concat (restrict fields ls)).
Proof.
  intros NF. induction ls as [|lv r IH]; [intros _; constructor|].
  simpl (concat (lv :: r)). intros H. apply NoDup_app_iff' in H. destruct H as [H1 [H2 H3]].
  rewrite restrict_cons.
  destruct (filter (fun f => mem f lv) fields) as [|n l] eqn:G; auto.
  rewrite <- G. simpl. apply NoDup_app_iff'. repeat split; auto.
  - apply NoDup_filter; auto.
  - intros x Hx Hc. apply filter_In in Hx. destruct Hx as [_ Hx]. apply mem_In in Hx.
    apply restrict_In in Hc. apply (H3 x Hx). tauto.
Qed.

(* dropping the fields outside the rand set and the empty levels keeps the relative order of the surviving fields *)
Lemma restrict_mono fields a b : In a fields -> In b fields -> forall ls k k' i j i' j',
  group_index (restrict fields ls) a k = Some i -> group_index (restrict fields ls) b k = Some j ->
  group_index ls a k' = Some i' -> group_index ls b k' = Some j' -> j' < i' -> j < i.
Proof.
  intros Fa Fb. induction ls as [|lv r IH]; intros k k' i j i' j' Ha Hb Ha' Hb' Hlt; [discriminate|].
  rewrite restrict_cons in Ha, Hb. rewrite gi_cons in Ha', Hb'.
  assert (Ma : mem a (filter (fun f => mem f lv) fields) = mem a lv).
  { destruct (mem a lv) eqn:M.
    - apply mem_In. apply filter_In. auto.
    - apply mem_false. intro H. apply filter_In in H. destruct H as [_ H]. congruence. }
  assert (Mb : mem b (filter (fun f => mem f lv) fields) = mem b lv).
  { destruct (mem b lv) eqn:M.
    - apply mem_In. apply filter_In. auto.
    - apply mem_false. intro H. apply filter_In in H. destruct H as [_ H]. congruence. }
  destruct (filter (fun f => mem f lv) fields) as [|n l] eqn:G.
  - change (mem a []) with false in Ma. change (mem b []) with false in Mb.
    rewrite <- Ma in Ha'. rewrite <- Mb in Hb'.
    eapply (IH k (S k')); eauto.
  - rewrite gi_cons in Ha, Hb. rewrite Ma in Ha. rewrite Mb in Hb.
    destruct (mem b lv).
    + inversion Hb; subst j. inversion Hb'; subst j'.
      destruct (mem a lv).
      * inversion Ha'; subst. lia.
      * apply gi_ge in Ha. lia.
    + destruct (mem a lv).
      * inversion Ha'; subst. apply gi_ge in Hb'. lia.
      * eapply (IH (S k) (S k')); eauto.
Qed.

Lemma deps_of_filter fields d a :
  In a fields -> deps_of (filter (fun p => mem (fst p) fields) d) a = deps_of d a.
Proof.
  intros Fa. induction d as [|[k v] t IH]; [reflexivity|].
  simpl. destruct (mem k fields) eqn:M.
  - rewrite !deps_of_cons. rewrite IH. reflexivity.
  - rewrite deps_of_cons. destruct (Nat.eqb k a) eqn:E; auto.
    apply Nat.eqb_eq in E. subst k. apply mem_In in Fa. congruence.
Qed.

Lemma rand_order_subset d fields gs x : rand_order d fields = Some gs -> In x (concat gs) -> In x fields.
Proof.
  intros H Hx. apply rand_order_inv in H. destruct H as [ls [_ ->]]. apply restrict_In in Hx. tauto.
Qed.

Lemma rand_order_disjoint d fields gs : NoDup fields -> rand_order d fields = Some gs -> NoDup (concat gs).
Proof.
  intros NF H. apply rand_order_inv in H. destruct H as [ls [L ->]].
  apply restrict_nodup; auto.
  eapply levels_nodup; [|exact L]. unfold items. apply NoDup_nodup.
Qed.

Lemma rand_order_respects d fields gs a b i j :
  NoDup fields -> rand_order d fields = Some gs ->
  In b (deps_of d a) -> In a fields -> group_index gs a 0 = Some i -> group_index gs b 0 = Some j -> j < i.
Proof.
  intros NF H Hb Fa Hi Hj. apply rand_order_inv in H. destruct H as [ls [L ->]].
  rewrite <- (deps_of_filter fields d a Fa) in Hb.
  pose proof (gi_In _ _ _ _ Hi) as Ia. pose proof (gi_In _ _ _ _ Hj) as Ib.
  apply restrict_In in Ia. apply restrict_In in Ib. destruct Ia as [_ Ia]. destruct Ib as [Fb Ib].
  destruct (gi_some ls a 0 Ia) as [i' Hi']. destruct (gi_some ls b 0 Ib) as [j' Hj'].
  assert (Hlt : j' < i').
  { eapply (levels_respect_gen _ a b _ _ _ _ 0 i' j'); [|exact L|exact Hb|exact Hi'|exact Hj']. intros z _ []. }
  eapply (restrict_mono fields a b Fa Fb ls 0 0); eauto.
Qed.

(* ---------- no ordered field is dropped: both ends of a declared pair get a group ---------- *)
Lemma deps_of_key_items d x y : In y (deps_of d x) -> In x (items d).
Proof.
  unfold deps_of, items. intros H. apply nodup_In. apply in_flat_map.
  destruct (find (fun p => Nat.eqb (fst p) x) d) as [p|] eqn:F; [|destruct H].
  apply find_some in F. destruct F as [F E]. apply Nat.eqb_eq in E. exists p. split; auto. simpl; auto.
Qed.

Lemma restrict_sup fields ls x : In x fields -> In x (concat ls) -> In x (concat (restrict fields ls)).
Proof.
  intros Fx. induction ls as [|lv r IH]; [intros []|].
  simpl (concat (lv :: r)). intros H. rewrite restrict_cons.
  assert (Hf : In x lv -> In x (filter (fun f => mem f lv) fields)).
  { intros Hl. apply filter_In. split; auto. apply mem_In; auto. }
  apply in_app_or in H.
  destruct (filter (fun f => mem f lv) fields) as [|n l] eqn:G.
  - destruct H as [H|H]; [destruct (Hf H)|auto].
  - change (In x ((n :: l) ++ concat (restrict fields r))).
    apply in_or_app. destruct H as [H|H]; [left; apply (Hf H)|right; auto].
Qed.

Lemma rand_order_covers d fields gs a b :
  rand_order d fields = Some gs -> In b (deps_of d a) -> In a fields ->
  In a (concat gs) /\ (In b fields -> In b (concat gs)).
Proof.
  intros H Hb Fa. apply rand_order_inv in H. destruct H as [ls [L ->]].
  rewrite <- (deps_of_filter fields d a Fa) in Hb.
  split; [|intros Fb]; apply restrict_sup; auto; eapply levels_sup; try exact L.
  - eapply deps_of_key_items; eauto.
  - eapply deps_of_items; eauto.
Qed.

(* the unconditional form of rand_order_respects: a declared pair inside one rand set is always separated *)
Lemma rand_order_separates d fields gs a b :
  NoDup fields -> rand_order d fields = Some gs -> In b (deps_of d a) -> In a fields -> In b fields ->
  exists i j, group_index gs a 0 = Some i /\ group_index gs b 0 = Some j /\ j < i.
Proof.
  intros NF H Hb Fa Fb. destruct (rand_order_covers _ _ _ _ _ H Hb Fa) as [Ca Cb]. specialize (Cb Fb).
  destruct (gi_some gs a 0 Ca) as [i Hi]. destruct (gi_some gs b 0 Cb) as [j Hj].
  exists i, j. repeat split; auto. eapply rand_order_respects; eauto.
Qed.
