(* Model of the build() methods that lower constraint expressions / statements to Boolector terms:
   ExprBinModel.build/extend, ExprLiteralModel, ExprFieldRefModel, ExprUnaryModel, ExprInModel (via Expr.e_in),
   ExprPartselectModel, ExprModel.toBool, ConstraintExprModel, ConstraintIfElseModel, ConstraintImpliesModel,
   ConstraintScopeModel, ConstraintUniqueModel, ConstraintSoftModel, EnumFieldModel.build, FieldScalarModel.build.
   Executable definitions only. *)
From Coq Require Import ZArith List Bool.
From PV Require Import Common.Bits Rand.BV Rand.Expr.
Import ListNotations.
Open Scope Z_scope.

(* how a field is presented to the solver in this call: a variable, or a constant of its current value *)
Record fbuild := mkFB { fb_rand : bool; fb_val : Z }.
Definition build_field (G : fenv) (B : list fbuild) (id : nat) : bvterm :=
  match nth_error B id with
  | Some b => if fb_rand b then BVar id (fw G id) else BConst (fb_val b) (fw G id)
  | None => BVar id (fw G id)
  end.

(* width of the node build() returns *)
Fixpoint built_width (G : fenv) (ctx : Z) (e : expr) : Z :=
  match e with
  | ELit _ _ w => Z.max ctx w
  | EField id => fw G id
  | EBin o l r => if is_rel o then 1 else Z.max ctx (Z.max (width_of G l) (width_of G r))
  | ENot e => built_width G (Z.max ctx (width_of G e)) e
  | EReset e => built_width G (-1) e
  | EPart _ hi lo => hi - lo + 1
  end.

(* ExprBinModel.extend *)
Definition extend (n : bvterm) (nw W : Z) (sg : bool) : bvterm :=
  if nw <? W then (if sg then BSext n (W - nw) else BUext n (W - nw)) else n.

Definition lower_op (o : binop) (sg : bool) : bvop2 :=
  match o with
  | Eq => OEq | Ne => ONe
  | Gt => if sg then OSgt else OUgt
  | Ge => if sg then OSgte else OUgte
  | Lt => if sg then OSlt else OUlt
  | Le => if sg then OSlte else OUlte
  | Add => OAdd | Sub => OSub | Mul => OMul
  | Div => if sg then OSdiv else OUdiv       (* on the repaired code *)
  | Mod => if sg then OSrem else OUrem
  | And => OAnd | Or => OOr | Xor => OXor | Sll => OSll | Srl => OSrl
  end.

Fixpoint lower_e (G : fenv) (B : list fbuild) (ctx : Z) (e : expr) : bvterm :=
  match e with
  | ELit v _ w => BConst v (Z.max ctx w)
  | EField id => build_field G B id
  | EBin o l r =>
    let W := Z.max ctx (Z.max (width_of G l) (width_of G r)) in
    let sg := signed_of G l && signed_of G r in
    BOp2 (lower_op o sg)
         (extend (lower_e G B W l) (built_width G W l) W sg)
         (extend (lower_e G B W r) (built_width G W r) W sg)
  | ENot e => BNot (lower_e G B (Z.max ctx (width_of G e)) e)
  | EReset e => lower_e G B (-1) e
  | EPart id hi lo => BSlice (build_field G B id) hi lo
  end.

(* ExprModel.toBool *)
Definition to_bool (n : bvterm) (w : Z) : bvterm := if w =? 1 then n else BOp2 ONe n (BConst 0 w).
Definition lower_cond (G : fenv) (B : list fbuild) (e : expr) : bvterm :=
  to_bool (lower_e G B (-1) e) (built_width G (-1) e).

(* statement.build(btor, soft) ; None = the statement returns no node *)
Fixpoint lower_s (G : fenv) (B : list fbuild) (soft : bool) (s : stmt) : option bvterm :=
  let scope := fix scope (l : list stmt) (acc : option bvterm) : option bvterm :=
                 match l with
                 | [] => acc
                 | x :: t =>
                   match acc with
                   | None => scope t (lower_s G B soft x)
                   | Some a => scope t (match lower_s G B soft x with Some b => Some (BOp2 OAnd a b) | None => Some a end)
                   end
                 end in
  let scope_term := fun l => match scope l None with Some t => t | None => BConst 1 1 end in
  match s with
  | SExpr e => Some (lower_cond G B e)
  | SIf c t f =>
    Some match f with
         | None => BOp2 OImplies (lower_cond G B c) (scope_term t)
         | Some fl => BCond (lower_cond G B c) (scope_term t) (scope_term fl)
         end
  | SImplies c b => Some (BOp2 OImplies (lower_cond G B c) (scope_term b))
  | SUnique ids =>
    let fix pairs (l : list nat) (acc : option bvterm) : option bvterm :=
        match l with
        | [] => acc
        | x :: t =>
          pairs t (fold_left (fun a y =>
                     let n := lower_e G B (-1) (EBin Ne (EField x) (EField y)) in
                     match a with None => Some n | Some r => Some (BOp2 OAnd n r) end) t acc)
        end in
    Some (match ids with
          | _ :: _ :: _ => match pairs ids None with Some t => t | None => BConst 1 1 end
          | _ => BConst 1 1
          end)
  | SSoft e => if soft then Some (lower_e G B (-1) e) else None
  end.

(* EnumFieldModel.build: the domain assertion of a random enum field *)
Definition enum_domain (G : fenv) (id : nat) (vals : list Z) : option bvterm :=
  match vals with
  | [] => None
  | v :: t =>
    Some (fold_left (fun acc x => BOp2 OOr acc (BOp2 OEq (BVar id (fw G id)) (BConst x (fw G id)))) t
                    (BOp2 OEq (BVar id (fw G id)) (BConst v (fw G id))))
  end.

(* the assignment of solver variables induced by field values *)
Definition sigma_of (rho : nat -> Z) : nat -> Z := rho.
