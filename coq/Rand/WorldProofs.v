(* Proofs about the object-tree model of a randomize call (Rand/World.v): the code's recursive marking
   agrees with the specification, and constraint_mode toggling is local. *)
From Coq Require Import ZArith List Bool Lia.
From PV Require Import Rand.Expr Rand.World.
Import ListNotations.
Local Open Scope nat_scope.

(* ---- induction principle for the nested tree ---- *)
Fixpoint wnode_ind' (P : wnode -> Prop)
  (Hl : forall d m id, P (WLeaf d m id))
  (Ho : forall d m o bl kids, Forall P kids -> P (WObj d m o bl kids))
  (n : wnode) : P n :=
  match n with
  | WLeaf d m id => Hl d m id
  | WObj d m o bl kids =>
    Ho d m o bl kids
       ((fix go (l : list wnode) : Forall P l :=
           match l with
           | [] => Forall_nil P
           | k :: t => Forall_cons k (wnode_ind' P Hl Ho k) (go t)
           end) kids)
  end.

(* ---- the inner fixes are flat_map / map (by conversion) ---- *)
Lemma leaf_flags_obj r l d m o bl kids :
  leaf_flags r l (WObj d m o bl kids) = flat_map (leaf_flags (used r l d m) (S l)) kids.
Proof. reflexivity. Qed.
Lemma active_stmts_obj r l d m o bl kids :
  active_stmts r l (WObj d m o bl kids) =
  flat_map (active_stmts (used r l d m) (S l)) kids ++
  (if used r l d m then flat_map (fun b : bool * list stmt => if fst b then snd b else []) bl else []).
Proof. reflexivity. Qed.
Lemma callbacks_obj r l d m o bl kids :
  callbacks r l (WObj d m o bl kids) =
  (if used r l d m then [o] else []) ++ flat_map (callbacks (used r l d m) (S l)) kids.
Proof. reflexivity. Qed.
Lemma spec_flags_obj a r d m o bl kids :
  spec_flags a r (WObj d m o bl kids) = flat_map (spec_flags (r || (a && d && m)) false) kids.
Proof. reflexivity. Qed.
Lemma spec_objs_obj a r d m o bl kids :
  spec_objs a r (WObj d m o bl kids) =
  (o, r || (a && d && m)) :: flat_map (spec_objs (r || (a && d && m)) false) kids.
Proof. reflexivity. Qed.
Lemma spec_stmts_obj a r d m o bl kids :
  spec_stmts a r (WObj d m o bl kids) =
  flat_map (spec_stmts (r || (a && d && m)) false) kids ++
  (if r || (a && d && m) then flat_map (fun b : bool * list stmt => if fst b then snd b else []) bl else []).
Proof. reflexivity. Qed.
Lemma all_oids_obj d m o bl kids :
  all_oids (WObj d m o bl kids) = o :: flat_map all_oids kids.
Proof. reflexivity. Qed.
Lemma all_leaves_obj d m o bl kids :
  all_leaves (WObj d m o bl kids) = flat_map all_leaves kids.
Proof. reflexivity. Qed.
Lemma toggle_obj oid b on d m o bl kids :
  toggle oid b on (WObj d m o bl kids) =
  WObj d m o (if Nat.eqb o oid then set_nth bl b (fun p => (on, snd p)) else bl)
       (map (toggle oid b on) kids).
Proof. reflexivity. Qed.

Lemma flat_map_Forall_ext {A B} (f g : A -> list B) l :
  Forall (fun x => f x = g x) l -> flat_map f l = flat_map g l.
Proof. induction 1; simpl; congruence. Qed.

Lemma map_Forall_id {A} (f : A -> A) l :
  Forall (fun x => f x = x) l -> map f l = l.
Proof. induction 1; simpl; congruence. Qed.

Lemma used_nonroot u level d m : 0 < level -> used u level d m = false || (u && d && m).
Proof.
  intros H. unfold used. destruct level; [lia|]. simpl.
  destruct u, d, m; reflexivity.
Qed.
Lemma used_root d m : used true 0 d m = true.
Proof. unfold used. simpl. apply orb_true_r. Qed.
Lemma used_false level d m : used false level d m = false.
Proof. reflexivity. Qed.

(* ---- leaves ---- *)
Lemma leaf_flags_nonroot n : forall u level, 0 < level -> leaf_flags u level n = spec_flags u false n.
Proof.
  induction n using wnode_ind'; intros u level Hlv.
  - cbn [leaf_flags spec_flags]. rewrite used_nonroot by assumption. reflexivity.
  - rewrite leaf_flags_obj, spec_flags_obj. rewrite used_nonroot by assumption.
    apply flat_map_Forall_ext. eapply Forall_impl; [|exact H].
    intros k Hk. apply Hk. lia.
Qed.

Lemma used_rand_spec n : leaf_flags true 0 n = spec_flags true true n.
Proof.
  destruct n.
  - cbn [leaf_flags spec_flags]. rewrite used_root. reflexivity.
  - rewrite leaf_flags_obj, spec_flags_obj, used_root. simpl orb.
    apply flat_map_Forall_ext. apply Forall_forall. intros k _.
    apply leaf_flags_nonroot. lia.
Qed.

(* ---- enforced statements ---- *)
Lemma active_stmts_nonroot n : forall u level, 0 < level -> active_stmts u level n = spec_stmts u false n.
Proof.
  induction n using wnode_ind'; intros u level Hlv.
  - reflexivity.
  - rewrite active_stmts_obj, spec_stmts_obj. rewrite used_nonroot by assumption.
    f_equal. apply flat_map_Forall_ext. eapply Forall_impl; [|exact H].
    intros k Hk. apply Hk. lia.
Qed.

Lemma active_stmts_spec n : active_stmts true 0 n = spec_stmts true true n.
Proof.
  destruct n.
  - reflexivity.
  - rewrite active_stmts_obj, spec_stmts_obj, used_root. simpl orb.
    f_equal. apply flat_map_Forall_ext. apply Forall_forall. intros k _.
    apply active_stmts_nonroot. lia.
Qed.

(* ---- callbacks ---- *)
Lemma map_filter_flat_map {A} (f : A -> list (nat * bool)) l :
  map fst (filter snd (flat_map f l)) = flat_map (fun k => map fst (filter snd (f k))) l.
Proof.
  induction l; simpl; [reflexivity|].
  rewrite filter_app, map_app, IHl. reflexivity.
Qed.

Lemma callbacks_nonroot n : forall u level, 0 < level ->
  callbacks u level n = map fst (filter snd (spec_objs u false n)).
Proof.
  induction n using wnode_ind'; intros u level Hlv.
  - reflexivity.
  - rewrite callbacks_obj, spec_objs_obj. rewrite used_nonroot by assumption.
    rewrite (flat_map_Forall_ext _ (fun k => map fst (filter snd (spec_objs (false || (u && d && m)) false k)))).
    + rewrite <- map_filter_flat_map. simpl.
      destruct (u && d && m); reflexivity.
    + eapply Forall_impl; [|exact H]. intros k Hk. apply Hk. lia.
Qed.

Lemma callbacks_spec n : callbacks true 0 n = map fst (filter snd (spec_objs true true n)).
Proof.
  destruct n.
  - reflexivity.
  - rewrite callbacks_obj, spec_objs_obj, used_root. simpl orb.
    cbn [filter snd map fst app].
    rewrite map_filter_flat_map. f_equal.
    apply flat_map_Forall_ext. apply Forall_forall. intros k _.
    apply callbacks_nonroot. lia.
Qed.

Lemma spec_objs_oids anc r n : map fst (spec_objs anc r n) = all_oids n.
Proof.
  revert anc r. induction n using wnode_ind'; intros anc r.
  - reflexivity.
  - rewrite spec_objs_obj, all_oids_obj. simpl. f_equal.
    generalize (r || anc && d && m). intros ok.
    induction H; simpl; [reflexivity|].
    rewrite map_app, H, IHForall. reflexivity.
Qed.

Lemma NoDup_map_filter {A B} (f : A -> B) (p : A -> bool) l :
  NoDup (map f l) -> NoDup (map f (filter p l)).
Proof.
  induction l; simpl; intros H; [constructor|].
  inversion H; subst.
  destruct (p a); simpl; auto.
  constructor; auto.
  intros Hin. apply H2.
  apply in_map_iff in Hin. destruct Hin as [x [Hx Hin]].
  apply filter_In in Hin. destruct Hin as [Hin _].
  apply in_map_iff. exists x. auto.
Qed.

Lemma callbacks_nodup n : NoDup (all_oids n) -> NoDup (callbacks true 0 n).
Proof.
  intros H. rewrite callbacks_spec. apply NoDup_map_filter.
  rewrite spec_objs_oids. exact H.
Qed.

(* ---- nothing below a non-random composite ---- *)
Lemma nothing_below_nonrandom n level :
  (forall id b, In (id, b) (leaf_flags false level n) -> b = false) /\
  active_stmts false level n = [] /\ callbacks false level n = [].
Proof.
  revert level. induction n using wnode_ind'; intros level.
  - simpl. repeat split; auto.
    intros id0 b [Heq|[]]. inversion Heq; reflexivity.
  - rewrite leaf_flags_obj, active_stmts_obj, callbacks_obj, used_false.
    simpl app. rewrite app_nil_r.
    generalize (S level). intros lv.
    induction H; simpl.
    + repeat split; auto. intros ? ? [].
    + destruct (H lv) as [H1 [H2 H3]]. destruct IHForall as [I1 [I2 I3]].
      rewrite H2, H3, I2, I3. repeat split; auto.
      intros id b Hin. apply in_app_or in Hin. destruct Hin; eauto.
Qed.

(* ---- every leaf gets exactly one flag ---- *)
Lemma leaf_flags_ids r l n : map fst (leaf_flags r l n) = all_leaves n.
Proof.
  revert r l. induction n using wnode_ind'; intros r l.
  - reflexivity.
  - rewrite leaf_flags_obj, all_leaves_obj.
    generalize (used r l d m) (S l). intros u lv.
    induction H; simpl; [reflexivity|].
    rewrite map_app, H, IHForall. reflexivity.
Qed.

(* ---- constraint_mode toggling ---- *)
Lemma flat_map_map {A B C} (f : B -> list C) (g : A -> B) l :
  flat_map f (map g l) = flat_map (fun x => f (g x)) l.
Proof. induction l; simpl; congruence. Qed.

Lemma toggle_flags oid b on r l n : leaf_flags r l (toggle oid b on n) = leaf_flags r l n.
Proof.
  revert r l. induction n using wnode_ind'; intros r l.
  - reflexivity.
  - rewrite toggle_obj, !leaf_flags_obj, flat_map_map.
    apply flat_map_Forall_ext. eapply Forall_impl; [|exact H].
    intros k Hk. apply Hk.
Qed.

Lemma toggle_callbacks oid b on r l n : callbacks r l (toggle oid b on n) = callbacks r l n.
Proof.
  revert r l. induction n using wnode_ind'; intros r l.
  - reflexivity.
  - rewrite toggle_obj, !callbacks_obj, flat_map_map. f_equal.
    apply flat_map_Forall_ext. eapply Forall_impl; [|exact H].
    intros k Hk. apply Hk.
Qed.

Lemma toggle_absent oid b on n : ~ In oid (all_oids n) -> toggle oid b on n = n.
Proof.
  induction n using wnode_ind'; intros Hni.
  - reflexivity.
  - rewrite toggle_obj. rewrite all_oids_obj in Hni. simpl in Hni.
    destruct (Nat.eqb o oid) eqn:E.
    + apply Nat.eqb_eq in E. exfalso. apply Hni. left. exact E.
    + f_equal. apply map_Forall_id.
      assert (Hk : ~ In oid (flat_map all_oids kids)) by (intros HH; apply Hni; right; exact HH).
      clear Hni E. induction H; constructor.
      * apply H. intros HH. apply Hk. simpl. apply in_or_app. left. exact HH.
      * apply IHForall. intros HH. apply Hk. simpl. apply in_or_app. right. exact HH.
Qed.

Lemma toggle_other oid b on r l n :
  ~ In oid (all_oids n) -> active_stmts r l (toggle oid b on n) = active_stmts r l n.
Proof. intros H. rewrite toggle_absent by assumption. reflexivity. Qed.

Lemma set_nth_twice {A} (f g : A -> A) l : forall k,
  (forall x, g (f x) = g x) -> set_nth (set_nth l k f) k g = set_nth l k g.
Proof.
  induction l; intros k Hfg; destruct k; simpl; try reflexivity.
  - rewrite Hfg. reflexivity.
  - rewrite IHl by assumption. reflexivity.
Qed.

Lemma toggle_twice oid b on1 on2 n : toggle oid b on2 (toggle oid b on1 n) = toggle oid b on2 n.
Proof.
  induction n using wnode_ind'.
  - reflexivity.
  - rewrite !toggle_obj. f_equal.
    + destruct (Nat.eqb o oid); [|reflexivity].
      apply set_nth_twice. intros x. reflexivity.
    + rewrite map_map. induction H; simpl; congruence.
Qed.

Lemma set_nth_same {A} (f : A -> A) l : forall k x,
  nth_error l k = Some x -> f x = x -> set_nth l k f = l.
Proof.
  induction l; intros k x Hn Hf; destruct k; simpl in *; try discriminate.
  - inversion Hn; subst. rewrite Hf. reflexivity.
  - erewrite IHl; eauto.
Qed.

Lemma toggle_same oid b n blocks d m kids :
  n = WObj d m oid blocks kids -> ~ In oid (flat_map all_oids kids) ->
  forall on0 st, nth_error blocks b = Some (on0, st) -> toggle oid b on0 n = n.
Proof.
  intros -> Hk on0 st Hn. rewrite toggle_obj, Nat.eqb_refl.
  f_equal.
  - eapply set_nth_same; eauto.
  - apply map_Forall_id. apply Forall_forall. intros k Hin.
    apply toggle_absent. intros HH. apply Hk.
    apply in_flat_map. exists k. auto.
Qed.
