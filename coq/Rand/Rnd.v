(* Random state (C09): RandState objects as locations of a heap, objects pointing at the location of their state.
   Executable definitions only.

   rand_state.py: RandState wraps one generator; clone() copies the generator state into a new object.
   impl/randobj_int.py: an object's state is created on first use from Python's global generator (RandState.mk);
   get_randstate returns the object's state by reference to the library, rand_obj.py get_randstate hands the user a
   clone; set_randstate stores a clone of its argument.
   randomizer.py: every draw of a call goes through the RandState handed to do_randomize.

   The generator itself (S, one draw, seeding) and what a call computes from (descriptor, state) are parameters: the
   theorems hold for every generator and every solve that is a function of the descriptor and the object's state alone.
   That a call really is such a function is what the correspondence check examines (same state term + same descriptor
   => same values, across processes, hash seeds, unrelated activity and diagnostic settings). *)
From Coq Require Import ZArith List Bool Arith.
Import ListNotations.

Section Rnd.
Variable S : Type.
Variable draw : S -> S * Z.                  (* one draw from a generator *)
Variable mk : Z -> S.                        (* RandState(seed) *)
Variable call : nat -> S -> S * list Z.      (* a randomize call with descriptor d: state afterwards and returned values *)

(* location 0 is Python's global generator *)
Record st := mkSt {
  heap : list S;                              (* location -> generator state *)
  objs : list (option nat);                   (* object -> location of its RandState (None: not created yet) *)
  hands : list nat                            (* user-held RandState handles, in order of creation -> location *)
}.

Inductive op :=
| OCall (o : nat) (d : nat)                   (* o.randomize() / randomize_with, descriptor d *)
| OGet (o : nat)                              (* h = o.get_randstate() : a new handle *)
| OSet (o : nat) (h : nat)                    (* o.set_randstate(handle h) *)
| OMk (seed : Z)                              (* h = RandState.mkFromSeed(seed) : a new handle *)
| ODrawH (h : nat)                            (* the user draws from a handle *)
| OGlobal.                                    (* the user draws from Python's global generator *)

Definition hget (hp : list S) (l : nat) (dflt : S) : S := nth l hp dflt.
Fixpoint hset (hp : list S) (l : nat) (s : S) : list S :=
  match hp, l with
  | [], _ => []
  | _ :: t, O => s :: t
  | x :: t, Datatypes.S k => x :: hset t k s
  end.
Fixpoint oset (ob : list (option nat)) (o : nat) (l : nat) : list (option nat) :=
  match ob, o with
  | [], _ => []
  | _ :: t, O => Some l :: t
  | x :: t, Datatypes.S k => x :: oset t k l
  end.

(* the object's location, creating the state from the global generator on first use (RandObjInt.get_randstate) *)
Definition ensure (s : st) (o : nat) (dflt : S) : st * nat :=
  match nth o (objs s) None with
  | Some l => (s, l)
  | None =>
    let '(g', seed) := draw (hget (heap s) 0 dflt) in
    let hp := hset (heap s) 0 g' ++ [mk seed] in
    (mkSt hp (oset (objs s) o (length (heap s))) (hands s), length (heap s))
  end.

(* one operation: new state and what the user observes (values of a call / the number drawn; [] otherwise) *)
Definition step (dflt : S) (s : st) (x : op) : st * list Z :=
  match x with
  | OCall o d =>
    let '(s1, l) := ensure s o dflt in
    let '(g', out) := call d (hget (heap s1) l dflt) in
    (mkSt (hset (heap s1) l g') (objs s1) (hands s1), out)
  | OGet o =>
    let '(s1, l) := ensure s o dflt in
    (mkSt (heap s1 ++ [hget (heap s1) l dflt]) (objs s1) (hands s1 ++ [length (heap s1)]), [])
  | OSet o h =>
    match nth_error (hands s) h with
    | Some lh => (mkSt (heap s ++ [hget (heap s) lh dflt]) (oset (objs s) o (length (heap s))) (hands s), [])
    | None => (s, [])
    end
  | OMk seed => (mkSt (heap s ++ [mk seed]) (objs s) (hands s ++ [length (heap s)]), [])
  | ODrawH h =>
    match nth_error (hands s) h with
    | Some lh => let '(g', v) := draw (hget (heap s) lh dflt) in (mkSt (hset (heap s) lh g') (objs s) (hands s), [v])
    | None => (s, [])
    end
  | OGlobal => let '(g', v) := draw (hget (heap s) 0 dflt) in (mkSt (hset (heap s) 0 g') (objs s) (hands s), [v])
  end.

Fixpoint run (dflt : S) (s : st) (l : list op) : st * list (list Z) :=
  match l with
  | [] => (s, [])
  | x :: t => let '(s1, o1) := step dflt s x in let '(s2, os) := run dflt s1 t in (s2, o1 :: os)
  end.

Definition init (g0 : S) (nobj : nat) : st := mkSt [g0] (repeat None nobj) [].

(* the state an object / a handle currently has *)
Definition obj_state (dflt : S) (s : st) (o : nat) : option S :=
  match nth o (objs s) None with Some l => Some (hget (heap s) l dflt) | None => None end.
Definition hand_state (dflt : S) (s : st) (h : nat) : option S :=
  match nth_error (hands s) h with Some l => Some (hget (heap s) l dflt) | None => None end.

(* a sequence of calls on one generator state, as a pure function *)
Fixpoint seq_calls (ds : list nat) (g : S) : S * list (list Z) :=
  match ds with
  | [] => (g, [])
  | d :: t => let '(g1, out) := call d g in let '(g2, outs) := seq_calls t g1 in (g2, out :: outs)
  end.

(* no two of: the global generator, the objects' states, the handles share a location *)
Definition locs (s : st) : list nat :=
  0%nat :: flat_map (fun x => match x with Some l => [l] | None => [] end) (objs s) ++ hands s.
Definition wf (s : st) : Prop :=
  NoDup (locs s) /\ (forall l, In l (locs s) -> (l < length (heap s))%nat) /\ (1 <= length (heap s))%nat.
End Rnd.

(* ---- the symbolic instance used by the correspondence check: a state is where it came from and what was done to it ---- *)
Inductive origin := FromSeed (z : Z) | FromGlobal (k : nat) | GlobalGen.
Inductive evt := EvCall (d : nat) | EvDraw.
Definition sym : Type := (origin * nat * list evt)%type.     (* origin, draws taken from the global generator so far (for GlobalGen), history *)
Definition sym_draw (g : sym) : sym * Z :=
  match g with (o, k, h) => ((o, Datatypes.S k, h ++ [EvDraw]), Z.of_nat k) end.
(* seeds are tagged: an explicit seed z is 2z, the k-th draw of the global generator 2k+1 *)
Definition sym_mk (z : Z) : sym :=
  if Z.odd z then (FromGlobal (Z.to_nat (z / 2)), 0%nat, []) else (FromSeed (z / 2), 0%nat, []).
Definition sym_draw_tagged (g : sym) : sym * Z := let '(g', v) := sym_draw g in (g', 2 * v + 1)%Z.
Definition sym_call (d : nat) (g : sym) : sym * list Z :=
  match g with (o, k, h) => ((o, k, h ++ [EvCall d]), []) end.

Definition origin_eqb (a b : origin) : bool :=
  match a, b with
  | FromSeed x, FromSeed y => Z.eqb x y
  | FromGlobal x, FromGlobal y => Nat.eqb x y
  | GlobalGen, GlobalGen => true
  | _, _ => false
  end.
Definition evt_eqb (a b : evt) : bool :=
  match a, b with EvCall x, EvCall y => Nat.eqb x y | EvDraw, EvDraw => true | _, _ => false end.
Fixpoint evts_eqb (a b : list evt) : bool :=
  match a, b with
  | [], [] => true
  | x :: t, y :: u => evt_eqb x y && evts_eqb t u
  | _, _ => false
  end.
Definition sym_eqb (a b : sym) : bool :=
  match a, b with (o1, k1, h1), (o2, k2, h2) => origin_eqb o1 o2 && Nat.eqb k1 k2 && evts_eqb h1 h2 end.

Definition sym0 : sym := (GlobalGen, 0%nat, []).
(* for every operation: the state term the drawing generator had before it (calls: the object's, after creation) *)
Fixpoint pre_states (s : st sym) (l : list op) : list (option (nat * sym)) :=
  match l with
  | [] => []
  | x :: t =>
    let here :=
      match x with
      | OCall o d => let '(s1, loc) := ensure sym sym_draw_tagged sym_mk s o sym0 in Some (d, hget sym (heap sym s1) loc sym0)
      | _ => None
      end in
    here :: pre_states (fst (step sym sym_draw_tagged sym_mk sym_call sym0 s x)) t
  end.
(* class of every call: the index of the first call with the same descriptor and state term (others: -1) *)
Definition classes (nobj : nat) (l : list op) : list Z :=
  let ps := pre_states (init sym sym0 nobj) l in
  let fix first (k : nat) (p : nat * sym) (q : list (option (nat * sym))) : Z :=
      match q with
      | [] => (-1)%Z
      | Some (d, g) :: t => if Nat.eqb d (fst p) && sym_eqb g (snd p) then Z.of_nat k else first (Datatypes.S k) p t
      | None :: t => first (Datatypes.S k) p t
      end in
  map (fun x => match x with Some p => first 0%nat p ps | None => (-1)%Z end) ps.
