(* The bit-vector term language pyvsc builds through the Boolector API, and its meaning.
   A value is (width, unsigned representative in [0, 2^width)).  None = sort error (Boolector would abort). *)
From Coq Require Import ZArith List Bool.
From PV Require Import Common.Bits.
Import ListNotations.
Open Scope Z_scope.

Inductive bvop2 :=
| OEq | ONe | OUlt | OUlte | OUgt | OUgte | OSlt | OSlte | OSgt | OSgte
| OAdd | OSub | OMul | OUdiv | OUrem | OSdiv | OSrem | OAnd | OOr | OXor | OSll | OSrl | OImplies.

Inductive bvterm :=
| BVar (id : nat) (w : Z)
| BConst (v w : Z)
| BOp2 (o : bvop2) (a b : bvterm)
| BNot (a : bvterm)
| BSext (a : bvterm) (k : Z)
| BUext (a : bvterm) (k : Z)
| BSlice (a : bvterm) (hi lo : Z)
| BCond (c a b : bvterm).

Definition bvval := (Z * Z)%type.
Definition b2z (b : bool) : Z := if b then 1 else 0.

(* SMT-LIB division: x udiv 0 = all ones, x urem 0 = x; signed versions by sign cases *)
Definition udiv (w a b : Z) : Z := if b =? 0 then 2 ^ w - 1 else a / b.
Definition urem (w a b : Z) : Z := if b =? 0 then a else a mod b.
Definition negw (w a : Z) : Z := wrapU w (- a).
Definition msb (w a : Z) : bool := 2 ^ (w - 1) <=? a.
Definition sdiv (w a b : Z) : Z :=
  match msb w a, msb w b with
  | false, false => udiv w a b
  | true, false => negw w (udiv w (negw w a) b)
  | false, true => negw w (udiv w a (negw w b))
  | true, true => udiv w (negw w a) (negw w b)
  end.
Definition srem (w a b : Z) : Z :=
  match msb w a, msb w b with
  | false, false => urem w a b
  | true, false => negw w (urem w (negw w a) b)
  | false, true => urem w a (negw w b)
  | true, true => negw w (urem w (negw w a) (negw w b))
  end.

Definition op2_eval (o : bvop2) (w a b : Z) : bvval :=
  match o with
  | OEq => (1, b2z (a =? b))
  | ONe => (1, b2z (negb (a =? b)))
  | OUlt => (1, b2z (a <? b))
  | OUlte => (1, b2z (a <=? b))
  | OUgt => (1, b2z (b <? a))
  | OUgte => (1, b2z (b <=? a))
  | OSlt => (1, b2z (toS w a <? toS w b))
  | OSlte => (1, b2z (toS w a <=? toS w b))
  | OSgt => (1, b2z (toS w b <? toS w a))
  | OSgte => (1, b2z (toS w b <=? toS w a))
  | OAdd => (w, wrapU w (a + b))
  | OSub => (w, wrapU w (a - b))
  | OMul => (w, wrapU w (a * b))
  | OUdiv => (w, udiv w a b)
  | OUrem => (w, urem w a b)
  | OSdiv => (w, sdiv w a b)
  | OSrem => (w, srem w a b)
  | OAnd => (w, Z.land a b)
  | OOr => (w, Z.lor a b)
  | OXor => (w, Z.lxor a b)
  | OSll => (w, if w <=? b then 0 else wrapU w (a * 2 ^ b))
  | OSrl => (w, if w <=? b then 0 else a / 2 ^ b)
  | OImplies => (1, b2z (negb (a =? 1) || (b =? 1)))
  end.

Fixpoint bv_eval (s : nat -> Z) (t : bvterm) : option bvval :=
  match t with
  | BVar id w => if 1 <=? w then Some (w, wrapU w (s id)) else None
  | BConst v w => if 1 <=? w then Some (w, wrapU w v) else None
  | BOp2 o a b =>
    match bv_eval s a, bv_eval s b with
    | Some (wa, va), Some (wb, vb) =>
      if wa =? wb then
        match o with
        | OImplies => if wa =? 1 then Some (op2_eval o wa va vb) else None
        | _ => Some (op2_eval o wa va vb)
        end
      else None
    | _, _ => None
    end
  | BNot a =>
    match bv_eval s a with Some (w, v) => Some (w, 2 ^ w - 1 - v) | None => None end
  | BSext a k =>
    match bv_eval s a with
    | Some (w, v) => if 0 <=? k then Some (w + k, wrapU (w + k) (toS w v)) else None
    | None => None
    end
  | BUext a k =>
    match bv_eval s a with
    | Some (w, v) => if 0 <=? k then Some (w + k, v) else None
    | None => None
    end
  | BSlice a hi lo =>
    match bv_eval s a with
    | Some (w, v) => if (0 <=? lo) && (lo <=? hi) && (hi <? w) then Some (hi - lo + 1, (v / 2 ^ lo) mod 2 ^ (hi - lo + 1)) else None
    | None => None
    end
  | BCond c a b =>
    match bv_eval s c, bv_eval s a, bv_eval s b with
    | Some (wc, vc), Some (wa, va), Some (wb, vb) =>
      if (wc =? 1) && (wa =? wb) then Some (wa, if vc =? 1 then va else vb) else None
    | _, _, _ => None
    end
  end.

Definition bv_true (s : nat -> Z) (t : bvterm) : option bool :=
  match bv_eval s t with Some (1, v) => Some (v =? 1) | _ => None end.

(* structural equality, for comparing the model's lowering with the recorded terms *)
Definition op2_code (o : bvop2) : Z :=
  match o with
  | OEq => 0 | ONe => 1 | OUlt => 2 | OUlte => 3 | OUgt => 4 | OUgte => 5 | OSlt => 6 | OSlte => 7 | OSgt => 8 | OSgte => 9
  | OAdd => 10 | OSub => 11 | OMul => 12 | OUdiv => 13 | OUrem => 14 | OSdiv => 15 | OSrem => 16 | OAnd => 17 | OOr => 18
  | OXor => 19 | OSll => 20 | OSrl => 21 | OImplies => 22
  end.
Fixpoint bvterm_eqb (x y : bvterm) : bool :=
  match x, y with
  | BVar i w, BVar j v => Nat.eqb i j && (w =? v)
  | BConst a w, BConst b v => (wrapU w a =? wrapU v b) && (w =? v)
  | BOp2 o a b, BOp2 p c d => (op2_code o =? op2_code p) && bvterm_eqb a c && bvterm_eqb b d
  | BNot a, BNot b => bvterm_eqb a b
  | BSext a k, BSext b l => bvterm_eqb a b && (k =? l)
  | BUext a k, BUext b l => bvterm_eqb a b && (k =? l)
  | BSlice a h l, BSlice b i m => bvterm_eqb a b && (h =? i) && (l =? m)
  | BCond c a b, BCond d e f => bvterm_eqb c d && bvterm_eqb a e && bvterm_eqb b f
  | _, _ => false
  end.
