(* Theorems about dynamic and inline constraints (Dyn.v, C06): a dynamic block referenced as a Boolean term
   (dyn_ref) or as a statement (dyn_stmt), Boolean composition of references, typing of references (so that
   LowerProofs.lower_expr_correct applies), and the scope stack of with-blocks. *)
From Coq Require Import ZArith List Bool Lia Arith.
From PV Require Import Common.Bits Rand.BV Rand.Expr Rand.Lower Rand.Typing Rand.LowerProofs
                       Rand.Unroll Rand.UnrollProofs Rand.Dyn.
Import ListNotations. Open Scope Z_scope.

(* ------------------------------------------------------------------ *)
(* vocabulary                                                          *)
(* ------------------------------------------------------------------ *)
(* e has a meaning in every context *)
Definition defined (G : fenv) (rho : nat -> Z) (e : expr) : Prop := forall c p, sem G rho c p e <> None.
(* e has a meaning where a block statement is built: without context *)
Definition defined1 (G : fenv) (rho : nat -> Z) (e : expr) : Prop := sem G rho (-1) false e <> None.
(* the truth of e as a bool, undefined counted as false *)
Definition tb (G : fenv) (rho : nat -> Z) (e : expr) : bool :=
  match truth G rho e with Some true => true | _ => false end.

(* a 1-bit unsigned term of value A in every context *)
Definition bit_every (G : fenv) (rho : nat -> Z) (a : expr) (A : bool) : Prop :=
  width_of G a = 1 /\ spec_signed G a = false /\
  forall c p, sem G rho c p a = Some (1, if A then 1 else 0).
(* a 1-bit unsigned term of value A in every context that is at most 1 bit wide: the contexts in which the
   operands of | & ~ over 1-bit terms, conditions and statements are built.  This is UnrollProofs.bit_ok:
     width_of G a = 1 /\ spec_signed G a = false /\ forall c p, c <= 1 -> sem G rho c p a = Some (1, if A then 1 else 0) *)
Definition bit (G : fenv) (rho : nat -> Z) (a : expr) (A : bool) : Prop := bit_ok G rho a A.

Lemma defined_defined1 G rho e : defined G rho e -> defined1 G rho e.
Proof. intros H. apply H. Qed.

Lemma bit_every_bit G rho a A : bit_every G rho a A -> bit G rho a A.
Proof.
  intros (Hw & Hs & Hsem). split; [exact Hw|]. split; [exact Hs|]. intros c p _. apply Hsem.
Qed.

Lemma bit_truth G rho a A : bit G rho a A -> truth G rho a = Some A.
Proof. apply bit_ok_truth. Qed.

Lemma tb_true G rho e : tb G rho e = true <-> truth G rho e = Some true.
Proof.
  unfold tb. destruct (truth G rho e) as [[|]|]; split; intros H; try reflexivity; discriminate H.
Qed.

Lemma truth_defined1 G rho e : truth G rho e = Some true -> defined1 G rho e.
Proof. unfold truth, defined1. intros H Hn. rewrite Hn in H. discriminate H. Qed.

Lemma forallb_tb G rho es :
  forallb (tb G rho) es = true <-> forall e, In e es -> truth G rho e = Some true.
Proof.
  rewrite forallb_forall. split.
  - intros H e He. apply tb_true, H, He.
  - intros H e He. apply tb_true, H, He.
Qed.

Lemma sem_reset G rho c p x :
  sem G rho c p (EReset x) =
  match sem G rho (-1) false x with Some (w, v) => Some (1, if v =? 0 then 0 else 1) | None => None end.
Proof. reflexivity. Qed.

(* ------------------------------------------------------------------ *)
(* 1. the reference as a Boolean term                                  *)
(* ------------------------------------------------------------------ *)
Lemma reset_bit G rho e : defined1 G rho e -> bit_every G rho (EReset e) (tb G rho e).
Proof.
  intros Hd. split; [reflexivity|]. split; [reflexivity|].
  intros c p. rewrite sem_reset. unfold tb, truth.
  destruct (sem G rho (-1) false e) as [[w v]|] eqn:E.
  - destruct (v =? 0); reflexivity.
  - exfalso. exact (Hd E).
Qed.

Lemma and_step G rho acc d A B :
  bit G rho acc A -> bit G rho d B -> bit G rho (EBin And acc d) (A && B).
Proof.
  intros (Hwa & Hsa & Hsema) (Hwd & Hsd & Hsemd). split; [|split].
  - cbn [width_of is_rel]. rewrite Hwa, Hwd. reflexivity.
  - cbn [spec_signed is_rel]. rewrite Hsa. reflexivity.
  - intros c p Hc. cbn [sem]. rewrite Hwa, Hwd, Hsa, Hsd.
    replace (Z.max c (Z.max 1 1)) with 1 by lia.
    rewrite Hsema, Hsemd by lia.
    destruct A; destruct B; vm_compute; reflexivity.
Qed.

Lemma and_chain G rho : forall t acc A,
  (forall x, In x t -> defined1 G rho x) -> bit G rho acc A ->
  bit G rho (fold_left (fun a x => EBin And a (EReset x)) t acc) (A && forallb (tb G rho) t).
Proof.
  induction t as [|x t IH]; intros acc A Hd Hacc.
  - cbn [fold_left forallb]. rewrite andb_true_r. exact Hacc.
  - cbn [fold_left forallb]. rewrite andb_assoc. apply IH.
    + intros y Hy. apply Hd. right. exact Hy.
    + apply and_step; [exact Hacc|]. apply bit_every_bit, reset_bit, Hd. left. reflexivity.
Qed.

(* the value of a reference, under definedness of the statements where they are built *)
Lemma dyn_ref_value1 G rho es : (forall e, In e es -> defined1 G rho e) ->
  forall c p, sem G rho c p (dyn_ref es) = Some (1, if forallb (tb G rho) es then 1 else 0).
Proof.
  intros Hd c p. destruct es as [|e t].
  - reflexivity.
  - unfold dyn_ref. rewrite sem_reset.
    assert (Hb : bit G rho (fold_left (fun a x => EBin And a (EReset x)) t (EReset e))
                     (tb G rho e && forallb (tb G rho) t)).
    { apply and_chain.
      - intros x Hx. apply Hd. right. exact Hx.
      - apply bit_every_bit, reset_bit, Hd. left. reflexivity. }
    destruct Hb as (_ & _ & Hsem). rewrite Hsem by lia. cbn [forallb].
    destruct (tb G rho e && forallb (tb G rho) t); reflexivity.
Qed.

Theorem dyn_ref_value :
  forall G rho es, (forall e, In e es -> defined G rho e) ->
    forall c p, sem G rho c p (dyn_ref es) =
                Some (1, if forallb (fun e => match truth G rho e with Some true => true | _ => false end) es
                         then 1 else 0).
Proof.
  intros G rho es Hd c p. change (fun e => match truth G rho e with Some true => true | _ => false end) with (tb G rho).
  apply dyn_ref_value1. intros e He. apply defined_defined1, Hd, He.
Qed.
Print Assumptions dyn_ref_value.

(* a reference is a bit in every context, with its width and signedness *)
Lemma dyn_ref_bit1 G rho es : (forall e, In e es -> defined1 G rho e) ->
  bit_every G rho (dyn_ref es) (forallb (tb G rho) es).
Proof.
  intros Hd. split; [reflexivity|]. split; [reflexivity|]. apply dyn_ref_value1. exact Hd.
Qed.

Theorem dyn_ref_bit :
  forall G rho es, (forall e, In e es -> defined G rho e) ->
    bit_every G rho (dyn_ref es)
              (forallb (fun e => match truth G rho e with Some true => true | _ => false end) es).
Proof.
  intros G rho es Hd. change (fun e => match truth G rho e with Some true => true | _ => false end) with (tb G rho).
  apply dyn_ref_bit1. intros e He. apply defined_defined1, Hd, He.
Qed.
Print Assumptions dyn_ref_bit.

Corollary dyn_ref_bit_narrow :
  forall G rho es, (forall e, In e es -> defined G rho e) ->
    bit G rho (dyn_ref es)
        (forallb (fun e => match truth G rho e with Some true => true | _ => false end) es).
Proof. intros G rho es Hd. apply bit_every_bit, dyn_ref_bit, Hd. Qed.

Lemma dyn_ref_truth_value G rho es : (forall e, In e es -> defined1 G rho e) ->
  truth G rho (dyn_ref es) = Some (forallb (tb G rho) es).
Proof. intros Hd. apply bit_truth, bit_every_bit, dyn_ref_bit1, Hd. Qed.

Theorem dyn_ref_truth :
  forall G rho es, (forall e, In e es -> defined G rho e) ->
    (truth G rho (dyn_ref es) = Some true <-> forall e, In e es -> truth G rho e = Some true).
Proof.
  intros G rho es Hd. rewrite dyn_ref_truth_value by (intros e He; apply defined_defined1, Hd, He).
  rewrite <- forallb_tb. split.
  - intros H. inversion H. reflexivity.
  - intros H. rewrite H. reflexivity.
Qed.
Print Assumptions dyn_ref_truth.

Theorem dyn_ref_defined :
  forall G rho es, (forall e, In e es -> defined G rho e) ->
    (exists b, truth G rho (dyn_ref es) = Some b) /\ defined G rho (dyn_ref es).
Proof.
  intros G rho es Hd. split.
  - eexists. apply dyn_ref_truth_value. intros e He. apply defined_defined1, Hd, He.
  - intros c p. rewrite dyn_ref_value by exact Hd. discriminate.
Qed.
Print Assumptions dyn_ref_defined.

(* --- without any definedness hypothesis: an undefined statement makes the reference undefined --- *)
Lemma chain_none_acc G rho : forall t acc,
  (forall c p, sem G rho c p acc = None) ->
  forall c p, sem G rho c p (fold_left (fun a x => EBin And a (EReset x)) t acc) = None.
Proof.
  induction t as [|x t IH]; intros acc Hacc c p.
  - apply Hacc.
  - cbn [fold_left]. apply IH. intros c' p'. cbn [sem]. rewrite Hacc. reflexivity.
Qed.

Lemma chain_none_item G rho x : sem G rho (-1) false x = None ->
  forall t acc, In x t ->
  forall c p, sem G rho c p (fold_left (fun a y => EBin And a (EReset y)) t acc) = None.
Proof.
  intros Hx. induction t as [|y t IH]; intros acc Hin c p.
  - destruct Hin.
  - cbn [fold_left]. destruct Hin as [->|Hin].
    + apply chain_none_acc. intros c' p'. cbn [sem]. rewrite Hx.
      destruct (sem G rho _ _ acc) as [[wl a]|]; reflexivity.
    + apply IH. exact Hin.
Qed.

Lemma dyn_ref_none G rho es x : In x es -> sem G rho (-1) false x = None ->
  forall c p, sem G rho c p (dyn_ref es) = None.
Proof.
  intros Hin Hx c p. destruct es as [|e t]; [destruct Hin|].
  unfold dyn_ref. rewrite sem_reset.
  assert (H : sem G rho (-1) false (fold_left (fun a y => EBin And a (EReset y)) t (EReset e)) = None).
  { destruct Hin as [->|Hin].
    - apply chain_none_acc. intros c' p'. rewrite sem_reset, Hx. reflexivity.
    - apply chain_none_item with (x := x); assumption. }
  rewrite H. reflexivity.
Qed.

(* STRONGER than dyn_ref_truth: no hypothesis at all *)
Theorem dyn_ref_truth_total :
  forall G rho es,
    truth G rho (dyn_ref es) = Some true <-> forall e, In e es -> truth G rho e = Some true.
Proof.
  intros G rho es. split.
  - intros H.
    assert (Hd : forall e, In e es -> defined1 G rho e).
    { intros e He Hn. unfold truth in H. rewrite (dyn_ref_none G rho es e He Hn) in H. discriminate H. }
    rewrite dyn_ref_truth_value in H by exact Hd. inversion H as [Hf]. rewrite Hf. apply forallb_tb. exact Hf.
  - intros H.
    assert (Hd : forall e, In e es -> defined1 G rho e) by (intros e He; apply truth_defined1, H, He).
    rewrite dyn_ref_truth_value by exact Hd. f_equal. apply forallb_tb. exact H.
Qed.
Print Assumptions dyn_ref_truth_total.

(* ------------------------------------------------------------------ *)
(* 2. Boolean composition                                              *)
(* ------------------------------------------------------------------ *)
Theorem dyn_or_bit : forall G rho a b A B,
  bit G rho a A -> bit G rho b B -> bit G rho (EBin Or a b) (A || B).
Proof. intros G rho a b A B. apply or_step. Qed.
Print Assumptions dyn_or_bit.

Theorem dyn_and_bit : forall G rho a b A B,
  bit G rho a A -> bit G rho b B -> bit G rho (EBin And a b) (A && B).
Proof. intros G rho a b A B. apply and_step. Qed.
Print Assumptions dyn_and_bit.

(* ~a is a bit in contexts of at most 1 bit only (see not_wide_context_example below) *)
Theorem dyn_not_bit : forall G rho a A, bit G rho a A -> bit G rho (ENot a) (negb A).
Proof.
  intros G rho a A (Hw & Hs & Hsem). split; [|split].
  - cbn [width_of]. exact Hw.
  - cbn [spec_signed]. exact Hs.
  - intros c p Hc. cbn [sem]. rewrite Hw, Hs. replace (Z.max c 1) with 1 by lia.
    rewrite Hsem by lia. destruct A; vm_compute; reflexivity.
Qed.
Print Assumptions dyn_not_bit.

Theorem dyn_or : forall G rho a b A B,
  bit G rho a A -> bit G rho b B -> truth G rho (EBin Or a b) = Some (A || B).
Proof. intros. apply bit_truth, dyn_or_bit; assumption. Qed.
Print Assumptions dyn_or.

Theorem dyn_and : forall G rho a b A B,
  bit G rho a A -> bit G rho b B -> truth G rho (EBin And a b) = Some (A && B).
Proof. intros. apply bit_truth, dyn_and_bit; assumption. Qed.
Print Assumptions dyn_and.

Theorem dyn_not : forall G rho a A, bit G rho a A -> truth G rho (ENot a) = Some (negb A).
Proof. intros. apply bit_truth, dyn_not_bit; assumption. Qed.
Print Assumptions dyn_not.

(* a bit used as a condition or statement, or wrapped in a reset, keeps its value *)
Lemma dyn_bit_reset G rho a A : bit G rho a A -> bit_every G rho (EReset a) A.
Proof.
  intros (_ & _ & Hsem). split; [reflexivity|]. split; [reflexivity|].
  intros c p. rewrite sem_reset, Hsem by lia. destruct A; reflexivity.
Qed.

(* ------------------------------------------------------------------ *)
(* 3. the reference as a statement                                     *)
(* ------------------------------------------------------------------ *)
Theorem dyn_stmt_holds :
  forall G rho es,
    holds_all G rho (dyn_stmt es) = Some true <-> forall e, In e es -> truth G rho e = Some true.
Proof.
  intros G rho es. unfold dyn_stmt. induction es as [|e t IH].
  - split; [intros _ e []|reflexivity].
  - cbn [map]. rewrite holds_all_cons, opt_and_true, IH.
    change (holds G rho (SExpr e)) with (truth G rho e). split.
    + intros [He Ht] x [<-|Hx]; [exact He|apply Ht; exact Hx].
    + intros H. split; [apply H; left; reflexivity|]. intros x Hx. apply H. right. exact Hx.
Qed.
Print Assumptions dyn_stmt_holds.

Theorem dyn_stmt_ref :
  forall G rho es, (forall e, In e es -> defined G rho e) ->
    (holds_all G rho (dyn_stmt es) = Some true <-> truth G rho (dyn_ref es) = Some true).
Proof. intros G rho es Hd. rewrite dyn_stmt_holds, dyn_ref_truth by exact Hd. tauto. Qed.
Print Assumptions dyn_stmt_ref.

(* STRONGER: no hypothesis *)
Theorem dyn_stmt_ref_total :
  forall G rho es, holds_all G rho (dyn_stmt es) = Some true <-> truth G rho (dyn_ref es) = Some true.
Proof. intros G rho es. rewrite dyn_stmt_holds, dyn_ref_truth_total. tauto. Qed.
Print Assumptions dyn_stmt_ref_total.

(* ------------------------------------------------------------------ *)
(* 4. typing: the lowering theorem applies to references               *)
(* ------------------------------------------------------------------ *)
Definition chain_wt (G : fenv) (a : expr) : Prop :=
  width_of G a = 1 /\ signed_of G a = false /\ spec_signed G a = false /\
  forall c p, c <= 1 -> wt G c p a = true /\ built_width G c a = 1.

Lemma reset_chain_wt G e : wt G (-1) false e = true -> built_width G (-1) e = 1 -> chain_wt G (EReset e).
Proof.
  intros Hwt Hbw. split; [reflexivity|]. split; [reflexivity|]. split; [reflexivity|].
  intros c p _. cbn [wt built_width]. rewrite Hwt, Hbw. split; reflexivity.
Qed.

Lemma and_chain_wt_step G a b : chain_wt G a -> chain_wt G b -> chain_wt G (EBin And a b).
Proof.
  intros (Hwa & Hga & Hsa & Ha) (Hwb & Hgb & Hsb & Hb). split; [|split; [|split]].
  - cbn [width_of is_rel]. rewrite Hwa, Hwb. reflexivity.
  - cbn [signed_of]. rewrite Hga. reflexivity.
  - cbn [spec_signed is_rel]. rewrite Hsa. reflexivity.
  - intros c p Hc. cbn [wt built_width is_rel]. rewrite Hwa, Hwb, Hga, Hgb, Hsa, Hsb.
    replace (Z.max c (Z.max 1 1)) with 1 by lia. cbn [andb].
    destruct (Ha 1 false ltac:(lia)) as [Ha1 _]. destruct (Hb 1 false ltac:(lia)) as [Hb1 _].
    rewrite Ha1, Hb1. split; reflexivity.
Qed.

Lemma and_chain_wt G : forall t acc,
  (forall e, In e t -> wt G (-1) false e = true /\ built_width G (-1) e = 1) ->
  chain_wt G acc -> chain_wt G (fold_left (fun a x => EBin And a (EReset x)) t acc).
Proof.
  induction t as [|x t IH]; intros acc Ht Hacc.
  - exact Hacc.
  - cbn [fold_left]. apply IH.
    + intros e He. apply Ht. right. exact He.
    + apply and_chain_wt_step; [exact Hacc|].
      destruct (Ht x (or_introl eq_refl)) as [H1 H2]. apply reset_chain_wt; assumption.
Qed.

Theorem dyn_ref_wt :
  forall G es ctx psg,
    (forall e, In e es -> wt G (-1) false e = true /\ built_width G (-1) e = 1) ->
    wt G ctx psg (dyn_ref es) = true.
Proof.
  intros G es ctx psg H. destruct es as [|e t].
  - reflexivity.
  - unfold dyn_ref. cbn [wt].
    assert (Hc : chain_wt G (fold_left (fun a x => EBin And a (EReset x)) t (EReset e))).
    { apply and_chain_wt.
      - intros x Hx. apply H. right. exact Hx.
      - destruct (H e (or_introl eq_refl)) as [H1 H2]. apply reset_chain_wt; assumption. }
    destruct Hc as (_ & _ & _ & Hc). destruct (Hc (-1) false ltac:(lia)) as [H1 H2].
    rewrite H1, H2. reflexivity.
Qed.
Print Assumptions dyn_ref_wt.

(* the lowered reference evaluates to the conjunction of its statements *)
Theorem dyn_ref_lowered :
  forall G B rho es ctx,
    fields_ok G B rho ->
    (forall e, In e es -> wt G (-1) false e = true /\ built_width G (-1) e = 1) ->
    (forall e, In e es -> defined G rho e) ->
    bv_eval rho (lower_e G B ctx (dyn_ref es)) =
    Some (1, if forallb (fun e => match truth G rho e with Some true => true | _ => false end) es then 1 else 0).
Proof.
  intros G B rho es ctx HF Hwt Hd.
  apply (lower_expr_correct G B rho (dyn_ref es) ctx false); [exact HF| |].
  - apply dyn_ref_wt. exact Hwt.
  - apply dyn_ref_value. exact Hd.
Qed.
Print Assumptions dyn_ref_lowered.

(* ------------------------------------------------------------------ *)
(* 5. the scope stack                                                  *)
(* ------------------------------------------------------------------ *)
Definition max_depth (body : list ev) : nat := fold_right (fun x a => Nat.max (ev_depth x) a) 0%nat body.

Lemma depth_in x body : In x body -> (ev_depth x <= max_depth body)%nat.
Proof.
  induction body as [|y t IH]; intros Hin.
  - destruct Hin.
  - unfold max_depth in *. cbn [fold_right]. destruct Hin as [->|Hin].
    + lia.
    + specialize (IH Hin). lia.
Qed.

Lemma ev_depth_pos e : (1 <= ev_depth e)%nat.
Proof. destruct e; cbn [ev_depth]; lia. Qed.

Lemma fold_run k : forall body top rest,
  (forall x, In x body -> forall top' rest', run_ev k x (top' :: rest') = (top' ++ [ev_stmt k x]) :: rest') ->
  fold_left (fun acc x => run_ev k x acc) body (top :: rest) = (top ++ map (ev_stmt k) body) :: rest.
Proof.
  induction body as [|x t IH]; intros top rest H.
  - cbn [fold_left map]. rewrite app_nil_r. reflexivity.
  - cbn [fold_left map]. rewrite (H x (or_introl eq_refl)). rewrite IH.
    + rewrite <- app_assoc. reflexivity.
    + intros y Hy. apply H. right. exact Hy.
Qed.

(* running an event on a non-empty stack appends exactly its denotation to the innermost scope *)
Lemma run_ev_spec : forall fuel e top rest, (ev_depth e <= fuel)%nat ->
  run_ev fuel e (top :: rest) = (top ++ [ev_stmt fuel e]) :: rest.
Proof.
  induction fuel as [|k IH]; intros e top rest Hd.
  - pose proof (ev_depth_pos e). lia.
  - destruct e as [s|body].
    + reflexivity.
    + cbn [run_ev ev_stmt]. cbn [ev_depth] in Hd. fold (max_depth body) in Hd.
      rewrite fold_run.
      * reflexivity.
      * intros x Hx top' rest'. apply IH. pose proof (depth_in x body Hx). lia.
Qed.

(* enough fuel is enough: the denotation does not depend on it *)
Lemma ev_stmt_fuel : forall f f' e, (ev_depth e <= f)%nat -> (ev_depth e <= f')%nat -> ev_stmt f e = ev_stmt f' e.
Proof.
  induction f as [|k IH]; intros f' e Hf Hf'.
  - pose proof (ev_depth_pos e). lia.
  - destruct f' as [|k']; [pose proof (ev_depth_pos e); lia|].
    destruct e as [s|body].
    + reflexivity.
    + cbn [ev_stmt]. f_equal. cbn [ev_depth] in Hf, Hf'. fold (max_depth body) in Hf, Hf'.
      apply map_ext_in. intros x Hx. pose proof (depth_in x body Hx). apply IH; lia.
Qed.

Lemma with_block_spec body st :
  with_block body st = (st, map (ev_stmt (S (max_depth body))) body).
Proof.
  unfold with_block. fold (max_depth body). cbv zeta. rewrite fold_run.
  - reflexivity.
  - intros x Hx top' rest'. apply run_ev_spec. pose proof (depth_in x body Hx). lia.
Qed.

Theorem with_block_restores : forall body st, fst (with_block body st) = st.
Proof. intros. rewrite with_block_spec. reflexivity. Qed.
Print Assumptions with_block_restores.

Theorem with_block_block : forall body st,
  snd (with_block body st) = map (ev_stmt (S (fold_right (fun x a => Nat.max (ev_depth x) a) 0%nat body))) body.
Proof. intros. rewrite with_block_spec. reflexivity. Qed.
Print Assumptions with_block_block.

(* any larger fuel denotes the same block *)
Theorem with_block_block_fuel : forall body st f, (max_depth body <= f)%nat ->
  snd (with_block body st) = map (ev_stmt f) body.
Proof.
  intros body st f Hf. rewrite with_block_spec. cbn [snd]. apply map_ext_in. intros x Hx.
  pose proof (depth_in x body Hx). apply ev_stmt_fuel; lia.
Qed.
Print Assumptions with_block_block_fuel.

Theorem with_block_independent : forall body st st', snd (with_block body st) = snd (with_block body st').
Proof. intros. rewrite !with_block_spec. reflexivity. Qed.
Print Assumptions with_block_independent.

Theorem calls_leave_no_trace : forall bodies st, fold_left (fun s b => fst (with_block b s)) bodies st = st.
Proof.
  induction bodies as [|b t IH]; intros st.
  - reflexivity.
  - cbn [fold_left]. rewrite with_block_restores. apply IH.
Qed.
Print Assumptions calls_leave_no_trace.

Theorem enforced_exact : forall cls inl s, In s (enforced cls inl) <-> In s cls \/ In s inl.
Proof. intros. unfold enforced. apply in_app_iff. Qed.
Print Assumptions enforced_exact.

(* the summary of a nested block means the conjunction of its statements *)
Lemma holds_implies_all G rho c b :
  holds G rho (SImplies c b) =
  match truth G rho c with Some true => holds_all G rho b | Some false => Some true | None => None end.
Proof.
  cbn [holds]. destruct (truth G rho c) as [[|]|]; reflexivity.
Qed.

Theorem as_stmt_holds : forall G rho block, holds G rho (as_stmt block) = holds_all G rho block.
Proof. intros. unfold as_stmt. rewrite holds_implies_all. reflexivity. Qed.
Print Assumptions as_stmt_holds.

(* ------------------------------------------------------------------ *)
(* 6. non-vacuity                                                      *)
(* ------------------------------------------------------------------ *)
Module DynExamples.
  Definition G : fenv := [mkF 8 false; mkF 8 false].
  Definition rho : nat -> Z := fun id => match id with 0%nat => 5 | _ => 250 end.
  Definition d1 : list expr := [EBin Lt (EField 0) (ELit 10 true 32)].
  Definition d2 : list expr := [EBin Gt (EField 0) (ELit 200 true 32); EBin Gt (EField 1) (ELit 200 true 32)].

  Example ref_values :
    truth G rho (dyn_ref d1) = Some true /\
    truth G rho (dyn_ref d2) = Some false /\
    truth G rho (dyn_ref []) = Some true /\
    truth G rho (EBin Or (dyn_ref d1) (dyn_ref d2)) = Some true /\
    truth G rho (EBin And (dyn_ref d1) (dyn_ref d2)) = Some false /\
    truth G rho (ENot (dyn_ref d1)) = Some false /\
    truth G rho (ENot (dyn_ref d2)) = Some true /\
    truth G rho (EBin And (dyn_ref d1) (ENot (dyn_ref d2))) = Some true /\
    truth G rho (EBin Or (ENot (dyn_ref d1)) (dyn_ref d2)) = Some false /\
    holds_all G rho (dyn_stmt d1) = Some true /\
    holds_all G rho (dyn_stmt d2) = Some false /\
    holds_all G rho (dyn_stmt []) = Some true.
  Proof. vm_compute. repeat split. Qed.

  Example ref_sem :
    sem G rho 32 true (dyn_ref d1) = Some (1, 1) /\ sem G rho 32 true (dyn_ref d2) = Some (1, 0).
  Proof. vm_compute. repeat split. Qed.

  (* ~ of a bit is not a bit in a wider context: it inverts after extension, so both are non-zero at 8 bits;
     and | & of bits take the width of the context (value unchanged) *)
  Example not_wide_context_example :
    sem G rho 8 false (ENot (dyn_ref d1)) = Some (8, 254) /\
    sem G rho 8 false (ENot (dyn_ref d2)) = Some (8, 255) /\
    sem G rho 8 false (EBin Or (dyn_ref d1) (dyn_ref d2)) = Some (8, 1) /\
    sem G rho 1 false (ENot (dyn_ref d1)) = Some (1, 0).
  Proof. vm_compute. repeat split. Qed.

  Example not_bit_needs_narrow_context :
    ~ (forall G rho a A, bit_every G rho a A -> bit_every G rho (ENot a) (negb A)).
  Proof.
    intros H.
    assert (Hb : bit_every G rho (dyn_ref d1) true).
    { split; [reflexivity|]. split; [reflexivity|]. intros c p. reflexivity. }
    destruct (H _ _ _ _ Hb) as (_ & _ & Hs). specialize (Hs 8 false). vm_compute in Hs. discriminate Hs.
  Qed.

  (* an undefined statement (division by zero) makes statement and reference undefined alike *)
  Definition d3 : list expr := [EBin Lt (EField 0) (ELit 10 true 32); EBin Eq (EBin Div (EField 0) (ELit 0 true 32)) (EField 1)].
  Example undefined_example :
    truth G rho (dyn_ref d3) = None /\ holds_all G rho (dyn_stmt d3) = None.
  Proof. vm_compute. repeat split. Qed.

  Example wt_example :
    wt G 32 true (dyn_ref d1) = true /\ wt G (-1) false (dyn_ref d2) = true /\
    wt G (-1) false (EBin Or (dyn_ref d1) (ENot (dyn_ref d2))) = true.
  Proof. vm_compute. repeat split. Qed.

  (* the theorems applied *)
  Lemma d_defined : forall e, In e (d1 ++ d2) -> defined G rho e.
  Proof. intros e [<-|[<-|[<-|[]]]] c p; cbn [sem is_rel]; discriminate. Qed.

  Example or_applied :
    truth G rho (EBin Or (dyn_ref d1) (ENot (dyn_ref d2))) = Some true.
  Proof.
    assert (H1 : forall e, In e d1 -> defined G rho e) by (intros e He; apply d_defined, in_or_app; left; exact He).
    assert (H2 : forall e, In e d2 -> defined G rho e) by (intros e He; apply d_defined, in_or_app; right; exact He).
    rewrite (dyn_or G rho _ _ _ _ (dyn_ref_bit_narrow G rho d1 H1)
                    (dyn_not_bit G rho _ _ (dyn_ref_bit_narrow G rho d2 H2))).
    reflexivity.
  Qed.

  (* with-blocks: a nested block on a non-empty stack *)
  Definition s1 := SExpr (EBin Lt (EField 0) (ELit 10 true 32)).
  Definition s2 := SExpr (EBin Gt (EField 1) (ELit 200 true 32)).
  Definition s3 := SExpr (EBin Ne (EField 0) (EField 1)).
  Definition s4 := SExpr (EBin Gt (EField 0) (ELit 200 true 32)).
  Definition below : stack := [[s4]; [s3; s4]].
  Definition body : list ev := [EvStmt s1; EvWith [EvStmt s2; EvWith [EvStmt s3]]; EvStmt s2].

  Example with_block_example :
    with_block body below = (below, [s1; as_stmt [s2; as_stmt [s3]]; s2]) /\
    with_block body [] = ([], [s1; as_stmt [s2; as_stmt [s3]]; s2]) /\
    holds_all G rho (snd (with_block body below)) = Some true /\
    holds_all G rho (snd (with_block (EvStmt s4 :: body) below)) = Some false /\
    fold_left (fun s b => fst (with_block b s)) [body; body] below = below.
  Proof. vm_compute. repeat split. Qed.
End DynExamples.
