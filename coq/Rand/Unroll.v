(* List constraints (C04): the expansion of foreach / sum / unique / membership over the elements a list has.
   Executable definitions only; the correspondence check writes its cases in these forms, so the expansion that is
   compared with the solver transcript and judged on the exposed list is the one the theorems of UnrollProofs.v are about.

   A list is given by the leaf ids of its elements, in index order (ids); its size is a leaf of its own.
   - foreach: array_constraint_builder.py visit_constraint_foreach — the body is instantiated per index, the index
     replaced by a literal (python int: 32 bit signed), `it` / l[i+k] resolved to the element's field; a condition
     that only depends on the index is folded during the expansion (only the taken branch is emitted)
   - sum: field_array_model.py get_sum_expr — ((0 + l[0]) + l[1]) + ..., the literal 0 has the element's signedness
     and width w + bits(n-1), "so the sum itself cannot overflow"
   - unique over lists and scalars: constraint_unique_model.py — all elements collected, pairwise !=
   - x.inside(list): expr_in_model.py — x == l[0] | x == l[1] | ..., nothing = false *)
From Coq Require Import ZArith List Bool.
From PV Require Import Common.Bits Rand.Expr.
Import ListNotations.
Open Scope Z_scope.

(* the number of bits of n-1: what get_sum_expr adds to the element width *)
Definition extra_bits (n : nat) : Z :=
  let m := Z.of_nat n - 1 in if m <=? 0 then 0 else Z.log2 m + 1.
Definition sum_width (w : Z) (n : nat) : Z := w + extra_bits n.

Definition sum_expr (w : Z) (sg : bool) (ids : list nat) : expr :=
  fold_left (fun acc id => EBin Add acc (EField id)) ids (ELit 0 sg (sum_width w (List.length ids))).

(* FieldArrayModel.get_product_expr: a 64-bit literal 1 (0 for the empty list) times every element *)
Definition product_expr (sg : bool) (ids : list nat) : expr :=
  fold_left (fun acc id => EBin Mul acc (EField id)) ids (ELit (match ids with [] => 0 | _ => 1 end) sg 64).

Definition in_list (e : expr) (ids : list nat) : expr :=
  e_in e (map (fun id => (EField id, @None expr)) ids).

Definition unique_of (groups : list (list nat)) : stmt := SUnique (List.concat groups).

(* ConstraintUniqueVecModel.build: for every pair of vectors (i < j, in order) an OR over the positions of "elements differ"
   (the later position outermost on the left), the pairs AND-ed together left to right; the solver's And / Or are applied to
   the 1-bit comparison nodes directly *)
Definition vec_ne (a b : list nat) : option expr :=
  match combine a b with
  | [] => None
  | (x, y) :: t =>
    Some (fold_left (fun acc p => EBin Or (EBin Ne (EField (fst p)) (EField (snd p))) acc) t (EBin Ne (EField x) (EField y)))
  end.
Fixpoint vec_pairs (vs : list (list nat)) : list (option expr) :=
  match vs with
  | [] => []
  | v :: t => map (vec_ne v) t ++ vec_pairs t
  end.
Definition unique_vec_of (vs : list (list nat)) : list stmt :=
  match vec_pairs vs with
  | Some e0 :: t =>
    match fold_left (fun acc o => match acc, o with Some a, Some e => Some (EBin And a e) | _, _ => None end) t (Some e0) with
    | Some e => [SExpr e]
    | None => []
    end
  | _ => []
  end.

(* an expression without a meaning: a reference outside the list (sem = None) *)
Definition EUndef : expr := EPart 0 0 1.
Definition elem_at (ids : list nat) (i : nat) (off : Z) : expr :=
  let k := Z.of_nat i + off in
  if k <? 0 then EUndef
  else match nth_error ids (Z.to_nat k) with Some id => EField id | None => EUndef end.
Definition idx_lit (i : nat) : expr := ELit (Z.of_nat i) true 32.

(* body i it : the statements of the foreach body for index i and element leaf it *)
Definition foreach_inst (ids : list nat) (body : nat -> nat -> list stmt) : list stmt :=
  List.concat (map (fun p => body (fst p) (snd p)) (combine (seq 0 (List.length ids)) ids)).

(* a condition on the index alone, decided while expanding *)
Inductive icmp := IGt | ILt | IGe | ILe | IEq | INe.
Definition idx_cond (c : icmp) (i : nat) (v : Z) : bool :=
  let x := Z.of_nat i in
  match c with IGt => v <? x | ILt => x <? v | IGe => v <=? x | ILe => x <=? v | IEq => x =? v | INe => negb (x =? v) end.
Definition idx_if (c : bool) (t f : list stmt) : list stmt := if c then t else f.

(* ---- what "over exactly the elements the list exposes" means, on integers ---- *)
Definition elem_val (sg : bool) (w : Z) (rho : nat -> Z) (id : nat) : Z := interp sg w (wrapU w (rho id)).
Definition zsum (l : list Z) : Z := fold_right Z.add 0 l.
Definition zprod (l : list Z) : Z := fold_right Z.mul 1 l.

(* the mechanism for random-size lists (repaired code): the list is expanded to its maximum size and element i
   counts only if i lies below the size being solved *)
Fixpoint guarded (k : nat) (i : nat) (dflt : Z) (xs : list Z) : list Z :=
  match xs with
  | [] => []
  | x :: t => (if Nat.ltb i k then x else dflt) :: guarded k (S i) dflt t
  end.
Definition guarded_sum (k : nat) (xs : list Z) : Z := zsum (guarded k 0 0 xs).
Definition guarded_prod (k : nat) (xs : list Z) : Z := zprod (guarded k 0 1 xs).
Fixpoint guarded_mem (k : nat) (i : nat) (x : Z) (xs : list Z) : bool :=
  match xs with
  | [] => false
  | y :: t => (Nat.ltb i k && (x =? y)) || guarded_mem k (S i) x t
  end.
(* pairs (i, j), i < j: skipped when either lies at or beyond the size *)
Fixpoint guarded_ne_from (k : nat) (i : nat) (x : Z) (j : nat) (xs : list Z) : bool :=
  match xs with
  | [] => true
  | y :: t => (negb (Nat.ltb i k) || negb (Nat.ltb j k) || negb (x =? y)) && guarded_ne_from k i x (S j) t
  end.
Fixpoint guarded_unique (k : nat) (i : nat) (xs : list Z) : bool :=
  match xs with
  | [] => true
  | x :: t => guarded_ne_from k i x (S i) t && guarded_unique k (S i) t
  end.
