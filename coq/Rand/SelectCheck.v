(* Executable oracles for the procedural half of C15 (no proofs): (A) the model's selection for every draw,
   (B) the counting specification: index i is selected by exactly ws[i] of the total draws. *)
From Coq Require Import ZArith List Bool.
From PV Require Import Rand.Select.
Import ListNotations.
Open Scope Z_scope.

Definition zl_eqb (a b : list Z) : bool :=
  Nat.eqb (length a) (length b) && forallb (fun p => fst p =? snd p) (combine a b).
Definition count_eq (x : Z) (l : list Z) : Z := Z.of_nat (length (filter (Z.eqb x) l)).
(* observed: for r = 1 .. total, the index distselect / randselect returned *)
Definition c15_check (ws : list Z) (sel rsel : list Z) : Z :=
  let model := map (fun r => match distselect_at ws r with Some i => Z.of_nat i | None => -1 end) (draws (total ws)) in
  let spec_ok (s : list Z) :=
      (Z.of_nat (length s) =? total ws) &&
      forallb (fun p : nat * Z => count_eq (Z.of_nat (fst p)) s =? snd p) (combine (seq 0 (length ws)) ws) in
  (if zl_eqb model sel && zl_eqb model rsel then 0 else 1) + (if spec_ok sel && spec_ok rsel then 0 else 2).
