(* Proofs about the weighted random selection model Rand/Select.v:
   the number of draws r in [1, total] selecting index i is exactly its weight. *)
From Coq Require Import ZArith List Bool Lia ZifyBool Permutation.
From PV Require Import Rand.Select.
Import ListNotations.
Open Scope Z_scope.

(* ---------- sorting ---------- *)

Lemma winsert_perm p l : Permutation (winsert p l) (p :: l).
Proof.
  induction l as [|h t IH]; simpl.
  - apply Permutation_refl.
  - destruct (fst p <? fst h).
    + apply Permutation_refl.
    + eapply Permutation_trans; [apply perm_skip, IH|apply perm_swap].
Qed.

Lemma wsort_acc_perm l : forall acc,
  Permutation (fold_left (fun acc p => winsert p acc) l acc) (l ++ acc).
Proof.
  induction l as [|a t IH]; intros acc; simpl.
  - apply Permutation_refl.
  - eapply Permutation_trans; [apply IH|].
    eapply Permutation_trans; [apply Permutation_app_head, winsert_perm|].
    apply Permutation_sym, Permutation_middle.
Qed.

(* the sorted list is a permutation of the indexed weights *)
Lemma wsort_perm l : Permutation (wsort l) l.
Proof.
  unfold wsort. eapply Permutation_trans; [apply wsort_acc_perm|].
  rewrite app_nil_r. apply Permutation_refl.
Qed.

(* ---------- sums ---------- *)

Definition wsum (l : list (Z * nat)) : Z := fold_right (fun p a => fst p + a) 0 l.
Definition isum (i : nat) (l : list (Z * nat)) : Z :=
  fold_right (fun p a => if Nat.eqb (snd p) i then fst p + a else a) 0 l.

Lemma wsum_cons w j t : wsum ((w, j) :: t) = w + wsum t.
Proof. reflexivity. Qed.
Lemma isum_cons i w j t :
  isum i ((w, j) :: t) = if Nat.eqb j i then w + isum i t else isum i t.
Proof. reflexivity. Qed.

Lemma wsum_nonneg l : Forall (fun p => 0 <= fst p) l -> 0 <= wsum l.
Proof.
  induction 1 as [|[w j] t Hw _ IH].
  - unfold wsum; simpl; lia.
  - rewrite wsum_cons. simpl in Hw. lia.
Qed.

Lemma wsum_perm l l' : Permutation l l' -> wsum l = wsum l'.
Proof.
  induction 1 as [|[w j] t t' _ IH|[w j] [w' j'] t|a b c _ IH1 _ IH2].
  - reflexivity.
  - rewrite !wsum_cons. lia.
  - rewrite !wsum_cons. lia.
  - congruence.
Qed.

Lemma isum_perm i l l' : Permutation l l' -> isum i l = isum i l'.
Proof.
  induction 1 as [|[w j] t t' _ IH|[w j] [w' j'] t|a b c _ IH1 _ IH2].
  - reflexivity.
  - rewrite !isum_cons. rewrite IH. reflexivity.
  - rewrite !isum_cons. destruct (Nat.eqb j i), (Nat.eqb j' i); lia.
  - congruence.
Qed.

Lemma wsum_index_from ws : forall k, wsum (index_from k ws) = total ws.
Proof.
  induction ws as [|w t IH]; intros k.
  - reflexivity.
  - cbn [index_from]. rewrite wsum_cons, IH. reflexivity.
Qed.

Lemma isum_index_from i ws : forall k,
  isum i (index_from k ws) = if (k <=? i)%nat then nth (i - k) ws 0 else 0.
Proof.
  induction ws as [|w t IH]; intros k.
  - simpl. destruct (k <=? i)%nat; [destruct (i - k)%nat|]; reflexivity.
  - cbn [index_from]. rewrite isum_cons, IH.
    destruct (Nat.eqb k i) eqn:E.
    + apply Nat.eqb_eq in E. subst k.
      replace (S i <=? i)%nat with false by lia.
      replace (i <=? i)%nat with true by lia.
      rewrite Nat.sub_diag. simpl. lia.
    + apply Nat.eqb_neq in E.
      destruct (k <=? i)%nat eqn:E1.
      * replace (S k <=? i)%nat with true by lia.
        replace (i - k)%nat with (S (i - S k)) by lia. reflexivity.
      * replace (S k <=? i)%nat with false by lia. reflexivity.
Qed.

Lemma index_from_nonneg ws : forall k,
  Forall (fun w => 0 <= w) ws -> Forall (fun p => 0 <= fst p) (index_from k ws).
Proof.
  induction ws as [|w t IH]; intros k H; simpl.
  - constructor.
  - inversion H; subst. constructor; [simpl; assumption|apply IH; assumption].
Qed.

Lemma index_from_in ws : forall k w i,
  In (w, i) (index_from k ws) -> (k <= i < k + length ws)%nat /\ nth (i - k) ws 0 = w.
Proof.
  induction ws as [|a t IH]; intros k w i H; simpl in H.
  - contradiction.
  - destruct H as [H|H].
    + inversion H; subst. rewrite Nat.sub_diag. simpl. split; [lia|reflexivity].
    + apply IH in H. destruct H as [H1 H2]. simpl length. split; [lia|].
      replace (i - k)%nat with (S (i - S k)) by lia. exact H2.
Qed.

Lemma filter_pos_nonneg l :
  Forall (fun p : Z * nat => 0 <= fst p) l ->
  Forall (fun p => 0 <= fst p) (filter (fun p => 0 <? fst p) l).
Proof.
  intros H. apply Forall_forall. intros x Hx. apply filter_In in Hx.
  rewrite Forall_forall in H. apply H. tauto.
Qed.

Lemma wsum_filter_pos l :
  Forall (fun p => 0 <= fst p) l -> wsum (filter (fun p => 0 <? fst p) l) = wsum l.
Proof.
  induction 1 as [|[w j] t Hw _ IH]; [reflexivity|].
  simpl filter. simpl in Hw. destruct (0 <? w) eqn:E.
  - rewrite !wsum_cons, IH. reflexivity.
  - rewrite wsum_cons, IH. lia.
Qed.

Lemma isum_filter_pos i l :
  Forall (fun p => 0 <= fst p) l -> isum i (filter (fun p => 0 <? fst p) l) = isum i l.
Proof.
  induction 1 as [|[w j] t Hw _ IH]; [reflexivity|].
  simpl filter. simpl in Hw. destruct (0 <? w) eqn:E.
  - rewrite !isum_cons, IH. reflexivity.
  - rewrite isum_cons, IH. destruct (Nat.eqb j i); lia.
Qed.

Lemma perm_nonneg (l l' : list (Z * nat)) :
  Permutation l l' -> Forall (fun p => 0 <= fst p) l' -> Forall (fun p => 0 <= fst p) l.
Proof.
  intros P H. rewrite Forall_forall in *. intros x Hx. apply H.
  eapply Permutation_in; eassumption.
Qed.

(* ---------- draws ---------- *)

Lemma draws_in r n : In r (draws n) -> 1 <= r <= n.
Proof.
  unfold draws. intros H. apply in_map_iff in H. destruct H as [k [H1 H2]].
  apply in_seq in H2. lia.
Qed.

Lemma draws_length n : length (draws n) = Z.to_nat n.
Proof. unfold draws. rewrite map_length, seq_length. reflexivity. Qed.

Lemma seq_shift_draw a w : Z.of_nat a = w -> forall len start,
  map (fun k => 1 + Z.of_nat k) (seq (a + start) len) =
  map (Z.add w) (map (fun k => 1 + Z.of_nat k) (seq start len)).
Proof.
  intros Ha. induction len as [|n IH]; intros start; cbn [seq map].
  - reflexivity.
  - f_equal; [lia|]. rewrite <- Nat.add_succ_r. apply IH.
Qed.

Lemma draws_split w s : 0 <= w -> 0 <= s ->
  draws (w + s) = draws w ++ map (Z.add w) (draws s).
Proof.
  intros Hw Hs. unfold draws.
  rewrite Z2Nat.inj_add by assumption.
  rewrite seq_app, map_app. f_equal.
  rewrite Nat.add_0_l.
  replace (Z.to_nat w) with (Z.to_nat w + 0)%nat at 1 by lia.
  apply seq_shift_draw. lia.
Qed.

Lemma filter_all {A} (f : A -> bool) l : (forall x, In x l -> f x = true) -> filter f l = l.
Proof.
  induction l as [|a t IH]; intros H; simpl; [reflexivity|].
  rewrite (H a (or_introl eq_refl)). f_equal. apply IH. intros x Hx. apply H. right. exact Hx.
Qed.

Lemma filter_none {A} (f : A -> bool) l : (forall x, In x l -> f x = false) -> filter f l = [].
Proof.
  induction l as [|a t IH]; intros H; simpl; [reflexivity|].
  rewrite (H a (or_introl eq_refl)). apply IH. intros x Hx. apply H. right. exact Hx.
Qed.

Lemma filter_map_length {A B} (f : B -> bool) (g : A -> B) l :
  length (filter f (map g l)) = length (filter (fun x => f (g x)) l).
Proof.
  induction l as [|a t IH]; simpl; [reflexivity|].
  destruct (f (g a)); simpl; rewrite IH; reflexivity.
Qed.

(* ---------- the walk ---------- *)

Lemma walk_cons w j t r :
  walk ((w, j) :: t) r = if r - w <=? 0 then Some j else walk t (r - w).
Proof. reflexivity. Qed.

Definition selb (sel : Z -> option nat) (i : nat) (r : Z) : bool :=
  match sel r with Some j => Nat.eqb j i | None => false end.

Lemma count_sel_eq sel n i :
  count_sel sel n i = Z.of_nat (length (filter (selb sel i) (draws n))).
Proof. reflexivity. Qed.

Lemma count_sel_ext sel sel' n i :
  (forall r, 1 <= r <= n -> sel r = sel' r) -> count_sel sel n i = count_sel sel' n i.
Proof.
  intros H. rewrite !count_sel_eq. f_equal. f_equal.
  apply filter_ext_in. intros r Hr. apply draws_in in Hr.
  unfold selb. rewrite H by assumption. reflexivity.
Qed.

Lemma walk_count_gen l i :
  Forall (fun p => 0 <= fst p) l -> count_sel (walk l) (wsum l) i = isum i l.
Proof.
  induction 1 as [|[w j] t Hw Ht IH].
  - reflexivity.
  - simpl in Hw. pose proof (wsum_nonneg t Ht) as Hs.
    rewrite wsum_cons, isum_cons, count_sel_eq.
    rewrite draws_split by assumption.
    rewrite filter_app, app_length, Nat2Z.inj_add.
    rewrite filter_map_length.
    assert (E2 : filter (fun x => selb (walk ((w, j) :: t)) i (w + x)) (draws (wsum t))
                 = filter (selb (walk t) i) (draws (wsum t))).
    { apply filter_ext_in. intros r Hr. apply draws_in in Hr.
      unfold selb. rewrite walk_cons.
      replace (w + r - w) with r by lia.
      replace (r <=? 0) with false by lia. reflexivity. }
    rewrite E2. rewrite <- (count_sel_eq (walk t) (wsum t) i), IH.
    destruct (Nat.eqb j i) eqn:E.
    + rewrite filter_all.
      * rewrite draws_length. lia.
      * intros r Hr. apply draws_in in Hr. unfold selb. rewrite walk_cons.
        replace (r - w <=? 0) with true by lia. exact E.
    + rewrite filter_none.
      * simpl. lia.
      * intros r Hr. apply draws_in in Hr. unfold selb. rewrite walk_cons.
        replace (r - w <=? 0) with true by lia. exact E.
Qed.

(* the walk over a list of non-negative weights selects the k-th entry exactly for
   r in (prefix sum before k, prefix sum through k] *)
Lemma walk_count l i :
  Forall (fun p => 0 <= fst p) l -> NoDup (map snd l) ->
  count_sel (walk l) (fold_right (fun p a => fst p + a) 0 l) i =
  fold_right (fun p a => if Nat.eqb (snd p) i then fst p + a else a) 0 l.
Proof. intros H _. exact (walk_count_gen l i H). Qed.

(* every draw in [1, total] is answered by the walk itself *)
Lemma walk_total l r :
  Forall (fun p => 0 <= fst p) l -> 1 <= r <= fold_right (fun p a => fst p + a) 0 l -> walk l r <> None.
Proof.
  intros H. revert r. induction H as [|[w j] t Hw Ht IH]; intros r Hr.
  - simpl in Hr. lia.
  - change (1 <= r <= wsum ((w, j) :: t)) in Hr. rewrite wsum_cons in Hr.
    rewrite walk_cons. destruct (r - w <=? 0) eqn:E; [discriminate|].
    apply IH. fold (wsum t). lia.
Qed.

Lemma walk_some_in l : forall r i, walk l r = Some i -> exists w, In (w, i) l.
Proof.
  induction l as [|[w j] t IH]; intros r i H.
  - discriminate.
  - rewrite walk_cons in H. destruct (r - w <=? 0).
    + inversion H; subst. exists w. left. reflexivity.
    + apply IH in H. destruct H as [w' H]. exists w'. right. exact H.
Qed.

Lemma walk_some_pos l : forall r i, 1 <= r -> walk l r = Some i -> exists w, In (w, i) l /\ 0 < w.
Proof.
  induction l as [|[w j] t IH]; intros r i Hr H.
  - discriminate.
  - rewrite walk_cons in H. destruct (r - w <=? 0) eqn:E.
    + inversion H; subst. exists w. split; [left; reflexivity|lia].
    + apply IH in H; [|lia]. destruct H as [w' [H1 H2]]. exists w'. split; [right; exact H1|exact H2].
Qed.

Lemma last_index_in l i : last_index l = Some i -> exists w, In (w, i) l.
Proof.
  unfold last_index. destruct (rev l) as [|[w j] t] eqn:E; intros H.
  - discriminate.
  - inversion H; subst. exists w. apply in_rev. rewrite E. left. reflexivity.
Qed.

(* ---------- distselect ---------- *)

Lemma distselect_list_nonneg ws :
  Forall (fun w => 0 <= w) ws -> Forall (fun p => 0 <= fst p) (wsort (index_from 0 ws)).
Proof.
  intros H. eapply perm_nonneg; [apply wsort_perm|]. apply index_from_nonneg. exact H.
Qed.

Lemma distselect_list_wsum ws : wsum (wsort (index_from 0 ws)) = total ws.
Proof. rewrite (wsum_perm _ _ (wsort_perm _)). apply wsum_index_from. Qed.

Lemma distselect_walk ws r :
  Forall (fun w => 0 <= w) ws -> 1 <= r <= total ws ->
  distselect_at ws r = walk (wsort (index_from 0 ws)) r.
Proof.
  intros H Hr. unfold distselect_at.
  pose proof (walk_total (wsort (index_from 0 ws)) r (distselect_list_nonneg ws H)) as T.
  fold (wsum (wsort (index_from 0 ws))) in T. rewrite distselect_list_wsum in T.
  specialize (T Hr).
  destruct (walk (wsort (index_from 0 ws)) r); [reflexivity|congruence].
Qed.

Lemma distselect_count ws i :
  Forall (fun w => 0 <= w) ws -> (i < length ws)%nat ->
  count_sel (distselect_at ws) (total ws) i = nth i ws 0.
Proof.
  intros H Hi.
  rewrite (count_sel_ext _ (walk (wsort (index_from 0 ws))))
    by (intros r Hr; apply distselect_walk; assumption).
  rewrite <- distselect_list_wsum.
  rewrite walk_count_gen by (apply distselect_list_nonneg; exact H).
  rewrite (isum_perm _ _ _ (wsort_perm _)).
  rewrite isum_index_from. simpl. rewrite Nat.sub_0_r. reflexivity.
Qed.

Lemma distselect_some_in ws r i :
  Forall (fun w => 0 <= w) ws -> 1 <= r <= total ws -> distselect_at ws r = Some i ->
  exists w, In (w, i) (index_from 0 ws) /\ 0 < w.
Proof.
  intros H Hr E. rewrite distselect_walk in E by assumption.
  apply walk_some_pos in E; [|lia]. destruct E as [w [H1 H2]].
  exists w. split; [|exact H2].
  eapply Permutation_in; [apply wsort_perm|exact H1].
Qed.

Lemma distselect_zero_never ws i r :
  Forall (fun w => 0 <= w) ws -> nth i ws 0 = 0 -> 1 <= r <= total ws -> distselect_at ws r <> Some i.
Proof.
  intros H Hz Hr E.
  destruct (distselect_some_in ws r i H Hr E) as [w [H1 H2]].
  apply index_from_in in H1. destruct H1 as [_ H1]. rewrite Nat.sub_0_r in H1. lia.
Qed.

Lemma distselect_in_range ws r i :
  Forall (fun w => 0 <= w) ws -> 1 <= r <= total ws -> distselect_at ws r = Some i -> (i < length ws)%nat.
Proof.
  intros H Hr E.
  destruct (distselect_some_in ws r i H Hr E) as [w [H1 H2]].
  apply index_from_in in H1. lia.
Qed.

(* ---------- next_target_range ---------- *)

Lemma dist_weight_list_nonneg ws :
  Forall (fun w => 0 <= w) ws -> Forall (fun p => 0 <= fst p) (dist_weight_list ws).
Proof.
  intros H. unfold dist_weight_list. eapply perm_nonneg; [apply wsort_perm|].
  apply filter_pos_nonneg, index_from_nonneg. exact H.
Qed.

Lemma dist_weight_list_wsum ws :
  Forall (fun w => 0 <= w) ws -> wsum (dist_weight_list ws) = total ws.
Proof.
  intros H. unfold dist_weight_list. rewrite (wsum_perm _ _ (wsort_perm _)).
  rewrite wsum_filter_pos by (apply index_from_nonneg; exact H).
  apply wsum_index_from.
Qed.

Lemma next_target_walk ws r :
  Forall (fun w => 0 <= w) ws -> 1 <= r <= total ws ->
  next_target_at ws r = walk (dist_weight_list ws) r.
Proof.
  intros H Hr. unfold next_target_at.
  pose proof (walk_total (dist_weight_list ws) r (dist_weight_list_nonneg ws H)) as T.
  fold (wsum (dist_weight_list ws)) in T. rewrite dist_weight_list_wsum in T by exact H.
  specialize (T Hr).
  destruct (walk (dist_weight_list ws) r); [reflexivity|congruence].
Qed.

Lemma next_target_count ws i :
  Forall (fun w => 0 <= w) ws -> (i < length ws)%nat ->
  count_sel (next_target_at ws) (total ws) i = nth i ws 0.
Proof.
  intros H Hi.
  rewrite (count_sel_ext _ (walk (dist_weight_list ws)))
    by (intros r Hr; apply next_target_walk; assumption).
  rewrite <- (dist_weight_list_wsum ws H).
  rewrite walk_count_gen by (apply dist_weight_list_nonneg; exact H).
  unfold dist_weight_list.
  rewrite (isum_perm _ _ _ (wsort_perm _)).
  rewrite isum_filter_pos by (apply index_from_nonneg; exact H).
  rewrite isum_index_from. simpl. rewrite Nat.sub_0_r. reflexivity.
Qed.

Lemma next_target_zero_never ws i r :
  Forall (fun w => 0 <= w) ws -> nth i ws 0 = 0 -> next_target_at ws r <> Some i.
Proof.
  intros H Hz E. unfold next_target_at in E.
  assert (Hin : exists w, In (w, i) (dist_weight_list ws)).
  { destruct (walk (dist_weight_list ws) r) eqn:W.
    - inversion E; subst. eapply walk_some_in. exact W.
    - apply last_index_in. exact E. }
  destruct Hin as [w Hin]. unfold dist_weight_list in Hin.
  apply (Permutation_in _ (wsort_perm _)) in Hin.
  apply filter_In in Hin. destruct Hin as [H1 H2]. simpl in H2.
  apply index_from_in in H1. destruct H1 as [_ H1]. rewrite Nat.sub_0_r in H1. lia.
Qed.
