(* Rand sets (C01 / C02): proofs about the model in Randset.v.
   The rand sets built from a list of statements partition the statements and the referenced fields; per-set solutions
   assemble into a solution of the whole system, and an unsatisfiable set makes the whole system unsatisfiable. *)
From Coq Require Import List Bool Arith Lia.
From PV Require Import Rand.Randset.
Import ListNotations.

(* ------------------------------------------------------------------------------------------------------------------ *)
(* basic helpers                                                                                                      *)
(* ------------------------------------------------------------------------------------------------------------------ *)
Lemma mem_In : forall x l, mem x l = true <-> In x l.
Proof.
  intros x l. unfold mem. rewrite existsb_exists. split.
  - intros [y [Hy He]]. apply Nat.eqb_eq in He. subst. exact Hy.
  - intros H. exists x. split; [exact H | apply Nat.eqb_refl].
Qed.

Lemma get_slot_lt : forall l i r, get_slot l i = Some r -> i < length l.
Proof.
  intros l i r H. unfold get_slot in H. destruct (nth_error l i) eqn:E; [|discriminate].
  apply nth_error_Some. congruence.
Qed.

Lemma nth_set_slot_same : forall l i v, i < length l -> nth_error (set_slot l i v) i = Some v.
Proof.
  induction l as [|x t IH]; intros i v H.
  - simpl in H. lia.
  - destruct i as [|i]; simpl.
    + reflexivity.
    + apply IH. simpl in H. lia.
Qed.

Lemma nth_set_slot_other : forall l i j v, i <> j -> nth_error (set_slot l i v) j = nth_error l j.
Proof.
  induction l as [|x t IH]; intros i j v H.
  - destruct i; reflexivity.
  - destruct i as [|i], j as [|j]; simpl; try reflexivity.
    + congruence.
    + apply IH. congruence.
Qed.

Lemma set_slot_length : forall l i v, length (set_slot l i v) = length l.
Proof.
  induction l as [|x t IH]; intros i v.
  - destruct i; reflexivity.
  - destruct i as [|i]; simpl; [reflexivity | rewrite IH; reflexivity].
Qed.

Lemma gss : forall l i v, i < length l -> get_slot (set_slot l i v) i = v.
Proof.
  intros l i v H. unfold get_slot. rewrite nth_set_slot_same by exact H. destruct v; reflexivity.
Qed.

Lemma gso : forall l i j v, i <> j -> get_slot (set_slot l i v) j = get_slot l j.
Proof.
  intros l i j v H. unfold get_slot. rewrite nth_set_slot_other by exact H. reflexivity.
Qed.

Lemma get_set_iff : forall l a v i r, a < length l ->
  (get_slot (set_slot l a (Some v)) i = Some r <-> (i = a /\ r = v) \/ (i <> a /\ get_slot l i = Some r)).
Proof.
  intros l a v i r Hlt. destruct (Nat.eq_dec i a) as [->|Hne].
  - rewrite gss by exact Hlt. split.
    + intros H. injection H as H. left. auto.
    + intros [[_ H]|[Hc _]]; [subst; reflexivity | congruence].
  - rewrite gso by congruence. split.
    + intros H. right. auto.
    + intros [[Hc _]|[_ H]]; [congruence | exact H].
Qed.

Lemma get_slot_app : forall l x i r,
  get_slot (l ++ [x]) i = Some r <-> get_slot l i = Some r \/ (i = length l /\ x = Some r).
Proof.
  intros l x i r. unfold get_slot.
  destruct (lt_dec i (length l)) as [Hlt|Hge].
  - rewrite nth_error_app1 by exact Hlt. split; [auto | intros [H|[H _]]; [exact H | lia]].
  - rewrite nth_error_app2 by lia.
    assert (Hn : nth_error l i = None) by (apply nth_error_None; lia). rewrite Hn.
    destruct (i - length l) as [|d] eqn:Ed.
    + simpl. split.
      * intros H. right. split; [lia|]. destruct x; congruence.
      * intros [H|[_ H]]; [discriminate|]. subst x. reflexivity.
    + simpl. destruct d; simpl; split; try discriminate; intros [H|[H _]]; try discriminate; lia.
Qed.

(* add_field / add_stmt *)
Lemma add_field_fields : forall r f x, In x (rs_fields (add_field r f)) <-> In x (rs_fields r) \/ x = f.
Proof.
  intros r f x. unfold add_field. destruct (mem f (rs_fields r)) eqn:E.
  - apply mem_In in E. split; [auto|]. intros [H|H]; [exact H | subst; exact E].
  - simpl. rewrite in_app_iff. simpl. split.
    + intros [H|[H|[]]]; auto.
    + intros [H|H]; auto.
Qed.

Lemma add_field_stmts : forall r f, rs_stmts (add_field r f) = rs_stmts r.
Proof. intros r f. unfold add_field. destruct (mem f (rs_fields r)); reflexivity. Qed.

Lemma add_stmt_stmts : forall r k x, In x (rs_stmts (add_stmt r k)) <-> In x (rs_stmts r) \/ x = k.
Proof.
  intros r k x. unfold add_stmt. destruct (mem k (rs_stmts r)) eqn:E.
  - apply mem_In in E. split; [auto|]. intros [H|H]; [exact H | subst; exact E].
  - simpl. rewrite in_app_iff. simpl. split.
    + intros [H|[H|[]]]; auto.
    + intros [H|H]; auto.
Qed.

Lemma add_stmt_fields : forall r k, rs_fields (add_stmt r k) = rs_fields r.
Proof. intros r k. unfold add_stmt. destruct (mem k (rs_stmts r)); reflexivity. Qed.

Lemma fold_add_field_fields : forall l r x,
  In x (rs_fields (fold_left add_field l r)) <-> In x (rs_fields r) \/ In x l.
Proof.
  induction l as [|a t IH]; intros r x; simpl.
  - split; [auto | intros [H|[]]; exact H].
  - rewrite IH, add_field_fields. split.
    + intros [[H|H]|H]; auto.
    + intros [H|[H|H]]; auto.
Qed.

Lemma fold_add_field_stmts : forall l r, rs_stmts (fold_left add_field l r) = rs_stmts r.
Proof.
  induction l as [|a t IH]; intros r; simpl; [reflexivity|]. rewrite IH. apply add_field_stmts.
Qed.

Lemma fold_add_stmt_stmts : forall l r x,
  In x (rs_stmts (fold_left add_stmt l r)) <-> In x (rs_stmts r) \/ In x l.
Proof.
  induction l as [|a t IH]; intros r x; simpl.
  - split; [auto | intros [H|[]]; exact H].
  - rewrite IH, add_stmt_stmts. split.
    + intros [[H|H]|H]; auto.
    + intros [H|[H|H]]; auto.
Qed.

Lemma fold_add_stmt_fields : forall l r, rs_fields (fold_left add_stmt l r) = rs_fields r.
Proof.
  induction l as [|a t IH]; intros r; simpl; [reflexivity|]. rewrite IH. apply add_stmt_fields.
Qed.

(* the relinking fold *)
Lemma lookup_relink_out : forall l m ex g, ~ In g l ->
  lookup (fold_left (fun m0 g0 => (g0, ex) :: m0) l m) g = lookup m g.
Proof.
  induction l as [|a t IH]; intros m ex g H; simpl; [reflexivity|].
  rewrite IH by (intros Hc; apply H; right; exact Hc).
  simpl. destruct (Nat.eqb_spec a g) as [->|Hne]; [|reflexivity].
  exfalso. apply H. left. reflexivity.
Qed.

Lemma lookup_relink_in : forall l m ex g, In g l ->
  lookup (fold_left (fun m0 g0 => (g0, ex) :: m0) l m) g = Some ex.
Proof.
  induction l as [|a t IH]; intros m ex g H; simpl; [destruct H|].
  destruct (in_dec Nat.eq_dec g t) as [Hin|Hnin].
  - apply IH. exact Hin.
  - rewrite lookup_relink_out by exact Hnin. destruct H as [->|H]; [|contradiction].
    simpl. rewrite Nat.eqb_refl. reflexivity.
Qed.

(* ------------------------------------------------------------------------------------------------------------------ *)
(* the invariant                                                                                                      *)
(* ------------------------------------------------------------------------------------------------------------------ *)
(* `all` is the whole statement list, n the number of statements already processed, `active` the slot of the active rand set
   of the statement being processed and `seen` the references of that statement already visited *)
Record Inv2 (all : list (list nat)) (s : bstate) (n : nat) (active : option nat) (seen : list nat) : Prop := mkInv2 {
  i_fm_sound : forall f i, lookup (b_fmap s) f = Some i ->
                 exists r, get_slot (b_sets s) i = Some r /\ In f (rs_fields r);
  i_fm_compl : forall i r f, get_slot (b_sets s) i = Some r -> In f (rs_fields r) -> lookup (b_fmap s) f = Some i;
  i_st_lt : forall i r k, get_slot (b_sets s) i = Some r -> In k (rs_stmts r) -> k < n;
  i_st_closed : forall i r k refs f, get_slot (b_sets s) i = Some r -> In k (rs_stmts r) ->
                  nth_error all k = Some refs -> In f refs -> In f (rs_fields r);
  i_cover : forall k, k < n -> exists i r, get_slot (b_sets s) i = Some r /\ In k (rs_stmts r);
  i_uniq : forall i j r1 r2 k, get_slot (b_sets s) i = Some r1 -> get_slot (b_sets s) j = Some r2 ->
             In k (rs_stmts r1) -> In k (rs_stmts r2) -> i = j;
  i_ref : forall i r f, get_slot (b_sets s) i = Some r -> In f (rs_fields r) ->
            (exists k refs, In k (rs_stmts r) /\ nth_error all k = Some refs /\ In f refs) \/
            (active = Some i /\ In f seen);
  i_act : forall a, active = Some a -> exists r, get_slot (b_sets s) a = Some r;
  i_seen : forall f, In f seen ->
             exists a r, active = Some a /\ get_slot (b_sets s) a = Some r /\ In f (rs_fields r)
}.

Definition Inv (all : list (list nat)) (s : bstate) (n : nat) : Prop := Inv2 all s n None [].

Lemma inv_init : forall all, Inv all (mkBS [] []) 0.
Proof.
  intros all. constructor; cbn [b_sets b_fmap]; unfold get_slot.
  - intros f i H. discriminate.
  - intros i r f H. destruct i; discriminate.
  - intros i r k H. destruct i; discriminate.
  - intros i r k refs f H. destruct i; discriminate.
  - intros k H. lia.
  - intros i j r1 r2 k H. destruct i; discriminate.
  - intros i r f H. destruct i; discriminate.
  - intros a H. discriminate.
  - intros f [].
Qed.

(* a reference to a field that already has a rand set, which is (or becomes) the active one *)
Lemma inv2_hit : forall all s n active seen f ex,
  Inv2 all s n active seen -> lookup (b_fmap s) f = Some ex -> (active = None \/ active = Some ex) ->
  Inv2 all s n (Some ex) (seen ++ [f]).
Proof.
  intros all s n active seen f ex HI Hlk Hor.
  destruct HI as [Hs Hc Hlt Hcl Hcov Hun Hrf Hact Hseen].
  constructor; auto.
  - intros i r g Hg Hin. destruct (Hrf i r g Hg Hin) as [L|[Ha Hi]].
    + left. exact L.
    + right. split.
      * destruct Hor as [Hor|Hor]; congruence.
      * apply in_app_iff. left. exact Hi.
  - intros a Ha. injection Ha as <-. destruct (Hs f ex Hlk) as [r [Hg _]]. exists r. exact Hg.
  - intros g Hin. apply in_app_iff in Hin. destruct Hin as [Hin|[<-|[]]].
    + destruct (Hseen g Hin) as [a0 [r [Ha [Hg Hi]]]].
      assert (a0 = ex) by (destruct Hor as [Hor|Hor]; congruence). subst a0.
      exists ex, r. auto.
    + destruct (Hs f ex Hlk) as [r [Hg Hi]]. exists ex, r. auto.
Qed.

(* a new (empty) rand set becomes the active one *)
Lemma inv2_fresh : forall all s n seen,
  Inv2 all s n None seen ->
  Inv2 all (mkBS (b_sets s ++ [Some (mkRS [] [])]) (b_fmap s)) n (Some (length (b_sets s))) seen.
Proof.
  intros all [sets fm] n seen HI. cbn [b_sets b_fmap] in *.
  destruct HI as [Hs Hc Hlt Hcl Hcov Hun Hrf Hact Hseen]. cbn [b_sets b_fmap] in *.
  constructor; cbn [b_sets b_fmap].
  - intros f i Hl. destruct (Hs f i Hl) as [r [Hg Hin]]. exists r. split; [|exact Hin].
    apply get_slot_app. left. exact Hg.
  - intros i r f Hg Hin. apply get_slot_app in Hg. destruct Hg as [Hg|[_ Hx]].
    + eapply Hc; eauto.
    + injection Hx as <-. destruct Hin.
  - intros i r k Hg Hin. apply get_slot_app in Hg. destruct Hg as [Hg|[_ Hx]].
    + eapply Hlt; eauto.
    + injection Hx as <-. destruct Hin.
  - intros i r k refs f Hg Hin. apply get_slot_app in Hg. destruct Hg as [Hg|[_ Hx]].
    + eapply Hcl; eauto.
    + injection Hx as <-. destruct Hin.
  - intros k Hk. destruct (Hcov k Hk) as [i [r [Hg Hin]]]. exists i, r. split; [|exact Hin].
    apply get_slot_app. left. exact Hg.
  - intros i j r1 r2 k Hg1 Hg2 Hk1 Hk2. apply get_slot_app in Hg1, Hg2.
    destruct Hg1 as [Hg1|[_ Hx]]; [|injection Hx as <-; destruct Hk1].
    destruct Hg2 as [Hg2|[_ Hx]]; [|injection Hx as <-; destruct Hk2].
    eapply Hun; eauto.
  - intros i r f Hg Hin. apply get_slot_app in Hg. destruct Hg as [Hg|[_ Hx]].
    + destruct (Hrf i r f Hg Hin) as [L|[Ha _]]; [left; exact L | discriminate].
    + injection Hx as <-. destruct Hin.
  - intros a Ha. injection Ha as <-. exists (mkRS [] []). apply get_slot_app. right. auto.
  - intros f Hin. destruct (Hseen f Hin) as [a [r [Ha _]]]. discriminate.
Qed.

(* a field without a rand set joins the active one *)
Lemma inv2_add : forall all s n a seen f ra,
  Inv2 all s n (Some a) seen -> lookup (b_fmap s) f = None -> get_slot (b_sets s) a = Some ra ->
  Inv2 all (mkBS (set_slot (b_sets s) a (Some (add_field ra f))) ((f, a) :: b_fmap s)) n (Some a) (seen ++ [f]).
Proof.
  intros all [sets fm] n a seen f ra HI Hlk Hga. cbn [b_sets b_fmap] in *.
  assert (Hlen := get_slot_lt _ _ _ Hga).
  assert (G := fun i r => get_set_iff sets a (add_field ra f) i r Hlen).
  set (sets' := set_slot sets a (Some (add_field ra f))) in *. clearbody sets'.
  destruct HI as [Hs Hc Hlt Hcl Hcov Hun Hrf Hact Hseen]. cbn [b_sets b_fmap] in *.
  constructor; cbn [b_sets b_fmap].
  - intros g i Hl. cbn [lookup] in Hl. destruct (Nat.eqb_spec f g) as [<-|Hfg].
    + injection Hl as <-. exists (add_field ra f). split.
      * apply G. left. auto.
      * apply add_field_fields. right. reflexivity.
    + destruct (Hs g i Hl) as [r [Hg Hin]]. destruct (Nat.eq_dec i a) as [->|Hia].
      * assert (r = ra) by congruence. subst r. exists (add_field ra f). split.
        -- apply G. left. auto.
        -- apply add_field_fields. left. exact Hin.
      * exists r. split; [|exact Hin]. apply G. right. auto.
  - intros i r g Hg Hin. cbn [lookup]. apply G in Hg. destruct Hg as [[-> ->]|[Hia Hg]].
    + apply add_field_fields in Hin. destruct (Nat.eqb_spec f g) as [_|Hfg]; [reflexivity|].
      destruct Hin as [Hin|Hin]; [|congruence]. eapply Hc; eauto.
    + destruct (Nat.eqb_spec f g) as [<-|Hfg].
      * rewrite (Hc i r f Hg Hin) in Hlk. discriminate.
      * eapply Hc; eauto.
  - intros i r k Hg Hin. apply G in Hg. destruct Hg as [[-> ->]|[Hia Hg]].
    + rewrite add_field_stmts in Hin. eapply Hlt; eauto.
    + eapply Hlt; eauto.
  - intros i r k refs g Hg Hin Hn Hr. apply G in Hg. destruct Hg as [[-> ->]|[Hia Hg]].
    + rewrite add_field_stmts in Hin. apply add_field_fields. left. eapply Hcl; eauto.
    + eapply Hcl; eauto.
  - intros k Hk. destruct (Hcov k Hk) as [i [r [Hg Hin]]]. destruct (Nat.eq_dec i a) as [->|Hia].
    + assert (r = ra) by congruence. subst r. exists a, (add_field ra f). split.
      * apply G. left. auto.
      * rewrite add_field_stmts. exact Hin.
    + exists i, r. split; [|exact Hin]. apply G. right. auto.
  - intros i j r1 r2 k Hg1 Hg2 Hk1 Hk2. apply G in Hg1, Hg2.
    destruct Hg1 as [[-> ->]|[Hi Hg1]]; destruct Hg2 as [[-> ->]|[Hj Hg2]].
    + reflexivity.
    + rewrite add_field_stmts in Hk1. eapply Hun; eauto.
    + rewrite add_field_stmts in Hk2. eapply Hun; eauto.
    + eapply Hun; eauto.
  - intros i r g Hg Hin. apply G in Hg. destruct Hg as [[-> ->]|[Hia Hg]].
    + apply add_field_fields in Hin. destruct Hin as [Hin | ->].
      * destruct (Hrf a ra g Hga Hin) as [[k [refs [H1 [H2 H3]]]]|[_ Hi]].
        -- left. exists k, refs. rewrite add_field_stmts. auto.
        -- right. split; [reflexivity|]. apply in_app_iff. left. exact Hi.
      * right. split; [reflexivity|]. apply in_app_iff. right. left. reflexivity.
    + destruct (Hrf i r g Hg Hin) as [L|[Ha _]]; [left; exact L | congruence].
  - intros a0 Ha. injection Ha as <-. exists (add_field ra f). apply G. left. auto.
  - intros g Hin. exists a, (add_field ra f). split; [reflexivity|]. split; [apply G; left; auto|].
    apply add_field_fields. apply in_app_iff in Hin. destruct Hin as [Hin|[<-|[]]].
    + left. destruct (Hseen g Hin) as [a0 [r [Ha [Hg Hi]]]]. injection Ha as <-.
      assert (r = ra) by congruence. subst r. exact Hi.
    + right. reflexivity.
Qed.

Lemma get_merge_iff : forall l ex a v i r, a <> ex -> ex < length l -> a < length l ->
  (get_slot (set_slot (set_slot l ex (Some v)) a None) i = Some r <->
   (i = ex /\ r = v) \/ (i <> a /\ i <> ex /\ get_slot l i = Some r)).
Proof.
  intros l ex a v i r Hne Hex Ha. destruct (Nat.eq_dec i a) as [->|Hia].
  - rewrite gss by (rewrite set_slot_length; exact Ha). split.
    + discriminate.
    + intros [[H _]|[H _]]; congruence.
  - rewrite gso by congruence. rewrite get_set_iff by exact Hex. tauto.
Qed.

(* the active rand set is absorbed by the rand set of the referenced field *)
Lemma inv2_merge : forall all s n a seen f ex ra rx,
  Inv2 all s n (Some a) seen -> lookup (b_fmap s) f = Some ex -> a <> ex ->
  get_slot (b_sets s) a = Some ra -> get_slot (b_sets s) ex = Some rx ->
  Inv2 all
    (mkBS (set_slot (set_slot (b_sets s) ex
                       (Some (fold_left add_stmt (rs_stmts ra) (fold_left add_field (rs_fields ra) rx)))) a None)
          (fold_left (fun m g => (g, ex) :: m) (rs_fields ra) (b_fmap s)))
    n (Some ex) (seen ++ [f]).
Proof.
  intros all [sets fm] n a seen f ex ra rx HI Hlk Hne Hga Hgx. cbn [b_sets b_fmap] in *.
  set (rx2 := fold_left add_stmt (rs_stmts ra) (fold_left add_field (rs_fields ra) rx)).
  assert (F1 : forall g, In g (rs_fields rx2) <-> In g (rs_fields rx) \/ In g (rs_fields ra)).
  { intros g. unfold rx2. rewrite fold_add_stmt_fields. apply fold_add_field_fields. }
  assert (F2 : forall k, In k (rs_stmts rx2) <-> In k (rs_stmts rx) \/ In k (rs_stmts ra)).
  { intros k. unfold rx2. rewrite fold_add_stmt_stmts, fold_add_field_stmts. reflexivity. }
  clearbody rx2.
  assert (Hla := get_slot_lt _ _ _ Hga). assert (Hlx := get_slot_lt _ _ _ Hgx).
  assert (G := fun i r => get_merge_iff sets ex a rx2 i r Hne Hlx Hla).
  set (sets' := set_slot (set_slot sets ex (Some rx2)) a None) in *. clearbody sets'.
  assert (L1 := fun g => lookup_relink_in (rs_fields ra) fm ex g).
  assert (L2 := fun g => lookup_relink_out (rs_fields ra) fm ex g).
  set (fm' := fold_left (fun m g => (g, ex) :: m) (rs_fields ra) fm) in *. clearbody fm'.
  destruct HI as [Hs Hc Hlt Hcl Hcov Hun Hrf Hact Hseen]. cbn [b_sets b_fmap] in *.
  assert (Gx : get_slot sets' ex = Some rx2) by (apply G; left; auto).
  constructor; cbn [b_sets b_fmap].
  - (* fm_sound *)
    intros g i Hl. destruct (in_dec Nat.eq_dec g (rs_fields ra)) as [Hin|Hnin].
    + rewrite L1 in Hl by exact Hin. injection Hl as <-. exists rx2. split; [exact Gx|].
      apply F1. right. exact Hin.
    + rewrite L2 in Hl by exact Hnin. destruct (Hs g i Hl) as [r [Hg Hin]].
      destruct (Nat.eq_dec i ex) as [->|Hiex].
      * assert (r = rx) by congruence. subst r. exists rx2. split; [exact Gx|]. apply F1. left. exact Hin.
      * exists r. split; [|exact Hin]. apply G. right. split; [|auto].
        intros ->. assert (r = ra) by congruence. subst r. contradiction.
  - (* fm_compl *)
    intros i r g Hg Hin. apply G in Hg. destruct Hg as [[-> ->]|[Hia [Hiex Hg]]].
    + destruct (in_dec Nat.eq_dec g (rs_fields ra)) as [Hina|Hnin].
      * apply L1. exact Hina.
      * rewrite L2 by exact Hnin. apply F1 in Hin. destruct Hin as [Hin|Hin]; [|contradiction].
        eapply Hc; eauto.
    + destruct (in_dec Nat.eq_dec g (rs_fields ra)) as [Hina|Hnin].
      * assert (Some i = Some a) by (rewrite <- (Hc i r g Hg Hin); apply (Hc a ra g Hga Hina)). congruence.
      * rewrite L2 by exact Hnin. eapply Hc; eauto.
  - (* st_lt *)
    intros i r k Hg Hin. apply G in Hg. destruct Hg as [[-> ->]|[Hia [Hiex Hg]]].
    + apply F2 in Hin. destruct Hin as [Hin|Hin]; [exact (Hlt ex rx k Hgx Hin) | exact (Hlt a ra k Hga Hin)].
    + exact (Hlt i r k Hg Hin).
  - (* st_closed *)
    intros i r k refs g Hg Hin Hn Hr. apply G in Hg. destruct Hg as [[-> ->]|[Hia [Hiex Hg]]].
    + apply F1. apply F2 in Hin. destruct Hin as [Hin|Hin];
        [left; exact (Hcl ex rx k refs g Hgx Hin Hn Hr) | right; exact (Hcl a ra k refs g Hga Hin Hn Hr)].
    + eapply Hcl; eauto.
  - (* cover *)
    intros k Hk. destruct (Hcov k Hk) as [i [r [Hg Hin]]].
    destruct (Nat.eq_dec i a) as [->|Hia]; [|destruct (Nat.eq_dec i ex) as [->|Hiex]].
    + assert (r = ra) by congruence. subst r. exists ex, rx2. split; [exact Gx|]. apply F2. right. exact Hin.
    + assert (r = rx) by congruence. subst r. exists ex, rx2. split; [exact Gx|]. apply F2. left. exact Hin.
    + exists i, r. split; [|exact Hin]. apply G. right. auto.
  - (* uniq *)
    intros i j r1 r2 k Hg1 Hg2 Hk1 Hk2. apply G in Hg1, Hg2.
    destruct Hg1 as [[-> ->]|[Hia [Hiex Hg1]]]; destruct Hg2 as [[-> ->]|[Hja [Hjex Hg2]]].
    + reflexivity.
    + exfalso. apply F2 in Hk1. destruct Hk1 as [Hk1|Hk1].
      * apply Hjex. symmetry. eapply Hun; eauto.
      * apply Hja. symmetry. eapply Hun; eauto.
    + exfalso. apply F2 in Hk2. destruct Hk2 as [Hk2|Hk2].
      * apply Hiex. eapply Hun; eauto.
      * apply Hia. eapply Hun; eauto.
    + eapply Hun; eauto.
  - (* ref *)
    intros i r g Hg Hin. apply G in Hg. destruct Hg as [[-> ->]|[Hia [Hiex Hg]]].
    + apply F1 in Hin. destruct Hin as [Hin|Hin].
      * destruct (Hrf ex rx g Hgx Hin) as [[k [refs [H1 [H2 H3]]]]|[Ha _]]; [|congruence].
        left. exists k, refs. split; [apply F2; left; exact H1 | auto].
      * destruct (Hrf a ra g Hga Hin) as [[k [refs [H1 [H2 H3]]]]|[_ Hi]].
        -- left. exists k, refs. split; [apply F2; right; exact H1 | auto].
        -- right. split; [reflexivity|]. apply in_app_iff. left. exact Hi.
    + destruct (Hrf i r g Hg Hin) as [L|[Ha _]]; [left; exact L | congruence].
  - (* act *)
    intros a0 Ha. injection Ha as <-. exists rx2. exact Gx.
  - (* seen *)
    intros g Hin. exists ex, rx2. split; [reflexivity|]. split; [exact Gx|]. apply F1.
    apply in_app_iff in Hin. destruct Hin as [Hin|[<-|[]]].
    + right. destruct (Hseen g Hin) as [a0 [r [Ha [Hg Hi]]]]. injection Ha as <-.
      assert (r = ra) by congruence. subst r. exact Hi.
    + left. destruct (Hs f ex Hlk) as [r [Hg Hi]]. assert (r = rx) by congruence. subst r. exact Hi.
Qed.

(* one reference *)
Lemma process_ref_inv : forall all s n active seen f,
  Inv2 all s n active seen ->
  Inv2 all (fst (process_ref s active f)) n (snd (process_ref s active f)) (seen ++ [f]).
Proof.
  intros all s n active seen f HI. unfold process_ref.
  destruct (lookup (b_fmap s) f) as [ex|] eqn:Hlk.
  - destruct active as [a|].
    + destruct (Nat.eqb_spec a ex) as [->|Hne].
      * cbn [fst snd]. eapply inv2_hit; eauto.
      * destruct (i_act _ _ _ _ _ HI a eq_refl) as [ra Hga].
        destruct (i_fm_sound _ _ _ _ _ HI f ex Hlk) as [rx [Hgx _]].
        rewrite Hga, Hgx. cbn [fst snd]. apply inv2_merge; auto.
    + cbn [fst snd]. eapply inv2_hit; eauto.
  - destruct active as [a|].
    + destruct (i_act _ _ _ _ _ HI a eq_refl) as [ra Hga]. rewrite Hga. cbn [fst snd].
      apply inv2_add; auto.
    + assert (Hg : get_slot (b_sets s ++ [Some (mkRS [] [])]) (length (b_sets s)) = Some (mkRS [] []))
        by (apply get_slot_app; right; auto).
      rewrite Hg. cbn [fst snd].
      apply (inv2_add all (mkBS (b_sets s ++ [Some (mkRS [] [])]) (b_fmap s)) n (length (b_sets s)) seen f
               (mkRS [] [])).
      * apply inv2_fresh. exact HI.
      * exact Hlk.
      * exact Hg.
Qed.

Lemma process_refs_inv : forall all n refs sa seen,
  Inv2 all (fst sa) n (snd sa) seen ->
  Inv2 all (fst (fold_left (fun sa f => process_ref (fst sa) (snd sa) f) refs sa)) n
           (snd (fold_left (fun sa f => process_ref (fst sa) (snd sa) f) refs sa)) (seen ++ refs).
Proof.
  intros all n. induction refs as [|f t IH]; intros sa seen HI.
  - simpl. rewrite app_nil_r. exact HI.
  - simpl. replace (seen ++ f :: t) with ((seen ++ [f]) ++ t) by (rewrite <- app_assoc; reflexivity).
    apply IH. apply process_ref_inv. exact HI.
Qed.

(* the end of a statement with an active rand set *)
Lemma inv_close_some : forall all s n a refs ra,
  Inv2 all s n (Some a) refs -> nth_error all n = Some refs -> get_slot (b_sets s) a = Some ra ->
  Inv all (mkBS (set_slot (b_sets s) a (Some (add_stmt ra n))) (b_fmap s)) (S n).
Proof.
  intros all [sets fm] n a refs ra HI Hn Hga. unfold Inv. cbn [b_sets b_fmap] in *.
  assert (Hlen := get_slot_lt _ _ _ Hga).
  assert (G := fun i r => get_set_iff sets a (add_stmt ra n) i r Hlen).
  set (sets' := set_slot sets a (Some (add_stmt ra n))) in *. clearbody sets'.
  destruct HI as [Hs Hc Hlt Hcl Hcov Hun Hrf Hact Hseen]. cbn [b_sets b_fmap] in *.
  assert (Ga : get_slot sets' a = Some (add_stmt ra n)) by (apply G; left; auto).
  constructor; cbn [b_sets b_fmap].
  - intros g i Hl. destruct (Hs g i Hl) as [r [Hg Hin]]. destruct (Nat.eq_dec i a) as [->|Hia].
    + assert (r = ra) by congruence. subst r. exists (add_stmt ra n). split; [exact Ga|].
      rewrite add_stmt_fields. exact Hin.
    + exists r. split; [|exact Hin]. apply G. right. auto.
  - intros i r g Hg Hin. apply G in Hg. destruct Hg as [[-> ->]|[Hia Hg]].
    + rewrite add_stmt_fields in Hin. eapply Hc; eauto.
    + eapply Hc; eauto.
  - intros i r k Hg Hin. apply G in Hg. destruct Hg as [[-> ->]|[Hia Hg]].
    + apply add_stmt_stmts in Hin. destruct Hin as [Hin | ->]; [|lia].
      assert (k < n) by (eapply Hlt; eauto). lia.
    + assert (k < n) by (eapply Hlt; eauto). lia.
  - intros i r k refs0 g Hg Hin Hn0 Hr. apply G in Hg. destruct Hg as [[-> ->]|[Hia Hg]].
    + rewrite add_stmt_fields. apply add_stmt_stmts in Hin. destruct Hin as [Hin | ->].
      * eapply Hcl; eauto.
      * assert (refs0 = refs) by congruence. subst refs0.
        destruct (Hseen g Hr) as [a0 [r [Ha [Hg Hi]]]]. injection Ha as <-.
        assert (r = ra) by congruence. subst r. exact Hi.
    + eapply Hcl; eauto.
  - intros k Hk. destruct (Nat.eq_dec k n) as [->|Hkn].
    + exists a, (add_stmt ra n). split; [exact Ga|]. apply add_stmt_stmts. right. reflexivity.
    + destruct (Hcov k ltac:(lia)) as [i [r [Hg Hin]]]. destruct (Nat.eq_dec i a) as [->|Hia].
      * assert (r = ra) by congruence. subst r. exists a, (add_stmt ra n). split; [exact Ga|].
        apply add_stmt_stmts. left. exact Hin.
      * exists i, r. split; [|exact Hin]. apply G. right. auto.
  - intros i j r1 r2 k Hg1 Hg2 Hk1 Hk2. apply G in Hg1, Hg2.
    destruct Hg1 as [[-> ->]|[Hi Hg1]]; destruct Hg2 as [[-> ->]|[Hj Hg2]].
    + reflexivity.
    + apply add_stmt_stmts in Hk1. destruct Hk1 as [Hk1 | ->].
      * eapply Hun; eauto.
      * exfalso. assert (n < n) by (eapply Hlt; eauto). lia.
    + apply add_stmt_stmts in Hk2. destruct Hk2 as [Hk2 | ->].
      * eapply Hun; eauto.
      * exfalso. assert (n < n) by (eapply Hlt; eauto). lia.
    + eapply Hun; eauto.
  - intros i r g Hg Hin. left. apply G in Hg. destruct Hg as [[-> ->]|[Hia Hg]].
    + rewrite add_stmt_fields in Hin.
      destruct (Hrf a ra g Hga Hin) as [[k [refs0 [H1 [H2 H3]]]]|[_ Hi]].
      * exists k, refs0. split; [apply add_stmt_stmts; left; exact H1 | auto].
      * exists n, refs. split; [apply add_stmt_stmts; right; reflexivity | auto].
    + destruct (Hrf i r g Hg Hin) as [L|[Ha _]]; [exact L | congruence].
  - intros a0 Ha. discriminate.
  - intros g [].
Qed.

(* the end of a statement without references *)
Lemma inv_close_none : forall all s n refs,
  Inv2 all s n None refs -> nth_error all n = Some refs ->
  Inv all (mkBS (b_sets s ++ [Some (mkRS [] [n])]) (b_fmap s)) (S n).
Proof.
  intros all [sets fm] n refs HI Hn. unfold Inv. cbn [b_sets b_fmap] in *.
  destruct HI as [Hs Hc Hlt Hcl Hcov Hun Hrf Hact Hseen]. cbn [b_sets b_fmap] in *.
  assert (Hnil : refs = []).
  { destruct refs as [|x t]; [reflexivity|]. destruct (Hseen x (or_introl eq_refl)) as [a [r [Ha _]]]. discriminate. }
  subst refs.
  constructor; cbn [b_sets b_fmap].
  - intros f i Hl. destruct (Hs f i Hl) as [r [Hg Hin]]. exists r. split; [|exact Hin].
    apply get_slot_app. left. exact Hg.
  - intros i r f Hg Hin. apply get_slot_app in Hg. destruct Hg as [Hg|[_ Hx]].
    + eapply Hc; eauto.
    + injection Hx as <-. destruct Hin.
  - intros i r k Hg Hin. apply get_slot_app in Hg. destruct Hg as [Hg|[_ Hx]].
    + assert (k < n) by (eapply Hlt; eauto). lia.
    + injection Hx as <-. destruct Hin as [<-|[]]. lia.
  - intros i r k refs f Hg Hin Hn0 Hr. apply get_slot_app in Hg. destruct Hg as [Hg|[_ Hx]].
    + eapply Hcl; eauto.
    + injection Hx as <-. destruct Hin as [<-|[]]. assert (refs = []) by congruence. subst refs. destruct Hr.
  - intros k Hk. destruct (Nat.eq_dec k n) as [->|Hkn].
    + exists (length sets), (mkRS [] [n]). split; [apply get_slot_app; right; auto | left; reflexivity].
    + destruct (Hcov k ltac:(lia)) as [i [r [Hg Hin]]]. exists i, r. split; [|exact Hin].
      apply get_slot_app. left. exact Hg.
  - intros i j r1 r2 k Hg1 Hg2 Hk1 Hk2. apply get_slot_app in Hg1, Hg2.
    destruct Hg1 as [Hg1|[Hi Hx1]]; destruct Hg2 as [Hg2|[Hj Hx2]].
    + eapply Hun; eauto.
    + exfalso. injection Hx2 as <-. destruct Hk2 as [<-|[]]. assert (n < n) by (eapply Hlt; eauto). lia.
    + exfalso. injection Hx1 as <-. destruct Hk1 as [<-|[]]. assert (n < n) by (eapply Hlt; eauto). lia.
    + congruence.
  - intros i r f Hg Hin. apply get_slot_app in Hg. destruct Hg as [Hg|[_ Hx]].
    + destruct (Hrf i r f Hg Hin) as [L|[Ha _]]; [left; exact L | discriminate].
    + injection Hx as <-. destruct Hin.
  - intros a Ha. discriminate.
  - intros f [].
Qed.

(* one statement *)
Lemma process_stmt_inv : forall all s n refs,
  Inv all s n -> nth_error all n = Some refs -> Inv all (process_stmt s n refs) (S n).
Proof.
  intros all s n refs HI Hn. unfold process_stmt.
  assert (H2 := process_refs_inv all n refs (s, None) [] HI). cbn [app] in H2.
  destruct (fold_left (fun sa f => process_ref (fst sa) (snd sa) f) refs (s, None)) as [s1 active].
  cbn [fst snd] in H2. destruct active as [a|].
  - destruct (i_act _ _ _ _ _ H2 a eq_refl) as [ra Hga]. rewrite Hga.
    eapply inv_close_some; eauto.
  - eapply inv_close_none; eauto.
Qed.

(* all the statements *)
Lemma process_all_inv : forall all rest n s,
  (forall j refs, nth_error rest j = Some refs -> nth_error all (n + j) = Some refs) ->
  Inv all s n -> Inv all (process_all s n rest) (n + length rest).
Proof.
  intros all. induction rest as [|refs t IH]; intros n s Hnth HI.
  - simpl. rewrite Nat.add_0_r. exact HI.
  - simpl. replace (n + S (length t)) with (S n + length t) by lia. apply IH.
    + intros j refs0 Hj. replace (S n + j) with (n + S j) by lia. apply Hnth. exact Hj.
    + apply process_stmt_inv; [exact HI|]. rewrite <- (Nat.add_0_r n). apply Hnth. reflexivity.
Qed.

Lemma build_inv : forall stmts, Inv stmts (process_all (mkBS [] []) 0 stmts) (length stmts).
Proof.
  intros stmts. apply (process_all_inv stmts stmts 0 (mkBS [] [])).
  - intros j refs Hj. exact Hj.
  - apply inv_init.
Qed.

(* ------------------------------------------------------------------------------------------------------------------ *)
(* from slots to the list of surviving rand sets                                                                      *)
(* ------------------------------------------------------------------------------------------------------------------ *)
Lemma live_cons_some : forall r t, live (Some r :: t) = r :: live t.
Proof. reflexivity. Qed.
Lemma live_cons_none : forall t, live (None :: t) = live t.
Proof. reflexivity. Qed.

Lemma live_in : forall l r, In r (live l) <-> exists i, get_slot l i = Some r.
Proof.
  intros l r. unfold live. rewrite in_flat_map. split.
  - intros [x [Hx Hr]]. destruct x as [r0|]; [|destruct Hr]. destruct Hr as [<-|[]].
    apply In_nth_error in Hx. destruct Hx as [i Hi]. exists i. unfold get_slot. rewrite Hi. reflexivity.
  - intros [i Hi]. unfold get_slot in Hi. destruct (nth_error l i) as [[r0|]|] eqn:E; try discriminate.
    injection Hi as <-. exists (Some r0). split; [eapply nth_error_In; eauto | left; reflexivity].
Qed.

(* the p-th surviving rand set sits in a slot that has exactly p live slots before it *)
Lemma live_nth : forall l p r, nth_error (live l) p = Some r ->
  exists i, get_slot l i = Some r /\ length (live (firstn i l)) = p.
Proof.
  induction l as [|x t IH]; intros p r H.
  - destruct p; discriminate.
  - destruct x as [r0|].
    + rewrite live_cons_some in H. destruct p as [|p].
      * injection H as <-. exists 0. split; reflexivity.
      * cbn [nth_error] in H. destruct (IH p r H) as [i [Hg Hp]]. exists (S i). split; [exact Hg|].
        cbn [firstn]. rewrite live_cons_some. cbn [length]. rewrite Hp. reflexivity.
    + rewrite live_cons_none in H. destruct (IH p r H) as [i [Hg Hp]]. exists (S i). split; [exact Hg|].
      cbn [firstn]. rewrite live_cons_none. exact Hp.
Qed.

(* ------------------------------------------------------------------------------------------------------------------ *)
(* the theorems                                                                                                       *)
(* ------------------------------------------------------------------------------------------------------------------ *)
(* 1. every statement is in some rand set *)
Theorem build_covers : forall stmts k, k < length stmts ->
  exists i r, nth_error (build stmts) i = Some r /\ In k (rs_stmts r).
Proof.
  intros stmts k Hk. destruct (i_cover _ _ _ _ _ (build_inv stmts) k Hk) as [i [r [Hg Hin]]].
  assert (Hl : In r (build stmts)) by (unfold build; apply live_in; exists i; exact Hg).
  apply In_nth_error in Hl. destruct Hl as [p Hp]. exists p, r. auto.
Qed.
Print Assumptions build_covers.

(* 2. ... and in one only *)
Theorem build_stmt_unique : forall stmts i j r1 r2 k,
  nth_error (build stmts) i = Some r1 -> nth_error (build stmts) j = Some r2 ->
  In k (rs_stmts r1) -> In k (rs_stmts r2) -> i = j.
Proof.
  intros stmts i j r1 r2 k H1 H2 Hk1 Hk2. unfold build in H1, H2. apply live_nth in H1, H2.
  destruct H1 as [i' [Hg1 <-]]. destruct H2 as [j' [Hg2 <-]].
  rewrite (i_uniq _ _ _ _ _ (build_inv stmts) i' j' r1 r2 k Hg1 Hg2 Hk1 Hk2). reflexivity.
Qed.
Print Assumptions build_stmt_unique.

(* 3. the rand sets hold statement numbers of the call only *)
Theorem build_stmt_range : forall stmts r k, In r (build stmts) -> In k (rs_stmts r) -> k < length stmts.
Proof.
  intros stmts r k Hr Hk. unfold build in Hr. apply live_in in Hr. destruct Hr as [i Hg].
  exact (i_st_lt _ _ _ _ _ (build_inv stmts) i r k Hg Hk).
Qed.
Print Assumptions build_stmt_range.

(* 4. a rand set holds every field its statements refer to *)
Theorem build_closed : forall stmts r k refs f,
  In r (build stmts) -> In k (rs_stmts r) -> nth_error stmts k = Some refs -> In f refs -> In f (rs_fields r).
Proof.
  intros stmts r k refs f Hr Hk Hn Hf. unfold build in Hr. apply live_in in Hr. destruct Hr as [i Hg].
  exact (i_st_closed _ _ _ _ _ (build_inv stmts) i r k refs f Hg Hk Hn Hf).
Qed.
Print Assumptions build_closed.

(* 5. no field is in two rand sets *)
Theorem build_disjoint : forall stmts i j r1 r2 f,
  nth_error (build stmts) i = Some r1 -> nth_error (build stmts) j = Some r2 ->
  In f (rs_fields r1) -> In f (rs_fields r2) -> i = j.
Proof.
  intros stmts i j r1 r2 f H1 H2 Hf1 Hf2. unfold build in H1, H2. apply live_nth in H1, H2.
  destruct H1 as [i' [Hg1 <-]]. destruct H2 as [j' [Hg2 <-]].
  assert (E : Some i' = Some j').
  { rewrite <- (i_fm_compl _ _ _ _ _ (build_inv stmts) i' r1 f Hg1 Hf1).
    exact (i_fm_compl _ _ _ _ _ (build_inv stmts) j' r2 f Hg2 Hf2). }
  injection E as ->. reflexivity.
Qed.
Print Assumptions build_disjoint.

(* 6. a rand set holds only fields its statements refer to *)
Theorem build_fields_referenced : forall stmts r f, In r (build stmts) -> In f (rs_fields r) ->
  exists k refs, In k (rs_stmts r) /\ nth_error stmts k = Some refs /\ In f refs.
Proof.
  intros stmts r f Hr Hf. unfold build in Hr. apply live_in in Hr. destruct Hr as [i Hg].
  destruct (i_ref _ _ _ _ _ (build_inv stmts) i r f Hg Hf) as [L|[Ha _]]; [exact L | discriminate].
Qed.
Print Assumptions build_fields_referenced.

(* 7. the assembled assignment agrees with every rand set's own assignment on that rand set's fields *)
Lemma assemble_cons : forall (V : Type) r ss (e : nat -> V) es dflt f,
  assemble (r :: ss) (e :: es) dflt f = if mem f (rs_fields r) then e f else assemble ss es dflt f.
Proof. reflexivity. Qed.

Lemma assemble_disjoint : forall (V : Type) (dflt : nat -> V) f sets (envs : list (nat -> V)) i r e,
  (forall i j r1 r2, nth_error sets i = Some r1 -> nth_error sets j = Some r2 ->
                     In f (rs_fields r1) -> In f (rs_fields r2) -> i = j) ->
  nth_error sets i = Some r -> nth_error envs i = Some e -> In f (rs_fields r) ->
  assemble sets envs dflt f = e f.
Proof.
  intros V dflt f. induction sets as [|r0 ss IH]; intros envs i r e Hd Hs He Hin.
  - destruct i; discriminate.
  - destruct envs as [|e0 es]; [destruct i; discriminate|].
    rewrite assemble_cons. destruct (mem f (rs_fields r0)) eqn:E.
    + apply mem_In in E. assert (Hi : 0 = i) by (apply (Hd 0 i r0 r); auto). subst i.
      cbn [nth_error] in He. injection He as <-. reflexivity.
    + destruct i as [|i].
      * cbn [nth_error] in Hs. injection Hs as <-. apply mem_In in Hin. congruence.
      * cbn [nth_error] in Hs, He. apply (IH es i r e); auto.
        intros i0 j0 r1 r2 A B C D. assert (S i0 = S j0) by (apply (Hd (S i0) (S j0) r1 r2); auto). lia.
Qed.

Theorem assemble_agrees : forall (V : Type) stmts (envs : list (nat -> V)) dflt i r e f,
  nth_error (build stmts) i = Some r -> nth_error envs i = Some e -> In f (rs_fields r) ->
  assemble (build stmts) envs dflt f = e f.
Proof.
  intros V stmts envs dflt i r e f Hr He Hf. apply (assemble_disjoint V dflt f (build stmts) envs i r e); auto.
  intros i0 j0 r1 r2 A B C D. exact (build_disjoint stmts i0 j0 r1 r2 f A B C D).
Qed.
Print Assumptions assemble_agrees.

(* 8. per-set solutions assemble into a solution of the whole system *)
Theorem compositional_sound : forall (V : Type) (holds : (nat -> V) -> nat -> bool) stmts (envs : list (nat -> V)) dflt,
  (forall k refs e1 e2, nth_error stmts k = Some refs -> (forall f, In f refs -> e1 f = e2 f) ->
                        holds e1 k = holds e2 k) ->
  length envs = length (build stmts) ->
  (forall i r e k, nth_error (build stmts) i = Some r -> nth_error envs i = Some e -> In k (rs_stmts r) ->
                   holds e k = true) ->
  forall k, k < length stmts -> holds (assemble (build stmts) envs dflt) k = true.
Proof.
  intros V holds stmts envs dflt Hloc Hlen Hsol k Hk.
  destruct (build_covers stmts k Hk) as [i [r [Hr Hin]]].
  assert (Hi : i < length envs). { rewrite Hlen. apply nth_error_Some. congruence. }
  destruct (nth_error envs i) as [e|] eqn:He; [|apply nth_error_None in He; lia].
  destruct (nth_error stmts k) as [refs|] eqn:Hrefs; [|apply nth_error_None in Hrefs; lia].
  rewrite (Hloc k refs (assemble (build stmts) envs dflt) e Hrefs).
  - exact (Hsol i r e k Hr He Hin).
  - intros f Hf. apply (assemble_agrees V stmts envs dflt i r e f Hr He).
    apply (build_closed stmts r k refs f); auto. eapply nth_error_In; eauto.
Qed.
Print Assumptions compositional_sound.

(* 9. a solution of the whole system solves every rand set; an unsatisfiable rand set makes the system unsatisfiable *)
Theorem compositional_complete : forall (V : Type) (holds : (nat -> V) -> nat -> bool) stmts e,
  (forall k, k < length stmts -> holds e k = true) ->
  forall r k, In r (build stmts) -> In k (rs_stmts r) -> holds e k = true.
Proof.
  intros V holds stmts e H r k Hr Hk. apply H. exact (build_stmt_range stmts r k Hr Hk).
Qed.
Print Assumptions compositional_complete.

Theorem unsat_set_unsat_system : forall (V : Type) (holds : (nat -> V) -> nat -> bool) stmts r,
  In r (build stmts) -> (forall e, exists k, In k (rs_stmts r) /\ holds e k = false) ->
  forall e, exists k, k < length stmts /\ holds e k = false.
Proof.
  intros V holds stmts r Hr H e. destruct (H e) as [k [Hk Hf]]. exists k. split; [|exact Hf].
  exact (build_stmt_range stmts r k Hr Hk).
Qed.
Print Assumptions unsat_set_unsat_system.

(* 10. the solver instances are a split of the list of rand sets *)
Lemma instances_concat_gen : forall l acc, concat (instances acc l) = acc ++ l.
Proof.
  induction l as [|r t IH]; intros acc.
  - cbn [instances]. destruct acc as [|a acc']; [reflexivity|]. cbn [concat]. reflexivity.
  - cbn [instances]. destruct (rs_fields r) as [|x fs].
    + rewrite IH. rewrite <- app_assoc. reflexivity.
    + cbn [concat]. rewrite IH. rewrite <- app_assoc. reflexivity.
Qed.

Theorem instances_concat : forall l, concat (instances [] l) = l.
Proof. intros l. apply (instances_concat_gen l []). Qed.
Print Assumptions instances_concat.

(* 11. in an instance only the last rand set can have fields *)
Lemma instances_shape_gen : forall l acc inst,
  (forall x, In x acc -> rs_fields x = []) -> In inst (instances acc l) ->
  exists pre r, inst = pre ++ [r] /\ (forall x, In x pre -> rs_fields x = []).
Proof.
  induction l as [|r t IH]; intros acc inst Hacc Hin.
  - cbn [instances] in Hin. destruct acc as [|a acc']; [destruct Hin|].
    destruct Hin as [<-|[]].
    destruct (exists_last (l := a :: acc') ltac:(discriminate)) as [pre [z Hz]].
    exists pre, z. split; [exact Hz|]. intros x Hx. apply Hacc. rewrite Hz. apply in_app_iff. left. exact Hx.
  - cbn [instances] in Hin. destruct (rs_fields r) as [|x fs] eqn:E.
    + apply (IH (acc ++ [r]) inst); [|exact Hin].
      intros y Hy. apply in_app_iff in Hy. destruct Hy as [Hy|[<-|[]]]; [apply Hacc; exact Hy | exact E].
    + destruct Hin as [<-|Hin].
      * exists acc, r. split; [reflexivity | exact Hacc].
      * apply (IH [] inst); [|exact Hin]. intros y [].
Qed.

Theorem instances_shape : forall l inst, In inst (instances [] l) ->
  exists pre r, inst = pre ++ [r] /\ (forall x, In x pre -> rs_fields x = []).
Proof. intros l inst H. apply (instances_shape_gen l [] inst); [|exact H]. intros x []. Qed.
Print Assumptions instances_shape.

(* 12. non-vacuity: statement 2 joins the rand sets of statements 0 and 1 (the active set - that of statement 0 - is absorbed
   by the set of the field met second, so the merged set sits in statement 1's slot and lists statement 1 first);
   statement 3 has no fields and gets a rand set of its own; statement 4 is separate *)
Example build_example : map rs_stmts (build [[0;1];[2];[1;2];[];[5]]) = [[1;0;2];[3];[4]].
Proof. vm_compute. reflexivity. Qed.

Example build_example_fields : map rs_fields (build [[0;1];[2];[1;2];[];[5]]) = [[2;0;1];[];[5]].
Proof. vm_compute. reflexivity. Qed.

(* the fieldless rand set {3} shares the solver instance of the rand set {4} that follows it *)
Example instances_example :
  map (map rs_stmts) (instances [] (build [[0;1];[2];[1;2];[];[5]])) = [[[1;0;2]];[[3];[4]]].
Proof. vm_compute. reflexivity. Qed.
