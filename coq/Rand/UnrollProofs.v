(* Theorems about the list-constraint expansions of Unroll.v (C04): foreach, sum, membership, unique, and the
   random-size guard mechanism.  Self-contained: depends on Bits, Expr, Unroll only. *)
From Coq Require Import ZArith List Bool Lia Arith.
From PV Require Import Common.Bits Rand.Expr Rand.Unroll.
Import ListNotations. Open Scope Z_scope.

(* ------------------------------------------------------------------ *)
(* small arithmetic                                                    *)
(* ------------------------------------------------------------------ *)
Lemma up_pow2_pos w : 0 <= w -> 0 < 2 ^ w.
Proof. intros; apply Z.pow_pos_nonneg; lia. Qed.

Lemma up_pow2_half w : 1 <= w -> 2 ^ w = 2 * 2 ^ (w - 1).
Proof.
  intros. replace w with (Z.succ (w - 1)) at 1 by lia.
  rewrite Z.pow_succ_r; lia.
Qed.

Lemma up_pow2_mono w W : 0 <= w <= W -> 2 ^ w <= 2 ^ W.
Proof. intros; apply Z.pow_le_mono_r; lia. Qed.

Lemma up_wrapU_range w x : 0 <= w -> 0 <= wrapU w x < 2 ^ w.
Proof. intros; unfold wrapU; apply Z.mod_pos_bound, up_pow2_pos; lia. Qed.

Lemma up_wrapU_small w u : 0 <= u < 2 ^ w -> wrapU w u = u.
Proof. intros; unfold wrapU; apply Z.mod_small; lia. Qed.

Lemma up_wrapU_0 w : wrapU w 0 = 0.
Proof. unfold wrapU. apply Zmod_0_l. Qed.

Lemma up_wrapU_add W a b : wrapU W (wrapU W a + wrapU W b) = wrapU W (a + b).
Proof. unfold wrapU. symmetry. apply Zplus_mod. Qed.

Lemma up_toS_range w u : 1 <= w -> 0 <= u < 2 ^ w -> - 2 ^ (w - 1) <= toS w u < 2 ^ (w - 1).
Proof.
  intros Hw Hu. pose proof (up_pow2_half w Hw). pose proof (up_pow2_pos (w - 1) ltac:(lia)).
  unfold toS. destruct (u <? 2 ^ (w - 1)) eqn:E; lia.
Qed.

Lemma up_wrapU_toS w u : 1 <= w -> 0 <= u < 2 ^ w -> wrapU w (toS w u) = u.
Proof.
  intros Hw Hu. unfold toS. destruct (u <? 2 ^ (w - 1)) eqn:E.
  - apply up_wrapU_small; lia.
  - unfold wrapU. replace (u - 2 ^ w) with (u + (-1) * 2 ^ w) by ring.
    rewrite Z_mod_plus_full. apply Z.mod_small; lia.
Qed.

Lemma up_toS_wrapU w v : 1 <= w -> - 2 ^ (w - 1) <= v < 2 ^ (w - 1) -> toS w (wrapU w v) = v.
Proof.
  intros Hw Hv. pose proof (up_pow2_half w Hw). pose proof (up_pow2_pos (w - 1) ltac:(lia)).
  destruct (Z_lt_le_dec v 0).
  - assert (E : wrapU w v = v + 2 ^ w).
    { unfold wrapU. symmetry. apply (Z.mod_unique v (2 ^ w) (-1)); lia. }
    rewrite E. unfold toS. destruct (v + 2 ^ w <? 2 ^ (w - 1)) eqn:E1; lia.
  - rewrite up_wrapU_small by lia. unfold toS. destruct (v <? 2 ^ (w - 1)) eqn:E1; lia.
Qed.

Lemma up_toS_eqb w a b : 1 <= w -> 0 <= a < 2 ^ w -> 0 <= b < 2 ^ w -> (toS w a =? toS w b) = (a =? b).
Proof.
  intros Hw Ha Hb. pose proof (up_pow2_half w Hw). pose proof (up_pow2_pos (w - 1) ltac:(lia)).
  unfold toS. destruct (a <? 2 ^ (w - 1)) eqn:E1; destruct (b <? 2 ^ (w - 1)) eqn:E2; lia.
Qed.

Lemma up_conv_same sg w u : 1 <= w -> 0 <= u < 2 ^ w -> conv sg w w u = u.
Proof.
  intros Hw Hu. unfold conv, interp. destruct sg.
  - apply up_wrapU_toS; assumption.
  - apply up_wrapU_small; assumption.
Qed.

(* ------------------------------------------------------------------ *)
(* 1. foreach                                                          *)
(* ------------------------------------------------------------------ *)
Lemma opt_and_true a b : opt_and a b = Some true <-> a = Some true /\ b = Some true.
Proof.
  destruct a as [[|]|]; destruct b as [[|]|]; simpl; split;
    try (intros [Ha Hb]); try intros Hab; try discriminate; auto.
Qed.

Lemma holds_all_cons G rho s l : holds_all G rho (s :: l) = opt_and (holds G rho s) (holds_all G rho l).
Proof. reflexivity. Qed.

Lemma holds_all_app G rho a b :
  holds_all G rho (a ++ b) = Some true <-> holds_all G rho a = Some true /\ holds_all G rho b = Some true.
Proof.
  induction a as [|s a IH].
  - simpl app. split.
    + intros H. split; [reflexivity|exact H].
    + intros [_ H]. exact H.
  - rewrite <- app_comm_cons. rewrite !holds_all_cons, !opt_and_true. rewrite IH. tauto.
Qed.

Lemma foreach_gen G rho (body : nat -> nat -> list stmt) : forall ids s,
  holds_all G rho (List.concat (map (fun p => body (fst p) (snd p)) (combine (seq s (List.length ids)) ids))) = Some true <->
  (forall i id, nth_error ids i = Some id -> holds_all G rho (body (s + i)%nat id) = Some true).
Proof.
  induction ids as [|x t IH]; intros s.
  - simpl. split.
    + intros _ i id H. destruct i; discriminate H.
    + intros _. reflexivity.
  - cbn [List.length seq combine map List.concat fst snd]. rewrite holds_all_app, IH. split.
    + intros [H0 Ht] i id Hi. destruct i as [|i]; simpl in Hi.
      * inversion Hi; subst. rewrite Nat.add_0_r. exact H0.
      * replace (s + S i)%nat with (S s + i)%nat by lia. apply Ht; exact Hi.
    + intros H. split.
      * specialize (H 0%nat x eq_refl). rewrite Nat.add_0_r in H. exact H.
      * intros i id Hi. replace (S s + i)%nat with (s + S i)%nat by lia. apply H. exact Hi.
Qed.

Theorem foreach_inst_holds :
  forall G rho ids body,
    holds_all G rho (foreach_inst ids body) = Some true <->
    (forall i id, nth_error ids i = Some id -> holds_all G rho (body i id) = Some true).
Proof.
  intros G rho ids body. unfold foreach_inst. rewrite foreach_gen. simpl. tauto.
Qed.
Print Assumptions foreach_inst_holds.

(* ------------------------------------------------------------------ *)
(* 2. conditions on the index                                          *)
(* ------------------------------------------------------------------ *)
Theorem idx_if_holds : forall G rho c t f, holds_all G rho (idx_if c t f) = holds_all G rho (if c then t else f).
Proof. reflexivity. Qed.
Print Assumptions idx_if_holds.

Theorem idx_cond_spec : forall c i v,
  idx_cond c i v = true <->
  (match c with
   | IGt => v < Z.of_nat i | ILt => Z.of_nat i < v | IGe => v <= Z.of_nat i | ILe => Z.of_nat i <= v
   | IEq => Z.of_nat i = v | INe => Z.of_nat i <> v end).
Proof.
  intros c i v. unfold idx_cond. destruct c; cbv zeta.
  - apply Z.ltb_lt.
  - apply Z.ltb_lt.
  - apply Z.leb_le.
  - apply Z.leb_le.
  - apply Z.eqb_eq.
  - rewrite negb_true_iff. apply Z.eqb_neq.
Qed.
Print Assumptions idx_cond_spec.

(* ------------------------------------------------------------------ *)
(* 3. sum                                                              *)
(* ------------------------------------------------------------------ *)
Definition typed (G : fenv) (w : Z) (sg : bool) (ids : list nat) : Prop :=
  forall id, In id ids -> fw G id = w /\ fsg G id = sg.

Lemma typed_cons G w sg x t : typed G w sg (x :: t) -> (fw G x = w /\ fsg G x = sg) /\ typed G w sg t.
Proof.
  intros H. split.
  - apply H. left. reflexivity.
  - intros id Hid. apply H. right. exact Hid.
Qed.

Lemma extra_bits_nonneg n : 0 <= extra_bits n.
Proof.
  unfold extra_bits. cbv zeta. destruct (Z.of_nat n - 1 <=? 0).
  - lia.
  - pose proof (Z.log2_nonneg (Z.of_nat n - 1)). lia.
Qed.

Lemma extra_bits_bound n : Z.of_nat n <= 2 ^ extra_bits n.
Proof.
  unfold extra_bits. cbv zeta. destruct (Z.of_nat n - 1 <=? 0) eqn:E.
  - apply Z.leb_le in E. simpl. lia.
  - apply Z.leb_gt in E.
    pose proof (Z.log2_spec (Z.of_nat n - 1) E) as [_ Hub].
    replace (Z.succ (Z.log2 (Z.of_nat n - 1))) with (Z.log2 (Z.of_nat n - 1) + 1) in Hub by lia.
    lia.
Qed.

Lemma sum_width_ge w n : w <= sum_width w n.
Proof. unfold sum_width. pose proof (extra_bits_nonneg n). lia. Qed.

Lemma zsum_cons x l : zsum (x :: l) = x + zsum l.
Proof. reflexivity. Qed.
Lemma zprod_cons x l : zprod (x :: l) = x * zprod l.
Proof. reflexivity. Qed.

(* the accumulator of the Add chain: width W0, signedness sg, value A in every context *)
Definition acc_ok (G : fenv) (rho : nat -> Z) (W0 : Z) (sg : bool) (acc : expr) (A : Z) : Prop :=
  width_of G acc = W0 /\ spec_signed G acc = sg /\
  forall c p, sem G rho c p acc = Some (Z.max c W0, wrapU (Z.max c W0) A).

Lemma acc_lit G rho W0 sg : 1 <= W0 -> acc_ok G rho W0 sg (ELit 0 sg W0) 0.
Proof.
  intros HW0. split; [reflexivity|]. split; [reflexivity|].
  intros c p. cbn [sem]. rewrite !up_wrapU_0. f_equal. f_equal.
  destruct (W0 <? Z.max c W0); [|reflexivity].
  unfold conv, interp. destruct p; [|apply up_wrapU_0].
  unfold toS. pose proof (up_pow2_pos (W0 - 1) ltac:(lia)) as Hp.
  destruct (0 <? 2 ^ (W0 - 1)) eqn:E.
  - apply up_wrapU_0.
  - apply Z.ltb_ge in E. lia.
Qed.

Lemma acc_step G rho w sg W0 acc A id :
  1 <= w -> w <= W0 -> fw G id = w -> fsg G id = sg ->
  acc_ok G rho W0 sg acc A ->
  acc_ok G rho W0 sg (EBin Add acc (EField id)) (A + elem_val sg w rho id).
Proof.
  intros Hw HW0 Hfw Hfsg (Hwa & Hsa & Hsem). split; [|split].
  - cbn [width_of is_rel]. rewrite Hwa, Hfw. apply Z.max_l. lia.
  - cbn [spec_signed is_rel]. rewrite Hsa, Hfsg. apply andb_diag.
  - intros c p. cbn [sem width_of spec_signed]. rewrite Hwa, Hsa, Hfw, Hfsg, andb_diag.
    replace (Z.max c (Z.max W0 w)) with (Z.max c W0) by lia.
    set (W := Z.max c W0). assert (HW : 1 <= W) by (unfold W; lia).
    rewrite Hsem. replace (Z.max W W0) with W by (unfold W; lia).
    cbn [is_rel arith_eval]. f_equal. f_equal.
    rewrite up_conv_same by (try apply up_wrapU_range; lia).
    unfold conv. fold (elem_val sg w rho id). apply up_wrapU_add.
Qed.

Lemma sum_fold G rho w sg W0 : 1 <= w -> w <= W0 ->
  forall ids acc A, typed G w sg ids -> acc_ok G rho W0 sg acc A ->
    acc_ok G rho W0 sg (fold_left (fun a id => EBin Add a (EField id)) ids acc)
           (A + zsum (map (elem_val sg w rho) ids)).
Proof.
  intros Hw HW0. induction ids as [|x t IH]; intros acc A Hty Hacc.
  - simpl. rewrite Z.add_0_r. exact Hacc.
  - apply typed_cons in Hty. destruct Hty as [[Hfw Hfsg] Hty].
    cbn [fold_left map]. rewrite zsum_cons, Z.add_assoc.
    apply IH; [exact Hty|]. apply acc_step; assumption.
Qed.

Theorem sum_expr_sem :
  forall G rho w sg ids ctx psg, 0 < w -> typed G w sg ids ->
    let W := Z.max ctx (sum_width w (List.length ids)) in
    sem G rho ctx psg (sum_expr w sg ids) = Some (W, wrapU W (zsum (map (elem_val sg w rho) ids))).
Proof.
  intros G rho w sg ids ctx psg Hw Hty W.
  pose proof (sum_width_ge w (List.length ids)) as Hge.
  assert (Hok : acc_ok G rho (sum_width w (List.length ids)) sg (sum_expr w sg ids)
                       (0 + zsum (map (elem_val sg w rho) ids))).
  { unfold sum_expr. apply sum_fold; [lia|exact Hge|exact Hty|]. apply acc_lit. lia. }
  destruct Hok as (_ & _ & Hsem). rewrite Hsem. reflexivity.
Qed.
Print Assumptions sum_expr_sem.

Lemma sum_expr_width G w sg ids : 0 < w -> typed G w sg ids ->
  width_of G (sum_expr w sg ids) = sum_width w (List.length ids) /\ spec_signed G (sum_expr w sg ids) = sg.
Proof.
  intros Hw Hty. pose proof (sum_width_ge w (List.length ids)) as Hge.
  assert (Hok : acc_ok G (fun _ => 0) (sum_width w (List.length ids)) sg (sum_expr w sg ids)
                       (0 + zsum (map (elem_val sg w (fun _ => 0)) ids))).
  { unfold sum_expr. apply sum_fold; [lia|exact Hge|exact Hty|]. apply acc_lit. lia. }
  destruct Hok as (H1 & H2 & _). split; assumption.
Qed.

Lemma elem_val_range (sg : bool) w rho id : 0 < w ->
  if sg then - 2 ^ (w - 1) <= elem_val sg w rho id <= 2 ^ (w - 1) - 1
  else 0 <= elem_val sg w rho id <= 2 ^ w - 1.
Proof.
  intros Hw. unfold elem_val, interp. pose proof (up_wrapU_range w (rho id) ltac:(lia)) as Hr.
  destruct sg.
  - pose proof (up_toS_range w _ ltac:(lia) Hr). lia.
  - lia.
Qed.

Lemma zsum_bounds lo hi l : Forall (fun x => lo <= x <= hi) l ->
  Z.of_nat (List.length l) * lo <= zsum l <= Z.of_nat (List.length l) * hi.
Proof.
  induction 1 as [|x t Hx Ht IH].
  - simpl. lia.
  - rewrite zsum_cons. cbn [List.length]. rewrite Nat2Z.inj_succ. lia.
Qed.

Theorem sum_fits :
  forall w sg rho ids, 0 < w ->
    let W := sum_width w (List.length ids) in
    let s := zsum (map (elem_val sg w rho) ids) in
    if sg then - 2 ^ (W - 1) <= s < 2 ^ (W - 1) else 0 <= s < 2 ^ W.
Proof.
  intros w sg rho ids Hw W s.
  set (n := List.length ids) in *.
  pose proof (extra_bits_nonneg n) as He0. pose proof (extra_bits_bound n) as Heb.
  set (E := 2 ^ extra_bits n) in *.
  assert (HE : 1 <= E) by (pose proof (up_pow2_pos (extra_bits n) He0); unfold E; lia).
  assert (Hlen : List.length (map (elem_val sg w rho) ids) = n) by apply map_length.
  destruct sg.
  - assert (HW : 2 ^ (W - 1) = 2 ^ (w - 1) * E).
    { unfold W, sum_width, E. fold n. replace (w + extra_bits n - 1) with ((w - 1) + extra_bits n) by lia.
      apply Z.pow_add_r; lia. }
    pose proof (up_pow2_pos (w - 1) ltac:(lia)) as HP. set (P := 2 ^ (w - 1)) in *.
    assert (Hb : Z.of_nat n * (- P) <= s <= Z.of_nat n * (P - 1)).
    { unfold s. rewrite <- Hlen. apply zsum_bounds. apply Forall_forall. intros x Hx.
      apply in_map_iff in Hx. destruct Hx as (id & <- & _).
      pose proof (elem_val_range true w rho id Hw) as Hr. cbv beta iota in Hr. fold P in Hr. lia. }
    rewrite HW. destruct (Z.eq_dec (Z.of_nat n) 0) as [Hn|Hn].
    + rewrite Hn in Hb. nia.
    + assert (Z.of_nat n * P <= E * P) by (apply Z.mul_le_mono_nonneg_r; lia). nia.
  - assert (HW : 2 ^ W = 2 ^ w * E).
    { unfold W, sum_width, E. fold n. apply Z.pow_add_r; lia. }
    pose proof (up_pow2_pos w ltac:(lia)) as HP. set (P := 2 ^ w) in *.
    assert (Hb : Z.of_nat n * 0 <= s <= Z.of_nat n * (P - 1)).
    { unfold s. rewrite <- Hlen. apply zsum_bounds. apply Forall_forall. intros x Hx.
      apply in_map_iff in Hx. destruct Hx as (id & <- & _).
      pose proof (elem_val_range false w rho id Hw) as Hr. cbv beta iota in Hr. fold P in Hr. lia. }
    rewrite HW. destruct (Z.eq_dec (Z.of_nat n) 0) as [Hn|Hn].
    + rewrite Hn in Hb. nia.
    + assert (Z.of_nat n * P <= E * P) by (apply Z.mul_le_mono_nonneg_r; lia). nia.
Qed.
Print Assumptions sum_fits.

Theorem sum_no_overflow :
  forall w sg rho ids W', 0 < w -> sum_width w (List.length ids) <= W' ->
    interp sg W' (wrapU W' (zsum (map (elem_val sg w rho) ids))) = zsum (map (elem_val sg w rho) ids).
Proof.
  intros w sg rho ids W' Hw HW'.
  pose proof (sum_fits w sg rho ids Hw) as Hfit. cbv zeta in Hfit.
  pose proof (sum_width_ge w (List.length ids)) as Hge.
  set (W := sum_width w (List.length ids)) in *. set (s := zsum _) in *.
  unfold interp. destruct sg.
  - apply up_toS_wrapU; [lia|]. pose proof (up_pow2_mono (W - 1) (W' - 1) ltac:(lia)). lia.
  - apply up_wrapU_small. pose proof (up_pow2_mono W W' ltac:(lia)). lia.
Qed.
Print Assumptions sum_no_overflow.

(* the two together: the value the expansion denotes, read at its own type, is the integer sum *)
Corollary sum_expr_exact :
  forall G rho w sg ids ctx psg, 0 < w -> typed G w sg ids ->
    exists W v, sem G rho ctx psg (sum_expr w sg ids) = Some (W, v) /\
                W = Z.max ctx (sum_width w (List.length ids)) /\
                interp sg W v = zsum (map (elem_val sg w rho) ids).
Proof.
  intros G rho w sg ids ctx psg Hw Hty.
  eexists. eexists. split; [apply sum_expr_sem; assumption|]. split; [reflexivity|].
  apply sum_no_overflow; lia.
Qed.
Print Assumptions sum_expr_exact.

(* ------------------------------------------------------------------ *)
(* 4. membership                                                       *)
(* ------------------------------------------------------------------ *)
(* a 1-bit unsigned disjunct / accumulator of the Or chain, with value B in the contexts it is built in *)
Definition bit_ok (G : fenv) (rho : nat -> Z) (acc : expr) (B : bool) : Prop :=
  width_of G acc = 1 /\ spec_signed G acc = false /\
  forall c p, c <= 1 -> sem G rho c p acc = Some (1, if B then 1 else 0).

Lemma bit_ok_truth G rho acc B : bit_ok G rho acc B -> truth G rho acc = Some B.
Proof.
  intros (_ & _ & Hsem). unfold truth. rewrite Hsem by lia. destruct B; reflexivity.
Qed.

Lemma bit_ok_reset G rho acc B : bit_ok G rho acc B -> truth G rho (EReset acc) = Some B.
Proof.
  intros (_ & _ & Hsem). unfold truth. cbn [sem]. rewrite Hsem by lia. destruct B; reflexivity.
Qed.

Lemma sem_bin_ctx G rho o l r c p c' p' :
  Z.max c (Z.max (width_of G l) (width_of G r)) = Z.max c' (Z.max (width_of G l) (width_of G r)) ->
  sem G rho c p (EBin o l r) = sem G rho c' p' (EBin o l r).
Proof. intros H. cbn [sem]. rewrite H. reflexivity. Qed.

Lemma eq_item_ok G rho e id :
  (forall c p, sem G rho c p e <> None) ->
  1 <= Z.max (width_of G e) (fw G id) ->
  exists B, bit_ok G rho (EBin Eq e (EField id)) B.
Proof.
  intros Htot Hm.
  assert (H0 : exists B : bool, sem G rho (-1) false (EBin Eq e (EField id)) = Some (1, if B then 1 else 0)).
  { cbn [sem is_rel].
    destruct (sem G rho (Z.max (-1) (Z.max (width_of G e) (width_of G (EField id))))
                  (spec_signed G e && spec_signed G (EField id)) e) as [[wl a]|] eqn:He.
    - eexists. reflexivity.
    - exfalso. exact (Htot _ _ He). }
  destruct H0 as [B HB]. exists B. split; [reflexivity|]. split; [reflexivity|].
  intros c p Hc. rewrite <- HB. apply sem_bin_ctx. cbn [width_of]. lia.
Qed.

Lemma or_step G rho acc d A B :
  bit_ok G rho acc A -> bit_ok G rho d B -> bit_ok G rho (EBin Or acc d) (A || B).
Proof.
  intros (Hwa & Hsa & Hsema) (Hwd & Hsd & Hsemd). split; [|split].
  - cbn [width_of is_rel]. rewrite Hwa, Hwd. reflexivity.
  - cbn [spec_signed is_rel]. rewrite Hsa. reflexivity.
  - intros c p Hc. cbn [sem]. rewrite Hwa, Hwd, Hsa, Hsd.
    replace (Z.max c (Z.max 1 1)) with 1 by lia.
    rewrite Hsema, Hsemd by lia.
    destruct A; destruct B; vm_compute; reflexivity.
Qed.

Lemma or_chain G rho e : (forall c p, sem G rho c p e <> None) ->
  forall t acc A,
    (forall id, In id t -> 1 <= Z.max (width_of G e) (fw G id)) ->
    bit_ok G rho acc A ->
    exists B, bit_ok G rho (fold_left (fun a i => EBin Or a (EBin Eq e (EField i))) t acc) B /\
              (B = true <-> A = true \/ exists id, In id t /\ truth G rho (EBin Eq e (EField id)) = Some true).
Proof.
  intros Htot. induction t as [|x t IH]; intros acc A Hwid Hacc.
  - exists A. split; [exact Hacc|]. split.
    + intros H. left. exact H.
    + intros [H|(id & [] & _)]. exact H.
  - destruct (eq_item_ok G rho e x Htot (Hwid x (or_introl eq_refl))) as [Bx Hx].
    pose proof (bit_ok_truth _ _ _ _ Hx) as Htx.
    destruct (IH (EBin Or acc (EBin Eq e (EField x))) (A || Bx)
                 (fun id Hid => Hwid id (or_intror Hid)) (or_step _ _ _ _ _ _ Hacc Hx)) as (B & HB & Hiff).
    exists B. split; [exact HB|]. rewrite Hiff. rewrite orb_true_iff. split.
    + intros [[HA|HBx]|(id & Hid & Ht)].
      * left. exact HA.
      * right. exists x. split; [left; reflexivity|]. rewrite Htx, HBx. reflexivity.
      * right. exists id. split; [right; exact Hid|exact Ht].
    + intros [HA|(id & [Hid|Hid] & Ht)].
      * left. left. exact HA.
      * subst id. left. right. rewrite Htx in Ht. inversion Ht. reflexivity.
      * right. exists id. split; assumption.
Qed.

Lemma in_list_cons e id t :
  in_list e (id :: t) = EReset (fold_left (fun a i => EBin Or a (EBin Eq e (EField i))) t (EBin Eq e (EField id))).
Proof.
  unfold in_list, e_in. cbn [map in_item]. f_equal.
  generalize (EBin Eq e (EField id)) as a. induction t as [|y t IH]; intros a.
  - reflexivity.
  - cbn [map fold_left in_item]. apply IH.
Qed.

Lemma in_list_empty_strong : forall G rho e, truth G rho (in_list e []) = Some false.
Proof. intros. reflexivity. Qed.

Theorem in_list_empty :
  forall G rho e, (forall c p, sem G rho c p e <> None) -> truth G rho (in_list e []) = Some false.
Proof. intros. apply in_list_empty_strong. Qed.
Print Assumptions in_list_empty.

(* the general form: the member tested is any expression with a meaning in every context; each comparison
   must be at least 1 bit wide (true as soon as e or the elements have a positive width) *)
Theorem in_list_truth_gen :
  forall G rho e ids,
    (forall c p, sem G rho c p e <> None) ->
    (forall id, In id ids -> 1 <= Z.max (width_of G e) (fw G id)) ->
    (truth G rho (in_list e ids) = Some true <->
     exists id, In id ids /\ truth G rho (EBin Eq e (EField id)) = Some true).
Proof.
  intros G rho e ids Htot Hwid. destruct ids as [|x t].
  - rewrite in_list_empty_strong. split.
    + discriminate.
    + intros (id & [] & _).
  - rewrite in_list_cons.
    destruct (eq_item_ok G rho e x Htot (Hwid x (or_introl eq_refl))) as [Bx Hx].
    pose proof (bit_ok_truth _ _ _ _ Hx) as Htx.
    destruct (or_chain G rho e Htot t _ Bx (fun id Hid => Hwid id (or_intror Hid)) Hx) as (B & HB & Hiff).
    rewrite (bit_ok_reset _ _ _ _ HB). split.
    + intros H. inversion H as [HBt]. apply Hiff in HBt. destruct HBt as [HBx|(id & Hid & Ht)].
      * exists x. split; [left; reflexivity|]. rewrite Htx, HBx. reflexivity.
      * exists id. split; [right; exact Hid|exact Ht].
    + intros (id & [Hid|Hid] & Ht); f_equal; apply Hiff.
      * subst id. left. rewrite Htx in Ht. inversion Ht. reflexivity.
      * right. exists id. split; assumption.
Qed.
Print Assumptions in_list_truth_gen.

Lemma sem_field_total G rho x : forall c p, sem G rho c p (EField x) <> None.
Proof. intros c p. cbn [sem]. discriminate. Qed.

(* CORRECTED: needs a positive width for the tested field (see in_list_truth_needs_width below) *)
Theorem in_list_truth :
  forall G rho x ids, 1 <= fw G x ->
    (truth G rho (in_list (EField x) ids) = Some true <->
     exists id, In id ids /\ truth G rho (EBin Eq (EField x) (EField id)) = Some true).
Proof.
  intros G rho x ids Hw. apply in_list_truth_gen.
  - apply sem_field_total.
  - intros id _. cbn [width_of]. lia.
Qed.
Print Assumptions in_list_truth.

(* the same when it is the elements that have a positive width *)
Corollary in_list_truth_elems :
  forall G rho e ids,
    (forall c p, sem G rho c p e <> None) ->
    (forall id, In id ids -> 1 <= fw G id) ->
    (truth G rho (in_list e ids) = Some true <->
     exists id, In id ids /\ truth G rho (EBin Eq e (EField id)) = Some true).
Proof.
  intros G rho e ids Htot Hw. apply in_list_truth_gen; [exact Htot|].
  intros id Hid. specialize (Hw id Hid). lia.
Qed.

(* the statement without the width hypothesis is false: with fields declared -1 bits wide the comparison
   inside the Or chain is made at 1 bit (context of the chain), the stand-alone one at -1 bits *)
Example in_list_truth_needs_width :
  ~ (forall G rho x ids,
       truth G rho (in_list (EField x) ids) = Some true <->
       exists id, In id ids /\ truth G rho (EBin Eq (EField x) (EField id)) = Some true).
Proof.
  intros H.
  specialize (H [mkF (-1) false; mkF (-1) false] (fun id => match id with O => 0 | _ => 2 end) 0%nat [1%nat; 1%nat]).
  destruct H as [H _]. destruct (H eq_refl) as (id & Hid & Ht).
  destruct Hid as [<-|[<-|[]]]; vm_compute in Ht; discriminate Ht.
Qed.

(* ------------------------------------------------------------------ *)
(* 5. unique                                                           *)
(* ------------------------------------------------------------------ *)
Definition ne_row (G : fenv) (rho : nat -> Z) (x : nat) (t : list nat) : option bool :=
  fold_right (fun y a => opt_and (truth G rho (EBin Ne (EField x) (EField y))) a) (Some true) t.
Definition hpairs (G : fenv) (rho : nat -> Z) : list nat -> option bool :=
  fix pairs (l : list nat) : option bool :=
    match l with
    | [] => Some true
    | x :: t => opt_and (ne_row G rho x t) (pairs t)
    end.

Lemma holds_unique_pairs G rho ids : holds G rho (SUnique ids) = hpairs G rho ids.
Proof. reflexivity. Qed.

Lemma hpairs_cons G rho x t : hpairs G rho (x :: t) = opt_and (ne_row G rho x t) (hpairs G rho t).
Proof. reflexivity. Qed.

Lemma ne_row_true G rho x t :
  ne_row G rho x t = Some true <->
  (forall y, In y t -> truth G rho (EBin Ne (EField x) (EField y)) = Some true).
Proof.
  induction t as [|y t IH].
  - simpl. split; [intros _ y []|reflexivity].
  - unfold ne_row. cbn [fold_right]. fold (ne_row G rho x t). rewrite opt_and_true, IH. split.
    + intros [Hy Ht] z [<-|Hz]; [exact Hy|apply Ht; exact Hz].
    + intros H. split; [apply H; left; reflexivity|]. intros z Hz. apply H. right. exact Hz.
Qed.

Theorem unique_holds :
  forall G rho ids,
    holds G rho (SUnique ids) = Some true <->
    (forall i j a b, (i < j)%nat -> nth_error ids i = Some a -> nth_error ids j = Some b ->
                     truth G rho (EBin Ne (EField a) (EField b)) = Some true).
Proof.
  intros G rho ids. rewrite holds_unique_pairs. induction ids as [|x t IH].
  - split; [|reflexivity]. intros _ i j a b _ Hi _. destruct i; discriminate Hi.
  - rewrite hpairs_cons, opt_and_true, ne_row_true, IH. split.
    + intros [Hrow Ht] i j a b Hij Hi Hj. destruct j as [|j]; [lia|]. cbn [nth_error] in Hj.
      destruct i as [|i]; cbn [nth_error] in Hi.
      * inversion Hi; subst a. apply Hrow. eapply nth_error_In. exact Hj.
      * apply (Ht i j); [lia|exact Hi|exact Hj].
    + intros H. split.
      * intros y Hy. apply In_nth_error in Hy. destruct Hy as [n Hn].
        apply (H 0%nat (S n)); [lia|reflexivity|exact Hn].
      * intros i j a b Hij Hi Hj. apply (H (S i) (S j)); [lia|exact Hi|exact Hj].
Qed.
Print Assumptions unique_holds.

Lemma truth_ne_fields G rho w sg a b : 1 <= w ->
  fw G a = w -> fsg G a = sg -> fw G b = w -> fsg G b = sg ->
  truth G rho (EBin Ne (EField a) (EField b)) = Some (negb (wrapU w (rho a) =? wrapU w (rho b))).
Proof.
  intros Hw Hwa Hsa Hwb Hsb. unfold truth. cbn [sem width_of spec_signed is_rel].
  rewrite Hwa, Hsa, Hwb, Hsb, andb_diag.
  replace (Z.max (-1) (Z.max w w)) with w by lia.
  pose proof (up_wrapU_range w (rho a) ltac:(lia)) as Ha.
  pose proof (up_wrapU_range w (rho b) ltac:(lia)) as Hb.
  rewrite !up_conv_same by assumption.
  destruct sg; cbn [rel_eval].
  - rewrite up_toS_eqb by assumption. destruct (wrapU w (rho a) =? wrapU w (rho b)); reflexivity.
  - destruct (wrapU w (rho a) =? wrapU w (rho b)); reflexivity.
Qed.

Theorem unique_same_type : forall G rho w sg ids, 0 < w -> typed G w sg ids ->
  (holds G rho (SUnique ids) = Some true <-> NoDup (map (fun id => wrapU w (rho id)) ids)).
Proof.
  intros G rho w sg ids Hw. rewrite holds_unique_pairs. induction ids as [|x t IH]; intros Hty.
  - simpl. split; [intros _; constructor|reflexivity].
  - apply typed_cons in Hty. destruct Hty as [[Hwx Hsx] Hty].
    rewrite hpairs_cons, opt_and_true, ne_row_true, (IH Hty). cbn [map]. rewrite NoDup_cons_iff.
    assert (Hrow : (forall y, In y t -> truth G rho (EBin Ne (EField x) (EField y)) = Some true) <->
                   ~ In (wrapU w (rho x)) (map (fun id => wrapU w (rho id)) t)).
    { split.
      - intros H Hin. apply in_map_iff in Hin. destruct Hin as (y & Heq & Hy).
        specialize (H y Hy). destruct (Hty y Hy) as [Hwy Hsy].
        rewrite (truth_ne_fields G rho w sg x y) in H by (try assumption; lia).
        inversion H as [Hn]. apply negb_true_iff, Z.eqb_neq in Hn. congruence.
      - intros Hnin y Hy. destruct (Hty y Hy) as [Hwy Hsy].
        rewrite (truth_ne_fields G rho w sg x y) by (try assumption; lia).
        f_equal. apply negb_true_iff, Z.eqb_neq. intros Heq. apply Hnin.
        apply in_map_iff. exists y. split; [symmetry; exact Heq|exact Hy]. }
    rewrite Hrow. tauto.
Qed.
Print Assumptions unique_same_type.

(* ------------------------------------------------------------------ *)
(* 6. the random-size mechanism                                        *)
(* ------------------------------------------------------------------ *)
Lemma guarded_sum_gen k : forall xs i, zsum (guarded k i 0 xs) = zsum (firstn (k - i) xs).
Proof.
  induction xs as [|x t IH]; intros i.
  - rewrite firstn_nil. reflexivity.
  - cbn [guarded]. rewrite zsum_cons, IH. destruct (Nat.ltb i k) eqn:E.
    + apply Nat.ltb_lt in E. replace (k - i)%nat with (S (k - S i)) by lia.
      cbn [firstn]. rewrite zsum_cons. reflexivity.
    + apply Nat.ltb_ge in E. replace (k - i)%nat with 0%nat by lia. replace (k - S i)%nat with 0%nat by lia.
      reflexivity.
Qed.

Theorem guarded_sum_firstn : forall k xs, guarded_sum k xs = zsum (firstn k xs).
Proof. intros k xs. unfold guarded_sum. rewrite guarded_sum_gen, Nat.sub_0_r. reflexivity. Qed.
Print Assumptions guarded_sum_firstn.

Lemma guarded_prod_gen k : forall xs i, zprod (guarded k i 1 xs) = zprod (firstn (k - i) xs).
Proof.
  induction xs as [|x t IH]; intros i.
  - rewrite firstn_nil. reflexivity.
  - cbn [guarded]. rewrite zprod_cons, IH. destruct (Nat.ltb i k) eqn:E.
    + apply Nat.ltb_lt in E. replace (k - i)%nat with (S (k - S i)) by lia.
      cbn [firstn]. rewrite zprod_cons. reflexivity.
    + apply Nat.ltb_ge in E. replace (k - i)%nat with 0%nat by lia. replace (k - S i)%nat with 0%nat by lia.
      reflexivity.
Qed.

Theorem guarded_prod_firstn : forall k xs, guarded_prod k xs = zprod (firstn k xs).
Proof. intros k xs. unfold guarded_prod. rewrite guarded_prod_gen, Nat.sub_0_r. reflexivity. Qed.
Print Assumptions guarded_prod_firstn.

Lemma guarded_mem_gen k x : forall xs i, guarded_mem k i x xs = true <-> In x (firstn (k - i) xs).
Proof.
  induction xs as [|y t IH]; intros i.
  - rewrite firstn_nil. simpl. split; [discriminate|intros []].
  - cbn [guarded_mem]. rewrite orb_true_iff, IH. destruct (Nat.ltb i k) eqn:E.
    + apply Nat.ltb_lt in E. replace (k - i)%nat with (S (k - S i)) by lia.
      cbn [firstn andb]. rewrite Z.eqb_eq. simpl In. split.
      * intros [H|H]; [left; symmetry; exact H|right; exact H].
      * intros [H|H]; [left; symmetry; exact H|right; exact H].
    + apply Nat.ltb_ge in E. replace (k - i)%nat with 0%nat by lia. replace (k - S i)%nat with 0%nat by lia.
      cbn [firstn andb]. simpl In. split; [intros [H|H]; [discriminate H|exact H]|intros []].
Qed.

Theorem guarded_mem_firstn : forall k x xs, guarded_mem k 0 x xs = true <-> In x (firstn k xs).
Proof. intros k x xs. rewrite guarded_mem_gen, Nat.sub_0_r. reflexivity. Qed.
Print Assumptions guarded_mem_firstn.

Lemma guarded_ne_from_gen k i x : (i < k)%nat ->
  forall xs j, guarded_ne_from k i x j xs = true <-> ~ In x (firstn (k - j) xs).
Proof.
  intros Hik. apply Nat.ltb_lt in Hik. induction xs as [|y t IH]; intros j.
  - rewrite firstn_nil. simpl. split; [intros _ []|reflexivity].
  - cbn [guarded_ne_from]. rewrite Hik. cbn [negb orb]. rewrite andb_true_iff, IH.
    destruct (Nat.ltb j k) eqn:E.
    + apply Nat.ltb_lt in E. replace (k - j)%nat with (S (k - S j)) by lia.
      cbn [firstn negb orb]. rewrite negb_true_iff, Z.eqb_neq. simpl In. split.
      * intros [Hne Hnin] [H|H]; [apply Hne; symmetry; exact H|exact (Hnin H)].
      * intros H. split; [intros Heq; apply H; left; symmetry; exact Heq|intros Hin; apply H; right; exact Hin].
    + apply Nat.ltb_ge in E. replace (k - j)%nat with 0%nat by lia. replace (k - S j)%nat with 0%nat by lia.
      cbn [firstn negb orb]. simpl In. tauto.
Qed.

Lemma guarded_ne_from_beyond k i x : (k <= i)%nat -> forall xs j, guarded_ne_from k i x j xs = true.
Proof.
  intros Hki. apply Nat.ltb_ge in Hki. induction xs as [|y t IH]; intros j.
  - reflexivity.
  - cbn [guarded_ne_from]. rewrite Hki, IH. reflexivity.
Qed.

Lemma guarded_unique_beyond k : forall xs i, (k <= i)%nat -> guarded_unique k i xs = true.
Proof.
  induction xs as [|x t IH]; intros i Hki.
  - reflexivity.
  - cbn [guarded_unique]. rewrite guarded_ne_from_beyond by exact Hki. rewrite IH by lia. reflexivity.
Qed.

Lemma guarded_unique_gen k : forall xs i, guarded_unique k i xs = true <-> NoDup (firstn (k - i) xs).
Proof.
  induction xs as [|x t IH]; intros i.
  - rewrite firstn_nil. simpl. split; [intros _; constructor|reflexivity].
  - destruct (Nat.ltb i k) eqn:E.
    + apply Nat.ltb_lt in E. cbn [guarded_unique].
      rewrite andb_true_iff, IH, (guarded_ne_from_gen k i x E).
      replace (k - i)%nat with (S (k - S i)) by lia. cbn [firstn]. rewrite NoDup_cons_iff. tauto.
    + apply Nat.ltb_ge in E. rewrite guarded_unique_beyond by exact E.
      replace (k - i)%nat with 0%nat by lia. cbn [firstn]. split; [intros _; constructor|reflexivity].
Qed.

Theorem guarded_unique_firstn : forall k xs, guarded_unique k 0 xs = true <-> NoDup (firstn k xs).
Proof. intros k xs. rewrite guarded_unique_gen, Nat.sub_0_r. reflexivity. Qed.
Print Assumptions guarded_unique_firstn.

(* ------------------------------------------------------------------ *)
(* 7. non-vacuity                                                      *)
(* ------------------------------------------------------------------ *)
Module UnrollExamples.
  Definition G : fenv := [mkF 3 false; mkF 3 false; mkF 3 false; mkF 4 false].
  Definition ids : list nat := [0; 1; 2]%nat.
  Definition rho : nat -> Z := fun id => match id with 0%nat => 7 | 1%nat => 7 | 2%nat => 6 | _ => 4 end.

  Example typed_example : typed G 3 false ids.
  Proof. intros id [<-|[<-|[<-|[]]]]; split; reflexivity. Qed.

  (* 7 + 7 + 6 = 20 does not wrap: 3 bits + 2 extra bits; the same chain started at 3 bits wraps to 4 *)
  Example unroll_example :
    sem G rho (-1) false (sum_expr 3 false ids) = Some (5, 20) /\
    sem G rho (-1) false (fold_left (fun a id => EBin Add a (EField id)) ids (ELit 0 false 3)) = Some (3, 4) /\
    truth G rho (in_list (EField 3) ids) = Some false /\
    truth G rho (in_list (EField 2) ids) = Some true /\
    holds G rho (SUnique ids) = Some false /\
    holds G rho (SUnique [1; 2; 3]%nat) = Some true /\
    holds_all G rho (foreach_inst ids (fun i it => [SExpr (EBin Ge (EField it) (idx_lit i))])) = Some true.
  Proof. vm_compute. repeat split. Qed.

  (* a condition on the index folded during the expansion: l[i] <= l[i-1] for i > 0 ; without the guard the
     reference l[-1] has no meaning ; the strict form fails on 7, 7 *)
  Example foreach_guard_example :
    holds_all G rho (foreach_inst ids (fun i it =>
        idx_if (idx_cond IGt i 0) [SExpr (EBin Le (EField it) (elem_at ids i (-1)))] [])) = Some true /\
    holds_all G rho (foreach_inst ids (fun i it =>
        idx_if (idx_cond IGt i 0) [SExpr (EBin Lt (EField it) (elem_at ids i (-1)))] [])) = Some false /\
    holds_all G rho (foreach_inst ids (fun i it => [SExpr (EBin Le (EField it) (elem_at ids i (-1)))])) = None.
  Proof. vm_compute. repeat split. Qed.

  (* signed elements: -4 + -4 + -4 = -12 = the 5-bit pattern 20 read as signed *)
  Definition Gs : fenv := [mkF 3 true; mkF 3 true; mkF 3 true].
  Definition rhos : nat -> Z := fun _ => -4.
  Example signed_sum_example :
    sem Gs rhos (-1) false (sum_expr 3 true ids) = Some (5, 20) /\
    map (elem_val true 3 rhos) ids = [-4; -4; -4] /\ toS 5 20 = -12.
  Proof. vm_compute. repeat split. Qed.

  Example guarded_example :
    guarded_sum 2 [5; 6; 7] = 11 /\ guarded_prod 2 [5; 6; 7] = 30 /\
    guarded_mem 2 0 7 [5; 6; 7] = false /\ guarded_mem 2 0 6 [5; 6; 7] = true /\
    guarded_unique 2 0 [5; 6; 5] = true /\ guarded_unique 3 0 [5; 6; 5] = false.
  Proof. vm_compute. repeat split. Qed.

  (* the theorems applied to the example *)
  Example sum_theorem_applied :
    sem G rho (-1) false (sum_expr 3 false ids) = Some (5, wrapU 5 (zsum (map (elem_val false 3 rho) ids))).
  Proof. apply (sum_expr_sem G rho 3 false ids (-1) false); [lia|exact typed_example]. Qed.
End UnrollExamples.
