(* Well-formedness of expressions / statements: the fragment on which the code's lowering and the
   specification's integer meaning coincide (LowerProofs.lower_expr_correct).  Outside it lie three corners,
   each with a refuted witness in Prop_C01.v:
   (c1) a relational result of two signed operands used where its sign matters (the code types it signed 1-bit),
   (c2) ~e in a context wider than e (the code inverts before extending),
   (c3) a negative literal extended in an unsigned operation (the code sign-extends the Python integer). *)
From Coq Require Import ZArith List Bool.
From PV Require Import Common.Bits Rand.BV Rand.Expr Rand.Lower.
Import ListNotations.
Open Scope Z_scope.

Fixpoint wt (G : fenv) (ctx : Z) (psg : bool) (e : expr) : bool :=
  match e with
  | ELit v sg w =>
    (1 <=? w) && in_type sg w v && ((Z.max ctx w <=? w) || (0 <=? v) || psg) && (negb psg || sg)
  | EField id => (Nat.ltb id (length G)) && (1 <=? fw G id)
  | EBin o l r =>
    let W := Z.max ctx (Z.max (width_of G l) (width_of G r)) in
    let sgc := signed_of G l && signed_of G r in
    let sgs := spec_signed G l && spec_signed G r in
    wt G W sgs l && wt G W sgs r &&
    (Bool.eqb sgc sgs || (negb (sign_sensitive o) && (built_width G W l =? W) && (built_width G W r =? W)))
  | ENot e =>
    let W := Z.max ctx (width_of G e) in
    wt G W (spec_signed G e) e && (built_width G W e =? W)
  | EReset e => wt G (-1) false e && (built_width G (-1) e =? 1)
  | EPart id hi lo => (Nat.ltb id (length G)) && (0 <=? lo) && (lo <=? hi) && (hi <? fw G id)
  end.
Definition wt_cond (G : fenv) (e : expr) : bool := wt G (-1) false e.

Fixpoint wt_s (G : fenv) (s : stmt) : bool :=
  let all := fix all (l : list stmt) : bool := match l with [] => true | x :: t => wt_s G x && all t end in
  match s with
  | SExpr e => wt_cond G e
  | SIf c t f => wt_cond G c && all t && match f with Some fl => all fl | None => true end
  | SImplies c b => wt_cond G c && all b
  | SUnique ids => forallb (fun id => Nat.ltb id (length G) && (1 <=? fw G id)) ids
  | SSoft e => wt_cond G e
  end.

(* the solver assignment / constants agree with the field values: a non-random field is presented as the
   constant of its current value; values lie in their declared type *)
Definition fields_ok (G : fenv) (B : list fbuild) (rho : nat -> Z) : Prop :=
  length B = length G /\
  forall id d b, nth_error G id = Some d -> nth_error B id = Some b ->
    1 <= f_w d /\ in_type (f_sg d) (f_w d) (rho id) = true /\ (fb_rand b = false -> fb_val b = rho id).
