(* Executable oracles for C01 / C02 / C03 on one randomize call (no proofs):
   (A) the hard terms the code handed to the solver = the model's lowering of the enabled hard statements,
   (B) the returned values satisfy the statements' integer meaning, lie in their types, enum fields hold
       declared values, non-random fields are unchanged; the outcome matches satisfiability decided by
       brute-force enumeration of the random fields. *)
From Coq Require Import ZArith List Bool.
From PV Require Import Common.Bits Rand.BV Rand.Expr Rand.Lower Rand.Typing Rand.World Rand.Soft Rand.Randset.
Import ListNotations.
Open Scope Z_scope.

Record scase := mkSC {
  sc_G : fenv;
  sc_enum : list (option (list Z));   (* per leaf: the declared enumerator values of an enum field *)
  sc_roots : list wnode;              (* the object of obj.randomize[_with](), or the fields passed to vsc.randomize *)
  sc_inline : list stmt;              (* inline constraints of this call *)
  sc_before : list Z;                 (* per leaf: value before the call *)
  sc_outcome : Z;                     (* 0 returned normally, 1 SolveFailure, 2 other exception, 3 ZeroDivisionError (no verdict) *)
  sc_after : list Z;                  (* per leaf: value readable after the call *)
  sc_terms : list bvterm;             (* terms assumed before the first Sat() of each solver instance *)
  sc_vars : list nat;                 (* leaves that were presented to the solver as variables *)
  sc_consts : list nat;               (* leaves that were presented as constants *)
  sc_pre : list nat;                  (* objects whose pre_randomize ran, in order *)
  sc_post : list nat;                 (* objects whose post_randomize ran, in order *)
  sc_batches : list (list bvterm);    (* per solver instance: the terms assumed between its first and second Sat() *)
  sc_domains : list (option (list (Z * Z)))   (* per leaf: the value ranges the library inferred for steering (None = not recorded) *)
}.

Definition rho_of (vals : list Z) : nat -> Z := fun id => nth id vals 0.
Definition sc_flags (c : scase) : list (nat * bool) := flat_map (leaf_flags true 0) (sc_roots c).
Definition sc_spec_flags (c : scase) : list (nat * bool) := flat_map (spec_flags true true) (sc_roots c).
Definition sc_B (c : scase) : list fbuild :=
  map (fun id => mkFB (flag_of (sc_flags c) id) (nth id (sc_before c) 0)) (seq 0 (length (sc_G c))).
Definition sc_hard (c : scase) : list stmt := flat_map (active_stmts true 0) (sc_roots c) ++ sc_inline c.

(* does a statement mention a field at all? (a field-less top-level statement never reaches a rand set) *)
Fixpoint e_mentions (e : expr) : bool :=
  match e with
  | ELit _ _ _ => false
  | EField _ => true
  | EBin _ l r => e_mentions l || e_mentions r
  | ENot e => e_mentions e
  | EReset e => match e with ELit _ _ _ => true | _ => e_mentions e end   (* membership in an empty list still refers to its operand *)
  | EPart _ _ _ => true
  end.
Fixpoint s_mentions (s : stmt) : bool :=
  let any := fix any (l : list stmt) : bool := match l with [] => false | x :: t => s_mentions x || any t end in
  match s with
  | SExpr e => e_mentions e
  | SIf c t f => e_mentions c || any t || match f with Some fl => any fl | None => false end
  | SImplies c b => e_mentions c || any b
  | SUnique ids => negb (match ids with [] => true | _ => false end)
  | SSoft e => e_mentions e
  end.
Definition is_soft (s : stmt) : bool := match s with SSoft _ => true | _ => false end.

(* ---- (A) terms ---- *)
Fixpoint remove_first (t : bvterm) (l : list bvterm) : option (list bvterm) :=
  match l with
  | [] => None
  | x :: r => if bvterm_eqb t x then Some r else option_map (cons x) (remove_first t r)
  end.
Fixpoint multiset_eqb (a b : list bvterm) : bool :=
  match a with
  | [] => match b with [] => true | _ => false end
  | x :: r => match remove_first x b with Some b' => multiset_eqb r b' | None => false end
  end.
Definition model_terms (c : scase) : list bvterm :=
  (* every hard top-level statement reaches the solver, also one that mentions no field (repaired code) *)
  flat_map (fun s => if negb (is_soft s)
                     then match lower_s (sc_G c) (sc_B c) false s with Some t => [t] | None => [] end
                     else []) (sc_hard c).
Fixpoint submultiset (a b : list bvterm) : bool :=      (* every element of a, with multiplicity, occurs in b *)
  match a with
  | [] => true
  | x :: r => match remove_first x b with Some b' => submultiset r b' | None => false end
  end.
(* after a SolveFailure the rand sets behind the failing one were never handed to the solver *)
Definition terms_ok (c : scase) : bool :=
  if sc_outcome c =? 1 then submultiset (sc_terms c) (model_terms c)
  else multiset_eqb (model_terms c) (sc_terms c).

(* ---- (B) values ---- *)
Definition types_ok (c : scase) : bool :=
  forallb (fun p : fdecl * Z => in_type (f_sg (fst p)) (f_w (fst p)) (snd p)) (combine (sc_G c) (sc_after c)).
Definition enums_ok (c : scase) : bool :=
  forallb (fun p : option (list Z) * Z => match fst p with Some vals => existsb (Z.eqb (snd p)) vals | None => true end)
          (combine (sc_enum c) (sc_after c)).
(* a leaf that is not random in this call (by the specification of "random in a call") keeps its value *)
Definition frame_ok (c : scase) : bool :=
  forallb (fun id => flag_of (sc_spec_flags c) id || (nth id (sc_before c) 0 =? nth id (sc_after c) 0))
          (seq 0 (length (sc_G c))).
(* (A3) what the solver saw as variable / constant is what the model marks random / not random *)
Definition flags_ok (c : scase) : bool :=
  forallb (fun id => flag_of (sc_flags c) id) (sc_vars c) &&
  forallb (fun id => negb (flag_of (sc_flags c) id)) (sc_consts c).
(* (C17) callbacks: exactly the objects the model names, each once *)
Fixpoint remove_nat (x : nat) (l : list nat) : option (list nat) :=
  match l with [] => None | y :: t => if Nat.eqb x y then Some t else option_map (cons y) (remove_nat x t) end.
Fixpoint perm_nat (a b : list nat) : bool :=
  match a with
  | [] => match b with [] => true | _ => false end
  | x :: t => match remove_nat x b with Some b' => perm_nat t b' | None => false end
  end.
Definition callbacks_ok (c : scase) : bool :=
  (* lists are composites without callbacks: the harness numbers them from 1000 *)
  let m := filter (fun o => Nat.ltb o 1000) (flat_map (callbacks true 0) (sc_roots c)) in
  perm_nat m (sc_pre c) && ((negb (sc_outcome c =? 0)) || perm_nat m (sc_post c)).
(* every well-formed hard statement holds (an undefined one gives no verdict) *)
Definition hard_ok (c : scase) (vals : list Z) : bool :=
  forallb (fun s => negb (wt_s (sc_G c) s) ||
                    match holds (sc_G c) (rho_of vals) s with Some false => false | _ => true end) (sc_hard c).

(* ---- satisfiability by enumeration of the random fields ---- *)
Definition zrange (lo hi : Z) : list Z := map (fun k => lo + Z.of_nat k) (seq 0 (Z.to_nat (hi - lo + 1))).
Definition domain (d : fdecl) (en : option (list Z)) : list Z :=
  match en with
  | Some vals => vals
  | None => if f_sg d then zrange (- 2 ^ (f_w d - 1)) (2 ^ (f_w d - 1) - 1) else zrange 0 (2 ^ f_w d - 1)
  end.
(* all assignments: random fields range over their domain, the others keep their value *)
Fixpoint assignments (l : list (fdecl * option (list Z) * fbuild)) : list (list Z) :=
  match l with
  | [] => [[]]
  | (d, en, b) :: t =>
    let rest := assignments t in
    if fb_rand b then flat_map (fun v => map (cons v) rest) (domain d en) else map (cons (fb_val b)) rest
  end.
Definition all_assignments (c : scase) : list (list Z) :=
  assignments (combine (combine (sc_G c) (sc_enum c)) (sc_B c)).
(* 1 = satisfiable, 0 = unsatisfiable, 2 = no verdict (some statement undefined or outside the typed fragment) *)
Definition all_wt (c : scase) : bool := forallb (wt_s (sc_G c)) (sc_hard c).
(* number of assignments to enumerate; no verdict above 2^13 *)
Definition space (c : scase) : Z :=
  fold_right (fun p a => let '(d, en, b) := p in
                         if fb_rand b then a * (match en with Some vals => Z.of_nat (length vals) | None => 2 ^ f_w d end) else a)
             1 (combine (combine (sc_G c) (sc_enum c)) (sc_B c)).
Definition sat3 (c : scase) : Z :=
  if negb (all_wt c) || (8192 <? space c) then 2
  else
    let rs := map (fun vals => holds_all (sc_G c) (rho_of vals) (sc_hard c)) (all_assignments c) in
    if existsb (fun r => match r with Some true => true | _ => false end) rs then 1
    else if forallb (fun r => match r with Some false => true | _ => false end) rs then 0
    else 2.

(* ---- soft constraints (C05) ---- *)
Definition sc_soft_items (c : scase) : list softitem := by_priority (soft_items (sc_hard c)).
Definition item_mentions (it : softitem) : bool := e_mentions (so_expr it) || existsb e_mentions (so_guards it).
Definition model_soft_terms (c : scase) : list bvterm :=
  map (lower_soft (sc_G c) (sc_B c)) (filter item_mentions (sc_soft_items c)).
Fixpoint is_subseq (a b : list bvterm) : bool :=       (* a is a subsequence of b *)
  match a, b with
  | [], _ => true
  | _, [] => false
  | x :: r, y :: t => if bvterm_eqb x y then is_subseq r t else is_subseq a t
  end.
(* (A) the soft batches handed to the solver are the model's soft terms, each batch in priority order *)
Definition soft_terms_ok (c : scase) : bool :=
  let m := model_soft_terms c in
  let batches := filter (fun b => negb (match b with [] => true | _ => false end) &&
                                  forallb (fun t => existsb (bvterm_eqb t) m) b) (sc_batches c) in
  forallb (fun b => is_subseq b m) batches &&
  (if sc_outcome c =? 0 then multiset_eqb m (concat batches) else submultiset (concat batches) m).
(* (B) the returned values honour a priority-greedy maximal set: a violated soft constraint cannot be honoured together with
   the hard constraints and the higher-priority soft constraints that are honoured *)
Definition wt_item (G : fenv) (it : softitem) : bool :=
  forallb (fun g => wt_cond G g && (built_width G (-1) g =? 1)) (so_guards it) &&
  wt_cond G (so_expr it) && (built_width G (-1) (so_expr it) =? 1).
Fixpoint greedy_ok (c : scase) (asg : list (list Z)) (kept : list softitem) (rest : list softitem) : bool :=
  match rest with
  | [] => true
  | it :: t =>
    match soft_holds (sc_G c) (rho_of (sc_after c)) it with
    | Some true => greedy_ok c asg (it :: kept) t
    | Some false =>
      negb (existsb (fun vals =>
              match holds_all (sc_G c) (rho_of vals) (sc_hard c) with
              | Some true => forallb (fun k => match soft_holds (sc_G c) (rho_of vals) k with Some true => true | _ => false end)
                                     (it :: kept)
              | _ => false
              end) asg)
      && greedy_ok c asg kept t
    | None => true       (* undefined at the returned values (a division by zero): the solver may count it as honoured -
                            no verdict on the constraints of lower priority *)
    end
  end.
Definition soft_values_ok (c : scase) : bool :=
  if negb (sc_outcome c =? 0) || negb (all_wt c) || (8192 <? space c) ||
     negb (forallb (wt_item (sc_G c)) (sc_soft_items c)) then true
  else greedy_ok c (all_assignments c) [] (sc_soft_items c).

(* ---- inferred domains (C14) ---- *)
Definition type_bounds (d : fdecl) : Z * Z :=
  if f_sg d then (- 2 ^ (f_w d - 1), 2 ^ (f_w d - 1) - 1) else (0, 2 ^ f_w d - 1).
Definition in_dom (d : list (Z * Z)) (v : Z) : bool := existsb (fun r => (fst r <=? v) && (v <=? snd r)) d.
(* does a statement mention leaf id? *)
Fixpoint e_uses (id : nat) (e : expr) : bool :=
  match e with
  | ELit _ _ _ => false
  | EField j => Nat.eqb id j
  | EBin _ l r => e_uses id l || e_uses id r
  | ENot e => e_uses id e
  | EReset e => e_uses id e
  | EPart j _ _ => Nat.eqb id j
  end.
Fixpoint s_uses (id : nat) (s : stmt) : bool :=
  let any := fix any (l : list stmt) : bool := match l with [] => false | x :: t => s_uses id x || any t end in
  match s with
  | SExpr e => e_uses id e
  | SIf c t f => e_uses id c || any t || match f with Some fl => any fl | None => false end
  | SImplies c b => e_uses id c || any b
  | SUnique ids => existsb (Nat.eqb id) ids
  | SSoft e => e_uses id e
  end.
(* every value a random field takes in some solution lies in its inferred domain; a field no constraint mentions ranges over
   its whole type *)
Definition domains_ok (c : scase) : bool :=
  if negb (all_wt c) || (8192 <? space c) then true
  else
    let sols := filter (fun vals => match holds_all (sc_G c) (rho_of vals) (sc_hard c) with Some true => true | _ => false end)
                       (all_assignments c) in
    forallb (fun id =>
      match nth id (sc_domains c) None with
      | None => true
      | Some d =>
        (* if-then-else, not ||: vm_compute evaluates both operands of a boolean operator *)
        if negb (flag_of (sc_flags c) id) then true
        else if negb (forallb (fun vals => in_dom d (nth id vals 0)) sols) then false
        else if existsb (s_uses id) (sc_hard c) then true
        else match nth_error (sc_G c) id, nth id (sc_enum c) None with
             | Some fd, None => if f_w fd <=? 13 then forallb (in_dom d) (domain fd None)
                                else in_dom d (fst (type_bounds fd)) && in_dom d (snd (type_bounds fd))
             | _, _ => true
             end
      end) (seq 0 (length (sc_G c))).

(* bit codes: 1 terms differ (A) ; 2 a hard statement is violated / value outside its type / enum (C01) ;
   4 a non-random field changed (C03) ; 8 outcome contradicts satisfiability or other exception (C02) ;
   16 variables / constants differ from the model's random flags (A3) ; 32 callbacks differ (C17) ;
   64 soft terms / their order differ from the model (A, C05) ; 128 a violated soft constraint could have been honoured (C05) ;
   256 a feasible value lies outside the inferred domain, or an unmentioned field's domain is not its whole type (C14) *)
Definition s_check (c : scase) (do_sat : bool) : Z :=
  let a := if (2 <=? sc_outcome c) || terms_ok c then 0 else 1 in
  let b := if sc_outcome c =? 0
           then (if hard_ok c (sc_after c) && types_ok c && enums_ok c then 0 else 2)
           else 0 in
  let f := if frame_ok c then 0 else 4 in
  let o := if sc_outcome c =? 2 then (if all_wt c then 8 else 0)   (* an exception other than SolveFailure is never a verdict *)
           else if do_sat then
             match sat3 c with
             | 1 => if sc_outcome c =? 1 then 8 else 0
             | 0 => if sc_outcome c =? 0 then 8 else 0
             | _ => 0
             end
           else 0 in
  a + b + f + o + (if (2 <=? sc_outcome c) || flags_ok c then 0 else 16) + (if (2 <=? sc_outcome c) || callbacks_ok c then 0 else 32)
  + (if (2 <=? sc_outcome c) || soft_terms_ok c then 0 else 64) + (if do_sat && negb (soft_values_ok c) then 128 else 0)
  + (if do_sat && (sc_outcome c <? 2) && negb (domains_ok c) then 256 else 0).

(* ---- (A4) rand sets: which statements were handed to one solver instance ----
   The fields a statement refers to, in the order the visitor meets them; Rand/Randset.build on these gives the model's
   rand sets.  The code's top-level statements can be coarser than the model's (a foreach / dist is one statement there and
   several here), so the comparison is: every rand set of the model lies inside one recorded solver instance. *)
Fixpoint e_refs (e : expr) : list nat :=
  match e with
  | ELit _ _ _ => []
  | EField id => [id]
  | EBin _ l r => e_refs l ++ e_refs r
  | ENot e => e_refs e
  | EReset e => e_refs e
  | EPart id _ _ => [id]
  end.
Fixpoint s_refs (s : stmt) : list nat :=
  let all := fix all (l : list stmt) : list nat := match l with [] => [] | x :: t => s_refs x ++ all t end in
  match s with
  | SExpr e => e_refs e
  | SIf c t f => e_refs c ++ all t ++ match f with Some fl => all fl | None => [] end
  | SImplies c b => e_refs c ++ all b
  | SUnique ids => ids
  | SSoft e => e_refs e
  end.
Definition has_term (t : bvterm) (l : list bvterm) : bool := existsb (bvterm_eqb t) l.
(* take the terms ts out of the first instance that holds the first of them *)
Fixpoint take_from (ts : list bvterm) (insts : list (list bvterm)) : option (list (list bvterm)) :=
  match ts with
  | [] => Some insts
  | t0 :: _ =>
    match insts with
    | [] => None
    | i :: rest =>
      if has_term t0 i
      then (fix rm (l : list bvterm) (cur : list bvterm) : option (list (list bvterm)) :=
              match l with
              | [] => Some (cur :: rest)
              | x :: l' => match remove_first x cur with Some cur' => rm l' cur' | None => None end
              end) ts i
      else option_map (cons i) (take_from ts rest)
    end
  end.
(* a term without any variable does not say which fields it came from (two constants of equal value look alike): only terms
   with a variable are located *)
Fixpoint has_var (t : bvterm) : bool :=
  match t with
  | BVar _ _ => true
  | BConst _ _ => false
  | BOp2 _ a b => has_var a || has_var b
  | BNot a | BSext a _ | BUext a _ | BSlice a _ _ => has_var a
  | BCond c a b => has_var c || has_var a || has_var b
  end.
Definition set_terms (c : scase) (r : rset) : list bvterm :=
  filter has_var
  (flat_map (fun k => match nth_error (sc_hard c) k with
                     | Some s => if is_soft s then [] else match lower_s (sc_G c) (sc_B c) false s with Some t => [t] | None => [] end
                     | None => []
                     end) (rs_stmts r)).
Definition partition_ok (c : scase) (insts : list (list bvterm)) : bool :=
  let sets := build (map s_refs (sc_hard c)) in
  let failed := sc_outcome c =? 1 in
  (fix go (l : list rset) (cur : list (list bvterm)) : bool :=
     match l with
     | [] => true
     | r :: t =>
       match set_terms c r with
       | [] => go t cur
       | t0 :: ts =>
         if failed && negb (existsb (has_term t0) cur) then go t cur     (* never reached: an earlier instance failed *)
         else match take_from (t0 :: ts) cur with Some cur' => go t cur' | None => false end
       end
     end) sets insts.
(* s_check plus bit 512: a rand set of the model was split over solver instances (only judged when the terms themselves
   agree and the call ended normally or with SolveFailure) *)
Definition s_check2 (c : scase) (do_sat : bool) (insts : list (list bvterm)) : Z :=
  let code := s_check c do_sat in
  code + (if Z.odd code || (2 <=? sc_outcome c) || partition_ok c insts then 0 else 512).
