(* Proofs about Rand/Flags.v: with no call in progress nothing is flagged and nothing holds a solver node. *)
From Coq Require Import List Bool Arith Lia.
From PV Require Import Rand.Flags.
Import ListNotations.

Definition idle (s : fields) : Prop := Forall (fun x => used x = false /\ var x = false) s.

Lemma idle_busy : forall s, idle s <-> busy s = false.
Proof.
  intros s; unfold idle, busy; split.
  - intros H. induction H as [|x t [Hu Hv] Ht IH]; cbn [existsb]; [reflexivity|]. rewrite Hu, Hv, IH. reflexivity.
  - induction s as [|x t IH]; cbn [existsb]; intros H; [constructor|].
    apply orb_false_iff in H. destruct H as [Hx Ht]. apply orb_false_iff in Hx. destruct Hx as [Hu Hv].
    constructor; [split; assumption | apply IH; exact Ht].
Qed.

Lemma upd_length : forall s i f, length (upd s i f) = length s.
Proof. induction s as [|x t IH]; intros [|k] f; cbn [upd length]; try reflexivity; rewrite IH; reflexivity. Qed.

Lemma upd_get_same : forall s i f, i < length s -> get (upd s i f) i = f (get s i).
Proof.
  induction s as [|x t IH]; intros [|k] f Hi; cbn [length] in Hi; try lia; unfold get in *; cbn [upd nth]; [reflexivity|].
  apply IH. lia.
Qed.
Lemma upd_get_other : forall s i j f, i <> j -> get (upd s i f) j = get s j.
Proof.
  induction s as [|x t IH]; intros [|k] [|j] f Hij; unfold get in *; cbn [upd nth]; try reflexivity; try congruence.
  apply IH. congruence.
Qed.
Lemma upd_out : forall s i f, length s <= i -> upd s i f = s.
Proof. induction s as [|x t IH]; intros [|k] f Hi; cbn [upd length] in *; try reflexivity; try lia. rewrite IH by lia. reflexivity. Qed.

(* pointwise characterisation of states: a property of every entry *)
Definition all_get (P : nat -> fstate -> Prop) (s : fields) : Prop := forall i, i < length s -> P i (get s i).

Lemma idle_all_get : forall s, idle s <-> all_get (fun _ x => used x = false /\ var x = false) s.
Proof.
  intros s; unfold idle, all_get; split.
  - intros H i Hi. rewrite Forall_forall in H. apply H. unfold get. apply nth_In. exact Hi.
  - intros H. apply Forall_forall. intros x Hx. destruct (In_nth _ _ fresh Hx) as [i [Hi Hn]]. rewrite <- Hn. apply H. exact Hi.
Qed.

Lemma upd_all_length : forall ids s f, length (upd_all s ids f) = length s.
Proof.
  unfold upd_all. induction ids as [|i t IH]; intros s f; cbn [fold_left]; [reflexivity|]. rewrite IH, upd_length. reflexivity.
Qed.

(* after upd_all with a function f that is idempotent-like on the observed component: every listed index has f applied at
   least once, every other index is untouched *)
Lemma upd_all_get_other : forall ids s f j, ~ In j ids -> get (upd_all s ids f) j = get s j.
Proof.
  unfold upd_all. induction ids as [|i t IH]; intros s f j Hn; cbn [fold_left]; [reflexivity|].
  rewrite IH by (intros H; apply Hn; right; exact H). apply upd_get_other. intros E; apply Hn; left; exact E.
Qed.

(* a predicate Q that f establishes and keeps *)
Lemma upd_all_get_in : forall (Q : fstate -> Prop) f, (forall x, Q (f x)) ->
  forall ids s j, In j ids -> j < length s -> Q (get (upd_all s ids f) j).
Proof.
  intros Q f Hf. unfold upd_all. induction ids as [|i t IH]; intros s j Hin Hj; [destruct Hin|].
  cbn [fold_left]. destruct (in_dec Nat.eq_dec j t) as [Ht|Ht].
  - apply IH; [exact Ht | rewrite upd_length; exact Hj].
  - destruct Hin as [E|Hin]; [subst i | contradiction].
    pose proof (upd_all_get_other t (upd s j f) f j Ht) as E. unfold upd_all in E. rewrite E.
    rewrite upd_get_same by exact Hj. apply Hf.
Qed.
(* a predicate that f preserves is preserved everywhere *)
Lemma upd_all_preserves : forall (Q : fstate -> Prop) f, (forall x, Q x -> Q (f x)) ->
  forall ids s, (forall j, j < length s -> Q (get s j)) -> forall j, j < length s -> Q (get (upd_all s ids f) j).
Proof.
  intros Q f Hf. unfold upd_all. induction ids as [|i t IH]; intros s H j Hj; cbn [fold_left]; [apply H; exact Hj|].
  apply IH; [|rewrite upd_length; exact Hj].
  intros k Hk. rewrite upd_length in Hk. destruct (Nat.eq_dec i k) as [E|E].
  - subst k. rewrite upd_get_same by exact Hk. apply Hf, H, Hk.
  - rewrite upd_get_other by exact E. apply H, Hk.
Qed.

Lemma mark_length : forall subtree s r, length (mark s subtree r) = length s.
Proof. unfold mark. induction subtree as [|i t IH]; intros s r; cbn [fold_left]; [reflexivity|]. rewrite IH, upd_length. reflexivity. Qed.
Lemma mark_get_other : forall subtree s r j, ~ In j subtree -> get (mark s subtree r) j = get s j.
Proof.
  unfold mark. induction subtree as [|i t IH]; intros s r j Hn; cbn [fold_left]; [reflexivity|].
  rewrite IH by (intros H; apply Hn; right; exact H). apply upd_get_other. intros E; apply Hn; left; exact E.
Qed.
Lemma mark_var : forall subtree s r j, j < length s -> var (get (mark s subtree r) j) = var (get s j).
Proof.
  unfold mark. induction subtree as [|i t IH]; intros s r j Hj; cbn [fold_left]; [reflexivity|].
  rewrite IH by (rewrite upd_length; exact Hj). destruct (Nat.eq_dec i j) as [E|E].
  - subst j. rewrite upd_get_same by exact Hj. reflexivity.
  - rewrite upd_get_other by exact E. reflexivity.
Qed.

(* while a call is in progress, a field outside the roots' subtrees is not flagged *)
Theorem outside_the_call_never_flagged : forall s subtree r j,
  idle s -> j < length s -> ~ In j subtree -> used (get (in_progress s subtree r) j) = false.
Proof.
  intros s subtree r j Hs Hj Hn. unfold in_progress. rewrite mark_get_other by exact Hn.
  apply idle_all_get in Hs. apply (Hs j Hj).
Qed.

(* every operation - a call that returns, fails or raises included - leaves the state idle *)
Theorem step_idle : forall s o, idle s -> idle (step s o).
Proof.
  intros s o Hs. destruct o as [n | lst | subtree r setfields e | ]; cbn [step].
  - unfold idle in *. apply Forall_app; split; [exact Hs|]. apply Forall_forall. intros x Hx. apply repeat_spec in Hx. subst x. split; reflexivity.
  - unfold idle in *. apply Forall_app; split; [exact Hs|]. constructor; [|constructor]. cbn [used var]. split; [|reflexivity].
    destruct (lt_dec lst (length s)) as [Hl|Hl].
    + rewrite Forall_forall in Hs. apply (Hs (get s lst)). unfold get. apply nth_In. exact Hl.
    + unfold get. rewrite nth_overflow by lia. reflexivity.
  - apply idle_all_get in Hs.
    assert (Hvar1 : forall j, j < length s -> var (get (mark s subtree r) j) = false).
    { intros j Hj. rewrite mark_var by exact Hj. apply (Hs j Hj). }
    assert (Hused1 : forall j, j < length s -> ~ In j subtree -> used (get (mark s subtree r) j) = false).
    { intros j Hj Hn. rewrite mark_get_other by exact Hn. apply (Hs j Hj). }
    assert (Hfinal : forall s2, length s2 = length s ->
               (forall j, j < length s -> var (get s2 j) = false) ->
               (forall j, j < length s -> ~ In j subtree -> used (get s2 j) = false) ->
               idle (clear_flags s2 subtree)).
    { intros s2 Hl Hv Hu. apply idle_all_get. intros j Hj. unfold clear_flags in *. rewrite upd_all_length, Hl in Hj. split.
      - destruct (in_dec Nat.eq_dec j subtree) as [Hin|Hin].
        + apply (upd_all_get_in (fun x => used x = false) (fun x => mkFS false (var x))); [reflexivity | exact Hin | rewrite Hl; exact Hj].
        + rewrite upd_all_get_other by exact Hin. apply Hu; assumption.
      - apply (upd_all_preserves (fun x => var x = false) (fun x => mkFS false (var x))); [intros x Hx; exact Hx | | rewrite Hl; exact Hj].
        intros k Hk. rewrite Hl in Hk. apply Hv. exact Hk. }
    assert (Hsolve : idle (clear_flags (drop_nodes_and_flags (build_nodes (mark s subtree r) setfields) setfields) subtree)).
    { apply Hfinal.
      - unfold drop_nodes_and_flags, build_nodes. rewrite !upd_all_length. apply mark_length.
      - intros j Hj. unfold drop_nodes_and_flags.
        destruct (in_dec Nat.eq_dec j setfields) as [Hin|Hin].
        + apply (upd_all_get_in (fun x => var x = false) (fun _ => fresh)); [reflexivity | exact Hin |].
          unfold build_nodes. rewrite upd_all_length, mark_length. exact Hj.
        + rewrite upd_all_get_other by exact Hin. unfold build_nodes. rewrite upd_all_get_other by exact Hin. apply Hvar1. exact Hj.
      - intros j Hj Hn. unfold drop_nodes_and_flags.
        destruct (in_dec Nat.eq_dec j setfields) as [Hin|Hin].
        + apply (upd_all_get_in (fun x => used x = false) (fun _ => fresh)); [reflexivity | exact Hin |].
          unfold build_nodes. rewrite upd_all_length, mark_length. exact Hj.
        + rewrite upd_all_get_other by exact Hin. unfold build_nodes. rewrite upd_all_get_other by exact Hin. apply Hused1; assumption. }
    destruct e; try exact Hsolve.
    apply Hfinal; [apply mark_length | exact Hvar1 | exact Hused1].
  - exact Hs.
Qed.

Theorem run_idle : forall l s, idle s -> idle (run s l).
Proof.
  unfold run. induction l as [|o t IH]; intros s Hs; cbn [fold_left]; [exact Hs|]. apply IH. apply step_idle. exact Hs.
Qed.
Corollary never_busy_between_calls : forall l, busy (run [] l) = false.
Proof. intros l. apply idle_busy. apply run_idle. constructor. Qed.

(* an element appended with no call in progress is not flagged: a later call that only refers to it reads its value *)
Theorem appended_element_not_flagged : forall l lst, used (get (run [] (l ++ [OAppend lst])) (length (run [] l))) = false.
Proof.
  intros l lst. pose proof (never_busy_between_calls (l ++ [OAppend lst])) as H. apply idle_busy in H.
  apply idle_all_get in H. apply H. unfold run. rewrite fold_left_app. cbn [fold_left step]. rewrite app_length. cbn [length]. lia.
Qed.

(* non-vacuity: during the call things ARE flagged and nodes exist; afterwards not *)
Example flags_example :
  let s0 := run [] [ONew 3] in
  let r := fun i => Nat.eqb i 1 in
  busy (build_nodes (mark s0 [0; 1] r) [1; 2]) = true /\
  busy (step s0 (OCall [0; 1] r [1; 2] SolveFails)) = false /\
  busy (step s0 (OCall [0; 1] r [1; 2] PrepRaises)) = false.
Proof. vm_compute. repeat split; reflexivity. Qed.
