(* Totality of the ordering of a rand set: when the declared solve_order pairs are acyclic (a rank function decreases along
   every declared dependency), the level computation never gives up - neither for want of a ready field nor for want of
   fuel - so every rand set touched by an ordering gets its groups.  Proofs only. *)
From Coq Require Import ZArith List Bool Lia Arith.
From PV Require Import Rand.Order Rand.OrderProofs.
Import ListNotations.

Definition acyclic (d : deps) : Prop := exists rank : nat -> nat, forall x y, In y (deps_of d x) -> rank y < rank x.

Lemma min_rank (rank : nat -> nat) (l : list nat) : l <> [] -> exists x, In x l /\ forall y, In y l -> rank x <= rank y.
Proof.
  induction l as [|a l IH]; [congruence|]. intros _. destruct l as [|b l'].
  - exists a. split; [left; auto|]. intros y [<-|[]]. lia.
  - destruct IH as [x [Hx Hm]]; [congruence|].
    destruct (le_lt_dec (rank a) (rank x)) as [L|L].
    + exists a. split; [left; auto|]. intros y [<-|Hy]; [lia|]. specialize (Hm y Hy). lia.
    + exists x. split; [right; auto|]. intros y [<-|Hy]; [lia|]. apply Hm; auto.
Qed.

Lemma filter_len_le (f : nat -> bool) (l : list nat) : length (filter f l) <= length l.
Proof. induction l as [|a l IH]; simpl; [lia|]. destruct (f a); simpl; lia. Qed.

Lemma filter_length_lt (f : nat -> bool) (l : list nat) x : In x l -> f x = false -> length (filter f l) < length l.
Proof.
  induction l as [|a l IH]; [intros []|]. intros [<-|Hx] Hf; simpl.
  - rewrite Hf. pose proof (filter_len_le f l). lia.
  - specialize (IH Hx Hf). destruct (f a); simpl; lia.
Qed.

Lemma ready_nonempty d todo placed :
  acyclic d -> todo <> [] -> (forall y, In y (items d) -> In y placed \/ In y todo) -> ready d todo placed <> [].
Proof.
  intros [rank A] NE Cov. destruct (min_rank rank todo NE) as [x [Hx Hm]].
  assert (R : In x (ready d todo placed)).
  { unfold ready. apply filter_In. split; auto. apply forallb_forall. intros y Hy.
    apply orb_true_iff. left. apply mem_In.
    destruct (Cov y (deps_of_items _ _ _ Hy)) as [P|T]; auto.
    specialize (Hm y T). specialize (A x y Hy). lia. }
  intro E. rewrite E in R. destruct R.
Qed.

Lemma levels_total d : acyclic d -> forall fuel todo placed,
  (forall y, In y (items d) -> In y placed \/ In y todo) -> length todo <= fuel ->
  exists ls, levels fuel d todo placed = Some ls.
Proof.
  intros A. induction fuel as [|f IH]; intros todo placed Cov Len.
  - destruct todo; [exists []; reflexivity|simpl in Len; lia].
  - destruct todo as [|t0 t]; [exists []; reflexivity|].
    remember (t0 :: t) as todo eqn:E. assert (NE : todo <> []) by (subst; congruence).
    rewrite levels_eq by auto.
    pose proof (ready_nonempty d todo placed A NE Cov) as RN.
    destruct (ready d todo placed) as [|r0 rl] eqn:R; [congruence|]. rewrite <- R in *.
    assert (Hr0 : In r0 (ready d todo placed)) by (rewrite R; left; auto).
    destruct (IH (filter (fun x => negb (mem x (ready d todo placed))) todo) (placed ++ ready d todo placed)) as [ls L].
    + intros y Hy. destruct (Cov y Hy) as [P|T]; [left; apply in_or_app; auto|].
      destruct (mem y (ready d todo placed)) eqn:M.
      * left. apply in_or_app. right. apply mem_In; auto.
      * right. apply filter_In. rewrite M. auto.
    + assert (length (filter (fun x => negb (mem x (ready d todo placed))) todo) < length todo).
      { apply (filter_length_lt _ _ r0); [eapply ready_sub; eauto|].
        apply negb_false_iff. apply mem_In; auto. }
      lia.
    + rewrite L. eexists; reflexivity.
Qed.

Lemma deps_of_filter_out fields d a :
  ~ In a fields -> deps_of (filter (fun p => mem (fst p) fields) d) a = [].
Proof.
  intros Fa. induction d as [|[k v] t IH]; [reflexivity|].
  simpl. destruct (mem k fields) eqn:M; auto.
  rewrite deps_of_cons. destruct (Nat.eqb k a) eqn:E; auto.
  apply Nat.eqb_eq in E. subst k. apply mem_In in M. contradiction.
Qed.

Lemma acyclic_filter fields d : acyclic d -> acyclic (filter (fun p => mem (fst p) fields) d).
Proof.
  intros [rank A]. exists rank. intros x y Hy.
  destruct (in_dec Nat.eq_dec x fields) as [F|F].
  - rewrite deps_of_filter in Hy by auto. auto.
  - rewrite deps_of_filter_out in Hy by auto. destruct Hy.
Qed.

Theorem rand_order_total d fields :
  acyclic d -> filter (fun p => mem (fst p) fields) d <> [] -> exists gs, rand_order d fields = Some gs.
Proof.
  intros A NE. unfold rand_order. cbv zeta.
  pose proof (acyclic_filter fields d A) as A'.
  remember (filter (fun p => mem (fst p) fields) d) as rs eqn:E. clear E.
  destruct rs as [|p l]; [congruence|].
  destruct (levels_total _ A' (S (length (items (p :: l)))) (items (p :: l)) []) as [ls L].
  - intros y Hy. right; auto.
  - lia.
  - rewrite L. eexists; reflexivity.
Qed.

(* and a cyclic declaration is never given an order: a field that (transitively) has to precede itself makes the level
   computation stop - stated for the direct case a before a *)
Example self_cycle_rejected : rand_order (add_order [] [0] [0]) [0; 1] = None.
Proof. vm_compute. reflexivity. Qed.
Example acyclic_example : acyclic (add_order (add_order [] [0] [1]) [1] [2]).
Proof.
  exists (fun x => x). intros x y. vm_compute.
  destruct x as [|[|[|x]]]; simpl; intros H; try tauto; destruct H as [<-|[]]; lia.
Qed.

(* ---------- chains: the transitive closure of the declared pairs inside one rand set is separated too ---------- *)
Inductive reaches (d : deps) (fields : list nat) : nat -> nat -> Prop :=
| reach_step a b : In b (deps_of d a) -> In a fields -> In b fields -> reaches d fields a b
| reach_trans a b c : reaches d fields a b -> reaches d fields b c -> reaches d fields a c.

Theorem rand_order_chain d fields gs a b :
  NoDup fields -> rand_order d fields = Some gs -> reaches d fields a b ->
  exists i j, group_index gs a 0 = Some i /\ group_index gs b 0 = Some j /\ j < i.
Proof.
  intros NF H R. induction R as [a b Hb Fa Fb|a b c R1 IH1 R2 IH2].
  - eapply rand_order_separates; eauto.
  - destruct IH1 as [i [j [Hi [Hj L1]]]]. destruct IH2 as [j' [k [Hj' [Hk L2]]]].
    rewrite Hj in Hj'. inversion Hj'; subst j'. exists i, k. repeat split; auto. lia.
Qed.

(* a declaration that (transitively) orders a field before itself inside a rand set never yields groups *)
Theorem rand_order_cycle_none d fields a :
  NoDup fields -> reaches d fields a a -> rand_order d fields = None.
Proof.
  intros NF R. destruct (rand_order d fields) as [gs|] eqn:H; auto.
  destruct (rand_order_chain _ _ _ _ _ NF H R) as [i [j [Hi [Hj L]]]].
  rewrite Hi in Hj. inversion Hj; subst. lia.
Qed.

Example chain_example :
  reaches (add_order (add_order [] [0] [1]) [1] [2]) [2; 0; 1] 2 0.
Proof.
  apply (reach_trans _ _ 2 1 0); apply reach_step; vm_compute; tauto.
Qed.

(* only fields that a declaration reaching this rand set names (as after-field of the set, or as one of its before-fields) get a
   group: the other random fields of the set are left to the solver in the ordered branch *)
Lemma rand_order_only_named d fields gs x :
  rand_order d fields = Some gs -> In x (concat gs) -> In x (items (filter (fun p => mem (fst p) fields) d)).
Proof.
  intros H Hx. apply rand_order_inv in H. destruct H as [ls [L ->]].
  apply restrict_In in Hx. destruct Hx as [_ Hx]. eapply levels_sub; eauto.
Qed.
