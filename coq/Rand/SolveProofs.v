(* C01 / C02: the hard phase of the solver front-end.  Whatever model the solver returns for the lowered terms, the
   values read back satisfy the hard statements (soundness); with a sound and complete solver, the call fails
   exactly when no candidate assignment exists. *)
From Coq Require Import ZArith List Bool Lia ZifyBool.
From PV Require Import Common.Bits Rand.BV Rand.Expr Rand.Lower Rand.Typing Rand.LowerProofs Rand.Solve.
Import ListNotations.
Open Scope Z_scope.

(* ------------------------------------------------------------------ *)
(* arithmetic of the read-back                                         *)
(* ------------------------------------------------------------------ *)
Lemma in_type_interp sg w x : 1 <= w -> in_type sg w (interp sg w (wrapU w x)) = true.
Proof.
  intros Hw. pose proof (wrapU_range w x ltac:(lia)) as Hr. unfold in_type, interp. destruct sg.
  - pose proof (toS_range w _ Hw Hr). lia.
  - lia.
Qed.

Lemma wrapU_interp sg w x : 1 <= w -> wrapU w (interp sg w (wrapU w x)) = wrapU w x.
Proof.
  intros Hw. pose proof (wrapU_range w x ltac:(lia)) as Hr. unfold interp. destruct sg.
  - apply wrapU_toS; assumption.
  - apply wrapU_small; assumption.
Qed.

Lemma interp_wrapU_in_type sg w v : 1 <= w -> in_type sg w v = true -> interp sg w (wrapU w v) = v.
Proof.
  intros Hw Hv. unfold in_type in Hv. unfold interp. destruct sg.
  - apply toS_wrapU; lia.
  - apply wrapU_small; lia.
Qed.

(* ------------------------------------------------------------------ *)
(* list plumbing                                                       *)
(* ------------------------------------------------------------------ *)
Lemma nth_error_combine {A C : Type} (l1 : list A) (l2 : list C) :
  forall n, nth_error (combine l1 l2) n =
            match nth_error l1 n, nth_error l2 n with Some a, Some b => Some (a, b) | _, _ => None end.
Proof.
  revert l2. induction l1 as [|a l1 IH]; intros [|b l2] [|n]; simpl; auto;
    try (destruct (nth_error l1 n); reflexivity).
Qed.

Lemma nth_error_seq_lt len : forall start n, (n < len)%nat -> nth_error (seq start len) n = Some (start + n)%nat.
Proof.
  induction len as [|len IH]; intros start n Hn; [lia|].
  destruct n as [|n]; simpl.
  - f_equal. lia.
  - rewrite IH by lia. f_equal. lia.
Qed.

Lemma nth_error_seq_inv len start n m : nth_error (seq start len) n = Some m -> m = (start + n)%nat /\ (n < len)%nat.
Proof.
  intros H. assert (Hn : (n < len)%nat).
  { rewrite <- (seq_length len start). apply nth_error_Some. rewrite H. discriminate. }
  rewrite nth_error_seq_lt in H by assumption. inversion H. split; [reflexivity|assumption].
Qed.

Lemma in_hard_terms G B stmts t :
  In t (hard_terms G B stmts) <-> exists s, In s stmts /\ lower_s G B false s = Some t.
Proof.
  unfold hard_terms. rewrite in_flat_map. split.
  - intros (s & Hs & Ht). exists s. split; [assumption|].
    destruct (lower_s G B false s) as [t'|]; [|contradiction]. destruct Ht as [<-|[]]. reflexivity.
  - intros (s & Hs & Ht). exists s. split; [assumption|]. rewrite Ht. left. reflexivity.
Qed.

Lemma in_enum_terms G B enums t :
  In t (enum_terms G B enums) <->
  exists id b vals, nth_error B id = Some b /\ nth_error enums id = Some (Some vals) /\ fb_rand b = true /\
                    enum_domain G id vals = Some t.
Proof.
  unfold enum_terms. rewrite in_flat_map. split.
  - intros ([id [b e]] & Hp & Ht). cbn [fst snd] in Ht.
    destruct e as [vals|]; [|contradiction].
    destruct (fb_rand b) eqn:Er; [|contradiction].
    destruct (enum_domain G id vals) as [t'|] eqn:Ed; [|contradiction].
    destruct Ht as [<-|[]].
    apply In_nth_error in Hp. destruct Hp as (n & Hn).
    rewrite nth_error_combine in Hn.
    destruct (nth_error (seq 0 (length B)) n) as [m|] eqn:Es; [|discriminate].
    rewrite nth_error_combine in Hn.
    destruct (nth_error B n) as [b'|] eqn:EB; [|discriminate].
    destruct (nth_error enums n) as [e'|] eqn:EE; [|discriminate].
    inversion Hn; subst. apply nth_error_seq_inv in Es. destruct Es as [-> _]. simpl.
    exists n, b, vals. repeat split; assumption.
  - intros (id & b & vals & HB & HE & Hr & Hd).
    exists (id, (b, Some vals)). split.
    + apply nth_error_In with (n := id). rewrite nth_error_combine.
      assert (Hid : (id < length B)%nat) by (apply nth_error_Some; rewrite HB; discriminate).
      rewrite nth_error_seq_lt by assumption. rewrite nth_error_combine, HB, HE. reflexivity.
    + cbn [fst snd]. rewrite Hr, Hd. left. reflexivity.
Qed.

(* ------------------------------------------------------------------ *)
(* variables of a term: only `BVar id (fw G id)` of random fields       *)
(* ------------------------------------------------------------------ *)
Fixpoint vars_ok (G : fenv) (B : list fbuild) (t : bvterm) : Prop :=
  match t with
  | BVar id w => w = fw G id /\ exists b, nth_error B id = Some b /\ fb_rand b = true
  | BConst _ _ => True
  | BOp2 _ a b => vars_ok G B a /\ vars_ok G B b
  | BNot a => vars_ok G B a
  | BSext a _ => vars_ok G B a
  | BUext a _ => vars_ok G B a
  | BSlice a _ _ => vars_ok G B a
  | BCond c a b => vars_ok G B c /\ vars_ok G B a /\ vars_ok G B b
  end.

Lemma bv_eval_readback' G B rho sigma t :
  vars_ok G B t -> bv_eval (readback G B rho sigma) t = bv_eval sigma t.
Proof.
  induction t; cbn [vars_ok bv_eval]; intros Hv.
  - destruct Hv as (-> & b & HB & Hr).
    destruct (1 <=? fw G id) eqn:E; [|reflexivity].
    unfold readback. rewrite HB, Hr. rewrite wrapU_interp by lia. reflexivity.
  - reflexivity.
  - destruct Hv as [Ha Hb]. rewrite IHt1, IHt2 by assumption. reflexivity.
  - rewrite IHt by assumption. reflexivity.
  - rewrite IHt by assumption. reflexivity.
  - rewrite IHt by assumption. reflexivity.
  - rewrite IHt by assumption. reflexivity.
  - destruct Hv as (Hc & Ha & Hb). rewrite IHt1, IHt2, IHt3 by assumption. reflexivity.
Qed.

Lemma bv_eval_readback G B rho sigma t :
  length B = length G -> (forall id d, nth_error G id = Some d -> 1 <= f_w d) ->
  vars_ok G B t ->
  bv_eval (readback G B rho sigma) t = bv_eval sigma t.
Proof. intros _ _. apply bv_eval_readback'. Qed.

Lemma bv_true_readback G B rho sigma t :
  vars_ok G B t -> bv_true (readback G B rho sigma) t = bv_true sigma t.
Proof. intros Hv. unfold bv_true. rewrite bv_eval_readback' by assumption. reflexivity. Qed.

(* every lowered term satisfies the side condition *)
Lemma build_field_vars_ok G B id :
  length B = length G -> (id < length G)%nat -> vars_ok G B (build_field G B id).
Proof.
  intros HL Hid. unfold build_field.
  destruct (nth_error B id) as [b|] eqn:EB.
  - destruct (fb_rand b) eqn:Er; cbn [vars_ok]; [|exact I].
    split; [reflexivity|]. exists b. split; assumption.
  - apply nth_error_None in EB. lia.
Qed.

Lemma extend_vars_ok G B n nw W sg : vars_ok G B n -> vars_ok G B (extend n nw W sg).
Proof. intros H. unfold extend. destruct (nw <? W), sg; cbn [vars_ok]; exact H. Qed.

Lemma lower_e_vars_ok G B e : length B = length G -> forall ctx psg,
  wt G ctx psg e = true -> vars_ok G B (lower_e G B ctx e).
Proof.
  intros HL. induction e; intros ctx psg Hwt; simpl in Hwt; bsplit; cbn [lower_e vars_ok].
  - exact I.
  - apply build_field_vars_ok; [assumption|]. apply Nat.ltb_lt. assumption.
  - split; apply extend_vars_ok; [eapply IHe1|eapply IHe2]; eassumption.
  - eapply IHe; eassumption.
  - eapply IHe; eassumption.
  - apply build_field_vars_ok; [assumption|]. apply Nat.ltb_lt. assumption.
Qed.

Lemma lower_cond_vars_ok G B e : length B = length G ->
  wt_cond G e = true -> vars_ok G B (lower_cond G B e).
Proof.
  intros HL Hwt. unfold lower_cond, to_bool.
  pose proof (lower_e_vars_ok G B e HL (-1) false Hwt) as H.
  destruct (built_width G (-1) e =? 1); cbn [vars_ok]; [exact H|]. split; [exact H|exact I].
Qed.

Definition ovars_ok (G : fenv) (B : list fbuild) (o : option bvterm) : Prop :=
  match o with Some t => vars_ok G B t | None => True end.

Lemma sc_step_vars_ok G B acc x : ovars_ok G B acc -> ovars_ok G B x -> ovars_ok G B (sc_step acc x).
Proof.
  intros Ha Hx. destruct acc as [a|]; [|exact Hx]. destruct x as [b|]; cbn [sc_step ovars_ok vars_ok] in *.
  - split; assumption.
  - exact Ha.
Qed.

Section StmtVars.
  Variables (G : fenv) (B : list fbuild) (soft : bool).
  Hypothesis HL : length B = length G.

  Definition stmt_vars_ok (s : stmt) : Prop := wt_s G s = true -> ovars_ok G B (lower_s G B soft s).

  Lemma scope_vars_ok l : Forall stmt_vars_ok l -> forall acc,
    wall_of (wt_s G) l = true -> ovars_ok G B acc -> ovars_ok G B (scope_of (lower_s G B soft) l acc).
  Proof.
    induction 1 as [|x t Hx Ht IH]; intros acc Hwt Hacc.
    - exact Hacc.
    - cbn [wall_of] in Hwt. apply andb_prop in Hwt. destruct Hwt as [Hwx Hwt].
      rewrite scope_of_cons. apply IH; [assumption|]. apply sc_step_vars_ok; [assumption|]. apply Hx. assumption.
  Qed.

  Lemma scope_term_vars_ok l : Forall stmt_vars_ok l -> wall_of (wt_s G) l = true ->
    vars_ok G B (scope_term_of (lower_s G B soft) l).
  Proof.
    intros Hl Hwt. pose proof (scope_vars_ok l Hl None Hwt I) as H. unfold scope_term_of.
    destruct (scope_of (lower_s G B soft) l None); [exact H|exact I].
  Qed.

  Lemma ne_vars_ok x y : okid G x = true -> okid G y = true ->
    vars_ok G B (lower_e G B (-1) (EBin Ne (EField x) (EField y))).
  Proof.
    intros Hx Hy. unfold okid in Hx, Hy. apply (lower_e_vars_ok G B _ HL (-1) false).
    cbn [wt]. rewrite Hx, Hy. cbn [signed_of spec_signed]. rewrite eqb_reflx. reflexivity.
  Qed.

  Lemma ufold_vars_ok x : okid G x = true -> forall t acc,
    forallb (okid G) t = true -> ovars_ok G B acc -> ovars_ok G B (fold_left (ustep G B x) t acc).
  Proof.
    intros Hx. induction t as [|y t IH]; intros acc Hok Hacc; [exact Hacc|].
    cbn [forallb] in Hok. apply andb_prop in Hok. destruct Hok as [Hy Hok].
    cbn [fold_left]. apply IH; [assumption|].
    pose proof (ne_vars_ok x y Hx Hy) as Hn. unfold ustep.
    destruct acc as [r|]; cbn [ovars_ok vars_ok] in *; [split; assumption|assumption].
  Qed.

  Lemma upairs_vars_ok l : forall acc,
    forallb (okid G) l = true -> ovars_ok G B acc -> ovars_ok G B (upairs_of G B l acc).
  Proof.
    induction l as [|x t IH]; intros acc Hok Hacc; [exact Hacc|].
    cbn [forallb] in Hok. apply andb_prop in Hok. destruct Hok as [Hx Hok].
    cbn [upairs_of]. apply IH; [assumption|]. apply (ufold_vars_ok x Hx t acc Hok Hacc).
  Qed.

  Lemma stmt_vars s : stmt_vars_ok s.
  Proof.
    induction s using stmt_ind'; unfold stmt_vars_ok; intros Hwt.
    - cbn [wt_s] in Hwt. cbn [lower_s ovars_ok]. apply lower_cond_vars_ok; assumption.
    - rewrite wt_s_if in Hwt. apply andb_prop in Hwt. destruct Hwt as [Hwt Hwf].
      apply andb_prop in Hwt. destruct Hwt as [Hwc Hwtt].
      rewrite lower_s_if. cbn [ovars_ok].
      pose proof (lower_cond_vars_ok G B c HL Hwc) as Hc.
      pose proof (scope_term_vars_ok t H Hwtt) as Ht.
      destruct f as [fl|]; cbn [vars_ok].
      + pose proof (scope_term_vars_ok fl H0 Hwf) as Hf. repeat split; assumption.
      + split; assumption.
    - rewrite wt_s_implies in Hwt. apply andb_prop in Hwt. destruct Hwt as [Hwc Hwb].
      rewrite lower_s_implies. cbn [ovars_ok vars_ok]. split.
      + apply lower_cond_vars_ok; assumption.
      + apply scope_term_vars_ok; assumption.
    - cbn [wt_s] in Hwt. change (forallb (okid G) ids = true) in Hwt.
      rewrite lower_s_unique. cbn [ovars_ok].
      pose proof (upairs_vars_ok ids None Hwt I) as Hu.
      destruct ids as [|x [|y t]]; [exact I|exact I|].
      destruct (upairs_of G B (x :: y :: t) None); [exact Hu|exact I].
    - cbn [wt_s] in Hwt. cbn [lower_s]. destruct soft; cbn [ovars_ok]; [|exact I].
      apply (lower_e_vars_ok G B e HL (-1) false Hwt).
  Qed.
End StmtVars.

Lemma lower_s_vars_ok G B soft s t :
  length B = length G -> wt_s G s = true -> lower_s G B soft s = Some t -> vars_ok G B t.
Proof.
  intros HL Hwt Hl. pose proof (stmt_vars G B soft HL s Hwt) as H. rewrite Hl in H. exact H.
Qed.

Lemma enum_chain_vars_ok G B id : vars_ok G B (BVar id (fw G id)) -> forall t acc,
  vars_ok G B acc ->
  vars_ok G B (fold_left (fun acc x => BOp2 OOr acc (BOp2 OEq (BVar id (fw G id)) (BConst x (fw G id)))) t acc).
Proof.
  intros Hv. induction t as [|x t IH]; intros acc Hacc; [exact Hacc|].
  cbn [fold_left]. apply IH. cbn [vars_ok] in *. repeat split; try assumption; apply Hv.
Qed.

Lemma enum_domain_vars_ok G B id b vals t :
  nth_error B id = Some b -> fb_rand b = true -> enum_domain G id vals = Some t -> vars_ok G B t.
Proof.
  intros HB Hr Hd. unfold enum_domain in Hd. destruct vals as [|v vs]; [discriminate|]. inversion Hd; subst.
  assert (Hv : vars_ok G B (BVar id (fw G id))).
  { cbn [vars_ok]. split; [reflexivity|]. exists b. split; assumption. }
  apply enum_chain_vars_ok; [assumption|]. cbn [vars_ok] in *. repeat split; try exact I; apply Hv.
Qed.

(* ------------------------------------------------------------------ *)
(* read-back: types, frame, constants                                  *)
(* ------------------------------------------------------------------ *)
Lemma readback_in_type G B rho sigma id d :
  nth_error G id = Some d -> 1 <= f_w d -> in_type (f_sg d) (f_w d) (rho id) = true ->
  in_type (f_sg d) (f_w d) (readback G B rho sigma id) = true.
Proof.
  intros HG Hw Hr. unfold readback.
  destruct (nth_error B id) as [b|]; [|exact Hr].
  destruct (fb_rand b); [|exact Hr].
  unfold fsg, fw. rewrite HG. apply in_type_interp. assumption.
Qed.

Lemma readback_frame G B rho sigma id b :
  nth_error B id = Some b -> fb_rand b = false -> readback G B rho sigma id = rho id.
Proof. intros HB Hr. unfold readback. rewrite HB, Hr. reflexivity. Qed.

Lemma constants_current G B id b :
  nth_error B id = Some b -> fb_rand b = false -> build_field G B id = BConst (fb_val b) (fw G id).
Proof. intros HB Hr. unfold build_field. rewrite HB, Hr. reflexivity. Qed.

Lemma readback_fields_ok G B rho sigma : fields_ok G B rho -> fields_ok G B (readback G B rho sigma).
Proof.
  intros [HL HF]. split; [exact HL|]. intros id d b HG HB.
  destruct (HF id d b HG HB) as (Hw & Ht & Hv). split; [exact Hw|]. split.
  - apply readback_in_type; assumption.
  - intros Hr. rewrite (readback_frame G B rho sigma id b HB Hr). apply Hv. exact Hr.
Qed.

(* ------------------------------------------------------------------ *)
(* C01                                                                 *)
(* ------------------------------------------------------------------ *)
Lemma solve_sound G B enums rho sigma stmts :
  fields_ok G B rho ->
  (forall t, In t (hard_terms G B stmts ++ enum_terms G B enums) -> bv_true sigma t = Some true) ->
  forall s, In s stmts -> wt_s G s = true ->
    holds G (readback G B rho sigma) s <> Some false.
Proof.
  intros HF Hsat s Hs Hwt Hh.
  pose proof (readback_fields_ok G B rho sigma HF) as HF'.
  destruct (lower_s G B false s) as [t|] eqn:El.
  - pose proof (lower_stmt_correct G B _ s false t HF' Hwt Hh El) as H1.
    rewrite bv_true_readback in H1 by (eapply lower_s_vars_ok; [apply HF|eassumption|eassumption]).
    rewrite Hsat in H1; [discriminate|].
    apply in_or_app. left. apply in_hard_terms. exists s. split; assumption.
  - destruct (stmt_spec G B _ HF' s Hwt) as (vb & He & Hb).
    rewrite El in He. cbn [oeval] in He. apply oeval_none_val in He.
    rewrite (Hb _ Hh) in He. discriminate.
Qed.

(* ------------------------------------------------------------------ *)
(* enum domains                                                        *)
(* ------------------------------------------------------------------ *)
Lemma bv_eval_or1 rho a b va vb :
  bv_eval rho a = Some (1, b2z va) -> bv_eval rho b = Some (1, b2z vb) ->
  bv_eval rho (BOp2 OOr a b) = Some (1, b2z (va || vb)).
Proof. intros Ha Hb. simpl. rewrite Ha, Hb. destruct va, vb; reflexivity. Qed.

Lemma eq_term_eval sigma id w x : 1 <= w ->
  bv_eval sigma (BOp2 OEq (BVar id w) (BConst x w)) = Some (1, b2z (wrapU w (sigma id) =? wrapU w x)).
Proof.
  intros Hw. assert (E : (1 <=? w) = true) by lia. cbn [bv_eval]. rewrite E, Z.eqb_refl. reflexivity.
Qed.

Lemma or_chain_eval sigma id w : 1 <= w -> forall t acc a,
  bv_eval sigma acc = Some (1, b2z a) ->
  bv_eval sigma (fold_left (fun acc x => BOp2 OOr acc (BOp2 OEq (BVar id w) (BConst x w))) t acc) =
  Some (1, b2z (a || existsb (fun x => wrapU w (sigma id) =? wrapU w x) t)).
Proof.
  intros Hw. induction t as [|x t IH]; intros acc a Hacc; cbn [fold_left existsb].
  - rewrite orb_false_r. exact Hacc.
  - rewrite (IH _ (a || (wrapU w (sigma id) =? wrapU w x))).
    + rewrite orb_assoc. reflexivity.
    + apply bv_eval_or1; [exact Hacc|]. apply eq_term_eval. exact Hw.
Qed.

Lemma enum_domain_eval G sigma id vals t : 1 <= fw G id ->
  enum_domain G id vals = Some t ->
  bv_true sigma t = Some (existsb (fun x => wrapU (fw G id) (sigma id) =? wrapU (fw G id) x) vals).
Proof.
  intros Hw Hd. unfold enum_domain in Hd. destruct vals as [|v vs]; [discriminate|]. inversion Hd; subst.
  unfold bv_true. rewrite (or_chain_eval sigma id (fw G id) Hw vs _ _ (eq_term_eval sigma id _ v Hw)).
  rewrite b2z_eqb1. reflexivity.
Qed.

(* a value among the declared ones makes the domain term true *)
Lemma enum_domain_true G sigma id vals t : 1 <= fw G id ->
  enum_domain G id vals = Some t -> In (sigma id) vals -> bv_true sigma t = Some true.
Proof.
  intros Hw Hd Hin. rewrite (enum_domain_eval G sigma id vals t Hw Hd). f_equal.
  apply existsb_exists. exists (sigma id). split; [assumption|]. apply Z.eqb_refl.
Qed.

(* STATEMENT REPAIRED: hypothesis `vals <> []` added (an empty value list produces no domain term) *)
Lemma solve_enum_sound G B enums rho sigma stmts id b vals :
  fields_ok G B rho -> length enums = length B ->
  (forall t, In t (hard_terms G B stmts ++ enum_terms G B enums) -> bv_true sigma t = Some true) ->
  nth_error B id = Some b -> fb_rand b = true -> nth_error enums id = Some (Some vals) ->
  fw G id = 32 -> fsg G id = true -> Forall (fun v => in_type true 32 v = true) vals ->
  vals <> [] ->
  In (readback G B rho sigma id) vals.
Proof.
  intros HF _ Hsat HB Hr HE Hw Hsg Hty Hne.
  destruct (enum_domain G id vals) as [t|] eqn:Ed.
  2:{ unfold enum_domain in Ed. destruct vals; [contradiction|discriminate]. }
  assert (Ht : bv_true sigma t = Some true).
  { apply Hsat. apply in_or_app. right. apply in_enum_terms. exists id, b, vals. repeat split; assumption. }
  rewrite (enum_domain_eval G sigma id vals t ltac:(lia) Ed) in Ht. inversion Ht as [Hex].
  apply existsb_exists in Hex. destruct Hex as (x & Hx & Heq). apply Z.eqb_eq in Heq.
  unfold readback. rewrite HB, Hr, Hsg, Hw in *. rewrite Heq.
  rewrite Forall_forall in Hty. rewrite interp_wrapU_in_type; [exact Hx|lia|apply Hty; exact Hx].
Qed.

(* well-formed enum declarations: an enum field is a 32-bit signed field, its values are in type, and it declares
   at least one value *)
Definition enums_wf (G : fenv) (enums : list (option (list Z))) : Prop :=
  forall id vals, nth_error enums id = Some (Some vals) ->
    fw G id = 32 /\ fsg G id = true /\ Forall (fun v => in_type true 32 v = true) vals /\ vals <> [].

Lemma candidate_fields_ok G B enums rho rho' :
  fields_ok G B rho -> candidate G B enums rho rho' -> fields_ok G B rho'.
Proof.
  intros [HL HF] Hc. split; [exact HL|]. intros id d b HG HB.
  destruct (HF id d b HG HB) as (Hw & _ & Hv). destruct (Hc id d b HG HB) as (Ht & Hfr & _).
  split; [exact Hw|]. split; [exact Ht|]. intros Hr. rewrite (Hfr Hr). apply Hv. exact Hr.
Qed.

Section Solver.
  (* the solver: sound (a returned model satisfies every term) and complete (None only if no model exists) *)
  Variable sat : list bvterm -> option (nat -> Z).
  Hypothesis sat_sound : forall ts s, sat ts = Some s -> forall t, In t ts -> bv_true s t = Some true.
  Hypothesis sat_complete : forall ts, sat ts = None -> forall s, exists t, In t ts /\ bv_true s t <> Some true.

  Lemma solve_never_fails_when_sat G B enums rho stmts rho' :
    fields_ok G B rho -> length enums = length B ->
    (forall s, In s stmts -> wt_s G s = true) ->
    candidate G B enums rho rho' ->
    (forall s, In s stmts -> holds G rho' s = Some true) ->
    enums_wf G enums ->
    solve sat G B enums rho stmts <> SolveFailure.
  Proof.
    intros HF _ Hwt Hc Hh _ Hs. unfold solve in Hs.
    destruct (sat (hard_terms G B stmts ++ enum_terms G B enums)) as [sigma|] eqn:Es; [discriminate|].
    destruct (sat_complete _ Es rho') as (t & Hin & Hnt). apply Hnt. clear Hnt.
    pose proof (candidate_fields_ok G B enums rho rho' HF Hc) as HF'.
    apply in_app_or in Hin. destruct Hin as [Hin|Hin].
    - apply in_hard_terms in Hin. destruct Hin as (s & Hs' & Hl).
      apply (lower_stmt_correct G B rho' s true t HF' (Hwt s Hs') (Hh s Hs') Hl).
    - apply in_enum_terms in Hin. destruct Hin as (id & b & vals & HB & HE & Hr & Hd).
      destruct HF as [HL HFi].
      destruct (nth_error G id) as [d|] eqn:HG.
      2:{ apply nth_error_None in HG. assert ((id < length B)%nat) by (apply nth_error_Some; rewrite HB; discriminate).
          lia. }
      destruct (HFi id d b HG HB) as (Hw & _ & _). destruct (Hc id d b HG HB) as (_ & _ & Hen).
      apply (enum_domain_true G rho' id vals t).
      + unfold fw. rewrite HG. exact Hw.
      + exact Hd.
      + apply Hen; assumption.
  Qed.

  Lemma solve_ok_is_solution G B enums rho stmts rho' :
    fields_ok G B rho -> length enums = length B -> enums_wf G enums ->
    solve sat G B enums rho stmts = Ok rho' ->
    candidate G B enums rho rho' /\ (forall s, In s stmts -> wt_s G s = true -> holds G rho' s <> Some false).
  Proof.
    intros HF HLe Hwf Hs. unfold solve in Hs.
    destruct (sat (hard_terms G B stmts ++ enum_terms G B enums)) as [sigma|] eqn:Es; [|discriminate].
    inversion Hs; subst rho'. clear Hs.
    pose proof (sat_sound _ _ Es) as Hsat. split.
    - intros id d b HG HB. destruct HF as [HL HFi]. destruct (HFi id d b HG HB) as (Hw & Ht & _).
      split; [apply readback_in_type; assumption|]. split.
      + intros Hr. apply (readback_frame G B rho sigma id b HB Hr).
      + intros Hr vals HE. destruct (Hwf id vals HE) as (Hw32 & Hsg & Hty & Hne).
        apply (solve_enum_sound G B enums rho sigma stmts id b vals); try assumption. split; assumption.
    - intros s Hin Hwt. apply (solve_sound G B enums rho sigma stmts HF Hsat s Hin Hwt).
  Qed.
End Solver.

(* the original statement of solve_enum_sound (without `vals <> []`) is refutable: a random enum field that
   declares no value yields no domain term, so every premise holds while `In _ []` is false *)
Lemma solve_enum_sound_needs_nonempty :
  ~ (forall G B enums rho sigma stmts id b vals,
      fields_ok G B rho -> length enums = length B ->
      (forall t, In t (hard_terms G B stmts ++ enum_terms G B enums) -> bv_true sigma t = Some true) ->
      nth_error B id = Some b -> fb_rand b = true -> nth_error enums id = Some (Some vals) ->
      fw G id = 32 -> fsg G id = true -> Forall (fun v => in_type true 32 v = true) vals ->
      In (readback G B rho sigma id) vals).
Proof.
  intros H.
  apply (H [mkF 32 true] [mkFB true 0] [Some []] (fun _ => 0) (fun _ => 0) [] 0%nat (mkFB true 0) []);
    try reflexivity.
  - split; [reflexivity|]. intros [|[|id]] d b HG HB; simpl in HG, HB; try discriminate.
    inversion HG; inversion HB; subst; simpl. repeat split; try lia; discriminate.
  - intros t [].
  - constructor.
Qed.
