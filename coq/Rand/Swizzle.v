(* Model of solvegroup_swizzler_partsel.py: create_rand_domain_constraint / _build_swizzle_constraints (how a random bit
   pattern drawn from a field's inferred range is imposed slice by slice), and of the range-trimming primitives of
   bounds inference (VariableBoundMaxPropagator, VariableBoundMinPropagator, the intersection step of
   VariableBoundInPropagator).  Executable definitions only. *)
From Coq Require Import ZArith List Bool.
From PV Require Import Common.Bits Rand.BV.
Import ListNotations.
Open Scope Z_scope.

Definition bitlen (m : Z) : Z := if m <=? 0 then 0 else Z.log2 m + 1.
(* number of low bits of the field that the pattern pins: magnitude bits of the range, plus the sign bit when the
   range has negative values and the field is wide enough (repaired code) *)
Definition d_width (lo hi w : Z) : Z :=
  let d := bitlen (Z.max (Z.abs lo) (Z.abs hi)) in
  if (lo <? 0) && (d <? w) then d + 1 else d.

Definition zseq (n : Z) : list Z := map Z.of_nat (seq 0 (Z.to_nat n)).
(* the slices [(hi, lo)] the pattern is cut into: one per bit up to 6 bits, else 6 intervals, the last taking the rest *)
Definition intervals (d : Z) : list (Z * Z) :=
  if 6 <? d then
    let iw := d / 6 in
    map (fun i => if i =? 5 then (d - 1, i * iw) else ((i + 1) * iw - 1, i * iw)) (zseq 6)
  else map (fun i => (i, i)) (zseq d).
(* (bit_pattern >> low) & ((1 << width) - 1) on Python integers *)
Definition slice_val (pat hi lo : Z) : Z := (pat / 2 ^ lo) mod 2 ^ (hi - lo + 1).
(* the terms imposed on field id (width w) for pattern pat drawn from the range [lo, hi] *)
Definition swizzle_terms (id : nat) (w lo hi pat : Z) : list bvterm :=
  map (fun p : Z * Z => BOp2 OEq (BSlice (BVar id w) (fst p) (snd p)) (BConst (slice_val pat (fst p) (snd p)) (fst p - snd p + 1)))
      (intervals (d_width lo hi w)).

(* ---- range trimming (domains are lists of [lo, hi], ascending) ---- *)
Definition dom := list (Z * Z).
Definition dom_in (d : dom) (v : Z) : bool := existsb (fun r => (fst r <=? v) && (v <=? snd r)) d.
(* VariableBoundMaxPropagator.propagate: keep the ranges up to the last one starting at or below max_v (at least the
   first), cut that one at max_v *)
Fixpoint last_le (d : dom) (max_v : Z) (i best : nat) : nat :=
  match d with
  | [] => best
  | r :: t => last_le t max_v (S i) (if fst r <=? max_v then i else best)
  end.
Definition propagate_max (d : dom) (max_v : Z) : dom :=
  match d with
  | [] => []
  | _ =>
    let i := last_le d max_v 0 0 in
    let kept := firstn (S i) d in
    match rev kept with
    | [] => []
    | r :: before => rev ((fst r, Z.min (snd r) max_v) :: before)
    end
  end.
(* VariableBoundMinPropagator.propagate (as coded: when leading ranges are dropped the new first range is not cut) *)
Fixpoint last_lt_idx (d : dom) (min_v : Z) (i : nat) (best : option nat) : option nat :=
  match d with
  | [] => best
  | r :: t => last_lt_idx t min_v (S i) (if fst r <? min_v then Some i else best)
  end.
Definition propagate_min (d : dom) (min_v : Z) : dom :=
  match last_lt_idx d min_v 0 None with
  | None => d                                                  (* every range starts at or above min_v *)
  | Some O => match d with r :: t => (Z.max (fst r) min_v, snd r) :: t | [] => [] end
  | Some i => skipn i d
  end.
(* intersection of two ascending range lists (VariableBoundInPropagator's main loop) *)
Fixpoint isect (fuel : nat) (a b : dom) : dom :=
  match fuel with
  | O => []
  | S f =>
    match a, b with
    | ra :: ta, rb :: tb =>
      let l := Z.max (fst ra) (fst rb) in
      let r := Z.min (snd ra) (snd rb) in
      let rest := if snd ra <? snd rb then isect f ta b else isect f a tb in
      if l <=? r then (l, r) :: rest else rest
    | _, _ => []
    end
  end.
Definition intersect_dom (a b : dom) : dom := isect (length a + length b) a b.
