(* Correctness of the lowering of constraint expressions / statements to bit-vector terms:
   on well-formed input the lowered term evaluates to exactly the integer-level meaning. *)
From Coq Require Import ZArith List Bool Lia ZifyBool.
From PV Require Import Common.Bits Rand.BV Rand.Expr Rand.Lower Rand.Typing.
Import ListNotations.
Open Scope Z_scope.

(* ------------------------------------------------------------------ *)
(* powers of two                                                       *)
(* ------------------------------------------------------------------ *)
Lemma pow2_pos w : 0 <= w -> 0 < 2 ^ w.
Proof. intros; apply Z.pow_pos_nonneg; lia. Qed.

Lemma pow2_half w : 1 <= w -> 2 ^ w = 2 * 2 ^ (w - 1).
Proof.
  intros. replace w with (Z.succ (w - 1)) at 1 by lia.
  rewrite Z.pow_succ_r; lia.
Qed.

Lemma pow2_mono w W : 0 <= w <= W -> 2 ^ w <= 2 ^ W.
Proof. intros; apply Z.pow_le_mono_r; lia. Qed.

Lemma div_range a b M : 0 <= a < M -> 0 < b -> 0 <= a / b < M.
Proof.
  intros Ha Hb. split.
  - apply Z.div_pos; lia.
  - apply Z.le_lt_trans with a; [|lia].
    apply Z.div_le_upper_bound; nia.
Qed.

(* ------------------------------------------------------------------ *)
(* bit-vector facts                                                    *)
(* ------------------------------------------------------------------ *)
Lemma wrapU_range w x : 0 <= w -> 0 <= wrapU w x < 2 ^ w.
Proof. intros; unfold wrapU; apply Z.mod_pos_bound, pow2_pos; lia. Qed.

Lemma wrapU_small w u : 0 <= u < 2 ^ w -> wrapU w u = u.
Proof. intros; unfold wrapU; apply Z.mod_small; lia. Qed.

Lemma toS_range w u : 1 <= w -> 0 <= u < 2 ^ w -> - 2 ^ (w - 1) <= toS w u < 2 ^ (w - 1).
Proof.
  intros Hw Hu. pose proof (pow2_half w Hw). pose proof (pow2_pos (w - 1) ltac:(lia)).
  unfold toS. destruct (u <? 2 ^ (w - 1)) eqn:E; lia.
Qed.

Lemma wrapU_toS w u : 1 <= w -> 0 <= u < 2 ^ w -> wrapU w (toS w u) = u.
Proof.
  intros Hw Hu. unfold toS. destruct (u <? 2 ^ (w - 1)) eqn:E.
  - apply wrapU_small; lia.
  - unfold wrapU. replace (u - 2 ^ w) with (u + (-1) * 2 ^ w) by ring.
    rewrite Z_mod_plus_full. apply Z.mod_small; lia.
Qed.

Lemma toS_wrapU w v : 1 <= w -> - 2 ^ (w - 1) <= v < 2 ^ (w - 1) -> toS w (wrapU w v) = v.
Proof.
  intros Hw Hv. pose proof (pow2_half w Hw). pose proof (pow2_pos (w - 1) ltac:(lia)).
  destruct (Z_lt_le_dec v 0).
  - assert (E : wrapU w v = v + 2 ^ w).
    { unfold wrapU. symmetry. apply (Z.mod_unique v (2 ^ w) (-1)); lia. }
    rewrite E. unfold toS. destruct (v + 2 ^ w <? 2 ^ (w - 1)) eqn:E1; lia.
  - rewrite wrapU_small by lia. unfold toS. destruct (v <? 2 ^ (w - 1)) eqn:E1; lia.
Qed.

Lemma toS_eqb w a b : 1 <= w -> 0 <= a < 2 ^ w -> 0 <= b < 2 ^ w -> (toS w a =? toS w b) = (a =? b).
Proof.
  intros Hw Ha Hb. pose proof (pow2_half w Hw). pose proof (pow2_pos (w - 1) ltac:(lia)).
  unfold toS. destruct (a <? 2 ^ (w - 1)) eqn:E1; destruct (b <? 2 ^ (w - 1)) eqn:E2; lia.
Qed.

(* sign / zero extension of a pattern = conversion of its integer reading *)
Lemma sext_conv w W u : 1 <= w -> w <= W -> 0 <= u < 2 ^ w -> wrapU W (toS w u) = conv true w W u.
Proof. reflexivity. Qed.

Lemma uext_conv w W u : 1 <= w -> w <= W -> 0 <= u < 2 ^ w -> u = conv false w W u.
Proof.
  intros Hw HW Hu. unfold conv, interp. symmetry. apply wrapU_small.
  pose proof (pow2_mono w W ltac:(lia)). lia.
Qed.

Lemma conv_same sg w u : 1 <= w -> 0 <= u < 2 ^ w -> conv sg w w u = u.
Proof.
  intros Hw Hu. unfold conv, interp. destruct sg.
  - apply wrapU_toS; assumption.
  - apply wrapU_small; assumption.
Qed.

Lemma conv_range sg w W u : 0 <= W -> 0 <= conv sg w W u < 2 ^ W.
Proof. intros; unfold conv; apply wrapU_range; assumption. Qed.

Lemma negw_pos w a : 0 < a < 2 ^ w -> negw w a = 2 ^ w - a.
Proof.
  intros. unfold negw, wrapU. symmetry. apply (Z.mod_unique (- a) (2 ^ w) (-1)); lia.
Qed.

(* SMT-LIB signed division / remainder agree with truncating division on the signed readings *)
Lemma sdiv_quot w a b : 1 <= w -> 0 <= a < 2 ^ w -> 0 <= b < 2 ^ w -> b <> 0 ->
  sdiv w a b = wrapU w (Z.quot (toS w a) (toS w b)).
Proof.
  intros Hw Ha Hb Hb0.
  pose proof (pow2_half w Hw) as Hh. pose proof (pow2_pos (w - 1) ltac:(lia)) as Hp.
  unfold sdiv, msb, toS.
  destruct (2 ^ (w - 1) <=? a) eqn:Ea; destruct (2 ^ (w - 1) <=? b) eqn:Eb;
    destruct (a <? 2 ^ (w - 1)) eqn:Ea'; try lia;
    destruct (b <? 2 ^ (w - 1)) eqn:Eb'; try lia.
  - rewrite !negw_pos by lia. unfold udiv.
    destruct (2 ^ w - b =? 0) eqn:E; [lia|].
    replace (a - 2 ^ w) with (- (2 ^ w - a)) by ring.
    replace (b - 2 ^ w) with (- (2 ^ w - b)) by ring.
    rewrite Z.quot_opp_opp by lia. rewrite Z.quot_div_nonneg by lia.
    symmetry. apply wrapU_small. apply div_range; lia.
  - rewrite (negw_pos w a) by lia. unfold udiv.
    destruct (b =? 0) eqn:E; [lia|].
    replace (a - 2 ^ w) with (- (2 ^ w - a)) by ring.
    rewrite Z.quot_opp_l by lia. rewrite Z.quot_div_nonneg by lia.
    reflexivity.
  - rewrite (negw_pos w b) by lia. unfold udiv.
    destruct (2 ^ w - b =? 0) eqn:E; [lia|].
    replace (b - 2 ^ w) with (- (2 ^ w - b)) by ring.
    rewrite Z.quot_opp_r by lia. rewrite Z.quot_div_nonneg by lia.
    reflexivity.
  - unfold udiv. destruct (b =? 0) eqn:E; [lia|].
    rewrite Z.quot_div_nonneg by lia.
    symmetry. apply wrapU_small. apply div_range; lia.
Qed.

Lemma srem_rem w a b : 1 <= w -> 0 <= a < 2 ^ w -> 0 <= b < 2 ^ w -> b <> 0 ->
  srem w a b = wrapU w (Z.rem (toS w a) (toS w b)).
Proof.
  intros Hw Ha Hb Hb0.
  pose proof (pow2_half w Hw) as Hh. pose proof (pow2_pos (w - 1) ltac:(lia)) as Hp.
  unfold srem, msb, toS.
  destruct (2 ^ (w - 1) <=? a) eqn:Ea; destruct (2 ^ (w - 1) <=? b) eqn:Eb;
    destruct (a <? 2 ^ (w - 1)) eqn:Ea'; try lia;
    destruct (b <? 2 ^ (w - 1)) eqn:Eb'; try lia.
  - rewrite (negw_pos w a), (negw_pos w b) by lia. unfold urem.
    destruct (2 ^ w - b =? 0) eqn:E; [lia|].
    replace (a - 2 ^ w) with (- (2 ^ w - a)) by ring.
    replace (b - 2 ^ w) with (- (2 ^ w - b)) by ring.
    rewrite Z.rem_opp_opp by lia. rewrite Z.rem_mod_nonneg by lia.
    reflexivity.
  - rewrite (negw_pos w a) by lia. unfold urem.
    destruct (b =? 0) eqn:E; [lia|].
    replace (a - 2 ^ w) with (- (2 ^ w - a)) by ring.
    rewrite Z.rem_opp_l by lia. rewrite Z.rem_mod_nonneg by lia.
    reflexivity.
  - rewrite (negw_pos w b) by lia. unfold urem.
    destruct (2 ^ w - b =? 0) eqn:E; [lia|].
    replace (b - 2 ^ w) with (- (2 ^ w - b)) by ring.
    rewrite Z.rem_opp_r by lia. rewrite Z.rem_mod_nonneg by lia.
    symmetry. apply wrapU_small.
    pose proof (Z.mod_pos_bound a (2 ^ w - b) ltac:(lia)). lia.
  - unfold urem. destruct (b =? 0) eqn:E; [lia|].
    rewrite Z.rem_mod_nonneg by lia.
    symmetry. apply wrapU_small.
    pose proof (Z.mod_pos_bound a b ltac:(lia)). lia.
Qed.

(* ------------------------------------------------------------------ *)
(* ranges of operator results                                          *)
(* ------------------------------------------------------------------ *)
Lemma range_mod w a : 0 <= w -> (0 <= a < 2 ^ w <-> a mod 2 ^ w = a).
Proof.
  intros Hw. split.
  - intros; apply Z.mod_small; assumption.
  - intros H; rewrite <- H. apply Z.mod_pos_bound, pow2_pos; assumption.
Qed.

Lemma bitop_range (f : Z -> Z -> Z) (g : bool -> bool -> bool) w a b :
  (forall x y n, Z.testbit (f x y) n = g (Z.testbit x n) (Z.testbit y n)) -> g false false = false ->
  0 <= w -> 0 <= a < 2 ^ w -> 0 <= b < 2 ^ w -> 0 <= f a b < 2 ^ w.
Proof.
  intros Hf Hg Hw Ha Hb. apply range_mod; [lia|].
  apply range_mod in Ha; [|lia]. apply range_mod in Hb; [|lia].
  apply Z.bits_inj'. intros n Hn. destruct (Z_lt_le_dec n w).
  - apply Z.mod_pow2_bits_low; lia.
  - rewrite Z.mod_pow2_bits_high by lia. rewrite Hf.
    assert (Ea : Z.testbit a n = false) by (rewrite <- Ha; apply Z.mod_pow2_bits_high; lia).
    assert (Eb : Z.testbit b n = false) by (rewrite <- Hb; apply Z.mod_pow2_bits_high; lia).
    rewrite Ea, Eb. symmetry; assumption.
Qed.

Lemma land_range w a b : 0 <= w -> 0 <= a < 2 ^ w -> 0 <= b < 2 ^ w -> 0 <= Z.land a b < 2 ^ w.
Proof. apply (bitop_range Z.land andb); [apply Z.land_spec|reflexivity]. Qed.
Lemma lor_range w a b : 0 <= w -> 0 <= a < 2 ^ w -> 0 <= b < 2 ^ w -> 0 <= Z.lor a b < 2 ^ w.
Proof. apply (bitop_range Z.lor orb); [apply Z.lor_spec|reflexivity]. Qed.
Lemma lxor_range w a b : 0 <= w -> 0 <= a < 2 ^ w -> 0 <= b < 2 ^ w -> 0 <= Z.lxor a b < 2 ^ w.
Proof. apply (bitop_range Z.lxor xorb); [apply Z.lxor_spec|reflexivity]. Qed.

Lemma b2z_range x : 0 <= b2z x < 2 ^ 1.
Proof. change (2 ^ 1) with 2. destruct x; simpl; lia. Qed.

Lemma udiv_range w a b : 0 <= w -> 0 <= a < 2 ^ w -> 0 <= b -> 0 <= udiv w a b < 2 ^ w.
Proof.
  intros Hw Ha Hb. pose proof (pow2_pos w Hw). unfold udiv. destruct (b =? 0) eqn:E.
  - lia.
  - apply div_range; lia.
Qed.

Lemma urem_range w a b : 0 <= w -> 0 <= a < 2 ^ w -> 0 <= b < 2 ^ w -> 0 <= urem w a b < 2 ^ w.
Proof.
  intros Hw Ha Hb. unfold urem. destruct (b =? 0) eqn:E.
  - lia.
  - pose proof (Z.mod_pos_bound a b ltac:(lia)). lia.
Qed.

Lemma negw_range w a : 0 <= w -> 0 <= negw w a < 2 ^ w.
Proof. intros; unfold negw; apply wrapU_range; assumption. Qed.

Lemma op2_eval_range o w a b : 1 <= w -> 0 <= a < 2 ^ w -> 0 <= b < 2 ^ w ->
  1 <= fst (op2_eval o w a b) /\ 0 <= snd (op2_eval o w a b) < 2 ^ fst (op2_eval o w a b).
Proof.
  intros Hw Ha Hb. assert (Hw0 : 0 <= w) by lia. pose proof (pow2_pos w Hw0) as Hp.
  destruct o; cbn [op2_eval fst snd];
    try (split; [lia | apply b2z_range]);
    try (split; [lia | apply wrapU_range; lia]).
  - split; [lia | apply udiv_range; lia].
  - split; [lia | apply urem_range; lia].
  - split; [lia|]. unfold sdiv.
    pose proof (negw_range w a Hw0). pose proof (negw_range w b Hw0).
    destruct (msb w a), (msb w b);
      try apply negw_range; try apply udiv_range; lia.
  - split; [lia|]. unfold srem.
    pose proof (negw_range w a Hw0). pose proof (negw_range w b Hw0).
    destruct (msb w a), (msb w b);
      try apply negw_range; try apply urem_range; lia.
  - split; [lia | apply land_range; lia].
  - split; [lia | apply lor_range; lia].
  - split; [lia | apply lxor_range; lia].
  - split; [lia|]. destruct (w <=? b); [lia | apply wrapU_range; lia].
  - split; [lia|]. destruct (w <=? b); [lia|].
    apply div_range; [lia | apply pow2_pos; lia].
Qed.

Lemma bv_eval_range rho t : forall w v, bv_eval rho t = Some (w, v) -> 1 <= w /\ 0 <= v < 2 ^ w.
Proof.
  induction t; intros w0 v0 H; simpl in H.
  - destruct (1 <=? w) eqn:E; [|discriminate]. inversion H; subst.
    split; [lia | apply wrapU_range; lia].
  - destruct (1 <=? w) eqn:E; [|discriminate]. inversion H; subst.
    split; [lia | apply wrapU_range; lia].
  - destruct (bv_eval rho t1) as [[wa va]|]; [|discriminate].
    destruct (bv_eval rho t2) as [[wb vb]|]; [|discriminate].
    destruct (wa =? wb) eqn:E; [|discriminate]. apply Z.eqb_eq in E; subst wb.
    destruct (IHt1 _ _ eq_refl) as [Hwa Hva]. destruct (IHt2 _ _ eq_refl) as [_ Hvb].
    assert (Hr : (w0, v0) = op2_eval o wa va vb).
    { destruct o; try congruence. destruct (wa =? 1); congruence. }
    pose proof (op2_eval_range o wa va vb Hwa Hva Hvb) as Hrange.
    rewrite <- Hr in Hrange. exact Hrange.
  - destruct (bv_eval rho t) as [[wa va]|]; [|discriminate]. inversion H; subst.
    destruct (IHt _ _ eq_refl). split; lia.
  - destruct (bv_eval rho t) as [[wa va]|]; [|discriminate].
    destruct (0 <=? k) eqn:E; [|discriminate]. inversion H; subst.
    destruct (IHt _ _ eq_refl). split; [lia | apply wrapU_range; lia].
  - destruct (bv_eval rho t) as [[wa va]|]; [|discriminate].
    destruct (0 <=? k) eqn:E; [|discriminate]. inversion H; subst.
    destruct (IHt _ _ eq_refl). split; [lia|].
    pose proof (pow2_mono wa (wa + k) ltac:(lia)). lia.
  - destruct (bv_eval rho t) as [[wa va]|]; [|discriminate].
    destruct ((0 <=? lo) && (lo <=? hi) && (hi <? wa)) eqn:E; [|discriminate]. inversion H; subst.
    split; [lia|]. apply Z.mod_pos_bound, pow2_pos; lia.
  - destruct (bv_eval rho t1) as [[wc vc]|]; [|discriminate].
    destruct (bv_eval rho t2) as [[wa va]|]; [|discriminate].
    destruct (bv_eval rho t3) as [[wb vb]|]; [|discriminate].
    destruct ((wc =? 1) && (wa =? wb)) eqn:E; [|discriminate]. inversion H; subst.
    destruct (IHt2 _ _ eq_refl). destruct (IHt3 _ _ eq_refl).
    assert (w0 = wb) by lia. subst wb.
    split; [lia|]. destruct (vc =? 1); lia.
Qed.

Lemma arith_eval_range o W sg a b v : 1 <= W -> 0 <= a < 2 ^ W -> 0 <= b < 2 ^ W ->
  arith_eval o W sg a b = Some v -> 0 <= v < 2 ^ W.
Proof.
  intros HW Ha Hb H. assert (HW0 : 0 <= W) by lia.
  destruct o; simpl in H; try discriminate;
    try (inversion H; subst; apply wrapU_range; lia).
  - destruct (b =? 0) eqn:E; [discriminate|]. inversion H; subst.
    destruct sg; [apply wrapU_range; lia | apply div_range; lia].
  - destruct (b =? 0) eqn:E; [discriminate|]. inversion H; subst.
    destruct sg; [apply wrapU_range; lia|].
    pose proof (Z.mod_pos_bound a b ltac:(lia)). lia.
  - inversion H; subst. apply land_range; lia.
  - inversion H; subst. apply lor_range; lia.
  - inversion H; subst. destruct (W <=? b); [lia | apply wrapU_range; lia].
  - inversion H; subst. destruct (W <=? b); [lia|].
    apply div_range; [lia | apply pow2_pos; lia].
  - inversion H; subst. apply lxor_range; lia.
Qed.

(* ------------------------------------------------------------------ *)
(* widths of well-formed expressions                                   *)
(* ------------------------------------------------------------------ *)
Ltac bsplit :=
  repeat match goal with
         | H : _ && _ = true |- _ => apply andb_prop in H; destruct H
         end.

Lemma wt_width_pos G e : forall ctx psg, wt G ctx psg e = true -> 1 <= width_of G e.
Proof.
  induction e; intros ctx psg H; simpl in H; bsplit; simpl.
  - lia.
  - lia.
  - destruct (is_rel o); [lia|].
    match goal with H1 : wt _ _ _ e1 = true |- _ => apply IHe1 in H1 end. lia.
  - eapply IHe; eassumption.
  - lia.
  - lia.
Qed.

Lemma built_le G e : forall ctx psg, wt G ctx psg e = true ->
  built_width G ctx e <= Z.max ctx (width_of G e).
Proof.
  induction e; intros ctx psg H; simpl in H; bsplit; simpl.
  - lia.
  - lia.
  - destruct (is_rel o); [|lia].
    match goal with H1 : wt _ _ _ e1 = true |- _ => apply wt_width_pos in H1 end. lia.
  - lia.
  - lia.
  - lia.
Qed.

Lemma if_bit_range (c : bool) : 0 <= (if c then 1 else 0) < 2 ^ 1.
Proof. change (2 ^ 1) with 2. destruct c; lia. Qed.

(* the meaning has the width the builder produces and is a pattern of that width *)
Lemma sem_width G rho ctx psg e w v :
  wt G ctx psg e = true -> sem G rho ctx psg e = Some (w, v) ->
  w = built_width G ctx e /\ 1 <= w /\ 0 <= v < 2 ^ w.
Proof.
  revert ctx psg w v.
  induction e; intros ctx psg w0 v0 Hwt Hsem; simpl in Hwt; bsplit; simpl in Hsem.
  - (* ELit *)
    inversion Hsem; subst. simpl. split; [reflexivity|]. split; [lia|].
    destruct (w <? Z.max ctx w) eqn:E.
    + apply conv_range; lia.
    + replace (Z.max ctx w) with w by lia. apply wrapU_range; lia.
  - (* EField *)
    inversion Hsem; subst. simpl. split; [reflexivity|]. split; [lia|]. apply wrapU_range; lia.
  - (* EBin *)
    set (W := Z.max ctx (Z.max (width_of G e1) (width_of G e2))) in *.
    set (sgs := spec_signed G e1 && spec_signed G e2) in *.
    destruct (sem G rho W sgs e1) as [[wl a]|]; [|discriminate].
    destruct (sem G rho W sgs e2) as [[wr b]|]; [|discriminate].
    assert (HW : 1 <= W).
    { match goal with H1 : wt _ _ _ e1 = true |- _ => apply wt_width_pos in H1 end. lia. }
    repeat match goal with H : _ = true |- _ => clear H end.
    simpl. destruct (is_rel o) eqn:Hrel.
    + inversion Hsem; subst. split; [reflexivity|]. split; [lia|]. apply if_bit_range.
    + destruct (arith_eval o W sgs (conv sgs wl W a) (conv sgs wr W b)) eqn:Ha; [|discriminate].
      inversion Hsem; subst. split; [reflexivity|]. split; [lia|].
      eapply arith_eval_range; [| | |exact Ha]; try lia; apply conv_range; lia.
  - (* ENot *)
    set (W := Z.max ctx (width_of G e)) in *.
    destruct (sem G rho W (spec_signed G e) e) as [[we a]|]; [|discriminate].
    inversion Hsem; subst. simpl. fold W.
    assert (HW : 1 <= W).
    { match goal with H1 : wt _ _ _ e = true |- _ => apply wt_width_pos in H1 end. lia. }
    split; [lia|]. split; [lia|].
    pose proof (conv_range (spec_signed G e) we W a ltac:(lia)). lia.
  - (* EReset *)
    destruct (sem G rho (-1) false e) as [[w1 v1]|]; [|discriminate].
    inversion Hsem; subst. simpl. split; [lia|]. split; [lia|].
    change (2 ^ 1) with 2. destruct (v1 =? 0); lia.
  - (* EPart *)
    destruct ((0 <=? lo) && (lo <=? hi) && (hi <? fw G id)) eqn:E; [|discriminate].
    inversion Hsem; subst. simpl. split; [reflexivity|]. split; [lia|].
    apply Z.mod_pos_bound, pow2_pos; lia.
Qed.

(* ------------------------------------------------------------------ *)
(* building blocks of the lowering                                     *)
(* ------------------------------------------------------------------ *)
Lemma build_field_eval G B rho id :
  fields_ok G B rho -> (id < length G)%nat -> 1 <= fw G id ->
  bv_eval rho (build_field G B id) = Some (fw G id, wrapU (fw G id) (rho id)).
Proof.
  intros [HL HF] Hid Hw. unfold build_field.
  assert (E1 : (1 <=? fw G id) = true) by lia.
  destruct (nth_error B id) as [fb|] eqn:EB.
  - destruct (fb_rand fb) eqn:Er.
    + simpl. rewrite E1. reflexivity.
    + simpl. rewrite E1.
      destruct (nth_error G id) as [d|] eqn:EG.
      * destruct (HF id d fb EG EB) as (_ & _ & Hv). rewrite (Hv Er). reflexivity.
      * apply nth_error_None in EG. lia.
  - simpl. rewrite E1. reflexivity.
Qed.

Lemma extend_eval rho n nw W sg a :
  bv_eval rho n = Some (nw, a) -> 1 <= nw -> 0 <= a < 2 ^ nw -> nw <= W ->
  bv_eval rho (extend n nw W sg) = Some (W, conv sg nw W a).
Proof.
  intros He Hnw Ha HW. unfold extend. destruct (nw <? W) eqn:E.
  - assert (Ek : (0 <=? W - nw) = true) by lia.
    destruct sg; simpl; rewrite He, Ek; replace (nw + (W - nw)) with W by lia.
    + reflexivity.
    + rewrite <- (uext_conv nw W a) by lia. reflexivity.
  - assert (nw = W) by lia. subst nw. rewrite conv_same by lia. exact He.
Qed.

Lemma bv_eval_lower_op rho o sg x y :
  bv_eval rho (BOp2 (lower_op o sg) x y) =
  match bv_eval rho x, bv_eval rho y with
  | Some (wa, va), Some (wb, vb) =>
    if wa =? wb then Some (op2_eval (lower_op o sg) wa va vb) else None
  | _, _ => None
  end.
Proof. destruct o, sg; reflexivity. Qed.

Lemma lower_op_width o sg W a b :
  fst (op2_eval (lower_op o sg) W a b) = if is_rel o then 1 else W.
Proof. destruct o, sg; reflexivity. Qed.

Lemma conv_flag (sgc sgs : bool) w W a :
  1 <= w -> 0 <= a < 2 ^ w -> sgc = sgs \/ w = W -> conv sgs w W a = conv sgc w W a.
Proof.
  intros Hw Ha [->| ->]; [reflexivity|]. rewrite !conv_same by assumption. reflexivity.
Qed.

(* the operator chosen by the code computes the specification's operator *)
Lemma op_correct o (sgc sgs : bool) W a b w' v' :
  1 <= W -> 0 <= a < 2 ^ W -> 0 <= b < 2 ^ W ->
  sgc = sgs \/ sign_sensitive o = false ->
  (if is_rel o
   then Some (1, if (if sgs then rel_eval o (toS W a) (toS W b) else rel_eval o a b) then 1 else 0)
   else match arith_eval o W sgs a b with Some v => Some (W, v) | None => None end) = Some (w', v') ->
  op2_eval (lower_op o sgc) W a b = (w', v').
Proof.
  intros HW Ha Hb Hs H.
  pose proof (toS_eqb W a b HW Ha Hb) as Heq.
  destruct o; simpl in H, Hs;
    (* sign-insensitive operators: the flag of the code is irrelevant *)
    try (destruct sgs; simpl in H; try rewrite Heq in H; inversion H; subst; reflexivity).
  all: destruct Hs as [-> | Hs]; [|discriminate].
  all: try (destruct sgs; simpl in H; inversion H; subst; reflexivity).
  - (* Div *)
    destruct (b =? 0) eqn:E; [discriminate|]. inversion H; subst.
    destruct sgs; simpl.
    + rewrite sdiv_quot by lia. reflexivity.
    + unfold udiv. rewrite E. reflexivity.
  - (* Mod *)
    destruct (b =? 0) eqn:E; [discriminate|]. inversion H; subst.
    destruct sgs; simpl.
    + rewrite srem_rem by lia. reflexivity.
    + unfold urem. rewrite E. reflexivity.
Qed.

(* ------------------------------------------------------------------ *)
(* expressions: the lowered term is well sorted, and evaluates to the   *)
(* meaning whenever the meaning is defined                             *)
(* ------------------------------------------------------------------ *)
Lemma lower_e_spec G B rho e : forall ctx psg,
  fields_ok G B rho -> wt G ctx psg e = true ->
  exists v, bv_eval rho (lower_e G B ctx e) = Some (built_width G ctx e, v) /\
            forall w' v', sem G rho ctx psg e = Some (w', v') -> w' = built_width G ctx e /\ v' = v.
Proof.
  induction e; intros ctx psg HF Hwt; simpl in Hwt; bsplit.
  - (* ELit *)
    simpl. assert (E1 : (1 <=? Z.max ctx w) = true) by lia. rewrite E1.
    eexists; split; [reflexivity|]. intros w' v' Hs. inversion Hs; subst. split; [reflexivity|].
    destruct (w <? Z.max ctx w) eqn:E; [|replace (Z.max ctx w) with w by lia; reflexivity].
    unfold conv. f_equal.
    assert (Hp : 0 < 2 ^ (w - 1)) by (apply pow2_pos; lia).
    pose proof (pow2_half w ltac:(lia)) as Hh.
    destruct psg; simpl.
    + (* signed operation: the literal is signed and in range *)
      destruct sg; [|simpl in *; discriminate].
      unfold in_type in *. apply toS_wrapU; lia.
    + (* unsigned operation: the literal is non-negative *)
      apply wrapU_small. unfold in_type in *. destruct sg; lia.
  - (* EField *)
    simpl. rewrite build_field_eval by (assumption || lia || (apply Nat.ltb_lt; assumption)).
    eexists; split; [reflexivity|]. intros w' v' Hs. inversion Hs; subst. split; reflexivity.
  - (* EBin *)
    set (W := Z.max ctx (Z.max (width_of G e1) (width_of G e2))) in *.
    set (sgc := signed_of G e1 && signed_of G e2) in *.
    set (sgs := spec_signed G e1 && spec_signed G e2) in *.
    match goal with H1 : wt _ _ _ e1 = true, H2 : wt _ _ _ e2 = true |- _ =>
      rename H1 into Hw1; rename H2 into Hw2 end.
    match goal with H1 : _ || _ = true |- _ => rename H1 into Hflag end.
    destruct (IHe1 W sgs HF Hw1) as (a & Hea & Hsa).
    destruct (IHe2 W sgs HF Hw2) as (b & Heb & Hsb).
    destruct (bv_eval_range _ _ _ _ Hea) as [Hwa Hra].
    destruct (bv_eval_range _ _ _ _ Heb) as [Hwb Hrb].
    assert (Hcase : sgc = sgs \/
                    (sign_sensitive o = false /\ built_width G W e1 = W /\ built_width G W e2 = W)).
    { apply orb_prop in Hflag. destruct Hflag as [Hf|Hf].
      - left. apply eqb_prop. exact Hf.
      - right. bsplit. split; [destruct (sign_sensitive o); [discriminate|reflexivity]|].
        split; apply Z.eqb_eq; assumption. }
    clear Hflag.
    pose proof (built_le G e1 W sgs Hw1) as Hle1.
    pose proof (built_le G e2 W sgs Hw2) as Hle2.
    pose proof (wt_width_pos G e1 W sgs Hw1) as Hp1.
    assert (HW : 1 <= W) by (clear - Hp1; lia).
    assert (Hle1' : built_width G W e1 <= W) by (clear - Hle1; lia).
    assert (Hle2' : built_width G W e2 <= W) by (clear - Hle2; lia).
    clear Hle1 Hle2 Hp1 Hw1 Hw2.
    cbn [lower_e]. fold W. fold sgc.
    rewrite bv_eval_lower_op.
    rewrite (extend_eval rho _ _ W sgc a Hea Hwa Hra Hle1').
    rewrite (extend_eval rho _ _ W sgc b Heb Hwb Hrb Hle2').
    rewrite Z.eqb_refl.
    set (a' := conv sgc (built_width G W e1) W a).
    set (b' := conv sgc (built_width G W e2) W b).
    assert (Ha' : 0 <= a' < 2 ^ W) by (apply conv_range; lia).
    assert (Hb' : 0 <= b' < 2 ^ W) by (apply conv_range; lia).
    exists (snd (op2_eval (lower_op o sgc) W a' b')). split.
    + f_equal. cbn [built_width]. fold W. rewrite <- (lower_op_width o sgc W a' b').
      destruct (op2_eval (lower_op o sgc) W a' b'); reflexivity.
    + intros w' v' Hs. cbn [sem] in Hs. fold W in Hs. fold sgs in Hs.
      destruct (sem G rho W sgs e1) as [[wl a0]|]; [|discriminate].
      destruct (sem G rho W sgs e2) as [[wr b0]|]; [|discriminate].
      destruct (Hsa _ _ eq_refl) as [-> ->]. destruct (Hsb _ _ eq_refl) as [-> ->].
      assert (Eca : conv sgs (built_width G W e1) W a = a').
      { apply conv_flag; try assumption. destruct Hcase as [?|(_ & ? & _)]; [left|right]; assumption. }
      assert (Ecb : conv sgs (built_width G W e2) W b = b').
      { apply conv_flag; try assumption. destruct Hcase as [?|(_ & _ & ?)]; [left|right]; assumption. }
      rewrite Eca, Ecb in Hs.
      assert (Hop : op2_eval (lower_op o sgc) W a' b' = (w', v')).
      { apply (op_correct o sgc sgs W a' b' w' v' HW Ha' Hb'); [|exact Hs].
        destruct Hcase as [?|(? & _)]; [left|right]; assumption. }
      cbn [built_width]. fold W. rewrite <- (lower_op_width o sgc W a' b').
      rewrite Hop. split; reflexivity.
  - (* ENot *)
    set (W := Z.max ctx (width_of G e)) in *.
    match goal with H1 : wt _ _ _ e = true |- _ => rename H1 into Hw1 end.
    destruct (IHe W (spec_signed G e) HF Hw1) as (a & Hea & Hsa).
    destruct (bv_eval_range _ _ _ _ Hea) as [Hwa Hra].
    assert (EW : built_width G W e = W) by lia.
    cbn [lower_e built_width]. fold W. cbn [bv_eval]. rewrite Hea. rewrite EW in *.
    eexists; split; [reflexivity|]. intros w' v' Hs. cbn [sem] in Hs. fold W in Hs.
    destruct (sem G rho W (spec_signed G e) e) as [[we a0]|]; [|discriminate].
    destruct (Hsa _ _ eq_refl) as [-> ->]. inversion Hs; subst.
    rewrite conv_same by lia. split; reflexivity.
  - (* EReset *)
    match goal with H1 : wt _ _ _ e = true |- _ => rename H1 into Hw1 end.
    destruct (IHe (-1) false HF Hw1) as (a & Hea & Hsa).
    destruct (bv_eval_range _ _ _ _ Hea) as [Hwa Hra].
    cbn [lower_e built_width]. exists a. split; [exact Hea|].
    intros w' v' Hs. cbn [sem] in Hs.
    destruct (sem G rho (-1) false e) as [[w1 v1]|]; [|discriminate].
    destruct (Hsa _ _ eq_refl) as [-> ->]. inversion Hs; subst.
    assert (EW : built_width G (-1) e = 1) by lia. rewrite EW in *.
    change (2 ^ 1) with 2 in Hra. split; [reflexivity|].
    destruct (a =? 0) eqn:E; lia.
  - (* EPart *)
    cbn [lower_e built_width bv_eval].
    rewrite build_field_eval by (assumption || lia || (apply Nat.ltb_lt; assumption)).
    assert (Ec : (0 <=? lo) && (lo <=? hi) && (hi <? fw G id) = true) by lia.
    rewrite Ec. eexists; split; [reflexivity|]. intros w' v' Hs. cbn [sem] in Hs.
    rewrite Ec in Hs. inversion Hs; subst. split; reflexivity.
Qed.

(* MAIN THEOREM: the lowered term evaluates to the meaning *)
Lemma lower_expr_correct G B rho e : forall ctx psg w v,
  fields_ok G B rho -> wt G ctx psg e = true ->
  sem G rho ctx psg e = Some (w, v) -> bv_eval rho (lower_e G B ctx e) = Some (w, v).
Proof.
  intros ctx psg w v HF Hwt Hs.
  destruct (lower_e_spec G B rho e ctx psg HF Hwt) as (v0 & He & Hsem).
  destruct (Hsem _ _ Hs) as [-> ->]. exact He.
Qed.

(* ------------------------------------------------------------------ *)
(* conditions                                                          *)
(* ------------------------------------------------------------------ *)
Lemma b2z_eqb1 b : (b2z b =? 1) = b.
Proof. destruct b; reflexivity. Qed.

Lemma lower_cond_spec G B rho e :
  fields_ok G B rho -> wt_cond G e = true ->
  exists vb, bv_eval rho (lower_cond G B e) = Some (1, b2z vb) /\
             forall b, truth G rho e = Some b -> vb = b.
Proof.
  intros HF Hwt. unfold wt_cond in Hwt.
  destruct (lower_e_spec G B rho e (-1) false HF Hwt) as (v & He & Hs).
  destruct (bv_eval_range _ _ _ _ He) as [Hw Hr].
  unfold lower_cond, to_bool, truth.
  destruct (built_width G (-1) e =? 1) eqn:E.
  - apply Z.eqb_eq in E. rewrite E in *. change (2 ^ 1) with 2 in Hr.
    exists (v =? 1). split.
    + rewrite He. f_equal. f_equal. destruct (v =? 1) eqn:E1; simpl; lia.
    + intros b Hb. destruct (sem G rho (-1) false e) as [[w' v']|]; [|discriminate].
      destruct (Hs _ _ eq_refl) as [_ ->]. inversion Hb; subst. lia.
  - exists (negb (v =? 0)). split.
    + cbn [bv_eval]. rewrite He.
      assert (E1 : (1 <=? built_width G (-1) e) = true) by lia. rewrite E1, Z.eqb_refl.
      cbn [op2_eval]. unfold wrapU. rewrite Z.mod_0_l; [reflexivity|].
      pose proof (pow2_pos (built_width G (-1) e) ltac:(lia)). lia.
    + intros b Hb. destruct (sem G rho (-1) false e) as [[w' v']|]; [|discriminate].
      destruct (Hs _ _ eq_refl) as [_ ->]. inversion Hb; subst. reflexivity.
Qed.

Lemma lower_cond_correct G B rho e b :
  fields_ok G B rho -> wt_cond G e = true -> truth G rho e = Some b ->
  bv_true rho (lower_cond G B e) = Some b.
Proof.
  intros HF Hwt Ht. destruct (lower_cond_spec G B rho e HF Hwt) as (vb & He & Hb).
  rewrite (Hb _ Ht) in He. unfold bv_true. rewrite He. rewrite b2z_eqb1. reflexivity.
Qed.

(* ------------------------------------------------------------------ *)
(* statements                                                          *)
(* ------------------------------------------------------------------ *)
(* the local fixpoints of the model definitions, named *)
Definition scope_of (f : stmt -> option bvterm) :=
  fix scope (l : list stmt) (acc : option bvterm) : option bvterm :=
    match l with
    | [] => acc
    | x :: t =>
      match acc with
      | None => scope t (f x)
      | Some a => scope t (match f x with Some b => Some (BOp2 OAnd a b) | None => Some a end)
      end
    end.
Definition scope_term_of (f : stmt -> option bvterm) (l : list stmt) : bvterm :=
  match scope_of f l None with Some t => t | None => BConst 1 1 end.
Definition all_of (f : stmt -> option bool) :=
  fix all (l : list stmt) : option bool :=
    match l with [] => Some true | x :: t => opt_and (f x) (all t) end.
Definition wall_of (f : stmt -> bool) :=
  fix all (l : list stmt) : bool := match l with [] => true | x :: t => f x && all t end.
Definition upairs_of (G : fenv) (B : list fbuild) :=
  fix pairs (l : list nat) (acc : option bvterm) : option bvterm :=
    match l with
    | [] => acc
    | x :: t =>
      pairs t (fold_left (fun a y =>
                 let n := lower_e G B (-1) (EBin Ne (EField x) (EField y)) in
                 match a with None => Some n | Some r => Some (BOp2 OAnd n r) end) t acc)
    end.
Definition hpairs_of (G : fenv) (rho : nat -> Z) :=
  fix pairs (l : list nat) : option bool :=
    match l with
    | [] => Some true
    | x :: t => opt_and (fold_right (fun y a => opt_and (truth G rho (EBin Ne (EField x) (EField y))) a) (Some true) t)
                        (pairs t)
    end.

Lemma lower_s_if G B soft c t f :
  lower_s G B soft (SIf c t f) =
  Some match f with
       | None => BOp2 OImplies (lower_cond G B c) (scope_term_of (lower_s G B soft) t)
       | Some fl => BCond (lower_cond G B c) (scope_term_of (lower_s G B soft) t) (scope_term_of (lower_s G B soft) fl)
       end.
Proof. reflexivity. Qed.
Lemma lower_s_implies G B soft c b :
  lower_s G B soft (SImplies c b) =
  Some (BOp2 OImplies (lower_cond G B c) (scope_term_of (lower_s G B soft) b)).
Proof. reflexivity. Qed.
Lemma lower_s_unique G B soft ids :
  lower_s G B soft (SUnique ids) =
  Some (match ids with
        | _ :: _ :: _ => match upairs_of G B ids None with Some t => t | None => BConst 1 1 end
        | _ => BConst 1 1
        end).
Proof. reflexivity. Qed.
Lemma holds_if G rho c t f :
  holds G rho (SIf c t f) =
  match truth G rho c with
  | Some true => all_of (holds G rho) t
  | Some false => match f with Some fl => all_of (holds G rho) fl | None => Some true end
  | None => None
  end.
Proof. reflexivity. Qed.
Lemma holds_implies G rho c b :
  holds G rho (SImplies c b) =
  match truth G rho c with
  | Some true => all_of (holds G rho) b
  | Some false => Some true
  | None => None
  end.
Proof. reflexivity. Qed.
Lemma holds_unique G rho ids : holds G rho (SUnique ids) = hpairs_of G rho ids.
Proof. reflexivity. Qed.
Lemma wt_s_if G c t f :
  wt_s G (SIf c t f) =
  wt_cond G c && wall_of (wt_s G) t && match f with Some fl => wall_of (wt_s G) fl | None => true end.
Proof. reflexivity. Qed.
Lemma wt_s_implies G c b : wt_s G (SImplies c b) = wt_cond G c && wall_of (wt_s G) b.
Proof. reflexivity. Qed.

(* induction over statements with the nested lists *)
Section StmtInd.
  Variable P : stmt -> Prop.
  Hypothesis HE : forall e, P (SExpr e).
  Hypothesis HI : forall c t f, Forall P t ->
    (match f return Prop with Some fl => Forall P fl | None => True end) -> P (SIf c t f).
  Hypothesis HM : forall c b, Forall P b -> P (SImplies c b).
  Hypothesis HU : forall ids, P (SUnique ids).
  Hypothesis HS : forall e, P (SSoft e).
  Fixpoint stmt_ind' (s : stmt) : P s :=
    let go := fix go (l : list stmt) : Forall P l :=
                match l with
                | [] => Forall_nil P
                | x :: t => Forall_cons x (stmt_ind' x) (go t)
                end in
    match s with
    | SExpr e => HE e
    | SIf c t f =>
      HI c t f (go t)
         (match f as f0 return (match f0 return Prop with Some fl => Forall P fl | None => True end) with
          | Some fl => go fl
          | None => I
          end)
    | SImplies c b => HM c b (go b)
    | SUnique ids => HU ids
    | SSoft e => HS e
    end.
End StmtInd.

(* value of an optional term: "no node" counts as true *)
Definition oeval (rho : nat -> Z) (o : option bvterm) : option bvval :=
  match o with Some t => bv_eval rho t | None => Some (1, 1) end.

Lemma bv_eval_and1 rho a b va vb :
  bv_eval rho a = Some (1, b2z va) -> bv_eval rho b = Some (1, b2z vb) ->
  bv_eval rho (BOp2 OAnd a b) = Some (1, b2z (va && vb)).
Proof. intros Ha Hb. simpl. rewrite Ha, Hb. destruct va, vb; reflexivity. Qed.

Lemma bv_eval_implies1 rho a b va vb :
  bv_eval rho a = Some (1, b2z va) -> bv_eval rho b = Some (1, b2z vb) ->
  bv_eval rho (BOp2 OImplies a b) = Some (1, b2z (negb va || vb)).
Proof. intros Ha Hb. simpl. rewrite Ha, Hb. destruct va, vb; reflexivity. Qed.

Lemma bv_eval_cond1 rho c a b vc va vb :
  bv_eval rho c = Some (1, b2z vc) -> bv_eval rho a = Some (1, b2z va) -> bv_eval rho b = Some (1, b2z vb) ->
  bv_eval rho (BCond c a b) = Some (1, b2z (if vc then va else vb)).
Proof. intros Hc Ha Hb. simpl. rewrite Hc, Ha, Hb. destruct vc; reflexivity. Qed.

Lemma oeval_none_val (va : bool) : Some (1, 1) = Some (1, b2z va) -> va = true.
Proof. destruct va; simpl; [reflexivity|discriminate]. Qed.

Definition sc_step (acc x : option bvterm) : option bvterm :=
  match acc with
  | None => x
  | Some a => match x with Some b => Some (BOp2 OAnd a b) | None => Some a end
  end.

Lemma scope_of_cons f x t acc : scope_of f (x :: t) acc = scope_of f t (sc_step acc (f x)).
Proof. destruct acc; reflexivity. Qed.

Lemma sc_step_eval rho acc x va vx :
  oeval rho acc = Some (1, b2z va) -> oeval rho x = Some (1, b2z vx) ->
  oeval rho (sc_step acc x) = Some (1, b2z (va && vx)).
Proof.
  intros Ha Hx. destruct acc as [a|]; simpl in *.
  - destruct x as [b|]; simpl in *.
    + apply bv_eval_and1; assumption.
    + apply oeval_none_val in Hx. subst. rewrite andb_true_r. exact Ha.
  - apply oeval_none_val in Ha. subst. exact Hx.
Qed.

Lemma scope_term_eval rho f l : bv_eval rho (scope_term_of f l) = oeval rho (scope_of f l None).
Proof. unfold scope_term_of. destruct (scope_of f l None); reflexivity. Qed.

Section Stmts.
  Variables (G : fenv) (B : list fbuild) (rho : nat -> Z).
  Hypothesis HF : fields_ok G B rho.

  Definition stmt_ok (s : stmt) : Prop :=
    wt_s G s = true ->
    exists vb, oeval rho (lower_s G B false s) = Some (1, b2z vb) /\
               forall b, holds G rho s = Some b -> vb = b.

  Lemma scope_spec l : Forall stmt_ok l -> forall acc va,
    wall_of (wt_s G) l = true -> oeval rho acc = Some (1, b2z va) ->
    exists vb, oeval rho (scope_of (lower_s G B false) l acc) = Some (1, b2z vb) /\
               forall b, all_of (holds G rho) l = Some b -> vb = va && b.
  Proof.
    induction 1 as [|x t Hx Ht IH]; intros acc va Hwt Hacc.
    - exists va. split; [exact Hacc|]. intros b Hb. inversion Hb. rewrite andb_true_r. reflexivity.
    - cbn [wall_of] in Hwt. apply andb_prop in Hwt. destruct Hwt as [Hwx Hwt].
      destruct (Hx Hwx) as (vx & Hex & Hhx).
      rewrite scope_of_cons.
      destruct (IH _ _ Hwt (sc_step_eval rho acc _ va vx Hacc Hex)) as (vb & Heb & Hhb).
      exists vb. split; [exact Heb|]. intros b Hb. cbn [all_of] in Hb.
      destruct (holds G rho x) as [bx|]; [|discriminate].
      destruct (all_of (holds G rho) t) as [bt|]; [|discriminate].
      simpl in Hb. inversion Hb; subst.
      rewrite (Hhb _ eq_refl), (Hhx _ eq_refl). rewrite andb_assoc. reflexivity.
  Qed.

  Lemma scope_term_spec l : Forall stmt_ok l -> wall_of (wt_s G) l = true ->
    exists vb, bv_eval rho (scope_term_of (lower_s G B false) l) = Some (1, b2z vb) /\
               forall b, all_of (holds G rho) l = Some b -> vb = b.
  Proof.
    intros Hl Hwt. destruct (scope_spec l Hl None true Hwt eq_refl) as (vb & He & Hh).
    exists vb. split; [rewrite scope_term_eval; exact He|]. intros b Hb. apply (Hh _ Hb).
  Qed.

  (* unique: pairwise disequalities *)
  Lemma ne_spec x y :
    (Nat.ltb x (length G) && (1 <=? fw G x)) = true ->
    (Nat.ltb y (length G) && (1 <=? fw G y)) = true ->
    exists vn, bv_eval rho (lower_e G B (-1) (EBin Ne (EField x) (EField y))) = Some (1, b2z vn) /\
               forall b, truth G rho (EBin Ne (EField x) (EField y)) = Some b -> vn = b.
  Proof.
    intros Hx Hy.
    assert (Hwt : wt_cond G (EBin Ne (EField x) (EField y)) = true).
    { unfold wt_cond. cbn [wt]. rewrite Hx, Hy. cbn [signed_of spec_signed].
      rewrite eqb_reflx. reflexivity. }
    exact (lower_cond_spec G B rho _ HF Hwt).
  Qed.

  Definition okid (id : nat) : bool := Nat.ltb id (length G) && (1 <=? fw G id).
  Definition ustep (x : nat) (a : option bvterm) (y : nat) : option bvterm :=
    let n := lower_e G B (-1) (EBin Ne (EField x) (EField y)) in
    match a with None => Some n | Some r => Some (BOp2 OAnd n r) end.
  Definition hstep (x : nat) (y : nat) (a : option bool) : option bool :=
    opt_and (truth G rho (EBin Ne (EField x) (EField y))) a.

  Lemma ufold_spec x : okid x = true -> forall t acc va,
    forallb okid t = true -> oeval rho acc = Some (1, b2z va) ->
    exists vb, oeval rho (fold_left (ustep x) t acc) = Some (1, b2z vb) /\
               forall b, fold_right (hstep x) (Some true) t = Some b -> vb = va && b.
  Proof.
    intros Hx. induction t as [|y t IH]; intros acc va Hok Hacc.
    - exists va. split; [exact Hacc|]. intros b Hb. inversion Hb. rewrite andb_true_r. reflexivity.
    - cbn [forallb] in Hok. apply andb_prop in Hok. destruct Hok as [Hy Hok].
      destruct (ne_spec x y Hx Hy) as (vn & Hen & Hhn).
      assert (Hstep : oeval rho (ustep x acc y) = Some (1, b2z (vn && va))).
      { unfold ustep. destruct acc as [r|]; cbn [oeval] in *.
        - apply bv_eval_and1; assumption.
        - apply oeval_none_val in Hacc. subst. rewrite andb_true_r. exact Hen. }
      cbn [fold_left]. destruct (IH _ _ Hok Hstep) as (vb & Heb & Hhb).
      exists vb. split; [exact Heb|]. intros b Hb. cbn [fold_right] in Hb. unfold hstep at 1 in Hb.
      destruct (truth G rho (EBin Ne (EField x) (EField y))) as [b1|]; [|discriminate].
      destruct (fold_right (hstep x) (Some true) t) as [bt|]; [|discriminate].
      simpl in Hb. inversion Hb; subst.
      rewrite (Hhb _ eq_refl), (Hhn _ eq_refl). destruct b1, va, bt; reflexivity.
  Qed.

  Lemma upairs_spec l : forall acc va,
    forallb okid l = true -> oeval rho acc = Some (1, b2z va) ->
    exists vb, oeval rho (upairs_of G B l acc) = Some (1, b2z vb) /\
               forall b, hpairs_of G rho l = Some b -> vb = va && b.
  Proof.
    induction l as [|x t IH]; intros acc va Hok Hacc.
    - exists va. split; [exact Hacc|]. intros b Hb. inversion Hb. rewrite andb_true_r. reflexivity.
    - cbn [forallb] in Hok. apply andb_prop in Hok. destruct Hok as [Hx Hok].
      destruct (ufold_spec x Hx t acc va Hok Hacc) as (v1 & He1 & Hh1).
      cbn [upairs_of]. change (fun a y => let n := lower_e G B (-1) (EBin Ne (EField x) (EField y)) in
                                 match a with None => Some n | Some r => Some (BOp2 OAnd n r) end)
                         with (ustep x).
      destruct (IH _ _ Hok He1) as (vb & Heb & Hhb).
      exists vb. split; [exact Heb|]. intros b Hb. cbn [hpairs_of] in Hb.
      change (fun y a => opt_and (truth G rho (EBin Ne (EField x) (EField y))) a) with (hstep x) in Hb.
      destruct (fold_right (hstep x) (Some true) t) as [b1|]; [|discriminate].
      destruct (hpairs_of G rho t) as [b2|]; [|discriminate].
      simpl in Hb. inversion Hb; subst.
      rewrite (Hhb _ eq_refl), (Hh1 _ eq_refl). rewrite andb_assoc. reflexivity.
  Qed.

  Lemma stmt_spec s : stmt_ok s.
  Proof.
    induction s using stmt_ind'; unfold stmt_ok; intros Hwt.
    - (* SExpr *)
      cbn [wt_s] in Hwt. destruct (lower_cond_spec G B rho e HF Hwt) as (vb & He & Hb).
      exists vb. split; [exact He|]. exact Hb.
    - (* SIf *)
      rewrite wt_s_if in Hwt. apply andb_prop in Hwt. destruct Hwt as [Hwt Hwf].
      apply andb_prop in Hwt. destruct Hwt as [Hwc Hwtt].
      destruct (lower_cond_spec G B rho c HF Hwc) as (vc & Hec & Hhc).
      destruct (scope_term_spec t H Hwtt) as (vt & Het & Hht).
      rewrite lower_s_if, holds_if. cbn [oeval].
      destruct f as [fl|].
      + destruct (scope_term_spec fl H0 Hwf) as (vf & Hef & Hhf).
        exists (if vc then vt else vf). split; [apply bv_eval_cond1; assumption|].
        intros b Hb. destruct (truth G rho c) as [[|]|]; [| |discriminate].
        * rewrite (Hhc _ eq_refl). apply Hht. exact Hb.
        * rewrite (Hhc _ eq_refl). apply Hhf. exact Hb.
      + exists (negb vc || vt). split; [apply bv_eval_implies1; assumption|].
        intros b Hb. destruct (truth G rho c) as [[|]|]; [| |discriminate].
        * rewrite (Hhc _ eq_refl). simpl. apply Hht. exact Hb.
        * rewrite (Hhc _ eq_refl). inversion Hb. reflexivity.
    - (* SImplies *)
      rewrite wt_s_implies in Hwt. apply andb_prop in Hwt. destruct Hwt as [Hwc Hwb].
      destruct (lower_cond_spec G B rho c HF Hwc) as (vc & Hec & Hhc).
      destruct (scope_term_spec b H Hwb) as (vt & Het & Hht).
      rewrite lower_s_implies, holds_implies. cbn [oeval].
      exists (negb vc || vt). split; [apply bv_eval_implies1; assumption|].
      intros b0 Hb. destruct (truth G rho c) as [[|]|]; [| |discriminate].
      + rewrite (Hhc _ eq_refl). simpl. apply Hht. exact Hb.
      + rewrite (Hhc _ eq_refl). inversion Hb. reflexivity.
    - (* SUnique *)
      cbn [wt_s] in Hwt. change (forallb okid ids = true) in Hwt.
      destruct (upairs_spec ids None true Hwt eq_refl) as (vb & He & Hh).
      rewrite lower_s_unique, holds_unique. cbn [oeval].
      exists vb. split; [|intros b Hb; apply (Hh _ Hb)].
      destruct ids as [|x [|y t]]; [exact He | exact He |].
      destruct (upairs_of G B (x :: y :: t) None); exact He.
    - (* SSoft *)
      exists true. split; [reflexivity|]. intros b Hb. inversion Hb. reflexivity.
  Qed.
End Stmts.

(* statements: hard meaning = truth of the lowered term *)
Lemma lower_stmt_correct G B rho s : forall b t,
  fields_ok G B rho -> wt_s G s = true -> holds G rho s = Some b -> lower_s G B false s = Some t ->
  bv_true rho t = Some b.
Proof.
  intros b t HF Hwt Hh Hl.
  destruct (stmt_spec G B rho HF s Hwt) as (vb & He & Hb).
  rewrite Hl in He. cbn [oeval] in He. rewrite (Hb _ Hh) in He.
  unfold bv_true. rewrite He, b2z_eqb1. reflexivity.
Qed.

(* a soft statement contributes no hard term *)
Lemma lower_soft_none G B e : lower_s G B false (SSoft e) = None.
Proof. reflexivity. Qed.
