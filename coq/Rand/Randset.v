(* Rand sets (C01 / C02): model of RandInfoBuilder's second pass (model/rand_info_builder.py: visit_constraint_stmt_enter /
   _leave, process_fieldref, visit_expr_array_subscript; model/rand_set.py) and of the way Randomizer.randomize hands the
   rand sets to solver instances.  Executable definitions only.

   A call's statements are not solved together: every top-level statement is visited in turn, the fields it refers to are
   collected into the "active" rand set; a field that already belongs to another rand set makes the active set be absorbed
   by that set (fields, constraints and the field -> set map are moved; the absorbed set's slot in _randset_l is set to None);
   at the end of the statement the statement is added to the active set, or - when it refers to no field at all - to a fresh
   rand set of its own.  Randomizer.randomize then walks the surviving sets in slot order and gives every set a solver
   instance of its own (a set without fields shares the instance of the set that follows it).

   Here a statement is the list of the fields it refers to, in the order the visitor meets them; fields are numbers. *)
From Coq Require Import List Bool Arith.
Import ListNotations.

Record rset := mkRS {
  rs_fields : list nat;         (* RandSet.all_field_l : in order of addition, no duplicates *)
  rs_stmts : list nat           (* RandSet.constraint_l / soft_constraint_l : statement numbers, in order of addition *)
}.

Record bstate := mkBS {
  b_sets : list (option rset);  (* _randset_l : a slot per rand set ever created; None = absorbed by another one *)
  b_fmap : list (nat * nat)     (* _randset_field_m : field -> slot; the most recent binding comes first *)
}.

Definition mem (x : nat) (l : list nat) : bool := existsb (Nat.eqb x) l.
Fixpoint lookup (m : list (nat * nat)) (f : nat) : option nat :=
  match m with
  | [] => None
  | (k, v) :: t => if Nat.eqb k f then Some v else lookup t f
  end.
Fixpoint set_slot (l : list (option rset)) (i : nat) (v : option rset) : list (option rset) :=
  match l, i with
  | [], _ => []
  | _ :: t, O => v :: t
  | x :: t, S k => x :: set_slot t k v
  end.
Definition get_slot (l : list (option rset)) (i : nat) : option rset :=
  match nth_error l i with Some (Some r) => Some r | _ => None end.

(* RandSet.add_field / add_constraint : no duplicates *)
Definition add_field (r : rset) (f : nat) : rset :=
  if mem f (rs_fields r) then r else mkRS (rs_fields r ++ [f]) (rs_stmts r).
Definition add_stmt (r : rset) (k : nat) : rset :=
  if mem k (rs_stmts r) then r else mkRS (rs_fields r) (rs_stmts r ++ [k]).

(* process_fieldref (and the repaired visit_expr_array_subscript, which is the same code): `active` is the slot of
   _active_randset *)
Definition process_ref (s : bstate) (active : option nat) (f : nat) : bstate * option nat :=
  match lookup (b_fmap s) f with
  | Some ex =>
    match active with
    | None => (s, Some ex)                                     (* the existing set becomes the active one *)
    | Some a =>
      if Nat.eqb a ex then (s, Some a)
      else
        match get_slot (b_sets s) a, get_slot (b_sets s) ex with
        | Some ra, Some rx =>
          (* the active set is absorbed by the existing one: fields relinked and added, constraints added, slot cleared *)
          let rx1 := fold_left add_field (rs_fields ra) rx in
          let rx2 := fold_left add_stmt (rs_stmts ra) rx1 in
          let fm := fold_left (fun m g => (g, ex) :: m) (rs_fields ra) (b_fmap s) in
          (mkBS (set_slot (set_slot (b_sets s) ex (Some rx2)) a None) fm, Some ex)
        | _, _ => (s, Some ex)                                 (* cannot happen: both slots are live (proved) *)
        end
    end
  | None =>
    (* no rand set holds the field yet: it joins the active set (created now if there is none) *)
    let '(sets1, a) :=
      match active with
      | Some a => (b_sets s, a)
      | None => (b_sets s ++ [Some (mkRS [] [])], length (b_sets s))
      end in
    match get_slot sets1 a with
    | Some ra => (mkBS (set_slot sets1 a (Some (add_field ra f))) ((f, a) :: b_fmap s), Some a)
    | None => (s, active)                                      (* cannot happen *)
    end
  end.

(* one top-level statement number k referring to the fields refs: visit_constraint_stmt_enter (active := None), the
   references in order, visit_constraint_stmt_leave *)
Definition process_stmt (s : bstate) (k : nat) (refs : list nat) : bstate :=
  let '(s1, active) := fold_left (fun sa f => process_ref (fst sa) (snd sa) f) refs (s, None) in
  match active with
  | Some a =>
    match get_slot (b_sets s1) a with
    | Some ra => mkBS (set_slot (b_sets s1) a (Some (add_stmt ra k))) (b_fmap s1)
    | None => s1
    end
  | None => mkBS (b_sets s1 ++ [Some (mkRS [] [k])]) (b_fmap s1)   (* a statement without fields: a rand set of its own *)
  end.

Fixpoint process_all (s : bstate) (k : nat) (stmts : list (list nat)) : bstate :=
  match stmts with
  | [] => s
  | refs :: t => process_all (process_stmt s k refs) (S k) t
  end.

(* RandInfoBuilder.build: the surviving rand sets in slot order *)
Definition live (l : list (option rset)) : list rset :=
  flat_map (fun x => match x with Some r => [r] | None => [] end) l.
Definition build (stmts : list (list nat)) : list rset := live (b_sets (process_all (mkBS [] []) 0 stmts)).

(* Randomizer.randomize: a new solver instance per rand set; a set without fields does not close the instance
   (n_fields > max_fields = 0 is false), so it is solved together with the set that follows it *)
Fixpoint instances (acc : list rset) (l : list rset) : list (list rset) :=
  match l with
  | [] => match acc with [] => [] | _ => [acc] end
  | r :: t =>
    match rs_fields r with
    | [] => instances (acc ++ [r]) t
    | _ => (acc ++ [r]) :: instances [] t
    end
  end.

(* ---- what the theorems are about ---- *)
(* the rand set that holds statement k *)
Definition set_of_stmt (sets : list rset) (k : nat) : option rset := find (fun r => mem k (rs_stmts r)) sets.
(* an assignment assembled from one assignment per rand set: every field takes the value its own set's assignment gives it *)
Definition assemble {V} (sets : list rset) (envs : list (nat -> V)) (dflt : nat -> V) : nat -> V :=
  fun f =>
    (fix go (ss : list rset) (es : list (nat -> V)) : V :=
       match ss, es with
       | r :: ss', e :: es' => if mem f (rs_fields r) then e f else go ss' es'
       | _, _ => dflt f
       end) sets envs.
